//! Harness: runs programs of the shared language on the real loom and prints,
//! per iteration, the path dumps and Path-API trace delivered by the hooks,
//! the result of every operation, and the outcome of the whole run.

mod interp;
mod num;
mod prog;

use interp::{out, OUT};
use std::io::{BufRead, Write};
use std::panic::{catch_unwind, AssertUnwindSafe};

fn classify(msg: &str) -> String {
    let first = msg.lines().next().unwrap_or("").trim();
    if let Some(rest) = first.strip_prefix("deadlock; threads = ") {
        // [(Id(0), Blocked(Location(None))), (Id(1), Runnable { unparked: false })]
        let mut s = String::new();
        let mut rest = rest;
        while let Some(i) = rest.find("Id(") {
            rest = &rest[i + 3..];
            let j = rest.find("), ").unwrap_or(0);
            let st = &rest[j + 3..];
            let c = if st.starts_with("Blocked") {
                'B'
            } else if st.starts_with("Runnable { unparked: true") {
                'U'
            } else if st.starts_with("Runnable") {
                'R'
            } else if st.starts_with("Yield") {
                'Y'
            } else if st.starts_with("Terminated") {
                'T'
            } else {
                '?'
            };
            s.push(c);
        }
        return format!("deadlock {}", s);
    }
    if let Some(rest) = first.strip_prefix("Causality violation: ") {
        return format!("causality {}", rest);
    }
    let index = || -> String {
        for l in msg.lines() {
            if let Some(i) = l.trim().strip_prefix("Index: ") {
                return i.trim().to_string();
            }
        }
        "?".into()
    };
    if first.starts_with("Arc leaked.") {
        return format!("leak arc {}", index());
    }
    if first.starts_with("Allocation leaked.") {
        return format!("leak alloc {}", index());
    }
    if first.starts_with("Messages leaked.") {
        return format!("leak msgs {}", index());
    }
    if first.starts_with("Model exceeded maximum number of branches.") {
        return "branchlimit".into();
    }
    if first.starts_with("verif-panic") {
        return "user".into();
    }
    if first.starts_with("verif-cap") {
        return "capped".into();
    }
    if first.starts_with("verif-bad-program") {
        return format!("badprog {}", first);
    }
    let cut: String = first.chars().take(70).collect();
    format!("internal {}", cut)
}

fn payload_msg(e: &Box<dyn std::any::Any + Send>) -> String {
    if let Some(s) = e.downcast_ref::<&str>() {
        s.to_string()
    } else if let Some(s) = e.downcast_ref::<String>() {
        s.clone()
    } else {
        "<non-string panic payload>".into()
    }
}

thread_local! {
    static ITERS: std::cell::Cell<usize> = std::cell::Cell::new(0);
}

pub fn run_prog(p: &'static prog::Prog, checkpoint: Option<&str>, cap: usize, stop_after: usize) -> Vec<String> {
    OUT.with(|o| o.borrow_mut().clear());
    ITERS.with(|c| c.set(0));
    loom::verif::set_sink(Some(Box::new(|l: &str| out(l.to_string()))));
    let mut b = loom::model::Builder::new();
    b.max_threads = p.cfg.max_threads;
    b.max_branches = p.cfg.max_branches;
    b.preemption_bound = p.cfg.preemption_bound;
    b.max_permutations = p.cfg.max_permutations;
    b.max_duration = None;
    b.checkpoint_file = checkpoint.map(|s| s.into());
    if let Some(ci) = p.cfg.checkpoint_interval {
        b.checkpoint_interval = ci;
    }
    b.expect_explicit_explore = p.cfg.explicit_explore;
    b.location = false;
    b.log = false;
    let r = catch_unwind(AssertUnwindSafe(|| {
        b.check(move || {
            let n = ITERS.with(|c| {
                c.set(c.get() + 1);
                c.get()
            });
            if n > cap {
                panic!("verif-cap");
            }
            if n > stop_after {
                // simulate the process being stopped: print what was observed and exit
                let lines = OUT.with(|o| std::mem::take(&mut *o.borrow_mut()));
                let stdout = std::io::stdout();
                let mut o = stdout.lock();
                for l in lines {
                    writeln!(o, "{}", l).unwrap();
                }
                writeln!(o, "STOPPED after={}", stop_after).unwrap();
                o.flush().unwrap();
                std::process::exit(77);
            }
            interp::run_main(p)
        });
    }));
    loom::verif::set_sink(None);
    let mut lines = OUT.with(|o| std::mem::take(&mut *o.borrow_mut()));
    let iters = lines.iter().filter(|l| l.starts_with("BEGIN ")).count();
    match r {
        Ok(()) => lines.push(format!("RUN ok iters={}", iters)),
        Err(e) => lines.push(format!(
            "RUN panic iters={} {}",
            iters,
            classify(&payload_msg(&e))
        )),
    }
    lines
}

fn main() {
    let args: Vec<String> = std::env::args().collect();
    if args.len() < 3 {
        eprintln!("usage: harness run <programs-file> [--skip n] [--checkpoint file]");
        std::process::exit(2);
    }
    if std::env::var("VERIF_PANIC_VERBOSE").is_err() {
        std::panic::set_hook(Box::new(|_| {}));
    }
    let mode = args[1].as_str();
    let file = &args[2];
    let mut skip = 0usize;
    let mut checkpoint: Option<String> = None;
    let mut cap = usize::MAX;
    let mut stop_after = usize::MAX;
    let mut only: Option<usize> = None;
    let mut i = 3;
    while i < args.len() {
        match args[i].as_str() {
            "--skip" => {
                skip = args[i + 1].parse().unwrap();
                i += 2;
            }
            "--stop-after" => {
                stop_after = args[i + 1].parse().unwrap();
                i += 2;
            }
            "--only" => {
                only = Some(args[i + 1].parse().unwrap());
                i += 2;
            }
            "--cap" => {
                cap = args[i + 1].parse().unwrap();
                i += 2;
            }
            "--checkpoint" => {
                checkpoint = Some(args[i + 1].clone());
                i += 2;
            }
            _ => {
                eprintln!("bad argument {}", args[i]);
                std::process::exit(2);
            }
        }
    }
    match mode {
        "run" => {
            let f = std::fs::File::open(file).expect("open programs file");
            let stdout = std::io::stdout();
            for (n, line) in std::io::BufReader::new(f).lines().enumerate() {
                let line = line.unwrap();
                let line = line.trim();
                if line.is_empty() || line.starts_with('#') || n < skip {
                    continue;
                }
                if let Some(o) = only {
                    if n != o {
                        continue;
                    }
                }
                let p: &'static prog::Prog = match prog::parse_prog(line) {
                    Ok(p) => Box::leak(Box::new(p)),
                    Err(e) => {
                        eprintln!("line {}: {}", n + 1, e);
                        std::process::exit(2);
                    }
                };
                {
                    let mut o = stdout.lock();
                    writeln!(o, "PROG {} {}", n, p.id).unwrap();
                    o.flush().unwrap();
                }
                let lines = run_prog(p, checkpoint.as_deref(), cap, stop_after);
                let mut o = stdout.lock();
                for l in lines {
                    writeln!(o, "{}", l).unwrap();
                }
                writeln!(o, "DONE {}", n).unwrap();
                o.flush().unwrap();
            }
        }
        "par" => {
            // C16: several OS threads run models concurrently in one process
            let text = std::fs::read_to_string(file).expect("read programs file");
            let progs: Vec<(usize, &'static prog::Prog)> = text
                .lines()
                .enumerate()
                .filter(|(_, l)| !l.trim().is_empty() && !l.starts_with('#'))
                .map(|(n, l)| {
                    let p: &'static prog::Prog = Box::leak(Box::new(prog::parse_prog(l.trim()).expect("parse")));
                    (n, p)
                })
                .collect();
            let nthreads = 4;
            let mut handles = Vec::new();
            for t in 0..nthreads {
                let mine: Vec<(usize, &'static prog::Prog)> =
                    progs.iter().filter(|(n, _)| n % nthreads == t).cloned().collect();
                handles.push(std::thread::spawn(move || {
                    let mut out = Vec::new();
                    for (n, p) in mine {
                        let lines = run_prog(p, None, cap, usize::MAX);
                        out.push((n, p.id.clone(), lines));
                    }
                    out
                }));
            }
            let mut all = Vec::new();
            for h in handles {
                all.extend(h.join().expect("worker thread panicked"));
            }
            all.sort_by_key(|x| x.0);
            for (n, id, lines) in all {
                println!("PROG {} {}", n, id);
                for l in lines {
                    println!("{}", l);
                }
                println!("DONE {}", n);
            }
        }
        "num" => {
            let f = std::fs::File::open(file).expect("open cases file");
            for line in std::io::BufReader::new(f).lines() {
                let line = line.unwrap();
                if line.trim().is_empty() || line.starts_with('#') {
                    continue;
                }
                println!("{}", num::run_case(&line));
            }
        }
        _ => {
            eprintln!("unknown mode {}", mode);
            std::process::exit(2);
        }
    }
}
