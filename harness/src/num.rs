//! C12: one-thread operation sequences applied to a loom atomic (inside a model)
//! and to the corresponding std atomic; both result lists are printed.
//!
//! case line: `<id> | <type> | <init> | op ; op ; ...`

use std::sync::atomic::Ordering;

fn ord(s: &str) -> Ordering {
    match s {
        "rlx" => Ordering::Relaxed,
        "rel" => Ordering::Release,
        "acq" => Ordering::Acquire,
        "ar" => Ordering::AcqRel,
        "sc" => Ordering::SeqCst,
        _ => panic!("bad ordering {s}"),
    }
}

macro_rules! int_runner {
    ($fname:ident, $t:ty, $loom:ty, $std:ty) => {
        fn $fname(init: i128, ops: &[Vec<String>]) -> (Vec<String>, Vec<String>) {
            let v = |s: &str| -> $t { s.parse::<i128>().unwrap() as $t };
            let init = init as $t;
            // std
            let mut s_out = Vec::new();
            {
                let mut a = <$std>::new(init);
                let mut consumed = false;
                for w in ops {
                    let w: Vec<&str> = w.iter().map(|x| x.as_str()).collect();
                    let r = match w[0] {
                        "ld" => a.load(ord(w[1])).to_string(),
                        "st" => { a.store(v(w[1]), ord(w[2])); "-".into() }
                        "swap" => a.swap(v(w[1]), ord(w[2])).to_string(),
                        "rmw" => {
                            let x = v(w[2]); let o = ord(w[3]);
                            match w[1] {
                                "add" => a.fetch_add(x, o), "sub" => a.fetch_sub(x, o), "and" => a.fetch_and(x, o),
                                "nand" => a.fetch_nand(x, o), "or" => a.fetch_or(x, o), "xor" => a.fetch_xor(x, o),
                                "max" => a.fetch_max(x, o), "min" => a.fetch_min(x, o), _ => panic!("bad rmw"),
                            }.to_string()
                        }
                        "cas" => match a.compare_exchange(v(w[1]), v(w[2]), ord(w[3]), ord(w[4])) { Ok(x) => format!("ok {x}"), Err(x) => format!("err {x}") },
                        "casw" => {
                            // std's weak CAS may fail spuriously: retry while it reports the expected value
                            loop {
                                match a.compare_exchange_weak(v(w[1]), v(w[2]), ord(w[3]), ord(w[4])) {
                                    Ok(x) => break format!("ok {x}"),
                                    Err(x) if x == v(w[1]) => continue,
                                    Err(x) => break format!("err {x}"),
                                }
                            }
                        }
                        #[allow(deprecated)]
                        "cswap" => a.compare_and_swap(v(w[1]), v(w[2]), ord(w[3])).to_string(),
                        "fu" => {
                            let x = v(w[2]); let f = w[1].to_string();
                            match a.fetch_update(ord(w[3]), ord(w[4]), |c| Some(match f.as_str() {
                                "add" => c.wrapping_add(x), "sub" => c.wrapping_sub(x), "and" => c & x, "nand" => !(c & x),
                                "or" => c | x, "xor" => c ^ x, "max" => c.max(x), "min" => c.min(x), _ => panic!("bad fu") })) {
                                Ok(x) => format!("ok {x}"), Err(x) => format!("err {x}") }
                        }
                        "fun" => match a.fetch_update(ord(w[1]), ord(w[2]), |_| None) { Ok(x) => format!("ok {x}"), Err(x) => format!("err {x}") },
                        "wm" => { let old = *a.get_mut(); *a.get_mut() = v(w[1]); old.to_string() }
                        "usl" => (*a.get_mut()).to_string(),
                        "ii" => { consumed = true; let x = std::mem::replace(&mut a, <$std>::new(0 as $t)).into_inner(); x.to_string() }
                        _ => panic!("bad op {}", w[0]),
                    };
                    s_out.push(r);
                    if consumed { break; }
                }
                if !consumed { s_out.push(format!("final {}", a.into_inner())); }
            }
            // loom, inside a model
            let ops2: Vec<Vec<String>> = ops.to_vec();
            let out = std::sync::Arc::new(std::sync::Mutex::new(Vec::new()));
            let out2 = out.clone();
            let mut b = loom::model::Builder::new();
            b.max_branches = 100_000;
            b.check(move || {
                let mut l_out = Vec::new();
                let v = |s: &str| -> $t { s.parse::<i128>().unwrap() as $t };
                let mut a = <$loom>::new(init);
                let mut consumed = false;
                for w in &ops2 {
                    let w: Vec<&str> = w.iter().map(|x| x.as_str()).collect();
                    let r = match w[0] {
                        "ld" => a.load(ord(w[1])).to_string(),
                        "st" => { a.store(v(w[1]), ord(w[2])); "-".into() }
                        "swap" => a.swap(v(w[1]), ord(w[2])).to_string(),
                        "rmw" => {
                            let x = v(w[2]); let o = ord(w[3]);
                            match w[1] {
                                "add" => a.fetch_add(x, o), "sub" => a.fetch_sub(x, o), "and" => a.fetch_and(x, o),
                                "nand" => a.fetch_nand(x, o), "or" => a.fetch_or(x, o), "xor" => a.fetch_xor(x, o),
                                "max" => a.fetch_max(x, o), "min" => a.fetch_min(x, o), _ => panic!("bad rmw"),
                            }.to_string()
                        }
                        "cas" => match a.compare_exchange(v(w[1]), v(w[2]), ord(w[3]), ord(w[4])) { Ok(x) => format!("ok {x}"), Err(x) => format!("err {x}") },
                        "casw" => match a.compare_exchange_weak(v(w[1]), v(w[2]), ord(w[3]), ord(w[4])) { Ok(x) => format!("ok {x}"), Err(x) => format!("err {x}") },
                        "cswap" => a.compare_and_swap(v(w[1]), v(w[2]), ord(w[3])).to_string(),
                        "fu" => {
                            let x = v(w[2]); let f = w[1].to_string();
                            match a.fetch_update(ord(w[3]), ord(w[4]), |c| Some(match f.as_str() {
                                "add" => c.wrapping_add(x), "sub" => c.wrapping_sub(x), "and" => c & x, "nand" => !(c & x),
                                "or" => c | x, "xor" => c ^ x, "max" => c.max(x), "min" => c.min(x), _ => panic!("bad fu") })) {
                                Ok(x) => format!("ok {x}"), Err(x) => format!("err {x}") }
                        }
                        "fun" => match a.fetch_update(ord(w[1]), ord(w[2]), |_| None) { Ok(x) => format!("ok {x}"), Err(x) => format!("err {x}") },
                        "wm" => a.with_mut(|x| { let old = *x; *x = v(w[1]); old }).to_string(),
                        "usl" => unsafe { a.unsync_load() }.to_string(),
                        "ii" => { consumed = true; let x = std::mem::replace(&mut a, <$loom>::new(0 as $t)).into_inner(); x.to_string() }
                        _ => panic!("bad op {}", w[0]),
                    };
                    l_out.push(r);
                    if consumed { break; }
                }
                if !consumed { l_out.push(format!("final {}", a.into_inner())); }
                *out2.lock().unwrap() = l_out;
            });
            let l = out.lock().unwrap().clone();
            (l, s_out)
        }
    };
}

int_runner!(run_u8, u8, loom::sync::atomic::AtomicU8, std::sync::atomic::AtomicU8);
int_runner!(run_u16, u16, loom::sync::atomic::AtomicU16, std::sync::atomic::AtomicU16);
int_runner!(run_u32, u32, loom::sync::atomic::AtomicU32, std::sync::atomic::AtomicU32);
int_runner!(run_u64, u64, loom::sync::atomic::AtomicU64, std::sync::atomic::AtomicU64);
int_runner!(run_usize, usize, loom::sync::atomic::AtomicUsize, std::sync::atomic::AtomicUsize);
int_runner!(run_i8, i8, loom::sync::atomic::AtomicI8, std::sync::atomic::AtomicI8);
int_runner!(run_i16, i16, loom::sync::atomic::AtomicI16, std::sync::atomic::AtomicI16);
int_runner!(run_i32, i32, loom::sync::atomic::AtomicI32, std::sync::atomic::AtomicI32);
int_runner!(run_i64, i64, loom::sync::atomic::AtomicI64, std::sync::atomic::AtomicI64);
int_runner!(run_isize, isize, loom::sync::atomic::AtomicIsize, std::sync::atomic::AtomicIsize);

fn run_bool(init: i128, ops: &[Vec<String>]) -> (Vec<String>, Vec<String>) {
    let b = |s: &str| -> bool { s.parse::<i128>().unwrap() != 0 };
    let p = |x: bool| -> String { (x as u8).to_string() };
    let mut s_out = Vec::new();
    {
        let mut a = std::sync::atomic::AtomicBool::new(init != 0);
        for w in ops {
            let w: Vec<&str> = w.iter().map(|x| x.as_str()).collect();
            let r = match w[0] {
                "ld" => p(a.load(ord(w[1]))),
                "st" => { a.store(b(w[1]), ord(w[2])); "-".into() }
                "swap" => p(a.swap(b(w[1]), ord(w[2]))),
                "rmw" => { let x = b(w[2]); let o = ord(w[3]); p(match w[1] { "and" => a.fetch_and(x, o), "nand" => a.fetch_nand(x, o), "or" => a.fetch_or(x, o), "xor" => a.fetch_xor(x, o), _ => panic!("bad bool rmw") }) }
                "cas" | "casw" => match a.compare_exchange(b(w[1]), b(w[2]), ord(w[3]), ord(w[4])) { Ok(x) => format!("ok {}", p(x)), Err(x) => format!("err {}", p(x)) },
                #[allow(deprecated)]
                "cswap" => p(a.compare_and_swap(b(w[1]), b(w[2]), ord(w[3]))),
                "fu" => { let x = b(w[2]); let f = w[1].to_string(); match a.fetch_update(ord(w[3]), ord(w[4]), |c| Some(match f.as_str() { "and" => c & x, "nand" => !(c & x), "or" => c | x, "xor" => c ^ x, _ => panic!("bad") })) { Ok(x) => format!("ok {}", p(x)), Err(x) => format!("err {}", p(x)) } }
                "fun" => match a.fetch_update(ord(w[1]), ord(w[2]), |_| None) { Ok(x) => format!("ok {}", p(x)), Err(x) => format!("err {}", p(x)) },
                "wm" => { let old = *a.get_mut(); *a.get_mut() = b(w[1]); p(old) }
                "usl" => p(*a.get_mut()),
                _ => panic!("bad op {}", w[0]),
            };
            s_out.push(r);
        }
        s_out.push(format!("final {}", p(a.into_inner())));
    }
    let ops2: Vec<Vec<String>> = ops.to_vec();
    let out = std::sync::Arc::new(std::sync::Mutex::new(Vec::new()));
    let out2 = out.clone();
    loom::model::Builder::new().check(move || {
        let b = |s: &str| -> bool { s.parse::<i128>().unwrap() != 0 };
        let p = |x: bool| -> String { (x as u8).to_string() };
        let mut l_out = Vec::new();
        let a = loom::sync::atomic::AtomicBool::new(init != 0);
        for w in &ops2 {
            let w: Vec<&str> = w.iter().map(|x| x.as_str()).collect();
            let r = match w[0] {
                "ld" => p(a.load(ord(w[1]))),
                "st" => { a.store(b(w[1]), ord(w[2])); "-".into() }
                "swap" => p(a.swap(b(w[1]), ord(w[2]))),
                "rmw" => { let x = b(w[2]); let o = ord(w[3]); p(match w[1] { "and" => a.fetch_and(x, o), "nand" => a.fetch_nand(x, o), "or" => a.fetch_or(x, o), "xor" => a.fetch_xor(x, o), _ => panic!("bad bool rmw") }) }
                "cas" => match a.compare_exchange(b(w[1]), b(w[2]), ord(w[3]), ord(w[4])) { Ok(x) => format!("ok {}", p(x)), Err(x) => format!("err {}", p(x)) },
                "casw" => match a.compare_exchange_weak(b(w[1]), b(w[2]), ord(w[3]), ord(w[4])) { Ok(x) => format!("ok {}", p(x)), Err(x) => format!("err {}", p(x)) },
                "cswap" => p(a.compare_and_swap(b(w[1]), b(w[2]), ord(w[3]))),
                "fu" => { let x = b(w[2]); let f = w[1].to_string(); match a.fetch_update(ord(w[3]), ord(w[4]), |c| Some(match f.as_str() { "and" => c & x, "nand" => !(c & x), "or" => c | x, "xor" => c ^ x, _ => panic!("bad") })) { Ok(x) => format!("ok {}", p(x)), Err(x) => format!("err {}", p(x)) } }
                "fun" => match a.fetch_update(ord(w[1]), ord(w[2]), |_| None) { Ok(x) => format!("ok {}", p(x)), Err(x) => format!("err {}", p(x)) },
                "wm" => "-skip-".into(),
                "usl" => p(unsafe { a.unsync_load() }),
                _ => panic!("bad op {}", w[0]),
            };
            l_out.push(r);
        }
        l_out.push(format!("final {}", p(a.into_inner())));
        *out2.lock().unwrap() = l_out;
    });
    let l = out.lock().unwrap().clone();
    (l, s_out)
}

fn run_ptr(init: i128, ops: &[Vec<String>]) -> (Vec<String>, Vec<String>) {
    let v = |s: &str| -> *mut u8 { s.parse::<i128>().unwrap() as usize as *mut u8 };
    let p = |x: *mut u8| -> String { (x as usize).to_string() };
    let mut s_out = Vec::new();
    {
        let mut a = std::sync::atomic::AtomicPtr::<u8>::new(init as usize as *mut u8);
        for w in ops {
            let w: Vec<&str> = w.iter().map(|x| x.as_str()).collect();
            let r = match w[0] {
                "ld" => p(a.load(ord(w[1]))),
                "st" => { a.store(v(w[1]), ord(w[2])); "-".into() }
                "swap" => p(a.swap(v(w[1]), ord(w[2]))),
                "cas" | "casw" => match a.compare_exchange(v(w[1]), v(w[2]), ord(w[3]), ord(w[4])) { Ok(x) => format!("ok {}", p(x)), Err(x) => format!("err {}", p(x)) },
                #[allow(deprecated)]
                "cswap" => p(a.compare_and_swap(v(w[1]), v(w[2]), ord(w[3]))),
                "fun" => match a.fetch_update(ord(w[1]), ord(w[2]), |_| None) { Ok(x) => format!("ok {}", p(x)), Err(x) => format!("err {}", p(x)) },
                "wm" => { let old = *a.get_mut(); *a.get_mut() = v(w[1]); p(old) }
                "usl" => p(*a.get_mut()),
                _ => panic!("bad op {}", w[0]),
            };
            s_out.push(r);
        }
        s_out.push(format!("final {}", p(a.into_inner())));
    }
    let ops2: Vec<Vec<String>> = ops.to_vec();
    let out = std::sync::Arc::new(std::sync::Mutex::new(Vec::new()));
    let out2 = out.clone();
    loom::model::Builder::new().check(move || {
        let v = |s: &str| -> *mut u8 { s.parse::<i128>().unwrap() as usize as *mut u8 };
        let p = |x: *mut u8| -> String { (x as usize).to_string() };
        let mut l_out = Vec::new();
        let mut a = loom::sync::atomic::AtomicPtr::<u8>::new(init as usize as *mut u8);
        for w in &ops2 {
            let w: Vec<&str> = w.iter().map(|x| x.as_str()).collect();
            let r = match w[0] {
                "ld" => p(a.load(ord(w[1]))),
                "st" => { a.store(v(w[1]), ord(w[2])); "-".into() }
                "swap" => p(a.swap(v(w[1]), ord(w[2]))),
                "cas" => match a.compare_exchange(v(w[1]), v(w[2]), ord(w[3]), ord(w[4])) { Ok(x) => format!("ok {}", p(x)), Err(x) => format!("err {}", p(x)) },
                "casw" => match a.compare_exchange_weak(v(w[1]), v(w[2]), ord(w[3]), ord(w[4])) { Ok(x) => format!("ok {}", p(x)), Err(x) => format!("err {}", p(x)) },
                "cswap" => p(a.compare_and_swap(v(w[1]), v(w[2]), ord(w[3]))),
                "fun" => match a.fetch_update(ord(w[1]), ord(w[2]), |_| None) { Ok(x) => format!("ok {}", p(x)), Err(x) => format!("err {}", p(x)) },
                "wm" => p(a.with_mut(|x| { let old = *x; *x = v(w[1]); old })),
                "usl" => p(unsafe { a.unsync_load() }),
                _ => panic!("bad op {}", w[0]),
            };
            l_out.push(r);
        }
        l_out.push(format!("final {}", p(a.into_inner())));
        *out2.lock().unwrap() = l_out;
    });
    let l = out.lock().unwrap().clone();
    (l, s_out)
}

pub fn run_case(line: &str) -> String {
    let parts: Vec<&str> = line.split('|').map(|s| s.trim()).collect();
    let id = parts[0];
    let ty = parts[1];
    let init: i128 = parts[2].parse().unwrap();
    let ops: Vec<Vec<String>> = parts[3]
        .split(';')
        .map(|o| o.split_whitespace().map(|s| s.to_string()).collect::<Vec<_>>())
        .filter(|o: &Vec<String>| !o.is_empty())
        .collect();
    let r = std::panic::catch_unwind(|| match ty {
        "u8" => run_u8(init, &ops), "u16" => run_u16(init, &ops), "u32" => run_u32(init, &ops),
        "u64" => run_u64(init, &ops), "usize" => run_usize(init, &ops),
        "i8" => run_i8(init, &ops), "i16" => run_i16(init, &ops), "i32" => run_i32(init, &ops),
        "i64" => run_i64(init, &ops), "isize" => run_isize(init, &ops),
        "bool" => run_bool(init, &ops), "ptr" => run_ptr(init, &ops),
        _ => panic!("bad type {ty}"),
    });
    match r {
        Ok((l, s)) => format!("NUM {} | loom {} | std {}", id, l.join(","), s.join(",")),
        Err(_) => format!("NUM {} | panic", id),
    }
}
