//! Interprets a `Prog` on the real loom API.

use crate::prog::*;
use loom::sync::atomic::{fence, AtomicUsize};
use std::cell::RefCell;
use std::sync::atomic::Ordering;

/// All loom threads of one model run on one OS thread, one at a time, so a
/// plain cell is enough; it is never borrowed across a loom branch point
/// except through the raw pointers taken below.
pub struct Slot<T>(std::cell::UnsafeCell<T>);

impl<T> Slot<T> {
    pub fn new(v: T) -> Slot<T> {
        Slot(std::cell::UnsafeCell::new(v))
    }
    #[allow(clippy::mut_from_ref)]
    pub fn get(&self) -> &mut T {
        unsafe { &mut *self.0.get() }
    }
}

thread_local! {
    /// Output lines of the program being run on this OS thread.
    pub static OUT: RefCell<Vec<String>> = RefCell::new(Vec::new());
}

pub fn out(line: String) {
    OUT.with(|o| o.borrow_mut().push(line));
}

thread_local! {
    /// body index of the loom thread whose instruction is being executed
    static CUR_BODY: std::cell::Cell<usize> = std::cell::Cell::new(0);
}

/// value of the harness's thread-locals: remembers which thread initialised it
pub struct TlsVal(usize, usize);

impl TlsVal {
    fn new(k: usize) -> TlsVal {
        let b = CUR_BODY.with(|c| c.get());
        out(format!("I tls {} {}", k, b));
        TlsVal(k, b)
    }
}

impl Drop for TlsVal {
    fn drop(&mut self) {
        out(format!("D tls {} {}", self.0, self.1));
    }
}

/// value of the harness's lazy statics: a loom cell written by the initialiser
pub struct LzVal {
    k: usize,
    cell: loom::cell::UnsafeCell<usize>,
}

impl LzVal {
    fn new(k: usize) -> LzVal {
        out(format!("I lazy {}", k));
        let cell = loom::cell::UnsafeCell::new(0);
        cell.with_mut(|p| unsafe { *p = 41 + k });
        LzVal { k, cell }
    }
}

impl Drop for LzVal {
    fn drop(&mut self) {
        out(format!("D lazy {}", self.k));
    }
}

/// a thread-local whose destructor uses thread-local 0 of the same thread
/// (try_with during the teardown of the thread)
pub struct TlsDropper(usize);

impl TlsDropper {
    fn new() -> TlsDropper {
        let b = CUR_BODY.with(|c| c.get());
        out(format!("I tls 2 {}", b));
        TlsDropper(b)
    }
}

impl Drop for TlsDropper {
    fn drop(&mut self) {
        let r = TL0.try_with(|v| v.0);
        out(format!("X tls 2 {} {}", self.0, if r.is_ok() { "ok" } else { "gone" }));
        out(format!("D tls 2 {}", self.0));
    }
}

loom::thread_local! {
    static TL0: TlsVal = TlsVal::new(0);
    static TL1: TlsVal = TlsVal::new(1);
    static TL2: TlsDropper = TlsDropper::new();
}

loom::lazy_static! {
    static ref LZ0: LzVal = LzVal::new(0);
    static ref LZ1: LzVal = LzVal::new(1);
    // an initialiser with a scheduling point inside: another thread may run it as well in the meantime
    static ref LZ2: LzVal = {
        let v = LzVal::new(2);
        loom::thread::yield_now();
        v
    };
}

pub enum Obj {
    Atomic(Slot<AtomicUsize>),
    Mutex(loom::sync::Mutex<usize>),
    RwLock(loom::sync::RwLock<usize>),
    Condvar(loom::sync::Condvar),
    Notify(loom::sync::Notify),
    Chan {
        tx: loom::sync::mpsc::Sender<usize>,
        rx: Slot<Option<loom::sync::mpsc::Receiver<usize>>>,
    },
    Cell(loom::cell::UnsafeCell<usize>),
    Arc(Slot<Vec<Option<loom::sync::Arc<Payload>>>>),
    Track(Slot<Option<loom::alloc::Track<()>>>),
    Waker(loom::future::AtomicWaker),
}

pub struct Payload(pub usize);

thread_local! {
    /// number of Arc payloads destroyed on this OS thread
    static ARC_DROPS: std::cell::Cell<usize> = std::cell::Cell::new(0);
}

impl Drop for Payload {
    fn drop(&mut self) {
        ARC_DROPS.with(|c| c.set(c.get() + 1));
        out(format!("D arc {}", self.0));
    }
}

pub struct Table {
    pub objs: Vec<Obj>,
    pub handles: Vec<Slot<Option<loom::thread::JoinHandle<()>>>>,
    pub threads: Vec<Slot<Option<loom::thread::Thread>>>,
}

enum Guard {
    Mutex(usize, loom::sync::MutexGuard<'static, usize>),
    Read(usize, loom::sync::RwLockReadGuard<'static, usize>),
    Write(usize, loom::sync::RwLockWriteGuard<'static, usize>),
}

fn bad(msg: &str) -> ! {
    panic!("verif-bad-program: {}", msg)
}

impl Table {
    fn atomic(&self, i: usize) -> &AtomicUsize {
        match &self.objs[i] {
            Obj::Atomic(a) => a.get(),
            _ => bad("not an atomic"),
        }
    }
}

pub fn build_table(p: &Prog) -> &'static Table {
    let mut objs = Vec::new();
    for (i, d) in p.decls.iter().enumerate() {
        objs.push(match d {
            Decl::Atomic(v) => Obj::Atomic(Slot::new(AtomicUsize::new(*v))),
            Decl::Mutex => Obj::Mutex(loom::sync::Mutex::new(0)),
            Decl::RwLock => Obj::RwLock(loom::sync::RwLock::new(0)),
            Decl::Condvar => Obj::Condvar(loom::sync::Condvar::new()),
            Decl::Notify => Obj::Notify(loom::sync::Notify::new()),
            Decl::Chan => {
                let (tx, rx) = loom::sync::mpsc::channel();
                Obj::Chan {
                    tx,
                    rx: Slot::new(Some(rx)),
                }
            }
            Decl::Cell => Obj::Cell(loom::cell::UnsafeCell::new(0)),
            Decl::Arc => {
                let mut v: Vec<Option<loom::sync::Arc<Payload>>> = Vec::new();
                v.push(Some(loom::sync::Arc::new(Payload(i))));
                for _ in 0..7 {
                    v.push(None);
                }
                Obj::Arc(Slot::new(v))
            }
            Decl::Track => Obj::Track(Slot::new(Some(loom::alloc::Track::new(())))),
            Decl::Waker => Obj::Waker(loom::future::AtomicWaker::new()),
            Decl::Tls | Decl::Lazy => bad("tls/lazy are not declared objects"),
        });
    }
    let n = p.bodies.len();
    Box::leak(Box::new(Table {
        objs,
        handles: (0..n).map(|_| Slot::new(None)).collect(),
        threads: (0..n).map(|_| Slot::new(None)).collect(),
    }))
}

fn apply(op: RmwOp, x: usize, v: usize) -> usize {
    match op {
        RmwOp::Swap => v,
        RmwOp::Add => x.wrapping_add(v),
        RmwOp::Sub => x.wrapping_sub(v),
        RmwOp::And => x & v,
        RmwOp::Nand => !(x & v),
        RmwOp::Or => x | v,
        RmwOp::Xor => x ^ v,
        RmwOp::Max => x.max(v),
        RmwOp::Min => x.min(v),
    }
}

pub fn run_body(p: &'static Prog, t: &'static Table, b: usize, my_waker: Option<std::task::Waker>) {
    let mut my_waker = my_waker;
    let mut guards: Vec<Guard> = Vec::new();
    for (pc, op) in p.bodies[b].iter().enumerate() {
        CUR_BODY.with(|c| c.set(b));
        let res = |r: String| out(format!("O {} {} {}", b, pc, r));
        match op {
            Op::Spawn(c) => {
                let c = *c;
                if c >= p.bodies.len() || t.handles[c].get().is_some() {
                    bad("spawn target");
                }
                let jh = loom::thread::spawn(move || run_body(p, t, c, None));
                *t.threads[c].get() = Some(jh.thread().clone());
                *t.handles[c].get() = Some(jh);
                res("-".into());
            }
            Op::Join(c) => {
                let jh = t.handles[*c].get().take();
                match jh {
                    Some(jh) => {
                        jh.join().unwrap();
                        res("-".into());
                    }
                    None => bad("join target"),
                }
            }
            Op::Load(a, o) => {
                let v = t.atomic(*a).load(*o);
                res(v.to_string());
            }
            Op::Store(a, v, o) => {
                t.atomic(*a).store(*v, *o);
                res("-".into());
            }
            Op::Rmw(a, f, v, o) => {
                let at = t.atomic(*a);
                let old = match f {
                    RmwOp::Swap => at.swap(*v, *o),
                    RmwOp::Add => at.fetch_add(*v, *o),
                    RmwOp::Sub => at.fetch_sub(*v, *o),
                    RmwOp::And => at.fetch_and(*v, *o),
                    RmwOp::Nand => at.fetch_nand(*v, *o),
                    RmwOp::Or => at.fetch_or(*v, *o),
                    RmwOp::Xor => at.fetch_xor(*v, *o),
                    RmwOp::Max => at.fetch_max(*v, *o),
                    RmwOp::Min => at.fetch_min(*v, *o),
                };
                res(old.to_string());
            }
            Op::Cas(a, e, n, so, fo) => match t.atomic(*a).compare_exchange(*e, *n, *so, *fo) {
                Ok(v) => res(format!("ok {}", v)),
                Err(v) => res(format!("err {}", v)),
            },
            Op::FetchUpdate(a, f, v, so, fo) => {
                let f = *f;
                let v = *v;
                match t
                    .atomic(*a)
                    .fetch_update(*so, *fo, move |x| Some(apply(f, x, v)))
                {
                    Ok(v) => res(format!("ok {}", v)),
                    Err(v) => res(format!("err {}", v)),
                }
            }
            Op::Fence(o) => {
                fence(*o);
                res("-".into());
            }
            Op::Lock(m) => match &t.objs[*m] {
                Obj::Mutex(mx) => {
                    let g = mx.lock().unwrap();
                    guards.push(Guard::Mutex(*m, g));
                    res("-".into());
                }
                _ => bad("not a mutex"),
            },
            Op::TryLock(m) => match &t.objs[*m] {
                Obj::Mutex(mx) => match mx.try_lock() {
                    Ok(g) => {
                        guards.push(Guard::Mutex(*m, g));
                        res("1".into());
                    }
                    Err(_) => res("0".into()),
                },
                _ => bad("not a mutex"),
            },
            Op::Unlock(m) => {
                let i = guards
                    .iter()
                    .rposition(|g| matches!(g, Guard::Mutex(k, _) if k == m));
                match i {
                    Some(i) => {
                        drop(guards.remove(i));
                        res("-".into());
                    }
                    // the matching try_lock failed: nothing to release
                    None => res("x".into()),
                }
            }
            Op::Read(r) => match &t.objs[*r] {
                Obj::RwLock(rw) => {
                    let g = rw.read().unwrap();
                    guards.push(Guard::Read(*r, g));
                    res("-".into());
                }
                _ => bad("not a rwlock"),
            },
            Op::Write(r) => match &t.objs[*r] {
                Obj::RwLock(rw) => {
                    let g = rw.write().unwrap();
                    guards.push(Guard::Write(*r, g));
                    res("-".into());
                }
                _ => bad("not a rwlock"),
            },
            Op::TryRead(r) => match &t.objs[*r] {
                Obj::RwLock(rw) => match rw.try_read() {
                    Ok(g) => {
                        guards.push(Guard::Read(*r, g));
                        res("1".into());
                    }
                    Err(_) => res("0".into()),
                },
                _ => bad("not a rwlock"),
            },
            Op::TryWrite(r) => match &t.objs[*r] {
                Obj::RwLock(rw) => match rw.try_write() {
                    Ok(g) => {
                        guards.push(Guard::Write(*r, g));
                        res("1".into());
                    }
                    Err(_) => res("0".into()),
                },
                _ => bad("not a rwlock"),
            },
            Op::Unread(r) => {
                let i = guards
                    .iter()
                    .rposition(|g| matches!(g, Guard::Read(k, _) if k == r));
                match i {
                    Some(i) => {
                        drop(guards.remove(i));
                        res("-".into());
                    }
                    None => res("x".into()),
                }
            }
            Op::Unwrite(r) => {
                let i = guards
                    .iter()
                    .rposition(|g| matches!(g, Guard::Write(k, _) if k == r));
                match i {
                    Some(i) => {
                        drop(guards.remove(i));
                        res("-".into());
                    }
                    None => res("x".into()),
                }
            }
            Op::Wait(c, m) => {
                let i = guards
                    .iter()
                    .rposition(|g| matches!(g, Guard::Mutex(k, _) if k == m));
                match (i, &t.objs[*c]) {
                    (Some(i), Obj::Condvar(cv)) => {
                        let g = match guards.remove(i) {
                            Guard::Mutex(_, g) => g,
                            _ => unreachable!(),
                        };
                        let g = cv.wait(g).unwrap();
                        guards.push(Guard::Mutex(*m, g));
                        res("-".into());
                    }
                    (None, Obj::Condvar(_)) => res("x".into()),
                    _ => bad("not a condvar"),
                }
            }
            Op::NotifyOne(c) => match &t.objs[*c] {
                Obj::Condvar(cv) => {
                    cv.notify_one();
                    res("-".into());
                }
                _ => bad("not a condvar"),
            },
            Op::NotifyAll(c) => match &t.objs[*c] {
                Obj::Condvar(cv) => {
                    cv.notify_all();
                    res("-".into());
                }
                _ => bad("not a condvar"),
            },
            Op::NWait(n) => match &t.objs[*n] {
                Obj::Notify(nt) => {
                    nt.wait();
                    res("-".into());
                }
                _ => bad("not a notify"),
            },
            Op::NNotify(n) => match &t.objs[*n] {
                Obj::Notify(nt) => {
                    nt.notify();
                    res("-".into());
                }
                _ => bad("not a notify"),
            },
            Op::Park => {
                loom::thread::park();
                res("-".into());
            }
            Op::Unpark(c) => {
                let th = if *c == 0 {
                    None
                } else {
                    t.threads[*c].get().clone()
                };
                match (c, th) {
                    (0, _) => {
                        // body 0 is the main thread; its `Thread` is kept in slot 0
                        let th = t.threads[0].get().clone();
                        match th {
                            Some(th) => th.unpark(),
                            None => bad("main thread handle missing"),
                        }
                    }
                    (_, Some(th)) => th.unpark(),
                    (_, None) => bad("unpark target not spawned"),
                }
                res("-".into());
            }
            Op::Send(h, v) => match &t.objs[*h] {
                Obj::Chan { tx, .. } => {
                    let r = tx.send(*v);
                    res(if r.is_ok() { "-".into() } else { "disc".into() });
                }
                _ => bad("not a channel"),
            },
            Op::Recv(h) => match &t.objs[*h] {
                Obj::Chan { rx, .. } => {
                    let r: Option<*const loom::sync::mpsc::Receiver<usize>> =
                        rx.get().as_ref().map(|r| r as *const _);
                    match r {
                        Some(rx) => match unsafe { &*rx }.recv() {
                            Ok(v) => res(v.to_string()),
                            Err(_) => res("disc".into()),
                        },
                        None => res("x".into()),
                    }
                }
                _ => bad("not a channel"),
            },
            Op::TryRecv(h) => match &t.objs[*h] {
                Obj::Chan { rx, .. } => {
                    let r: Option<*const loom::sync::mpsc::Receiver<usize>> =
                        rx.get().as_ref().map(|r| r as *const _);
                    match r {
                        Some(rx) => match unsafe { &*rx }.try_recv() {
                            Ok(v) => res(v.to_string()),
                            Err(std::sync::mpsc::TryRecvError::Empty) => res("empty".into()),
                            Err(_) => res("disc".into()),
                        },
                        None => res("x".into()),
                    }
                }
                _ => bad("not a channel"),
            },
            Op::DropRx(h) => match &t.objs[*h] {
                Obj::Chan { rx, .. } => {
                    let r = rx.get().take();
                    let had = r.is_some();
                    drop(r);
                    res(if had { "-".into() } else { "x".into() });
                }
                _ => bad("not a channel"),
            },
            Op::CellRead(u) => match &t.objs[*u] {
                Obj::Cell(c) => {
                    let v = c.with(|p| unsafe { *p });
                    res(v.to_string());
                }
                _ => bad("not a cell"),
            },
            Op::CellWrite(u) => match &t.objs[*u] {
                Obj::Cell(c) => {
                    c.with_mut(|p| unsafe { *p = b * 100 + pc + 1 });
                    res("-".into());
                }
                _ => bad("not a cell"),
            },
            Op::CellNested(u, k) => match &t.objs[*u] {
                // an access to the cell from inside another access by the same thread:
                // 0 = write in read, 1 = read in write, 2 = write in write, 3 = read in read
                Obj::Cell(c) => {
                    let v = match k {
                        0 => c.with(|_| c.with_mut(|p| unsafe { *p })),
                        1 => c.with_mut(|_| c.with(|p| unsafe { *p })),
                        2 => c.with_mut(|_| c.with_mut(|p| unsafe { *p })),
                        _ => c.with(|_| c.with(|p| unsafe { *p })),
                    };
                    res(v.to_string());
                }
                _ => bad("not a cell"),
            },
            Op::Yield => {
                loom::thread::yield_now();
                res("-".into());
            }
            Op::Await(a, v, o) => loop {
                let x = t.atomic(*a).load(*o);
                res(x.to_string());
                if x == *v {
                    break;
                }
                loom::thread::yield_now();
            },
            Op::UnsyncLoad(a) => {
                let v = unsafe { t.atomic(*a).unsync_load() };
                res(v.to_string());
            }
            Op::WithMut(a, v) => {
                let at: &mut AtomicUsize = match &t.objs[*a] {
                    Obj::Atomic(a) => a.get(),
                    _ => bad("not an atomic"),
                };
                let old = at.with_mut(|x| {
                    let old = *x;
                    *x = *v;
                    old
                });
                res(old.to_string());
            }
            Op::ArcClone(k, i, j) => match &t.objs[*k] {
                Obj::Arc(hs) => {
                    let src: Option<*const loom::sync::Arc<Payload>> =
                        hs.get()[*i].as_ref().map(|h| h as *const _);
                    match src {
                        Some(h) => {
                            let c = unsafe { &*h }.clone();
                            let g = hs.get();
                            if g[*j].is_some() {
                                bad("arc slot in use");
                            }
                            g[*j] = Some(c);
                            res("-".into());
                        }
                        None => res("x".into()),
                    }
                }
                _ => bad("not an arc"),
            },
            Op::ArcDrop(k, i) => match &t.objs[*k] {
                Obj::Arc(hs) => {
                    let h = hs.get()[*i].take();
                    match h {
                        Some(h) => {
                            // which drop destroys the value is part of the result
                            let before = ARC_DROPS.with(|c| c.get());
                            drop(h);
                            let last = ARC_DROPS.with(|c| c.get()) != before;
                            res(if last { "1".into() } else { "-".into() });
                        }
                        None => res("x".into()),
                    }
                }
                _ => bad("not an arc"),
            },
            Op::ArcCount(k, i) => match &t.objs[*k] {
                Obj::Arc(hs) => {
                    let src: Option<*const loom::sync::Arc<Payload>> =
                        hs.get()[*i].as_ref().map(|h| h as *const _);
                    match src {
                        Some(h) => {
                            let n = loom::sync::Arc::strong_count(unsafe { &*h });
                            res(n.to_string());
                        }
                        None => res("x".into()),
                    }
                }
                _ => bad("not an arc"),
            },
            Op::ArcGetMut(k, i) => match &t.objs[*k] {
                Obj::Arc(hs) => {
                    let src: Option<*mut loom::sync::Arc<Payload>> =
                        hs.get()[*i].as_mut().map(|h| h as *mut _);
                    match src {
                        Some(h) => {
                            let r = loom::sync::Arc::get_mut(unsafe { &mut *h }).is_some();
                            res((r as u8).to_string());
                        }
                        None => res("x".into()),
                    }
                }
                _ => bad("not an arc"),
            },
            Op::ArcTryUnwrap(k, i) => match &t.objs[*k] {
                Obj::Arc(hs) => {
                    let h = hs.get()[*i].take();
                    match h {
                        Some(h) => match loom::sync::Arc::try_unwrap(h) {
                            Ok(p) => {
                                drop(p);
                                res("1".into());
                            }
                            Err(h) => {
                                hs.get()[*i] = Some(h);
                                res("0".into());
                            }
                        },
                        None => res("x".into()),
                    }
                }
                _ => bad("not an arc"),
            },
            Op::TrackDrop(k) => match &t.objs[*k] {
                Obj::Track(tr) => {
                    let v = tr.get().take();
                    let had = v.is_some();
                    drop(v);
                    res(if had { "-".into() } else { "x".into() });
                }
                _ => bad("not a track"),
            },
            Op::BlockOn(a, v, w) => {
                let (a, v, w) = (*a, *v, *w);
                let aw = match &t.objs[w] {
                    Obj::Waker(x) => x,
                    _ => bad("not an atomic waker"),
                };
                let at = t.atomic(a);
                loom::future::block_on(std::future::poll_fn(|cx| {
                    out(format!("P {} {}", b, pc));
                    if at.load(Ordering::Acquire) == v {
                        return std::task::Poll::Ready(());
                    }
                    aw.register_by_ref(cx.waker());
                    if at.load(Ordering::Acquire) == v {
                        std::task::Poll::Ready(())
                    } else {
                        std::task::Poll::Pending
                    }
                }));
                res("-".into());
            }
            Op::BlockOnSpawn(a, v, b1, b2) => {
                let (a, v, b1, b2) = (*a, *v, *b1, *b2);
                let at = t.atomic(a);
                let mut first = true;
                loom::future::block_on(std::future::poll_fn(|cx| {
                    out(format!("P {} {}", b, pc));
                    if at.load(Ordering::Acquire) == v {
                        return std::task::Poll::Ready(());
                    }
                    if first {
                        // the first Pending poll hands one waker to each waking thread
                        first = false;
                        for c in [b1, b2] {
                            if c != 0 {
                                if c >= p.bodies.len() || t.handles[c].get().is_some() {
                                    bad("spawn target");
                                }
                                let wk = cx.waker().clone();
                                let jh = loom::thread::spawn(move || run_body(p, t, c, Some(wk)));
                                *t.threads[c].get() = Some(jh.thread().clone());
                                *t.handles[c].get() = Some(jh);
                            }
                        }
                    }
                    std::task::Poll::Pending
                }));
                res("-".into());
            }
            Op::WakeMine => match my_waker.take() {
                Some(wk) => {
                    wk.wake();
                    res("1".into());
                }
                None => res("0".into()),
            },
            Op::Wake(w) => match &t.objs[*w] {
                Obj::Waker(x) => {
                    x.wake();
                    res("-".into());
                }
                _ => bad("not an atomic waker"),
            },
            Op::TakeWaker(w) => match &t.objs[*w] {
                Obj::Waker(x) => {
                    let wk = x.take_waker();
                    let had = wk.is_some();
                    drop(wk);
                    res((had as u8).to_string());
                }
                _ => bad("not an atomic waker"),
            },
            Op::TlsWith(k) => {
                let r = match k {
                    0 => TL0.try_with(|v| v.0),
                    1 => TL1.try_with(|v| v.0),
                    _ => TL2.try_with(|v| v.0),
                };
                res(if r.is_ok() { "-".into() } else { "gone".into() });
            }
            Op::LazyGet(k) => {
                let v: &LzVal = match k {
                    0 => &LZ0,
                    1 => &LZ1,
                    _ => &LZ2,
                };
                let x = v.cell.with(|p| unsafe { *p });
                res(x.to_string());
            }
            Op::Panic => {
                res("-".into());
                panic!("verif-panic");
            }
            Op::Explore => {
                loom::explore();
                res("-".into());
            }
            Op::StopExploring => {
                loom::stop_exploring();
                res("-".into());
            }
            Op::SkipBranch => {
                loom::skip_branch();
                res("-".into());
            }
        }
    }
    // guards still held are released in reverse order of acquisition
    while let Some(g) = guards.pop() {
        drop(g);
    }
    // a waker that was handed to this thread and never used is dropped with the closure
    drop(my_waker);
}

pub fn run_main(p: &'static Prog) {
    let t = build_table(p);
    *t.threads[0].get() = Some(loom::thread::current());
    run_body(p, t, 0, None);
}

#[allow(dead_code)]
pub fn ordering_name(o: Ordering) -> &'static str {
    match o {
        Ordering::Relaxed => "rlx",
        Ordering::Release => "rel",
        Ordering::Acquire => "acq",
        Ordering::AcqRel => "ar",
        Ordering::SeqCst => "sc",
        _ => "?",
    }
}
