//! Program language shared by the Coq model, the OCaml driver and this harness.
//!
//! One program per line:
//!   `<id> | <cfg> | <objs> | <body0> | <body1> | ...`
//! cfg  : `mt=5 mb=1000 pb=- mp=- ci=- ee=0`
//! objs : space separated declarations `A<init>` `M` `R` `C` `N` `H` `U` `K` `T`
//! body : `;` separated instructions (see `parse_op`).

use std::sync::atomic::Ordering;

#[derive(Clone, Debug)]
pub struct Cfg {
    pub max_threads: usize,
    pub max_branches: usize,
    pub preemption_bound: Option<usize>,
    pub max_permutations: Option<usize>,
    pub checkpoint_interval: Option<usize>,
    pub explicit_explore: bool,
}

#[derive(Clone, Debug, PartialEq)]
pub enum Decl {
    Atomic(usize),
    Mutex,
    RwLock,
    Condvar,
    Notify,
    Chan,
    Cell,
    Arc,
    Track,
    Tls,
    Lazy,
    Waker,
}

#[derive(Clone, Copy, Debug, PartialEq)]
pub enum RmwOp {
    Swap,
    Add,
    Sub,
    And,
    Nand,
    Or,
    Xor,
    Max,
    Min,
}

#[derive(Clone, Debug)]
pub enum Op {
    Spawn(usize),
    Join(usize),
    Load(usize, Ordering),
    Store(usize, usize, Ordering),
    Rmw(usize, RmwOp, usize, Ordering),
    Cas(usize, usize, usize, Ordering, Ordering),
    FetchUpdate(usize, RmwOp, usize, Ordering, Ordering),
    Fence(Ordering),
    Lock(usize),
    TryLock(usize),
    Unlock(usize),
    Read(usize),
    Write(usize),
    TryRead(usize),
    TryWrite(usize),
    Unread(usize),
    Unwrite(usize),
    Wait(usize, usize),
    NotifyOne(usize),
    NotifyAll(usize),
    NWait(usize),
    NNotify(usize),
    Park,
    Unpark(usize),
    Send(usize, usize),
    Recv(usize),
    TryRecv(usize),
    DropRx(usize),
    CellRead(usize),
    CellWrite(usize),
    CellNested(usize, usize),
    Yield,
    Await(usize, usize, Ordering),
    UnsyncLoad(usize),
    WithMut(usize, usize),
    ArcClone(usize, usize, usize),
    ArcDrop(usize, usize),
    ArcCount(usize, usize),
    ArcGetMut(usize, usize),
    ArcTryUnwrap(usize, usize),
    TrackDrop(usize),
    BlockOn(usize, usize, usize),
    Wake(usize),
    TakeWaker(usize),
    BlockOnSpawn(usize, usize, usize, usize),
    WakeMine,
    TlsWith(usize),
    LazyGet(usize),
    Panic,
    Explore,
    StopExploring,
    SkipBranch,
}

#[derive(Clone, Debug)]
pub struct Prog {
    pub id: String,
    pub cfg: Cfg,
    pub decls: Vec<Decl>,
    pub bodies: Vec<Vec<Op>>,
}

fn ord(s: &str) -> Result<Ordering, String> {
    Ok(match s {
        "rlx" => Ordering::Relaxed,
        "rel" => Ordering::Release,
        "acq" => Ordering::Acquire,
        "ar" => Ordering::AcqRel,
        "sc" => Ordering::SeqCst,
        _ => return Err(format!("bad ordering {s}")),
    })
}

fn rmwop(s: &str) -> Result<RmwOp, String> {
    Ok(match s {
        "swap" => RmwOp::Swap,
        "add" => RmwOp::Add,
        "sub" => RmwOp::Sub,
        "and" => RmwOp::And,
        "nand" => RmwOp::Nand,
        "or" => RmwOp::Or,
        "xor" => RmwOp::Xor,
        "max" => RmwOp::Max,
        "min" => RmwOp::Min,
        _ => return Err(format!("bad rmw op {s}")),
    })
}

fn num(s: &str) -> Result<usize, String> {
    s.parse::<usize>().map_err(|_| format!("bad number {s}"))
}

fn optnum(s: &str) -> Result<Option<usize>, String> {
    if s == "-" {
        Ok(None)
    } else {
        num(s).map(Some)
    }
}

fn parse_op(s: &str) -> Result<Op, String> {
    let w: Vec<&str> = s.split_whitespace().collect();
    let a = |i: usize| -> Result<&str, String> {
        w.get(i).copied().ok_or_else(|| format!("missing operand in `{s}`"))
    };
    Ok(match a(0)? {
        "sp" => Op::Spawn(num(a(1)?)?),
        "jn" => Op::Join(num(a(1)?)?),
        "ld" => Op::Load(num(a(1)?)?, ord(a(2)?)?),
        "st" => Op::Store(num(a(1)?)?, num(a(2)?)?, ord(a(3)?)?),
        "rmw" => Op::Rmw(num(a(1)?)?, rmwop(a(2)?)?, num(a(3)?)?, ord(a(4)?)?),
        "cas" => Op::Cas(
            num(a(1)?)?,
            num(a(2)?)?,
            num(a(3)?)?,
            ord(a(4)?)?,
            ord(a(5)?)?,
        ),
        "fu" => Op::FetchUpdate(
            num(a(1)?)?,
            rmwop(a(2)?)?,
            num(a(3)?)?,
            ord(a(4)?)?,
            ord(a(5)?)?,
        ),
        "fn" => Op::Fence(ord(a(1)?)?),
        "lk" => Op::Lock(num(a(1)?)?),
        "tl" => Op::TryLock(num(a(1)?)?),
        "ul" => Op::Unlock(num(a(1)?)?),
        "rd" => Op::Read(num(a(1)?)?),
        "wr" => Op::Write(num(a(1)?)?),
        "trd" => Op::TryRead(num(a(1)?)?),
        "twr" => Op::TryWrite(num(a(1)?)?),
        "urd" => Op::Unread(num(a(1)?)?),
        "uwr" => Op::Unwrite(num(a(1)?)?),
        "wt" => Op::Wait(num(a(1)?)?, num(a(2)?)?),
        "n1" => Op::NotifyOne(num(a(1)?)?),
        "na" => Op::NotifyAll(num(a(1)?)?),
        "nw" => Op::NWait(num(a(1)?)?),
        "nn" => Op::NNotify(num(a(1)?)?),
        "pk" => Op::Park,
        "up" => Op::Unpark(num(a(1)?)?),
        "sd" => Op::Send(num(a(1)?)?, num(a(2)?)?),
        "rv" => Op::Recv(num(a(1)?)?),
        "trv" => Op::TryRecv(num(a(1)?)?),
        "drx" => Op::DropRx(num(a(1)?)?),
        "cr" => Op::CellRead(num(a(1)?)?),
        "cw" => Op::CellWrite(num(a(1)?)?),
        "cn" => Op::CellNested(num(a(1)?)?, num(a(2)?)?),
        "yl" => Op::Yield,
        "aw" => Op::Await(num(a(1)?)?, num(a(2)?)?, ord(a(3)?)?),
        "usl" => Op::UnsyncLoad(num(a(1)?)?),
        "wm" => Op::WithMut(num(a(1)?)?, num(a(2)?)?),
        "ac" => Op::ArcClone(num(a(1)?)?, num(a(2)?)?, num(a(3)?)?),
        "ad" => Op::ArcDrop(num(a(1)?)?, num(a(2)?)?),
        "an" => Op::ArcCount(num(a(1)?)?, num(a(2)?)?),
        "ag" => Op::ArcGetMut(num(a(1)?)?, num(a(2)?)?),
        "au" => Op::ArcTryUnwrap(num(a(1)?)?, num(a(2)?)?),
        "td" => Op::TrackDrop(num(a(1)?)?),
        "bo" => Op::BlockOn(num(a(1)?)?, num(a(2)?)?, num(a(3)?)?),
        "wk" => Op::Wake(num(a(1)?)?),
        "tkw" => Op::TakeWaker(num(a(1)?)?),
        "bs" => Op::BlockOnSpawn(num(a(1)?)?, num(a(2)?)?, num(a(3)?)?, num(a(4)?)?),
        "wme" => Op::WakeMine,
        "tw" => Op::TlsWith(num(a(1)?)?),
        "lz" => Op::LazyGet(num(a(1)?)?),
        "pn" => Op::Panic,
        "ex" => Op::Explore,
        "sx" => Op::StopExploring,
        "sk" => Op::SkipBranch,
        other => return Err(format!("unknown instruction `{other}`")),
    })
}

pub fn parse_prog(line: &str) -> Result<Prog, String> {
    let parts: Vec<&str> = line.split('|').map(|s| s.trim()).collect();
    if parts.len() < 4 {
        return Err("need id | cfg | objs | body0".into());
    }
    let id = parts[0].to_string();
    let mut cfg = Cfg {
        max_threads: 5,
        max_branches: 1000,
        preemption_bound: None,
        max_permutations: None,
        checkpoint_interval: None,
        explicit_explore: false,
    };
    for kv in parts[1].split_whitespace() {
        let (k, v) = kv.split_once('=').ok_or_else(|| format!("bad cfg {kv}"))?;
        match k {
            "mt" => cfg.max_threads = num(v)?,
            "mb" => cfg.max_branches = num(v)?,
            "pb" => cfg.preemption_bound = optnum(v)?,
            "mp" => cfg.max_permutations = optnum(v)?,
            "ci" => cfg.checkpoint_interval = optnum(v)?,
            "ee" => cfg.explicit_explore = num(v)? != 0,
            _ => return Err(format!("bad cfg key {k}")),
        }
    }
    let mut decls = Vec::new();
    for d in parts[2].split_whitespace() {
        decls.push(match &d[..1] {
            "A" => Decl::Atomic(num(&d[1..])?),
            "M" => Decl::Mutex,
            "R" => Decl::RwLock,
            "C" => Decl::Condvar,
            "N" => Decl::Notify,
            "H" => Decl::Chan,
            "U" => Decl::Cell,
            "K" => Decl::Arc,
            "T" => Decl::Track,
            "L" => Decl::Tls,
            "Z" => Decl::Lazy,
            "W" => Decl::Waker,
            _ => return Err(format!("bad decl {d}")),
        });
    }
    let mut bodies = Vec::new();
    for b in &parts[3..] {
        let mut ops = Vec::new();
        for o in b.split(';') {
            let o = o.trim();
            if o.is_empty() {
                continue;
            }
            ops.push(parse_op(o)?);
        }
        bodies.push(ops);
    }
    Ok(Prog {
        id,
        cfg,
        decls,
        bodies,
    })
}
