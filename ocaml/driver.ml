(* Driver around the extracted model (loom_model.ml).
   Modes:
     run <programs>      print, for every program, what the harness must print
                         (path dumps, operation results, outcome)
     replay <harness-out> component replay of rt/path.rs: feed the Path API
                         calls logged by the hooks to the model's Path *)
open Loom_model

(* ---------- conversions ---------- *)
let nat_of_int n =
  let rec go acc n = if n <= 0 then acc else go (S acc) (n - 1) in
  go O n
let int_of_nat n =
  let rec go acc = function O -> acc | S n -> go (acc + 1) n in
  go 0 n

let rec pos_of_int64 (x : int64) : positive =
  (* x > 0 as unsigned *)
  if Int64.equal x 1L then XH
  else
    let half = Int64.shift_right_logical x 1 in
    if Int64.equal (Int64.logand x 1L) 1L then XI (pos_of_int64 half) else XO (pos_of_int64 half)

let n_of_int64 (x : int64) : n = if Int64.equal x 0L then N0 else Npos (pos_of_int64 x)
let n_of_string s = n_of_int64 (Int64.of_string ("0u" ^ s))

let rec int64_of_pos = function
  | XH -> 1L
  | XO p -> Int64.shift_left (int64_of_pos p) 1
  | XI p -> Int64.logor (Int64.shift_left (int64_of_pos p) 1) 1L

let string_of_n = function N0 -> "0" | Npos p -> Printf.sprintf "%Lu" (int64_of_pos p)

(* ---------- printing ---------- *)
let opt_str f = function None -> "-" | Some x -> f x
let nat_str n = string_of_int (int_of_nat n)
let b01 b = if b then "1" else "0"

let tstat_char = function
  | Disabled -> 'D' | Skip -> 'S' | TYield -> 'Y' | Pending -> 'P' | Active -> 'A' | Visited -> 'V'

let threads_str l = String.init (List.length l) (fun i -> tstat_char (List.nth l i))

let dump_path (p : path) : string =
  let b = Buffer.create 256 in
  Buffer.add_string b
    (Printf.sprintf "pos=%s ex=%s skip=%s eos=%s bound=%s cap=%s" (nat_str p.pos) (b01 p.exploring)
       (b01 p.skipping) (b01 p.eos) (opt_str nat_str p.bound) (nat_str p.cap));
  List.iter
    (fun e ->
      match e with
      | ESched s ->
          Buffer.add_string b
            (Printf.sprintf " | S pre=%s ia=%s prev=%s ex=%s th=%s" (nat_str s.s_pre)
               (opt_str nat_str s.s_ia) (opt_str nat_str s.s_prev) (b01 s.s_ex)
               (threads_str s.s_threads))
      | ELoad l ->
          Buffer.add_string b
            (Printf.sprintf " | L vals=%s pos=%s ex=%s"
               (String.concat "." (List.map nat_str l.l_vals))
               (nat_str l.l_pos) (b01 l.l_ex))
      | ESpur s ->
          Buffer.add_string b (Printf.sprintf " | P spur=%s ex=%s" (b01 s.p_spur) (b01 s.p_ex)))
    p.branches;
  Buffer.contents b

let result_str = function
  | RUnit -> "-"
  | RVal v -> string_of_n v
  | ROk v -> "ok " ^ string_of_n v
  | RErr v -> "err " ^ string_of_n v
  | RBool b -> b01 b
  | RX -> "x"
  | REmpty -> "empty"
  | RDisc -> "disc"

let log_str = function
  | LOp (b, pc, r) -> Printf.sprintf "O %s %s %s" (nat_str b) (nat_str pc) (result_str r)
  | LDrop k -> Printf.sprintf "D arc %s" (nat_str k)
  | LInitTls (k, b) -> Printf.sprintf "I tls %s %s" (nat_str k) (nat_str b)
  | LDropTls (k, b) -> Printf.sprintf "D tls %s %s" (nat_str k) (nat_str b)
  | LInitLazy k -> Printf.sprintf "I lazy %s" (nat_str k)
  | LDropLazy k -> Printf.sprintf "D lazy %s" (nat_str k)
  | LPoll (b, pc) -> Printf.sprintf "P %s %s" (nat_str b) (nat_str pc)
  | LTlsAccess (k, b, ok) -> Printf.sprintf "X tls %s %s %s" (nat_str k) (nat_str b) (if ok then "ok" else "gone")

let cut70 s = if String.length s > 70 then String.sub s 0 70 else s

let causality_msg = function
  | CLoadMut -> "Concurrent load and mut accesses."
  | CUnsyncLoadMut -> "Concurrent `unsync_load` and mut accesses."
  | CUnsyncLoadStore -> "Concurrent `unsync_load` and atomic store."
  | CStoreMut -> "Concurrent atomic store and mut accesses."
  | CStoreUnsyncLoad -> "Concurrent atomic store and `unsync_load` accesses."
  | CMutLoad -> "Concurrent atomic load and unsync mut accesses."
  | CMutUnsyncLoad -> "Concurrent `unsync_load` and unsync mut accesses."
  | CMutStore -> "Concurrent atomic store and unsync mut accesses."
  | CMutMut -> "Concurrent unsync mut accesses."
  | CCellReadWrite -> "Concurrent read and write accesses."
  | CCellWriteWrite -> "Concurrent write accesses to `UnsafeCell`."
  | CCellWriteRead -> "Concurrent read and write accesses to `UnsafeCell`."

let state_char = function
  | Runnable -> 'R' | Blocked -> 'B' | Yielded -> 'Y' | Terminated -> 'T'

let internal s = "internal " ^ cut70 s

let panic_str = function
  | PanicPath PBranchLimit -> "branchlimit"
  | PanicPath PNondet ->
      internal "Reached unexpected exploration state. Is the model fully deterministic?"
  | PanicPath PNotCritical -> internal "not in critical state"
  | PanicPath PNotExploring -> internal "not in exploring state"
  | PanicPath (PInternal c) -> Printf.sprintf "internal-path %s" (nat_str c)
  | PanicDeadlock st ->
      "deadlock " ^ String.init (List.length st) (fun i -> state_char (List.nth st i))
  | PanicCausality k -> "causality " ^ causality_msg k
  | PanicLeak (LArc, i) -> "leak arc " ^ nat_str i
  | PanicLeak (LAlloc, i) -> "leak alloc " ^ nat_str i
  | PanicLeak (LMsgs, i) -> "leak msgs " ^ nat_str i
  | PanicUser -> "user"
  | PanicExpectLock -> internal "expected to be able to acquire lock"
  | PanicExpectRead -> internal "expected to be able to acquire read lock"
  | PanicExpectWrite -> internal "expected to be able to acquire write lock"
  | PanicNotified -> internal "assertion failed: state.notified"
  | PanicExpectMsg -> internal "expected to be able to read the message"
  | PanicArcReleased -> internal "Arc is already released"
  | PanicArcReleased2 -> internal "Arc is released"
  | PanicMaxThreads -> internal "assertion failed: self.threads.len() < self.max()"
  | PanicNotifyWaiter -> internal "only a single thread may wait on `Notify`: true"
  | PanicRelaxedFence -> internal "there is no such thing as a relaxed fence"
  | PanicMoEq -> internal "assertion `left != right` failed"
  | PanicRwCorrupt -> internal "loom::RwLock state corrupt: \"WouldBlock\""
  | PanicCellWriting -> internal "currently writing to cell"
  | PanicCellReading -> internal "currently reading from cell"
  | PanicMutating -> internal "atomic cell is in `with_mut` call"
  | PanicRwInvalid -> internal "invalid internal loom state"
  | PanicLazyShutdown -> internal "attempted to access lazy_static during shutdown"
  | PanicModel c -> Printf.sprintf "model-stuck %s" (nat_str c)

(* ---------- parsing programs ---------- *)
exception Bad of string

let words s = List.filter (fun w -> w <> "") (String.split_on_char ' ' (String.trim s))

let ord_of = function
  | "rlx" -> Relaxed | "rel" -> Release | "acq" -> Acquire | "ar" -> AcqRel | "sc" -> SeqCst
  | s -> raise (Bad ("ordering " ^ s))

let rmw_of = function
  | "swap" -> RSwap | "add" -> RAdd | "sub" -> RSub | "and" -> RAnd | "nand" -> RNand
  | "or" -> ROr | "xor" -> RXor | "max" -> RMax | "min" -> RMin
  | s -> raise (Bad ("rmw op " ^ s))

let nat_s s = nat_of_int (int_of_string s)
let optnat_s s = if s = "-" then None else Some (nat_s s)

let instr_of (s : string) : instr =
  match words s with
  | [ "sp"; b ] -> ISpawn (nat_s b)
  | [ "jn"; b ] -> IJoin (nat_s b)
  | [ "ld"; a; o ] -> ILoad (nat_s a, ord_of o)
  | [ "st"; a; v; o ] -> IStore (nat_s a, n_of_string v, ord_of o)
  | [ "rmw"; a; f; v; o ] -> IRmw (nat_s a, rmw_of f, n_of_string v, ord_of o)
  | [ "cas"; a; e; n; so; fo ] -> ICas (nat_s a, n_of_string e, n_of_string n, ord_of so, ord_of fo)
  | [ "fu"; a; f; v; so; fo ] -> IFetchUpdate (nat_s a, rmw_of f, n_of_string v, ord_of so, ord_of fo)
  | [ "fn"; o ] -> IFence (ord_of o)
  | [ "lk"; m ] -> ILock (nat_s m)
  | [ "tl"; m ] -> ITryLock (nat_s m)
  | [ "ul"; m ] -> IUnlock (nat_s m)
  | [ "rd"; r ] -> IRead (nat_s r)
  | [ "wr"; r ] -> IWrite (nat_s r)
  | [ "trd"; r ] -> ITryRead (nat_s r)
  | [ "twr"; r ] -> ITryWrite (nat_s r)
  | [ "urd"; r ] -> IUnread (nat_s r)
  | [ "uwr"; r ] -> IUnwrite (nat_s r)
  | [ "wt"; c; m ] -> IWait (nat_s c, nat_s m)
  | [ "n1"; c ] -> INotifyOne (nat_s c)
  | [ "na"; c ] -> INotifyAll (nat_s c)
  | [ "nw"; n ] -> INWait (nat_s n)
  | [ "nn"; n ] -> INNotify (nat_s n)
  | [ "pk" ] -> IPark
  | [ "up"; b ] -> IUnpark (nat_s b)
  | [ "sd"; h; v ] -> ISend (nat_s h, n_of_string v)
  | [ "rv"; h ] -> IRecv (nat_s h)
  | [ "trv"; h ] -> ITryRecv (nat_s h)
  | [ "drx"; h ] -> IDropRx (nat_s h)
  | [ "cr"; u ] -> ICellRead (nat_s u)
  | [ "cw"; u ] -> ICellWrite (nat_s u)
  | [ "yl" ] -> IYield
  | [ "aw"; a; v; o ] -> IAwait (nat_s a, n_of_string v, ord_of o)
  | [ "usl"; a ] -> IUnsyncLoad (nat_s a)
  | [ "wm"; a; v ] -> IWithMut (nat_s a, n_of_string v)
  | [ "ac"; k; i; j ] -> IArcClone (nat_s k, nat_s i, nat_s j)
  | [ "ad"; k; i ] -> IArcDrop (nat_s k, nat_s i)
  | [ "an"; k; i ] -> IArcCount (nat_s k, nat_s i)
  | [ "ag"; k; i ] -> IArcGetMut (nat_s k, nat_s i)
  | [ "au"; k; i ] -> IArcTryUnwrap (nat_s k, nat_s i)
  | [ "td"; k ] -> ITrackDrop (nat_s k)
  | [ "bo"; a; v; w ] -> IBlockOn (nat_s a, n_of_string v, nat_s w)
  | [ "wk"; w ] -> IWake (nat_s w)
  | [ "tkw"; w ] -> ITakeWaker (nat_s w)
  | [ "cn"; u; k ] -> ICellNested (nat_s u, nat_s k)
  | [ "bs"; a; v; b1; b2 ] -> IBlockOnS (nat_s a, n_of_string v, nat_s b1, nat_s b2)
  | [ "wme" ] -> IWakeMine
  | [ "tw"; k ] -> ITlsWith (nat_s k)
  | [ "lz"; k ] -> ILazyGet (nat_s k)
  | [ "pn" ] -> IPanic
  | [ "ex" ] -> IExplore
  | [ "sx" ] -> IStopExploring
  | [ "sk" ] -> ISkipBranch
  | _ -> raise (Bad ("instruction `" ^ s ^ "`"))

let decl_of (s : string) : decl =
  match s.[0] with
  | 'A' -> DAtomic (n_of_string (String.sub s 1 (String.length s - 1)))
  | 'M' -> DMutex | 'R' -> DRwLock | 'C' -> DCondvar | 'N' -> DNotify | 'H' -> DChan
  | 'U' -> DCell | 'K' -> DArc | 'T' -> DTrack | 'W' -> DWaker
  | _ -> raise (Bad ("decl " ^ s))

let parse_prog (line : string) : string * prog =
  match List.map String.trim (String.split_on_char '|' line) with
  | id :: cfg :: objs :: bodies when bodies <> [] ->
      let mt = ref 5 and mb = ref 1000 and pb = ref None and mp = ref None and ci = ref None
      and ee = ref false in
      List.iter
        (fun kv ->
          match String.split_on_char '=' kv with
          | [ "mt"; v ] -> mt := int_of_string v
          | [ "mb"; v ] -> mb := int_of_string v
          | [ "pb"; v ] -> pb := optnat_s v
          | [ "mp"; v ] -> mp := optnat_s v
          | [ "ci"; v ] -> ci := optnat_s v
          | [ "ee"; v ] -> ee := v <> "0"
          | _ -> raise (Bad ("cfg " ^ kv)))
        (words cfg);
      let c =
        { max_threads = nat_of_int !mt; max_branches = nat_of_int !mb; preemption_bound = !pb;
          max_permutations = !mp; checkpoint_interval = !ci; explicit_explore = !ee } in
      let decls = List.map decl_of (words objs) in
      let body s =
        List.filter_map
          (fun o -> if String.trim o = "" then None else Some (instr_of o))
          (String.split_on_char ';' s) in
      (id, { p_cfg = c; p_decls = decls; p_bodies = List.map body bodies })
  | _ -> raise (Bad "need id | cfg | objs | body0")

(* ---------- run mode ---------- *)
let big_fuel = nat_of_int 2_000_000
let iter_cap = ref 3001

let print_run (n : int) (id : string) (p : prog) =
  Printf.printf "PROG %d %s\n" n id;
  let (recs, fin), _ck = check (nat_of_int !iter_cap) big_fuel p in
  List.iter
    (fun r ->
      Printf.printf "BEGIN %s\n" (dump_path r.ir_begin);
      List.iter (fun l -> print_endline (log_str l)) r.ir_log;
      match r.ir_result with
      | IterDone -> Printf.printf "END %s\n" (dump_path r.ir_end)
      | IterPanic (PanicLeak _) -> Printf.printf "END %s\n" (dump_path r.ir_end)
      | _ -> ())
    recs;
  let iters = List.length recs in
  (match fin with
  | RunOk -> Printf.printf "RUN ok iters=%d\n" iters
  | RunPanic pn -> Printf.printf "RUN panic iters=%d %s\n" iters (panic_str pn)
  | RunFuel -> Printf.printf "RUN model-out-of-fuel iters=%d\n" iters);
  Printf.printf "DONE %d\n%!" n

let run_file file =
  let ic = open_in file in
  let n = ref 0 in
  (try
     while true do
       let line = String.trim (input_line ic) in
       if line <> "" && line.[0] <> '#' then begin
         let id, p = parse_prog line in
         print_run !n id p
       end;
       incr n
     done
   with End_of_file -> ());
  close_in ic


(* ---------- outcome keys (shared with tools/props.py) ---------- *)
let key_of_logs (logs : (int * int * string) list) : string =
  (* per body: the last result recorded for every pc (await polls collapse) *)
  let tbl = Hashtbl.create 16 in
  let is_num r = r <> "" && String.for_all (fun c -> c >= '0' && c <= '9') r in
  List.iter
    (fun (b, pc, r) ->
      (* a second result for the same instruction is a further poll of an await loop: keep the last
         value and the one bit "an earlier poll failed" (rendered like R's ROk) *)
      let r' = if Hashtbl.mem tbl (b, pc) && is_num r then "ok " ^ r else r in
      Hashtbl.replace tbl (b, pc) r')
    logs;
  let items = Hashtbl.fold (fun (b, pc) r acc -> (b, pc, r) :: acc) tbl [] in
  let items = List.sort compare items in
  let bodies = List.sort_uniq compare (List.map (fun (b, _, _) -> b) items) in
  String.concat ";"
    (List.map
       (fun b ->
         Printf.sprintf "%d:%s" b
           (String.concat ","
              (List.filter_map (fun (b', pc, r) -> if b' = b then Some (Printf.sprintf "%d=%s" pc r) else None) items)))
       bodies)

let rleak_str = function RLArc -> "arc" | RLAlloc -> "alloc" | RLMsgs -> "msgs"

let ref_keys ?(regions = false) ?(bounded = false) (weak : bool) (p : prog) : string list =
  let outs = if regions then ref_outcomes_regions big_fuel p
             else if bounded then ref_outcomes_bounded big_fuel p
             else ref_outcomes weak big_fuel p in
  let tbl = Hashtbl.create 64 in
  List.iter
    (fun o ->
      let k =
        match o with
        | OFinished (logs, leak) ->
            let flat =
              List.concat
                (List.mapi (fun b l -> List.map (fun (pc, r) -> (b, int_of_nat pc, result_str r)) l) logs) in
            (match leak with
            | None -> "ok|" ^ key_of_logs flat
            | Some (k, i) -> Printf.sprintf "leak %s %s|%s" (rleak_str k) (nat_str i) (key_of_logs flat))
        | ODeadlock -> "deadlock"
        | OPanic -> "panic"
        | OFuel -> "ref-out-of-fuel" in
      Hashtbl.replace tbl k ())
    outs;
  List.sort compare (Hashtbl.fold (fun k () acc -> k :: acc) tbl [])

let model_keys (p : prog) : string list * string =
  let (recs, fin), _ = check (nat_of_int !iter_cap) big_fuel p in
  let tbl = Hashtbl.create 64 in
  List.iter
    (fun r ->
      let flat =
        List.filter_map
          (function LOp (b, pc, x) -> Some (int_of_nat b, int_of_nat pc, result_str x) | _ -> None)
          r.ir_log in
      let k =
        match r.ir_result with
        | IterDone -> "ok|" ^ key_of_logs flat
        | IterPanic (PanicLeak (LArc, i)) -> Printf.sprintf "leak arc %s|%s" (nat_str i) (key_of_logs flat)
        | IterPanic (PanicLeak (LAlloc, i)) -> Printf.sprintf "leak alloc %s|%s" (nat_str i) (key_of_logs flat)
        | IterPanic (PanicLeak (LMsgs, i)) -> Printf.sprintf "leak msgs %s|%s" (nat_str i) (key_of_logs flat)
        | IterPanic (PanicDeadlock _) -> "deadlock"
        | IterPanic PanicUser -> "panic"
        | IterPanic PanicCellReading | IterPanic PanicCellWriting -> "panic"   (* loom's report of a nested cell access *)
        | IterPanic (PanicCausality _) -> "causality"
        | IterPanic pn -> "internal:" ^ panic_str pn
        | IterFuel -> "model-out-of-fuel" in
      Hashtbl.replace tbl k ())
    recs;
  let fin_s = match fin with RunOk -> "ok" | RunPanic pn -> "panic " ^ panic_str pn | RunFuel -> "fuel" in
  (List.sort compare (Hashtbl.fold (fun k () acc -> k :: acc) tbl []), fin_s)


(* ---------- C02/C03: RC11 outcome sets of litmus programs ---------- *)
(* The litmus threads are bodies 1..n; body 0 (main) only spawns and joins. *)
let rc11_keys (strong : bool) (p : prog) : string list =
  let bodies = p.p_bodies in
  let threads = match bodies with [] -> [] | _ :: t -> t in
  let decls = Array.of_list p.p_decls in
  let init (a : nat) : n =
    let i = int_of_nat a in
    if i < Array.length decls then (match decls.(i) with DAtomic v -> v | _ -> N0) else N0 in
  let fuel = S (rc11_enough_fuel threads) in
  let outs = rc11_outcomes strong (not strong) init threads fuel in
  let main = match bodies with [] -> [] | m :: _ -> m in
  let main_items = List.mapi (fun pc _ -> (0, pc, "-")) main in
  let tbl = Hashtbl.create 64 in
  List.iter
    (fun (o : n list list) ->
      let items =
        List.concat
          (List.mapi
             (fun ti (vals : n list) ->
               let body = List.nth threads ti in
               List.mapi
                 (fun pc v ->
                   let r =
                     match List.nth body pc with
                     | ILoad _ | IRmw _ -> string_of_n v
                     | ICas (_, e, _, _, _) -> (if string_of_n v = string_of_n e then "ok " else "err ") ^ string_of_n v
                     | _ -> "-" in
                   (ti + 1, pc, r))
                 vals)
             o) in
      Hashtbl.replace tbl ("ok|" ^ key_of_logs (main_items @ items)) ())
    outs;
  List.sort compare (Hashtbl.fold (fun k () acc -> k :: acc) tbl [])

let keys_file which file =
  let ic = open_in file in
  let n = ref 0 in
  (try
     while true do
       let line = String.trim (input_line ic) in
       if line <> "" && line.[0] <> '#' then begin
         let id, p = parse_prog line in
         Printf.printf "PROG %d %s\n" !n id;
         (match which with
         | `Ref w -> List.iter (fun k -> Printf.printf "K %s\n" k) (ref_keys w p)
         | `RefA -> List.iter (fun k -> Printf.printf "K %s\n" k) (ref_keys ~regions:true false p)
         | `RefB -> List.iter (fun k -> Printf.printf "K %s\n" k) (ref_keys ~bounded:true false p)
         | `Rc11 st -> List.iter (fun k -> Printf.printf "K %s\n" k) (rc11_keys st p)
         | `Model ->
             let ks, fin = model_keys p in
             List.iter (fun k -> Printf.printf "K %s\n" k) ks;
             Printf.printf "RUN %s\n" fin);
         Printf.printf "DONE %d\n%!" !n
       end;
       incr n
     done
   with End_of_file -> ());
  close_in ic


(* ---------- C12: numeric cases ---------- *)
let z_of_string (s : string) : z =
  let neg = String.length s > 0 && s.[0] = '-' in
  let body = if neg then String.sub s 1 (String.length s - 1) else s in
  let u = Int64.of_string ("0u" ^ body) in
  if Int64.equal u 0L then Z0 else if neg then Zneg (pos_of_int64 u) else Zpos (pos_of_int64 u)

let string_of_z = function
  | Z0 -> "0"
  | Zpos p -> Printf.sprintf "%Lu" (int64_of_pos p)
  | Zneg p -> "-" ^ Printf.sprintf "%Lu" (int64_of_pos p)

let nty_of = function
  | "u8" -> U8 | "u16" -> U16 | "u32" -> U32 | "u64" -> U64 | "usize" -> Usize
  | "i8" -> I8 | "i16" -> I16 | "i32" -> I32 | "i64" -> I64 | "isize" -> Isize
  | "bool" -> TBool | "ptr" -> TPtr
  | s -> raise (Bad ("type " ^ s))

let nrmw_of = function
  | "add" -> FAdd | "sub" -> FSub | "and" -> FAnd | "nand" -> FNand | "or" -> FOr | "xor" -> FXor
  | "max" -> FMax | "min" -> FMin
  | s -> raise (Bad ("nrmw " ^ s))

let nop_of (s : string) : nop =
  match words s with
  | [ "ld"; _ ] -> NLoad
  | [ "st"; v; _ ] -> NStore (z_of_string v)
  | [ "swap"; v; _ ] -> NSwap (z_of_string v)
  | [ "rmw"; f; v; _ ] -> NRmw (nrmw_of f, z_of_string v)
  | [ "cas"; e; n; _; _ ] -> NCas (z_of_string e, z_of_string n)
  | [ "casw"; e; n; _; _ ] -> NCasWeak (z_of_string e, z_of_string n)
  | [ "cswap"; e; n; _ ] -> NCompareAndSwap (z_of_string e, z_of_string n)
  | [ "fu"; f; v; _; _ ] -> NFetchUpdate (nrmw_of f, z_of_string v)
  | [ "fun"; _; _ ] -> NFetchUpdateNone
  | [ "wm"; v ] -> NWithMut (z_of_string v)
  | [ "usl" ] -> NUnsyncLoad
  | [ "ii" ] -> NIntoInner
  | _ -> raise (Bad ("num op `" ^ s ^ "`"))

let nres_str = function
  | NRUnit -> "-" | NRVal v -> string_of_z v | NROk v -> "ok " ^ string_of_z v | NRErr v -> "err " ^ string_of_z v

let num_file file =
  let ic = open_in file in
  (try
     while true do
       let line = String.trim (input_line ic) in
       if line <> "" && line.[0] <> '#' then begin
         match List.map String.trim (String.split_on_char '|' line) with
         | [ id; ty; init; ops ] ->
             let t = nty_of ty in
             let i = z_of_string init in
             let ol = List.filter_map (fun o -> if String.trim o = "" then None else Some (nop_of o)) (String.split_on_char ';' ops) in
             let wf = in_range t i && List.for_all (op_ok t) ol in
             let show (rs, fin) =
               let l = List.map nres_str rs in
               let ends_ii = match List.rev ol with NIntoInner :: _ -> true | _ -> false in
               String.concat "," (if ends_ii then l else l @ [ "final " ^ string_of_z fin ]) in
             Printf.printf "NUM %s | loom %s | std %s%s\n" id (show (loom_run t i ol)) (show (std_run t i ol))
               (if wf then "" else " | NOT-WELL-FORMED")
         | _ -> raise (Bad "num case")
       end
     done
   with End_of_file -> ());
  close_in ic

(* ---------- replay mode ---------- *)
(* parse a dump back into a path *)
let tstat_of_char = function
  | 'D' -> Disabled | 'S' -> Skip | 'Y' -> TYield | 'P' -> Pending | 'A' -> Active | 'V' -> Visited
  | c -> raise (Bad (Printf.sprintf "tstat %c" c))

let kv s =
  match String.index_opt s '=' with
  | Some i -> (String.sub s 0 i, String.sub s (i + 1) (String.length s - i - 1))
  | None -> raise (Bad ("kv " ^ s))

let parse_dump (s : string) : path =
  match List.map String.trim (String.split_on_char '|' s) with
  | [] -> raise (Bad "empty dump")
  | hd :: entries ->
      let h = List.map kv (words hd) in
      let g k = List.assoc k h in
      let entry e =
        match words e with
        | "S" :: r ->
            let f = List.map kv r in
            let g k = List.assoc k f in
            let th = g "th" in
            ESched
              { s_pre = nat_s (g "pre"); s_ia = optnat_s (g "ia");
                s_threads = List.init (String.length th) (fun i -> tstat_of_char th.[i]);
                s_prev = optnat_s (g "prev"); s_ex = g "ex" = "1" }
        | "L" :: r ->
            let f = List.map kv r in
            let g k = List.assoc k f in
            let vals = if g "vals" = "" then [] else List.map nat_s (String.split_on_char '.' (g "vals")) in
            ELoad { l_vals = vals; l_pos = nat_s (g "pos"); l_ex = g "ex" = "1" }
        | "P" :: r ->
            let f = List.map kv r in
            let g k = List.assoc k f in
            ESpur { p_spur = g "spur" = "1"; p_ex = g "ex" = "1" }
        | _ -> raise (Bad ("entry " ^ e)) in
      { bound = optnat_s (g "bound"); pos = nat_s (g "pos"); branches = List.map entry entries;
        exploring = g "ex" = "1"; skipping = g "skip" = "1"; eos = g "eos" = "1"; cap = nat_s (g "cap") }

let starts_with p s = String.length s >= String.length p && String.sub s 0 (String.length p) = p
let after p s = String.sub s (String.length p) (String.length s - String.length p)

let ppanic_str = function
  | PBranchLimit -> "branchlimit" | PNondet -> "nondet" | PNotCritical -> "notcritical"
  | PNotExploring -> "notexploring" | PInternal c -> "internal" ^ nat_str c

(* Replays one harness output. For every iteration: start from the BEGIN dump,
   apply each API call to the model's path, compare every return value, compare
   the END dump, and compare step(END) with the next BEGIN. Prints one line per
   mismatch and a summary. *)
let replay_file file =
  let ic = open_in file in
  let cur : path option ref = ref None in
  let last_end : path option ref = ref None in
  let prog = ref "" and iter = ref 0 in
  let mism = ref 0 and calls = ref 0 and iters = ref 0 and steps = ref 0 and progs = ref 0 in
  let dead = ref false in
  (* dead: the model's path went into an error state for this iteration; the
     implementation must then have panicked (no END) *)
  let pending_seed : tstat list option ref = ref None in
  let report what =
    incr mism;
    if !mism <= 20 then Printf.printf "MISMATCH prog=%s iter=%d %s\n" !prog !iter what in
  let apply_res name r k =
    match r with
    | POk x -> k x
    | PErr e ->
        dead := true;
        Printf.printf "NOTE prog=%s iter=%d model %s -> panic %s\n" !prog !iter name (ppanic_str e) in
  (try
     while true do
       let line = input_line ic in
       if starts_with "PROG " line then begin
         prog := after "PROG " line; iter := 0; cur := None; last_end := None; incr progs
       end
       else if starts_with "BEGIN " line then begin
         incr iter; incr iters; dead := false; pending_seed := None;
         let p = parse_dump (after "BEGIN " line) in
         (match !last_end with
         | Some e ->
             incr steps;
             (match step e with
             | Some p' -> if dump_path p' <> dump_path p then report ("step: model " ^ dump_path p' ^ " impl " ^ dump_path p)
             | None -> report "step: model says exploration finished but impl continues")
         | None -> ());
         last_end := None;
         cur := Some p
       end
       else if starts_with "END " line then begin
         let p = parse_dump (after "END " line) in
         (match !cur with
         | Some c when not !dead ->
             if dump_path c <> dump_path p then report ("end: model " ^ dump_path c ^ " impl " ^ dump_path p)
         | _ -> if !dead then report "impl reached END but the model's path panicked");
         last_end := Some p
       end
       else if starts_with "RUN " line then begin
         (match !last_end, words line with
         | Some e, "RUN" :: "ok" :: _ ->
             (* normal termination: step must report exhaustion, unless max_permutations stopped it *)
             incr steps;
             (match step e with None -> () | Some _ -> Printf.printf "NOTE prog=%s run ended with alternatives left (limit)\n" !prog)
         | _ -> ());
         last_end := None
       end
       else if starts_with "API " line && not !dead then begin
         incr calls;
         match !cur with
         | None -> report "API line outside an iteration"
         | Some c -> (
             match words (after "API " line) with
             | [ "explore" ] -> apply_res "explore" (explore_state c) (fun p -> cur := Some p)
             | [ "critical" ] -> apply_res "critical" (critical c) (fun p -> cur := Some p)
             | [ "skip" ] -> cur := Some (skip_branch c)
             | "push_load" :: _ ->
                 let s = after "API push_load " line in
                 let s = String.sub s 1 (String.length s - 2) in
                 let seed = if String.trim s = "" then [] else List.map (fun x -> nat_s (String.trim x)) (String.split_on_char ',' s) in
                 apply_res "push_load" (push_load c seed) (fun p -> cur := Some p)
             | [ "branch_load"; "->"; v ] ->
                 apply_res "branch_load" (branch_load c) (fun (p, r) ->
                     if nat_str r <> v then report (Printf.sprintf "branch_load: model %s impl %s" (nat_str r) v);
                     cur := Some p)
             | [ "branch_spurious" ] -> ()
             | [ "branch_spurious"; "->"; v ] ->
                 apply_res "branch_spurious" (branch_spurious c) (fun (p, r) ->
                     if b01 r <> v then report (Printf.sprintf "branch_spurious: model %s impl %s" (b01 r) v);
                     cur := Some p)
             | [ "branch_thread"; "seed"; th ] ->
                 (* the entry's thread array right after the seed loop *)
                 pending_seed := Some (List.init (String.length th) (fun i -> tstat_of_char th.[i]))
             | [ "branch_thread"; "->"; v ] ->
                 let seed =
                   match !pending_seed with
                   | Some s -> s
                   | None -> [] (* not traversed: the seed is not consumed *) in
                 if is_traversed c && !pending_seed = None then report "branch_thread: impl did not create an entry where the model is traversed";
                 if (not (is_traversed c)) && !pending_seed <> None then report "branch_thread: impl created an entry where the model replays";
                 pending_seed := None;
                 apply_res "branch_thread" (branch_thread c seed) (fun (p, r) ->
                     if opt_str nat_str r <> v then report (Printf.sprintf "branch_thread: model %s impl %s" (opt_str nat_str r) v);
                     cur := Some p)
             | [ "backtrack"; pt; th ] ->
                 apply_res "backtrack" (backtrack c (nat_s pt) (nat_s th)) (fun p -> cur := Some p)
             | _ -> report ("unknown API line: " ^ line))
       end
     done
   with End_of_file -> ());
  close_in ic;
  Printf.printf "REPLAY programs=%d iterations=%d api_calls=%d steps=%d mismatches=%d\n" !progs !iters !calls !steps !mism;
  if !mism > 0 then exit 1

let () =
  let args = Array.to_list Sys.argv in
  let rec strip = function
    | "--cap" :: n :: rest -> iter_cap := int_of_string n + 1; strip rest
    | x :: rest -> x :: strip rest
    | [] -> [] in
  match strip args with
  | [ _; "run"; f ] -> run_file f
  | [ _; "replay"; f ] -> replay_file f
  | [ _; "num"; f ] -> num_file f
  | [ _; "ref"; f ] -> keys_file (`Ref false) f
  | [ _; "refw"; f ] -> keys_file (`Ref true) f
  | [ _; "refa"; f ] -> keys_file (`RefA) f
  | [ _; "refb"; f ] -> keys_file (`RefB) f
  | [ _; "rc11s"; f ] -> keys_file (`Rc11 true) f
  | [ _; "rc11w"; f ] -> keys_file (`Rc11 false) f
  | [ _; "keys"; f ] -> keys_file `Model f
  | _ ->
      prerr_endline "usage: driver run|ref|keys <programs> | replay <harness-output>";
      exit 2
