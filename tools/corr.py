#!/usr/bin/env python3
"""Correspondence machinery: run programs on the real loom (harness) and on the
extracted model (driver) and compare, program by program."""
import os
import subprocess
import sys

ROOT = os.path.dirname(os.path.dirname(os.path.abspath(__file__)))
HARNESS = os.path.join(ROOT, "harness/target/release/loom-verif-harness")
DRIVER = os.path.join(ROOT, "ocaml/driver")


def clean_env():
    env = {k: v for k, v in os.environ.items() if not k.startswith("LOOM_")}
    return env


def split_progs(text):
    """-> dict index -> list of lines (between PROG and DONE); incomplete ones flagged."""
    progs = {}
    cur = None
    for line in text.splitlines():
        if line.startswith("PROG "):
            cur = int(line.split()[1])
            progs[cur] = {"lines": [], "done": False}
        elif line.startswith("DONE "):
            if cur is not None:
                progs[cur]["done"] = True
            cur = None
        elif cur is not None:
            progs[cur]["lines"].append(line)
    return progs


SHARDS = max(1, min(8, (os.cpu_count() or 2) // 2))


def shard_files(progfile, k):
    """k files with the same line numbering as progfile; file j keeps the programs
    with index % k == j (the others are blank lines, which both the harness and the
    driver skip without renumbering)."""
    lines = open(progfile).read().splitlines()
    real = [i for i, l in enumerate(lines) if l.strip() and not l.startswith("#")]
    k = max(1, min(k, len(real)))
    if k == 1:
        return [progfile]
    files = []
    for j in range(k):
        keep = set(real[j::k])
        f = f"{progfile}.s{j}"
        open(f, "w").write("\n".join(l if i in keep else "" for i, l in enumerate(lines)) + "\n")
        files.append(f)
    return files


def _run_harness_one(progfile, nprogs, timeout, extra, cap):
    results = {}
    skip = 0
    raw = []
    # line numbers: the harness numbers programs by line index in the file
    while True:
        cmd = [HARNESS, "run", progfile, "--skip", str(skip), "--cap", str(cap)] + (extra or [])
        try:
            p = subprocess.run(cmd, capture_output=True, text=True, timeout=timeout, env=clean_env())
            out, code, timed = p.stdout, p.returncode, False
        except subprocess.TimeoutExpired as e:
            out = e.stdout.decode() if isinstance(e.stdout, bytes) else (e.stdout or "")
            code, timed = -9, True
        raw.append(out)
        progs = split_progs(out)
        last_incomplete = None
        for i, pr in progs.items():
            if pr["done"]:
                results[i] = {"lines": pr["lines"], "done": True, "crash": None}
            else:
                last_incomplete = i
        if code == 0 and last_incomplete is None:
            break
        if last_incomplete is None:
            # crashed between programs?
            if not progs:
                raise RuntimeError(f"harness failed without output: code={code}")
            last_incomplete = max(progs) + 1
            break
        results[last_incomplete] = {
            "lines": progs[last_incomplete]["lines"],
            "done": False,
            "crash": "timeout" if timed else f"exit {code}",
        }
        skip = last_incomplete + 1
        if skip >= nprogs:
            break
    return results, "".join(raw)


def run_harness(progfile, nprogs, timeout=600, extra=None, cap=3000, shards=None):
    """Runs the harness over the file (sharded over several processes), restarting
    after a crash/abort/timeout. Returns (dict index -> {"lines", "done", "crash"}, raw_text).
    The time limit is per process and generous: a program that hangs is found by it,
    a loaded machine must not be."""
    from concurrent.futures import ThreadPoolExecutor
    files = shard_files(progfile, shards or SHARDS)
    with ThreadPoolExecutor(len(files)) as ex:
        parts = list(ex.map(lambda f: _run_harness_one(f, nprogs, timeout, extra, cap), files))
    results, raw = {}, []
    for r, t in parts:
        results.update(r)
        raw.append(t)
    return results, "".join(raw)


def _big_stack():
    """the reference enumerations recurse deeply on some random programs: give the driver all the stack"""
    import resource
    try:
        resource.setrlimit(resource.RLIMIT_STACK, (resource.RLIM_INFINITY, resource.RLIM_INFINITY))
    except (ValueError, OSError):
        try:
            soft, hard = resource.getrlimit(resource.RLIMIT_STACK)
            resource.setrlimit(resource.RLIMIT_STACK, (hard, hard))
        except (ValueError, OSError):
            pass


def run_driver(mode, path, timeout=3600, cap=3000):
    """The extracted model / specification on a program file, sharded over several
    processes (modes whose input is a program file); other modes run as one process."""
    if mode not in ("run", "keys", "ref", "refw", "refa", "refb", "rc11s", "rc11w"):
        p = subprocess.run([DRIVER, mode, path, "--cap", str(cap)], capture_output=True, text=True, timeout=timeout, preexec_fn=_big_stack)
        return p.stdout, p.returncode, p.stderr
    from concurrent.futures import ThreadPoolExecutor
    files = shard_files(path, SHARDS)

    def one(f):
        p = subprocess.run([DRIVER, mode, f, "--cap", str(cap)], capture_output=True, text=True, timeout=timeout, preexec_fn=_big_stack)
        return p.stdout, p.returncode, p.stderr
    with ThreadPoolExecutor(len(files)) as ex:
        parts = list(ex.map(one, files))
    code = max((c for _, c, _ in parts), key=abs, default=0)
    return "".join(o for o, _, _ in parts), code, "".join(e for _, _, e in parts)


def strip_api(lines):
    """Drop the Path API trace and canonicalise what has no defined order:
    destructors of thread-locals / lazy statics run in HashMap order."""
    out = []
    run = []
    for l in lines:
        if l.startswith("API "):
            continue
        if l.startswith("D tls ") or l.startswith("D lazy ") or l.startswith("X tls "):
            run.append(l)
            continue
        if run:
            # destructors that run while a FAILING iteration is torn down (unwinding) are runtime
            # behaviour outside the model: not compared
            if not l.startswith("RUN panic"):
                out += sorted(run)
            run = []
        out.append(l)
    if run:
        out += sorted(run)
    return out


def compare(progfile, workdir, timeout=600):
    """Whole-run correspondence. Returns dict with counts and mismatches."""
    lines = [l for l in open(progfile).read().splitlines()]
    nprogs = len(lines)
    himpl, raw = run_harness(progfile, nprogs, timeout)
    open(os.path.join(workdir, "harness.out"), "w").write(raw)
    mout, code, err = run_driver("run", progfile)
    open(os.path.join(workdir, "model.out"), "w").write(mout)
    mprogs = split_progs(mout)
    res = {"programs": 0, "iterations": 0, "mismatches": [], "aborts": [], "badprog": 0, "outcomes": {}}
    if code != 0:
        res["mismatches"].append({"prog": None, "what": f"driver failed: {err[:300]}"})
        return res
    for i, pr in sorted(himpl.items()):
        line = lines[i]
        if pr["crash"]:
            res["aborts"].append({"index": i, "prog": line, "crash": pr["crash"]})
            continue
        hl = strip_api(pr["lines"])
        if hl and ("badprog" in hl[-1] or hl[-1].endswith(" capped")):
            res["badprog"] += 1
            continue
        ml = strip_api(mprogs.get(i, {"lines": []})["lines"])
        res["programs"] += 1
        res["iterations"] += sum(1 for l in hl if l.startswith("BEGIN "))
        if hl:
            oc = hl[-1].split(" ", 3)
            key = oc[1] if oc[1] == "ok" else " ".join(hl[-1].split()[3:5])
            res["outcomes"][key] = res["outcomes"].get(key, 0) + 1
        if hl != ml:
            k = 0
            while k < min(len(hl), len(ml)) and hl[k] == ml[k]:
                k += 1
            it = sum(1 for l in hl[:k + 1] if l.startswith("BEGIN "))
            res["mismatches"].append({
                "index": i, "prog": line, "iteration": it, "line": k,
                "impl": hl[k] if k < len(hl) else "<end>",
                "model": ml[k] if k < len(ml) else "<end>",
            })
    return res


if __name__ == "__main__":
    import json
    import tempfile
    pf = sys.argv[1]
    wd = tempfile.mkdtemp(prefix="corr", dir=os.path.join(ROOT, ".work")) if os.path.isdir(os.path.join(ROOT, ".work")) else tempfile.mkdtemp()
    r = compare(pf, wd)
    mm = r.pop("mismatches")
    print(json.dumps(r, indent=1)[:3000])
    for m in mm[:int(sys.argv[2]) if len(sys.argv) > 2 else 5]:
        print(json.dumps(m, indent=1))
    print("mismatches:", len(mm), "workdir", wd)
