#!/usr/bin/env python3
"""Program generators for the shared program language (see harness/src/prog.rs).

Every family has a deterministic bounded-exhaustive core and a seeded random
extension. All random choices come from one random.Random(seed)."""
import itertools
import random

ORDS_LOAD = ["rlx", "acq", "sc"]
ORDS_STORE = ["rlx", "rel", "sc"]
ORDS_RMW = ["rlx", "rel", "acq", "ar", "sc"]
ORDS_FENCE = ["rel", "acq", "ar", "sc"]
RMW_OPS = ["swap", "add", "sub", "and", "nand", "or", "xor", "max", "min"]


def cfg_str(mt=5, mb=1000, pb=None, mp=None, ci=None, ee=0):
    f = lambda v: "-" if v is None else str(v)
    return f"mt={mt} mb={mb} pb={f(pb)} mp={f(mp)} ci={f(ci)} ee={ee}"


def prog_line(pid, decls, bodies, **cfg):
    return " | ".join([pid, cfg_str(**cfg), " ".join(decls)] + [" ; ".join(b) for b in bodies])


class Gen:
    """Random generator of structurally valid programs."""

    def __init__(self, rng, kinds, nthreads, maxops, nobj=None):
        self.rng = rng
        self.kinds = kinds          # allowed object kinds, letters
        self.nthreads = nthreads
        self.maxops = maxops
        self.nobj = nobj

    def make(self, pid, **cfg):
        rng = self.rng
        decls = []
        byk = {}
        nobj = self.nobj or rng.randint(1, 3)
        # always have the kinds needed by dependent kinds
        kinds = [k for k in self.kinds if k not in 'PFY']
        for _ in range(nobj):
            k = rng.choice(kinds)
            if k == "C" and "M" not in [d[0] for d in decls]:
                byk.setdefault("M", []).append(len(decls))
                decls.append("M")
            byk.setdefault(k, []).append(len(decls))
            decls.append("A0" if k == "A" else k)
        self.store_val = 0
        nth = self.nthreads
        bodies = [[] for _ in range(nth)]
        # main spawns all, does its ops, joins (mostly)
        for t in range(nth):
            bodies[t] = self.body(t, byk, nth)
        main = []
        spawn_at = sorted(rng.sample(range(len(bodies[0]) + 1), 1) * (nth - 1)) if rng.random() < 0.3 else [0] * (nth - 1)
        ops = list(bodies[0])
        out = []
        # every thread gets its own handle of every Arc before anything else happens
        for kk in byk.get("K", []):
            for t in range(1, nth):
                out.append(f"ac {kk} 0 {t + 2}")
        idx = 0
        for t in range(1, nth):
            while idx < spawn_at[t - 1] and ops:
                out.append(ops.pop(0))
                idx += 1
            out.append(f"sp {t}")
        out += ops
        joinset = [t for t in range(1, nth) if rng.random() < 0.85]
        rng.shuffle(joinset)
        # sometimes interleave joins with trailing ops
        for t in joinset:
            out.append(f"jn {t}")
        if rng.random() < 0.3:
            out += self.body(0, byk, nth, n=rng.randint(1, 2), after_join=True)
        bodies[0] = out
        return prog_line(pid, decls, bodies, **cfg)

    def body(self, t, byk, nth, n=None, after_join=False):
        rng = self.rng
        n = n if n is not None else rng.randint(1, self.maxops)
        ops = []
        held = []  # (kind, obj)
        for _ in range(n):
            k = rng.choice(list(byk.keys()) + (["P"] if "P" in self.kinds else []) + (["F"] if "F" in self.kinds else []) + (["Y"] if "Y" in self.kinds else []))
            if k == "A":
                a = rng.choice(byk["A"])
                c = rng.random()
                if c < 0.35:
                    ops.append(f"ld {a} {rng.choice(ORDS_LOAD)}")
                elif c < 0.7:
                    self.store_val += 1
                    ops.append(f"st {a} {self.store_val} {rng.choice(ORDS_STORE)}")
                elif c < 0.85:
                    self.store_val += 1
                    ops.append(f"rmw {a} {rng.choice(RMW_OPS)} {self.store_val} {rng.choice(ORDS_RMW)}")
                elif c < 0.95:
                    self.store_val += 1
                    ops.append(f"cas {a} {rng.randint(0, self.store_val)} {self.store_val} {rng.choice(ORDS_RMW)} {rng.choice(ORDS_LOAD)}")
                else:
                    self.store_val += 1
                    ops.append(f"fu {a} add {self.store_val} {rng.choice(ORDS_RMW)} {rng.choice(ORDS_LOAD)}")
            elif k == "F":
                ops.append(f"fn {rng.choice(ORDS_FENCE)}")
            elif k == "Y":
                ops.append("yl")
            elif k == "M":
                m = rng.choice(byk["M"])
                if ("M", m) in held:
                    ops.append(f"ul {m}")
                    held.remove(("M", m))
                elif rng.random() < 0.25:
                    ops.append(f"tl {m}")
                    ops.append(f"ul {m}")
                else:
                    ops.append(f"lk {m}")
                    held.append(("M", m))
            elif k == "R":
                r = rng.choice(byk["R"])
                mine = [h for h in held if h[1] == r]
                if mine:
                    kind = mine[0][0]
                    ops.append(("urd " if kind == "RD" else "uwr ") + str(r))
                    held.remove(mine[0])
                else:
                    c = rng.random()
                    if c < 0.35:
                        ops.append(f"rd {r}"); held.append(("RD", r))
                    elif c < 0.7:
                        ops.append(f"wr {r}"); held.append(("WR", r))
                    elif c < 0.85:
                        ops.append(f"trd {r}"); ops.append(f"urd {r}")
                    else:
                        ops.append(f"twr {r}"); ops.append(f"uwr {r}")
            elif k == "C":
                c = rng.choice(byk["C"])
                ms = byk.get("M", [])
                x = rng.random()
                if x < 0.4 and ms:
                    m = rng.choice(ms)
                    if ("M", m) in held:
                        ops.append(f"wt {c} {m}")
                    else:
                        ops += [f"lk {m}", f"wt {c} {m}", f"ul {m}"]
                elif x < 0.8:
                    ops.append(f"n1 {c}")
                else:
                    ops.append(f"na {c}")
            elif k == "N":
                nn = rng.choice(byk["N"])
                ops.append(f"nw {nn}" if (t == 0 and rng.random() < 0.5) else f"nn {nn}")
            elif k == "H":
                h = rng.choice(byk["H"])
                if t == 0:
                    x = rng.random()
                    if x < 0.5:
                        ops.append(f"rv {h}")
                    elif x < 0.8:
                        ops.append(f"trv {h}")
                    elif x < 0.9:
                        self.store_val += 1
                        ops.append(f"sd {h} {self.store_val}")
                    else:
                        ops.append(f"drx {h}")
                else:
                    self.store_val += 1
                    ops.append(f"sd {h} {self.store_val}")
            elif k == "U":
                u = rng.choice(byk["U"])
                ops.append(f"cr {u}" if rng.random() < 0.5 else f"cw {u}")
            elif k == "K":
                # handle slots are owned by one thread each (a handle used by two threads at once is a
                # use-after-free in the harness, not a loom program): main owns 0 and 1, thread t owns
                # t+2 and t+5; main hands slot t+2 to thread t before spawning it (see make)
                kk = rng.choice(byk["K"])
                own = [0, 1] if t == 0 else [t + 2, t + 5]
                x = rng.random()
                if x < 0.3:
                    ops.append(f"ac {kk} {own[0]} {own[1]}")
                elif x < 0.6:
                    ops.append(f"ad {kk} {rng.choice(own)}")
                elif x < 0.75:
                    ops.append(f"an {kk} {rng.choice(own)}")
                elif x < 0.9:
                    ops.append(f"ag {kk} {rng.choice(own)}")
                else:
                    ops.append(f"au {kk} {rng.choice(own)}")
            elif k == "T":
                ops.append(f"td {rng.choice(byk['T'])}")
            elif k == "P":
                x = rng.random()
                if x < 0.5:
                    ops.append("pk")
                else:
                    ops.append(f"up {rng.randrange(nth)}" if not after_join else "pk")
        for kind, o in reversed(held):
            ops.append({"M": "ul", "RD": "urd", "WR": "uwr"}[kind] + f" {o}")
        return ops


def family_random(seed, n, kinds, nthreads=(2, 3), maxops=3, prefix="r", **cfg):
    rng = random.Random(seed)
    out = []
    for i in range(n):
        nth = rng.choice(list(nthreads))
        g = Gen(rng, kinds, nth, maxops)
        out.append(g.make(f"{prefix}{seed}_{i}", **cfg))
    return out


if __name__ == "__main__":
    import sys
    seed = int(sys.argv[1]) if len(sys.argv) > 1 else 1
    n = int(sys.argv[2]) if len(sys.argv) > 2 else 20
    kinds = sys.argv[3] if len(sys.argv) > 3 else "AMRCNHUKTPFY"
    for l in family_random(seed, n, list(kinds)):
        print(l)


# ----------------------------------------------------------------------------
# Deterministic bounded-exhaustive families. A family is described by the
# declared objects and, per thread, an alphabet of macro-operations (strings of
# one or more instructions, kept together so that guards are released, etc.).
def exhaustive(prefix, decls, alphabets, maxlen, main_pre=(), main_post=(), join=True, stride=1, limit=None, **cfg):
    """alphabets[0] is the main thread's alphabet, alphabets[t] thread t's.
    Every thread runs every sequence of 1..maxlen macro-ops (main: 0..maxlen).
    stride/limit subsample the product deterministically."""
    nth = len(alphabets)

    def seqs(alpha, lo):
        out = []
        for n in range(lo, maxlen + 1):
            out += [list(s) for s in itertools.product(alpha, repeat=n)]
        return out
    per = [seqs(alphabets[0], 0)] + [seqs(a, 1) for a in alphabets[1:]]
    lines = []
    k = 0
    for combo in itertools.product(*per):
        k += 1
        if (k - 1) % stride:
            continue
        bodies = []
        main = list(main_pre) + [f"sp {t}" for t in range(1, nth)]
        for m in combo[0]:
            main += m.split(";")
        if join:
            main += [f"jn {t}" for t in range(1, nth)]
        main += list(main_post)
        bodies.append([x.strip() for x in main])
        for t in range(1, nth):
            b = []
            for m in combo[t]:
                b += [x.strip() for x in m.split(";")]
            bodies.append(b)
        lines.append(prog_line(f"{prefix}{len(lines)}", decls, bodies, **cfg))
        if limit and len(lines) >= limit:
            break
    return lines


def fam_sync_core(tier="quick"):
    """F-sync: SC atomics, mutex, rwlock, channel, notify, condvar, park; 2-3 threads."""
    L = []
    big = tier != "quick"
    # atomics (sequentially consistent accesses), one and two locations
    a1 = ["ld 0 sc", "st 0 1 sc", "rmw 0 add 1 sc", "cas 0 0 5 sc sc"]
    a2 = ["ld 0 sc", "st 0 2 sc", "rmw 0 add 2 sc", "cas 0 0 6 sc sc"]
    L += exhaustive("syA", ["A0"], [a1, a2], 2, stride=1 if big else 3)
    b1 = ["st 0 1 sc", "ld 1 sc", "ld 0 sc"]
    b2 = ["st 1 1 sc", "ld 0 sc", "ld 1 sc"]
    L += exhaustive("syB", ["A0", "A0"], [b1, b2], 2, stride=1 if big else 3)
    c3 = ["ld 0 sc", "st 0 3 sc"]
    L += exhaustive("syC", ["A0"], [["ld 0 sc"], ["st 0 1 sc", "ld 0 sc"], c3], 2 if big else 1)
    # mutex with a visible operation inside the critical section
    m1 = ["lk 0 ; st 1 1 sc ; ul 0", "lk 0 ; ld 1 sc ; ul 0", "ld 1 sc"]
    m2 = ["lk 0 ; st 1 2 sc ; ul 0", "tl 0 ; st 1 3 sc ; ul 0", "ld 1 sc"]
    L += exhaustive("syM", ["M", "A0"], [m1, m2], 2, stride=1 if big else 2)
    # three threads contending on one mutex: every acquisition order
    L += exhaustive("syM3", ["M", "A0"], [["lk 0 ; rmw 1 add 1 sc ; ul 0", "st 1 5 sc ; lk 0 ; rmw 1 add 1 sc ; ul 0"],
                                           ["lk 0 ; rmw 1 add 10 sc ; ul 0", "ld 1 sc ; lk 0 ; rmw 1 add 10 sc ; ul 0"],
                                           ["lk 0 ; rmw 1 add 100 sc ; ul 0"]], 1)
    L += exhaustive("syM3b", ["M", "A0", "A0", "A0"], [["lk 0 ; ld 1 sc ; ld 2 sc ; rmw 3 add 1 sc ; ul 0"],
                                            ["st 1 1 sc ; lk 0 ; rmw 3 add 10 sc ; ul 0"],
                                            ["st 2 1 sc ; lk 0 ; rmw 3 add 100 sc ; ul 0"]], 1, join=True)
    L += exhaustive("syR3", ["R", "A0"], [["wr 0 ; rmw 1 add 1 sc ; uwr 0"], ["wr 0 ; rmw 1 add 10 sc ; uwr 0", "rd 0 ; ld 1 sc ; urd 0"],
                                           ["wr 0 ; rmw 1 add 100 sc ; uwr 0", "rd 0 ; ld 1 sc ; urd 0"]], 1)
    # rwlock
    r1 = ["rd 0 ; ld 1 sc ; urd 0", "wr 0 ; st 1 1 sc ; uwr 0"]
    r2 = ["rd 0 ; ld 1 sc ; urd 0", "wr 0 ; st 1 2 sc ; uwr 0", "trd 0 ; ld 1 sc ; urd 0", "twr 0 ; st 1 3 sc ; uwr 0"]
    L += exhaustive("syR", ["R", "A0"], [r1, r2], 2, stride=1 if big else 2)
    # channel: main receives, others send
    h0 = ["rv 0", "trv 0"]
    h1 = ["sd 0 1", "sd 0 2"]
    h2 = ["sd 0 3"]
    L += exhaustive("syH", ["H"], [h0, h1], 2, main_post=["drx 0"])
    L += exhaustive("syH3", ["H"], [h0, h1, h2], 2 if big else 1, main_post=["drx 0"])
    # notify / park
    n0 = ["nw 0", "ld 1 sc"]
    n1 = ["nn 0", "st 1 1 sc"]
    L += exhaustive("syN", ["N", "A0"], [n0, n1], 2)
    p0 = ["pk", "ld 0 sc"]
    p1 = ["up 0", "st 0 1 sc"]
    L += exhaustive("syP", ["A0"], [p0, p1], 2)
    # condvar with the usual predicate loop unrolled once
    c0 = ["lk 0 ; wt 1 0 ; ul 0", "lk 0 ; ld 2 sc ; ul 0"]
    c1 = ["lk 0 ; st 2 1 sc ; ul 0 ; n1 1", "n1 1", "na 1"]
    L += exhaustive("syC", ["M", "C", "A0"], [c0, c1], 2)
    return L


def fam_dead_core(tier="quick"):
    """F-dead: blocking primitives, early/late/double wake-ups, lock order."""
    big = tier != "quick"
    L = []
    # lock-order deadlocks (with a visible operation inside every critical section)
    d1 = ["lk 0 ; st 2 1 sc ; lk 1 ; st 2 2 sc ; ul 1 ; ul 0", "lk 1 ; st 2 3 sc ; lk 0 ; st 2 4 sc ; ul 0 ; ul 1", "lk 0 ; st 2 5 sc ; ul 0"]
    L += exhaustive("ddM", ["M", "M", "A0"], [d1, d1], 1)
    L += exhaustive("ddM3", ["M", "M", "A0"], [d1[:1], d1[1:2], d1], 1)
    # channel: recv without send, send/recv counts
    h0 = ["rv 0", "trv 0", "sd 0 9"]
    h1 = ["sd 0 1", "sd 0 2 ; sd 0 3"]
    L += exhaustive("ddH", ["H"], [h0, h1], 2, main_post=["drx 0"])
    # notify: wait with / without notification, double notify
    n0 = ["nw 0", "nw 0 ; nw 0"]
    n1 = ["nn 0", "nn 0 ; nn 0", "st 1 1 sc"]
    L += exhaustive("ddN", ["N", "A0"], [n0, n1], 1)
    # three waits on one Notify: at most ONE of the returns may be spurious
    L += exhaustive("ddNt", ["N", "A0"], [["nw 0 ; nw 0 ; nw 0", "nw 0 ; ld 1 sc ; nw 0 ; nw 0"], n1[:2]], 1)
    # park / unpark, including unpark of a thread blocked on a join or a lock
    p0 = ["pk", "pk ; pk", "ld 0 sc"]
    p1 = ["up 0", "up 0 ; up 0", "st 0 1 sc ; up 0", "up 0 ; st 0 1 sc"]
    L += exhaustive("ddP", ["A0"], [p0, p1], 1)
    L += exhaustive("ddPj", ["A0"], [[], p1], 1)
    pm0 = ["lk 1 ; st 0 1 sc ; ul 1", "lk 1 ; st 0 1 sc ; ul 1 ; pk"]
    pm1 = ["lk 1 ; st 0 2 sc ; ul 1 ; up 0", "up 0 ; lk 1 ; st 0 2 sc ; ul 1", "lk 1 ; up 0 ; st 0 2 sc ; ul 1"]
    L += exhaustive("ddPm", ["A0", "M"], [pm0, pm1], 1)
    # condvar: lost wake-up, notify before wait, notify_all
    c0 = ["lk 0 ; wt 1 0 ; ul 0", "lk 0 ; ld 2 sc ; ul 0 ; lk 0 ; wt 1 0 ; ul 0"]
    c1 = ["n1 1", "na 1", "lk 0 ; st 2 1 sc ; ul 0 ; n1 1", "n1 1 ; n1 1"]
    L += exhaustive("ddC", ["M", "C", "A0"], [c0, c1], 1)
    L += exhaustive("ddC3", ["M", "C", "A0"], [c0[:1], c0[:1], c1], 1)
    # two threads waiting on one condvar AT THE SAME TIME (each announces itself under the mutex, the notifier
    # takes the mutex after both announcements, so both are in wait): deadlock-free, every waiter must be woken
    for k, wake in enumerate((["n1 1", "n1 1"], ["n1 1", "na 1"], ["na 1"], ["n1 1", "lk 0", "ul 0", "n1 1"])):
        L.append(prog_line(f"ddCw{k}", ["M", "C", "A0", "A0"], [["sp 1", "sp 2", "aw 2 1 sc", "aw 3 1 sc", "lk 0", "ul 0"] + wake + ["jn 1", "jn 2"],
                                                              ["lk 0", "st 2 1 sc", "wt 1 0", "ul 0"], ["lk 0", "st 3 1 sc", "wt 1 0", "ul 0"]]))
    # rwlock
    r0 = ["rd 0 ; ld 1 sc ; urd 0", "wr 0 ; st 1 1 sc ; uwr 0", "rd 0 ; ld 1 sc ; wr 0 ; uwr 0 ; urd 0"]
    L += exhaustive("ddR", ["R", "A0"], [r0[:2], r0], 1)
    # join cycles are impossible (handles are owned by main); join of a blocked thread
    return L


def fam_lock_core(tier="quick"):
    """F-lock (C07): up to two mutexes and an rwlock, nested / overlapping
    sections, cells inside the sections to observe exclusion and hand-over."""
    big = tier != "quick"
    L = []
    m = ["lk 0 ; cw 1 ; ul 0", "lk 0 ; cr 1 ; ul 0", "tl 0 ; cr 1 ; ul 0"]
    L += exhaustive("lkM", ["M", "U"], [m, m], 2, stride=1 if big else 2)
    L += exhaustive("lkM3", ["M", "U"], [m[:1], m[:2], m], 1)
    mm = ["lk 0 ; cw 2 ; lk 1 ; cw 3 ; ul 1 ; ul 0", "lk 1 ; cr 3 ; ul 1", "lk 0 ; cr 2 ; ul 0 ; lk 1 ; cw 3 ; ul 1"]
    L += exhaustive("lkMM", ["M", "M", "U", "U"], [mm, mm], 1)
    r = ["rd 0 ; cr 1 ; urd 0", "wr 0 ; cw 1 ; uwr 0", "trd 0 ; cr 1 ; urd 0", "twr 0 ; cw 1 ; uwr 0"]
    L += exhaustive("lkR", ["R", "U"], [r, r], 2 if big else 1)
    L += exhaustive("lkR3", ["R", "U"], [r[:2], r[:2], r], 1)
    # critical sections with a visible operation inside (a scheduling point)
    v = ["lk 0 ; st 1 1 sc ; st 1 2 sc ; ul 0", "tl 0 ; ld 1 sc ; ul 0", "lk 0 ; ld 1 sc ; ul 0"]
    L += exhaustive("lkV", ["M", "A0"], [v, v], 1)
    # overlapping readers: a scheduling point inside the read sections, a writer after them
    rr = ["rd 0 ; cr 1 ; yl ; urd 0", "rd 0 ; yl ; cr 1 ; urd 0", "trd 0 ; cr 1 ; yl ; urd 0"]
    ww = ["wr 0 ; cw 1 ; uwr 0", "twr 0 ; cw 1 ; uwr 0", "wr 0 ; yl ; cw 1 ; uwr 0"]
    L += exhaustive("lkRR", ["R", "U"], [ww, rr, rr], 1)
    L += exhaustive("lkRW", ["R", "U"], [rr, rr, ww], 1)
    # mutex sections with a scheduling point inside
    my = ["lk 0 ; cw 1 ; yl ; cr 1 ; ul 0", "lk 0 ; yl ; cw 1 ; ul 0", "tl 0 ; cw 1 ; yl ; ul 0"]
    L += exhaustive("lkMY", ["M", "U"], [my, my], 1)
    L += exhaustive("lkMY3", ["M", "U"], [my[:1], my[:2], my], 1)
    return L


def fam_wait_core(tier="quick"):
    """F-wait (C08): condvar, notify, park, join."""
    big = tier != "quick"
    L = []
    c0 = ["lk 0 ; wt 1 0 ; cr 2 ; ul 0", "lk 0 ; cr 2 ; ul 0"]
    c1 = ["lk 0 ; cw 2 ; ul 0 ; n1 1", "lk 0 ; cw 2 ; n1 1 ; ul 0", "lk 0 ; cw 2 ; ul 0 ; na 1"]
    L += exhaustive("wtC", ["M", "C", "U"], [c0, c1], 1)
    L += exhaustive("wtC3", ["M", "C", "U"], [c0[:1], c0[:1], c1], 1)
    n0 = ["nw 0 ; cr 1", "nw 0 ; nw 0 ; cr 1"]
    n1 = ["cw 1 ; nn 0", "cw 1 ; nn 0 ; nn 0"]
    L += exhaustive("wtN", ["N", "U"], [n0, n1], 1)
    L += exhaustive("wtNt", ["N", "U"], [["nw 0 ; nw 0 ; nw 0 ; cr 1"], n1], 1)
    # at most ONE spurious return per Notify: three waits, three notifications gated by acknowledgements (so
    # they never coalesce behind the waiter's back and the program cannot deadlock); by the time the third wait
    # returns, two real notifications have been consumed, hence the store made before the second is visible
    L.append(prog_line("wtNg0", ["N", "A0", "U", "A0"], [["sp 1", "nw 0", "st 1 1 rlx", "nw 0", "st 3 1 rlx", "nw 0", "cr 2", "jn 1"],
                                                         ["nn 0", "aw 1 1 rlx", "cw 2", "nn 0", "aw 3 1 rlx", "nn 0"]]))
    p0 = ["pk ; cr 0", "ld 1 sc ; pk ; cr 0"]
    p1 = ["cw 0 ; up 0", "cw 0 ; st 1 1 sc ; up 0"]
    L += exhaustive("wtP", ["U", "A0"], [p0, p1], 1)
    # join: the child's writes are visible after join
    L += exhaustive("wtJ", ["U"], [[], ["cw 0"]], 1, main_post=["cr 0"])
    L += exhaustive("wtJ3", ["U", "U"], [[], ["cw 0"], ["cw 1"]], 1, main_post=["cr 0", "cr 1"])
    return L


def fam_chan_core(tier="quick"):
    """F-chan (C09): 1-3 senders and a receiver."""
    big = tier != "quick"
    L = []
    h0 = ["rv 0", "trv 0", "rv 0 ; rv 0"]
    h1 = ["sd 0 1", "sd 0 1 ; sd 0 2", "cw 1 ; sd 0 3"]
    h2 = ["sd 0 4", "cw 2 ; sd 0 5"]
    L += exhaustive("chA", ["H", "U", "U"], [h0, h1], 2, main_post=["drx 0"], stride=1 if big else 2)
    L += exhaustive("chB", ["H", "U", "U"], [h0, h1, h2], 1, main_post=["drx 0"])
    L += exhaustive("chC", ["H", "U", "U"], [["rv 0 ; cr 1", "rv 0 ; rv 0 ; cr 1 ; cr 2"], h1[2:], h2[1:]], 1, main_post=["drx 0"])
    L += exhaustive("chD", ["H"], [["rv 0"], ["sd 0 1"], ["sd 0 2"], ["sd 0 3"]], 1, main_post=["trv 0", "trv 0", "drx 0"])
    # several messages queued at once: every receive orders the receiver after the send of the message it takes
    L += exhaustive("chE", ["H", "U", "U"], [["rv 0 ; cr 1 ; rv 0 ; cr 2", "rv 0 ; cr 1", "trv 0 ; rv 0 ; cr 1 ; cr 2"],
                                               ["cw 1 ; sd 0 3 ; cw 2 ; sd 0 4", "cw 1 ; cw 2 ; sd 0 3 ; sd 0 4 ; sd 0 5"]], 1, main_post=["trv 0", "trv 0", "drx 0"])
    L += exhaustive("chF", ["H", "U", "U"], [["rv 0 ; rv 0 ; cr 1"], ["cw 1 ; sd 0 3"], ["sd 0 4", "sd 0 4 ; sd 0 5"]], 1, main_post=["trv 0", "drx 0"])
    # the receiver is NOT the thread with the smallest id: it blocks in a child while senders with smaller ids
    # are themselves about to send (flags make the schedules with a sender parked at its send reachable)
    L.append(prog_line("chG0", ["H", "A0"], [["sp 1", "sp 2", "sd 0 5", "jn 1", "jn 2"], ["ld 1 sc", "sd 0 6"], ["st 1 1 sc", "rv 0", "rv 0"]]))
    L.append(prog_line("chG1", ["H", "A0", "A0"], [["sp 1", "sp 2", "ld 1 sc", "ld 2 sc", "sd 0 5", "jn 1", "jn 2"], ["st 1 1 sc", "sd 0 6"], ["st 2 1 sc", "rv 0", "rv 0"]]))
    L.append(prog_line("chG2", ["H", "A0"], [["sp 1", "sp 2", "sp 3", "jn 1", "jn 2", "jn 3"], ["ld 1 sc", "sd 0 6"], ["ld 1 sc", "sd 0 7"], ["st 1 1 sc", "rv 0", "rv 0"]]))
    return L


def fam_leak_core(tier="quick"):
    """F-leak (C10): Arc handles, tracked allocations, channel contents."""
    L = []
    a0 = ["ad 0 0", "ac 0 0 1 ; ad 0 1", "ac 0 0 1", "au 0 0"]
    a1 = ["ad 0 2", "ac 0 2 3 ; ad 0 3 ; ad 0 2", "au 0 2", "ld 1 sc"]
    L += exhaustive("lkA", ["K", "A0"], [a0, a1], 1, main_pre=["ac 0 0 2"])
    t0 = ["td 0", "ld 2 sc"]
    t1 = ["td 1", "st 2 1 sc"]
    L += exhaustive("lkT", ["T", "T", "A0"], [t0, t1], 1)
    h0 = ["rv 0", "trv 0"]
    h1 = ["sd 0 1", "sd 0 1 ; sd 0 2"]
    L += exhaustive("lkH", ["H"], [h0, h1], 2)
    L += exhaustive("lkHd", ["H"], [h0, h1], 2, main_post=["drx 0"])
    # sends after the receiver is gone: the message comes back to the sender, nothing is held, nothing leaks
    L.append(prog_line("lkHs0", ["H"], [["drx 0", "sd 0 5"]]))
    L.append(prog_line("lkHs1", ["H"], [["sp 1", "jn 1", "drx 0", "sd 0 6", "sd 0 7"], ["sd 0 5"]]))
    L.append(prog_line("lkHs2", ["H", "H"], [["sp 1", "jn 1", "drx 0", "sd 0 6", "rv 1"], ["sd 0 5", "sd 1 8"]]))
    L.append(prog_line("lkHs3", ["H", "A0"], [["sp 1", "drx 0", "st 1 1 sc", "jn 1"], ["aw 1 1 sc", "sd 0 5", "sd 0 6"]]))
    return L


def fam_arc_core(tier="quick"):
    """F-arc (C11): clone, inspect, unwrap, drop in 2-3 threads."""
    big = tier != "quick"
    L = []
    a0 = ["an 0 0", "ag 0 0", "au 0 0", "ad 0 0", "ac 0 0 1 ; ad 0 1"]
    a1 = ["an 0 2", "ag 0 2", "au 0 2", "ad 0 2", "ac 0 2 3 ; ad 0 3"]
    L += exhaustive("arA", ["K"], [a0, a1], 2, main_pre=["ac 0 0 2"], main_post=["ad 0 0", "ad 0 2"], stride=1 if big else 2)
    a2 = ["an 0 4", "ad 0 4"]
    L += exhaustive("arB", ["K"], [a0[:2], a1[2:], a2], 1, main_pre=["ac 0 0 2", "ac 0 0 4"], main_post=["ad 0 0", "ad 0 2", "ad 0 4"])
    # four handles dropped by four threads with nothing else ordering them: every one of them can be the
    # last (the result of a drop says whether it destroyed the value)
    L.append(prog_line("arD0", ["K"], [["ac 0 0 1", "ac 0 0 2", "ac 0 0 3", "sp 1", "sp 2", "sp 3", "ad 0 0"], ["ad 0 1"], ["ad 0 2"], ["ad 0 3"]]))
    L.append(prog_line("arD1", ["K"], [["ac 0 0 1", "ac 0 0 2", "ac 0 0 3", "ac 0 0 4", "sp 1", "sp 2", "ad 0 0", "ad 0 4"], ["ad 0 1", "ad 0 3"], ["ad 0 2"]]))
    # ordering through the reference count: a get_mut / try_unwrap that finds the handle unique, and the
    # final drop, acquire the drops of the other handles (the relaxed flag orders nothing by itself)
    L.append(prog_line("arH0", ["K", "U", "A0"], [["ac 0 0 2", "sp 1", "aw 2 1 rlx", "ag 0 0", "cw 1", "jn 1", "ad 0 0"], ["cw 1", "ad 0 2", "st 2 1 rlx"]]))
    L.append(prog_line("arH1", ["K", "U", "A0"], [["ac 0 0 2", "sp 1", "aw 2 1 rlx", "au 0 0", "cw 1", "jn 1"], ["cw 1", "ad 0 2", "st 2 1 rlx"]]))
    L.append(prog_line("arH2", ["K", "U", "A0"], [["ac 0 0 2", "sp 1", "aw 2 1 rlx", "ad 0 0", "cw 1", "jn 1"], ["cw 1", "ad 0 2", "st 2 1 rlx"]]))
    L.append(prog_line("arD2", ["K"], [["ac 0 0 1", "ac 0 0 2", "ac 0 0 3", "sp 1", "sp 2", "sp 3", "an 0 0", "ad 0 0"], ["ad 0 1"], ["ad 0 2"], ["ad 0 3"]]))
    # three handles: EVERY earlier drop (not only the latest) happens-before the unique owner's access
    for k, fin in enumerate((["ag 0 0", "cw 1", "cw 3", "jn 1", "jn 2", "ad 0 0"], ["au 0 0", "cw 1", "cw 3", "jn 1", "jn 2"])):
        L.append(prog_line(f"arH{3 + k}", ["K", "U", "A0", "U", "A0"], [["ac 0 0 1", "ac 0 0 2", "sp 1", "sp 2", "aw 2 1 rlx", "aw 4 1 rlx"] + fin,
                                                                      ["cw 1", "ad 0 1", "st 2 1 rlx"], ["cw 3", "ad 0 2", "st 4 1 rlx"]]))
    return L


def fam_chain_spin():
    """Two threads spinning at the same time in a chain: main waits for thread 1, which waits for thread 2
    (the lowest thread indices spin, the highest one makes progress possible). Every loop exits in every
    fair execution, so the exploration must finish without the branch limit."""
    L = []
    for o_st, o_ld in (("rel", "acq"), ("rlx", "rlx"), ("sc", "sc")):
        L.append(prog_line(f"spC{o_st}0", ["A0", "A0"], [["sp 1", "sp 2", f"aw 1 1 {o_ld}", "jn 1", "jn 2"], [f"aw 0 1 {o_ld}", f"st 1 1 {o_st}"], [f"st 0 1 {o_st}"]]))
        L.append(prog_line(f"spC{o_st}1", ["A0", "A0"], [["sp 1", "sp 2", f"aw 1 1 {o_ld}", "jn 1", "jn 2"], [f"aw 0 1 {o_ld}", f"st 1 1 {o_st}"], ["yl", f"st 0 1 {o_st}"]]))
    L.append(prog_line("spC3", ["A0", "A0", "A0"], [["sp 1", "sp 2", "sp 3", "aw 2 1 acq", "jn 1", "jn 2", "jn 3"], ["aw 1 1 acq", "st 2 1 rel"], ["aw 0 1 acq", "st 1 1 rel"], ["st 0 1 rel"]], mb=400))
    return L


def fam_spin_litmus():
    """A thread that reads, yields and reads again while two threads store to the same atomic with no
    happens-before between the stores (the second store is triggered through a relaxed flag, so it EXECUTES
    later but is not ordered later): the value read before the yield may legally be read again after it when
    the other store is earlier in modification order. Litmus-shaped (main only spawns and joins): oracle RC11."""
    L = []
    for o in ("rlx", "acq"):
        L.append(prog_line(f"spL{o}0", ["A0", "A0"], [["sp 1", "sp 2", "sp 3", "jn 1", "jn 2", "jn 3"],
                                                     ["st 0 1 rlx", "st 1 1 rlx"], [f"ld 1 {o}", "st 0 2 rlx"], ["ld 0 rlx", "yl", "ld 0 rlx"]]))
    # (with TWO yields in the reading thread loom's yield rule -- not before another thread has run -- excludes
    # an outcome RC11 allows: three reads of the initial value while another thread reads the flag; not included)
    return L


def fam_spin_core(tier="quick"):
    """F-spin (C18): one await loop over atomics written once by another thread."""
    L = []
    for o_st in ("rlx", "rel", "sc"):
        for o_ld in ("rlx", "acq", "sc"):
            w = [f"st 0 1 {o_st}", f"st 1 7 rlx ; st 0 1 {o_st}", f"st 0 1 {o_st} ; st 1 7 rlx"]
            s = [f"aw 0 1 {o_ld}", f"aw 0 1 {o_ld} ; ld 1 rlx", f"ld 1 rlx ; aw 0 1 {o_ld}"]
            L += exhaustive(f"sp{o_st}{o_ld}a", ["A0", "A0"], [s, w], 1)
            L += exhaustive(f"sp{o_st}{o_ld}b", ["A0", "A0"], [w, s], 1)
    # two consecutive loops, the setter may have finished long before (the spinner is the only runnable thread)
    for o in ("rlx", "acq"):
        L += exhaustive(f"sp2{o}", ["A0", "A0", "A0"], [[f"aw 0 1 {o} ; aw 1 1 {o} ; ld 2 rlx", f"aw 1 1 {o} ; aw 0 1 {o}"],
                                                      ["st 0 1 rlx ; st 2 1 rlx ; st 1 1 rlx", "st 0 1 rel ; st 1 1 rel"]], 1)
        L += exhaustive(f"sp2{o}b", ["A0", "A0", "A0"], [["st 0 1 rlx ; st 2 1 rlx ; st 1 1 rlx"],
                                                       [f"aw 0 1 {o} ; aw 1 1 {o} ; ld 2 rlx"]], 1)
    # the setter goes on after establishing the condition and races with the spinner's continuation:
    # the spinner must also be scheduled immediately after the store it waited for (RMWs make the order visible)
    for o_st, o_ld in (("rel", "acq"), ("rlx", "rlx"), ("sc", "sc")):
        L += exhaustive(f"spW{o_st}", ["A0", "A0"], [[f"aw 0 1 {o_ld} ; rmw 1 add 10 rlx"], [f"st 0 1 {o_st} ; rmw 1 add 1 rlx", f"rmw 1 add 1 rlx ; st 0 1 {o_st} ; rmw 1 add 2 rlx"]], 1)
        L += exhaustive(f"spV{o_st}", ["A0", "A0"], [[f"st 0 1 {o_st} ; rmw 1 add 1 rlx"], [f"aw 0 1 {o_ld} ; rmw 1 add 10 rlx"]], 1)
    # a third thread that only reads
    L += exhaustive("sp3", ["A0", "A0"], [["aw 0 1 acq ; ld 1 rlx"], ["st 1 7 rlx ; st 0 1 rel"], ["ld 0 rlx", "ld 1 rlx"]], 1)
    # a loop whose condition can never hold: branch limit, small max_branches to keep it short
    L += exhaustive("spNever", ["A0"], [["aw 0 5 acq"], ["st 0 1 rel"]], 1, mb=60)
    return L


# ---------------------------------------------------------------------------- C12
NUM_TYPES = {
    "u8": (0, 2**8 - 1), "u16": (0, 2**16 - 1), "u32": (0, 2**32 - 1), "u64": (0, 2**64 - 1), "usize": (0, 2**64 - 1),
    "i8": (-2**7, 2**7 - 1), "i16": (-2**15, 2**15 - 1), "i32": (-2**31, 2**31 - 1), "i64": (-2**63, 2**63 - 1),
    "isize": (-2**63, 2**63 - 1), "bool": (0, 1), "ptr": (0, 2**64 - 1),
}
LOAD_ORDS = ["rlx", "acq", "sc"]
STORE_ORDS = ["rlx", "rel", "sc"]
RMW_ORDS = ["rlx", "rel", "acq", "ar", "sc"]


def boundary_values(lo, hi):
    vals = {lo, hi, 0, 1, lo + 1, hi - 1}
    if lo < 0:
        vals |= {-1, -2}
    k = 1
    while k <= hi:
        vals |= {k, k - 1, min(hi, k + 1)}
        if lo < 0 and -k >= lo:
            vals |= {-k, max(lo, -k - 1)}
        k *= 2
    return sorted(v for v in vals if lo <= v <= hi)


def num_case(rng, ty, cid, maxops=12):
    lo, hi = NUM_TYPES[ty]
    bv = boundary_values(lo, hi)

    def val():
        return rng.choice(bv) if rng.random() < 0.8 else rng.randint(lo, hi)
    cur_guess = val()
    init = cur_guess
    ops = []
    n = rng.randint(1, maxops)
    arith = ["add", "sub", "and", "nand", "or", "xor", "max", "min"]
    if ty == "bool":
        arith = ["and", "nand", "or", "xor"]
    for _ in range(n):
        c = rng.random()
        fo = rng.choice(LOAD_ORDS)
        if c < 0.12:
            ops.append(f"ld {rng.choice(LOAD_ORDS)}")
        elif c < 0.22:
            ops.append(f"st {val()} {rng.choice(STORE_ORDS)}")
        elif c < 0.30:
            ops.append(f"swap {val()} {rng.choice(RMW_ORDS)}")
        elif c < 0.55 and ty != "ptr":
            ops.append(f"rmw {rng.choice(arith)} {val()} {rng.choice(RMW_ORDS)}")
        elif c < 0.65:
            ops.append(f"cas {val()} {val()} {rng.choice(RMW_ORDS)} {fo}")
        elif c < 0.72:
            ops.append(f"casw {val()} {val()} {rng.choice(RMW_ORDS)} {fo}")
        elif c < 0.78:
            ops.append(f"cswap {val()} {val()} {rng.choice(RMW_ORDS)}")
        elif c < 0.86 and ty != "ptr":
            ops.append(f"fu {rng.choice(arith)} {val()} {rng.choice(RMW_ORDS)} {fo}")
        elif c < 0.90:
            ops.append(f"fun {rng.choice(RMW_ORDS)} {fo}")
        elif c < 0.95 and ty != "bool":
            ops.append(f"wm {val()}")
        else:
            ops.append("usl")
    if ty not in ("bool", "ptr") and rng.random() < 0.3:
        ops.append("ii")
    return f"{cid} | {ty} | {init} | " + " ; ".join(ops)


def fam_num(seed, per_type):
    rng = random.Random(seed)
    out = []
    # a fixed corpus of boundary cases first
    for ty, (lo, hi) in NUM_TYPES.items():
        if ty in ("bool", "ptr"):
            continue
        out.append(f"fx_{ty}_0 | {ty} | {hi} | rmw add 1 sc ; ld sc ; rmw sub 1 sc ; ld sc ; rmw nand {lo} sc ; rmw max {lo} sc ; rmw min {hi} sc")
        out.append(f"fx_{ty}_1 | {ty} | {lo} | rmw sub 1 rlx ; cas {hi} {lo} ar acq ; cas 0 1 sc sc ; fu add {hi} sc sc ; fun sc rlx ; wm {lo} ; usl ; cswap {lo} {hi} rel ; swap 0 ar ; ii")
        # more than MAX_ATOMIC_HISTORY stores: the ring wraps
        out.append(f"fx_{ty}_2 | {ty} | 0 | " + " ; ".join(f"st {i % (hi + 1)} rlx ; ld rlx" for i in range(1, 10)))
    for ty in NUM_TYPES:
        for i in range(per_type):
            out.append(num_case(rng, ty, f"n{seed}_{ty}_{i}"))
    return out


def with_cfg(line, **cfg):
    """Same program, other configuration."""
    parts = [p.strip() for p in line.split("|")]
    cur = dict(kv.split("=") for kv in parts[1].split())
    for k, v in cfg.items():
        cur[k] = "-" if v is None else str(v)
    parts[1] = " ".join(f"{k}={cur[k]}" for k in ("mt", "mb", "pb", "mp", "ci", "ee"))
    return " | ".join(parts)


def fam_bound_core(tier="quick"):
    """F-ctl for C15: small sync/atomic programs, to be run with preemption bounds 0..6 and unbounded."""
    big = tier != "quick"
    L = []
    a1 = ["ld 0 sc", "st 0 1 sc", "rmw 0 add 1 sc"]
    a2 = ["ld 0 sc", "st 0 2 sc", "rmw 0 add 2 sc"]
    L += exhaustive("pbA", ["A0"], [a1, a2], 2, stride=1 if big else 2)
    L += exhaustive("pbA3", ["A0"], [a1[:2], a2[:2], ["ld 0 sc", "st 0 3 sc"]], 1)
    m1 = ["lk 0 ; st 1 1 sc ; ul 0", "ld 1 sc"]
    m2 = ["lk 0 ; st 1 2 sc ; ul 0", "tl 0 ; st 1 3 sc ; ul 0"]
    L += exhaustive("pbM", ["M", "A0"], [m1, m2], 2)
    h0 = ["rv 0", "trv 0"]
    L += exhaustive("pbH", ["H"], [h0, ["sd 0 1", "sd 0 1 ; sd 0 2"]], 2, main_post=["drx 0"])
    L += exhaustive("pbN", ["N", "A0"], [["nw 0", "ld 1 sc"], ["nn 0", "st 1 1 sc"]], 2)
    # three runnable threads of read-modify-writes: alternatives at a branch point that cost the same
    # number of preemptions must all stay available
    L.append(prog_line("pbR0", ["A0", "A0"], [["sp 1", "sp 2", "rmw 1 swap 2 sc", "rmw 0 add 0 sc", "jn 1", "jn 2"], ["rmw 1 add 0 sc"], ["rmw 1 add 1 sc", "rmw 0 add 1 sc"]]))
    L.append(prog_line("pbR1", ["A0", "A0"], [["sp 1", "sp 2", "rmw 0 add 1 sc", "rmw 1 add 1 sc", "jn 1", "jn 2"], ["rmw 1 add 10 sc", "rmw 0 add 10 sc"], ["rmw 0 add 100 sc"]]))
    L.append(prog_line("pbR2", ["A0"], [["sp 1", "sp 2", "sp 3", "rmw 0 add 1 sc", "jn 1", "jn 2", "jn 3"], ["rmw 0 add 10 sc"], ["rmw 0 add 100 sc"], ["rmw 0 add 1000 sc"]]))
    return L


def fam_yield_dpor():
    """Programs whose outcome needs a yield_now to happen EARLIER than the point at which DPOR reverses the
    race that follows it (listed finding D24): the unbounded run misses the outcome, bounded runs find it
    through their conservative backtrack points."""
    return [
        prog_line("pbY0", ["A0"], [["sp 1", "rmw 0 add 1 sc", "st 0 5 sc", "jn 1"], ["yl", "ld 0 sc"]]),
        prog_line("pbY1", ["A0"], [["sp 1", "st 0 5 sc", "rmw 0 add 1 sc", "yl", "jn 1"], ["yl", "rmw 0 add 10 sc"]]),
        prog_line("pbY2", ["A0"], [["sp 1", "ld 0 sc", "ld 0 sc", "rmw 0 add 1 sc", "jn 1"], ["yl", "rmw 0 add 10 sc"]]),
        prog_line("pbY3", ["A0"], [["sp 1", "rmw 0 add 1 sc", "rmw 0 add 1 sc", "ld 0 sc", "jn 1"], ["yl", "rmw 0 add 10 sc"]]),
    ]


def fam_ctl_core(tier="quick"):
    """F-ctl for C19: placements of explore / stop_exploring / skip_branch."""
    L = []
    base = [
        (["A0"], [["st 0 1 sc", "ld 0 sc"], ["st 0 2 sc", "ld 0 sc"]]),
        (["M", "A0"], [["lk 0", "st 1 1 sc", "ul 0"], ["lk 0", "st 1 2 sc", "ul 0", "ld 1 sc"]]),
        (["A0", "A0"], [["st 0 1 rlx", "ld 1 rlx"], ["st 1 1 rlx", "ld 0 rlx"]]),
    ]
    n = 0
    for decls, (b0, b1) in base:
        # control calls in the main thread around its own operations and in the child
        for i in range(len(b0) + 1):
            for j in range(i, len(b0) + 1):
                main = ["sp 1"] + b0[:i] + ["sx"] + b0[i:j] + ["ex"] + b0[j:] + ["jn 1"]
                L.append(prog_line(f"ctS{n}", decls, [main, b1])); n += 1
        for i in range(len(b1) + 1):
            for j in range(i, len(b1) + 1):
                child = b1[:i] + ["sx"] + b1[i:j] + ["ex"] + b1[j:]
                L.append(prog_line(f"ctS{n}", decls, [["sp 1"] + b0 + ["jn 1"], child])); n += 1
        for i in range(len(b0) + 1):
            main = ["sp 1"] + b0[:i] + ["sk"] + b0[i:] + ["jn 1"]
            L.append(prog_line(f"ctK{n}", decls, [main, b1])); n += 1
        for i in range(len(b1) + 1):
            child = b1[:i] + ["sk"] + b1[i:]
            L.append(prog_line(f"ctK{n}", decls, [["sp 1"] + b0 + ["jn 1"], child])); n += 1
        # explicit explore: nothing is explored until explore() is called
        for i in range(len(b0) + 1):
            main = ["sp 1"] + b0[:i] + ["ex"] + b0[i:] + ["jn 1"]
            L.append(prog_line(f"ctE{n}", decls, [main, b1], ee=1)); n += 1
        L.append(prog_line(f"ctE{n}", decls, [["sp 1"] + b0 + ["jn 1"], b1], ee=1)); n += 1
        # misuse: explore while exploring, stop twice
        L.append(prog_line(f"ctX{n}", decls, [["sp 1", "ex"] + b0 + ["jn 1"], b1])); n += 1
        L.append(prog_line(f"ctX{n}", decls, [["sp 1", "sx", "sx"] + b0 + ["jn 1"], b1])); n += 1
        # a stopped region that comes before a skip_branch in program order: skipping must not leak into the next iteration
        L.append(prog_line(f"ctM{n}", decls, [["sp 1", "sx"] + b0[:1] + ["ex"] + b0[1:] + ["sk", "jn 1"], b1])); n += 1
        L.append(prog_line(f"ctM{n}", decls, [["sp 1"] + b0 + ["jn 1"], ["sx"] + b1[:1] + ["ex"] + b1[1:] + ["sk"]])); n += 1
    # regions made of RMWs (which read the latest store, so the region has one behaviour) racing with RMWs of
    # the other thread. The region's thread has an exploring scheduling point just before the region (X, an RMW
    # on an atomic nobody else touches): whatever is fixed inside the region, the other thread must still be
    # tried before X -- i.e. before the region as a whole -- and after the region (oracle: R with regions
    # executed as one block). Without such a point before the region nothing can be demanded: the first
    # decision would already be inside it.
    X = "rmw 2 add 1 rlx"
    rb = [
        (["rmw 0 add 1 sc", "rmw 1 add 1 sc"], ["rmw 1 add 10 sc"]),
        (["rmw 0 add 1 sc", "rmw 1 add 1 sc"], ["rmw 1 add 10 sc", "rmw 0 add 10 sc"]),
        (["cas 0 0 1 sc sc", "rmw 1 add 1 rlx"], ["rmw 1 add 10 rlx"]),
        (["ld 0 sc", "rmw 1 add 1 sc"], ["rmw 1 add 10 sc"]),
        (["rmw 1 add 1 sc"], ["rmw 1 add 10 sc"]),
    ]
    for b0, b1 in rb:
        decls = ["A0", "A0", "A0"]
        L.append(prog_line(f"ctR{n}", decls, [["sp 1", X, "sx"] + b0 + ["ex", "jn 1"], b1])); n += 1
        L.append(prog_line(f"ctR{n}", decls, [["sp 1", X, "sx"] + b0 + ["ex"] + b0[-1:] + ["jn 1"], b1])); n += 1
        L.append(prog_line(f"ctR{n}", decls, [["sp 1"] + b1 + ["jn 1"], [X, "sx"] + b0 + ["ex"]])); n += 1
    return L


def strip_controls(line):
    parts = [p.strip() for p in line.split("|")]
    out = parts[:3]
    for b in parts[3:]:
        ops = [o.strip() for o in b.split(";") if o.strip() not in ("ex", "sx", "sk")]
        out.append(" ; ".join(ops))
    return with_cfg(" | ".join(out), ee=0)


def fam_crash_core(tier="quick"):
    """F-crash (C06): a user panic at every position of every thread of small
    programs (holding locks, between operations, first/last), each followed by the
    same program without the panic so that 'a later run starts clean' is exercised."""
    big = tier != "quick"
    base = []
    base += exhaustive("crA", ["A0"], [["st 0 1 sc", "ld 0 sc"], ["st 0 2 sc", "ld 0 sc"]], 2, stride=2)
    base += exhaustive("crM", ["M", "A0"], [["lk 0 ; st 1 1 sc ; ul 0"], ["lk 0 ; st 1 2 sc ; ul 0", "tl 0 ; st 1 3 sc ; ul 0"]], 1)
    base += exhaustive("crR", ["R", "A0"], [["wr 0 ; st 1 1 sc ; uwr 0"], ["rd 0 ; ld 1 sc ; urd 0"]], 1)
    base += exhaustive("crH", ["H"], [["rv 0"], ["sd 0 1"]], 1, main_post=["drx 0"])
    base += exhaustive("crC", ["M", "C", "A0"], [["lk 0 ; wt 1 0 ; ul 0"], ["lk 0 ; st 2 1 sc ; ul 0 ; n1 1"]], 1)
    base += exhaustive("crN", ["N"], [["nw 0"], ["nn 0"]], 1)
    if not big:
        base = base[::2]
    L = []
    n = 0
    for b in base:
        parts = [p.strip() for p in b.split("|")]
        bodies = [[o.strip() for o in x.split(";") if o.strip()] for x in parts[3:]]
        for t, body in enumerate(bodies):
            for pos in range(len(body) + 1):
                nb = [list(x) for x in bodies]
                nb[t] = body[:pos] + ["pn"] + body[pos:]
                L.append(" | ".join([f"crP{n}", parts[1], parts[2]] + [" ; ".join(x) for x in nb]))
                n += 1
        L.append(" | ".join([f"crOK{n}"] + parts[1:]))
        n += 1
    # failures raised by loom's own assertions while a guard of the failing thread is alive: an access to a
    # cell from inside another access of the same thread (write in read, read in write, write in write) must
    # fail the run by an ordinary panic -- the guard's destructor runs during the unwinding -- and the clean
    # program after it must run as if nothing had happened
    for k in (0, 1, 2):
        L.append(prog_line(f"crU{n}", ["U", "A0"], [["cw 0", f"cn 0 {k}", "cr 0"]])); n += 1
        L.append(prog_line(f"crU{n}", ["U", "A0"], [["sp 1", "ld 1 sc", f"cn 0 {k}", "jn 1"], ["st 1 1 sc"]])); n += 1
        L.append(prog_line(f"crU{n}", ["U", "A0"], [["sp 1", "st 1 1 sc", "jn 1"], ["ld 1 sc", f"cn 0 {k}"]])); n += 1
        L.append(prog_line(f"crOK{n}", ["U", "A0"], [["cw 0", "cn 0 3", "cr 0"]])); n += 1
    # correct programs whose thread-local destructors use loom while their thread is being torn down (the
    # destructor of key 2 looks at key 0 of the same thread): the model must return normally
    for main, th in ((["sp 1", "tw 0", "tw 2", "jn 1"], ["tw 0", "tw 2"]), (["sp 1", "jn 1"], ["tw 2", "tw 0"]),
                     (["tw 2", "tw 0", "sp 1", "st 0 1 sc"], ["tw 0", "tw 2", "ld 0 sc"])):
        L.append(prog_line(f"crOK{n}", ["A0"], [main, th])); n += 1
    return L


# ---------------------------------------------------------------------------- litmus (C02, C03)
# a shape: list of threads; an op is ("W", loc, val) | ("R", loc) | ("U", loc, val) (fetch_add) | ("C", loc, exp, new)
LITMUS = {
    "SB": [[("W", 0, 1), ("R", 1)], [("W", 1, 1), ("R", 0)]],
    "MP": [[("W", 0, 1), ("W", 1, 1)], [("R", 1), ("R", 0)]],
    "LB": [[("R", 0), ("W", 1, 1)], [("R", 1), ("W", 0, 1)]],
    "S": [[("W", 0, 2), ("W", 1, 1)], [("R", 1), ("W", 0, 1)]],
    "R": [[("W", 0, 1), ("W", 1, 1)], [("W", 1, 2), ("R", 0)]],
    "CoRR": [[("W", 0, 1), ("W", 0, 2)], [("R", 0), ("R", 0)]],
    "CoWR": [[("W", 0, 1), ("R", 0)], [("W", 0, 2), ("R", 0)]],
    "CoRW": [[("R", 0), ("W", 0, 1)], [("W", 0, 2), ("R", 0)]],
    "22W": [[("W", 0, 1), ("W", 1, 2)], [("W", 1, 1), ("W", 0, 2)], [("R", 0), ("R", 0), ("R", 1), ("R", 1)]],
    "WRC": [[("W", 0, 1)], [("R", 0), ("W", 1, 1)], [("R", 1), ("R", 0)]],
    "RWC": [[("W", 0, 1)], [("R", 0), ("R", 1)], [("W", 1, 1), ("R", 0)]],
    "IRIW": [[("W", 0, 1)], [("W", 1, 1)], [("R", 0), ("R", 1)], [("R", 1), ("R", 0)]],
    "MPU": [[("W", 0, 1), ("W", 1, 1)], [("U", 1, 2)], [("R", 1), ("R", 0)]],
    "UU": [[("U", 0, 1), ("R", 0)], [("U", 0, 2), ("R", 0)]],
    "CAS": [[("C", 0, 0, 1), ("R", 0)], [("C", 0, 0, 2), ("R", 0)]],
    "WU": [[("W", 0, 1), ("R", 0)], [("U", 0, 2), ("R", 0)]],
    "MPRS": [[("W", 0, 1), ("W", 1, 1), ("W", 1, 2)], [("R", 1), ("R", 0)]],
    # coherence under interference: a thread's two stores are mo-ordered; another thread that has a store of
    # its own (or has read one) then reads the FIRST of them, which moves that store later in loom's
    # modification-order clocks; the first thread must still not read its own older store
    "ISA2": [[("W", 0, 1), ("W", 1, 1)], [("R", 1), ("W", 2, 1)], [("R", 2), ("R", 0)]],
    "CoWR2": [[("W", 0, 2), ("W", 0, 3), ("R", 0)], [("W", 0, 1), ("R", 0)]],
    "CoWR2r": [[("W", 0, 2), ("W", 0, 3), ("R", 0)], [("W", 0, 1), ("R", 0), ("R", 0)]],
    "CoWR2u": [[("W", 0, 2), ("U", 0, 8), ("R", 0)], [("W", 0, 1), ("R", 0)]],
}
L_ORD = {"R": ["rlx", "acq", "sc"], "W": ["rlx", "rel", "sc"], "U": ["rlx", "rel", "acq", "ar", "sc"], "C": ["rlx", "ar", "sc"]}
FENCES = [None, "rel", "acq", "ar", "sc"]


def litmus_line(pid, shape, ords, fences):
    """ords: per access ordering (flat list); fences: per thread a fence (or None) between its first two ops"""
    nloc = 1 + max(op[1] for th in shape for op in th)
    decls = ["A0"] * nloc
    bodies = [[f"sp {t}" for t in range(1, len(shape) + 1)] + [f"jn {t}" for t in range(1, len(shape) + 1)]]
    k = 0
    for t, th in enumerate(shape):
        b = []
        for i, op in enumerate(th):
            o = ords[k]
            k += 1
            if op[0] == "W":
                b.append(f"st {op[1]} {op[2]} {o}")
            elif op[0] == "R":
                b.append(f"ld {op[1]} {o}")
            elif op[0] == "U":
                b.append(f"rmw {op[1]} add {op[2]} {o}")
            else:
                fo = "rlx" if o == "rlx" else ("acq" if o == "ar" else "sc")
                b.append(f"cas {op[1]} {op[2]} {op[3]} {o} {fo}")
            if i == 0 and fences[t]:
                b.append(f"fn {fences[t]}")
        bodies.append(b)
    return prog_line(pid, decls, bodies)


def fam_litmus_core(tier="quick"):
    big = tier != "quick"
    L = []
    for name, shape in LITMUS.items():
        kinds = [op[0] for th in shape for op in th]
        nacc = len(kinds)
        heavy = len(shape) >= 3          # three and more threads: thousands of iterations per program
        if name in ("IRIW", "22W") and not big:
            continue
        assigns = []
        # uniform assignments
        assigns.append([L_ORD[k][0] for k in kinds])          # all relaxed
        assigns.append([("acq" if k == "R" else "rel" if k == "W" else "ar") for k in kinds])
        assigns.append(["sc"] * nacc)
        # release/acquire accesses around RMWs of every weaker ordering (release sequences)
        if "U" in kinds or "C" in kinds:
            for uo in ("rlx", "rel", "acq"):
                assigns.append([("acq" if k == "R" else "rel" if k == "W" else ("rlx" if (k == "C" and uo != "rlx") else uo)) for k in kinds])
        # one position strengthened / weakened at a time
        for i in range(nacc):
            if heavy and not big:
                break
            a = [L_ORD[k][0] for k in kinds]
            a[i] = "acq" if kinds[i] == "R" else "rel" if kinds[i] == "W" else "ar"
            assigns.append(a)
            a = [("acq" if k == "R" else "rel" if k == "W" else "ar") for k in kinds]
            a[i] = "rlx"
            assigns.append(a)
            a = ["sc"] * nacc
            a[i] = "acq" if kinds[i] == "R" else "rel" if kinds[i] == "W" else "ar"
            assigns.append(a)
        if big and nacc <= 4:
            assigns = [list(x) for x in itertools.product(*[L_ORD[k] for k in kinds])]
        seen = set()
        n = 0
        for a in assigns:
            if tuple(a) in seen:
                continue
            seen.add(tuple(a))
            L.append(litmus_line(f"lt{name}{n}", shape, a, [None] * len(shape)))
            n += 1
        # fences between the two accesses of each thread, over relaxed accesses
        rl = [L_ORD[k][0] for k in kinds]
        two = [t for t, th in enumerate(shape) if len(th) >= 2]
        fsets = FENCES if not heavy else ([None, "ar", "sc"] if big else [None, "sc"])
        if name in ("IRIW", "22W"):
            fsets = [None, "sc"]
        for fs in itertools.product(fsets, repeat=len(two)):
            if all(f is None for f in fs):
                continue
            fl = [None] * len(shape)
            for t, f in zip(two, fs):
                fl[t] = f
            L.append(litmus_line(f"lt{name}F{n}", shape, rl, fl))
            n += 1
    # a relay thread whose ONE fence both acquires (what the relaxed load before it read from a release
    # store) and releases (through the relaxed store after it): only ar / sc fences do both
    isa = LITMUS["ISA2"]
    for f in ("ar", "sc", "acq", "rel"):
        L.append(litmus_line(f"ltISA2R{f}", isa, ["rlx", "rel", "rlx", "rlx", "acq", "rlx"], [None, f, None]))
    L.append(litmus_line("ltISA2Rff", isa, ["rlx", "rlx", "rlx", "rlx", "rlx", "rlx"], ["rel", "ar", "acq"]))
    # a compare-exchange whose failure ordering is weaker than its success ordering: a FAILED exchange is a
    # load with the failure ordering (message passing through a flag that the exchange fails on)
    n = 0
    for so, fo in (("acq", "rlx"), ("ar", "rlx"), ("sc", "rlx"), ("sc", "acq"), ("ar", "acq"), ("rel", "rlx"), ("rlx", "rlx"), ("acq", "acq")):
        for ex in (0, 7):
            L.append(prog_line(f"ltMPcf{n}", ["A0", "A0"], [["sp 1", "sp 2", "jn 1", "jn 2"], ["st 0 1 rlx", "st 1 1 rel"], [f"cas 1 {ex} 5 {so} {fo}", "ld 0 rlx"]]))
            n += 1
        L.append(prog_line(f"ltMPcf{n}", ["A0", "A0"], [["sp 1", "sp 2", "jn 1", "jn 2"], ["st 0 1 rlx", "rmw 1 add 1 rel"], [f"cas 1 0 5 {so} {fo}", "ld 0 rlx"]]))
        n += 1
    # read-write coherence through ANOTHER thread's read: C reads A's store and releases, B acquires and
    # stores: A's store is mo-before B's, so B (and everybody who knows B's store) no longer reads A's
    corw = [[("W", 0, 1)], [("R", 0), ("W", 1, 1)], [("R", 1), ("W", 0, 2), ("R", 0)]]
    L.append(litmus_line("ltCoRWx0", corw, ["rlx", "rlx", "rel", "acq", "rlx", "rlx"], [None] * 3))
    L.append(litmus_line("ltCoRWx1", corw, ["rlx", "acq", "rel", "acq", "rel", "acq"], [None] * 3))
    L.append(litmus_line("ltCoRWx2", corw, ["rlx", "rlx", "rlx", "rlx", "rlx", "rlx"], [None, "rel", "acq"]))
    L.append(litmus_line("ltCoRWx3", [[("W", 0, 1)], [("U", 0, 0), ("W", 1, 1)], [("R", 1), ("W", 0, 2), ("U", 0, 0)]], ["rlx", "rlx", "rel", "acq", "rlx", "rlx"], [None] * 3))
    return L


def fam_litmus_heavy(tier="quick"):
    """Litmus programs with tens of thousands of executions: run on the implementation only (oracle RC11),
    without the model's whole-run correspondence, which would take minutes."""
    L = [litmus_line("lhRMWgap0", [[("W", 0, 10)], [("W", 0, 20), ("U", 0, 1)], [("R", 0), ("R", 0), ("R", 0)]], ["rlx"] * 6, [None] * 3)]
    if tier != "quick":
        L.append(litmus_line("lhRMWgap1", [[("W", 0, 10), ("R", 0)], [("W", 0, 20), ("U", 0, 1)], [("R", 0), ("R", 0)]], ["rlx"] * 6, [None] * 3))
        L.append(litmus_line("lhCoWR3", [[("W", 0, 10)], [("W", 0, 20), ("W", 0, 30), ("R", 0)], [("R", 0), ("R", 0)]], ["rlx"] * 6, [None] * 3))
    return L


def fam_race_core(tier="quick"):
    """F-race (C04): non-atomic accesses around every synchronisation idiom, 1-2 hops.
    Main spawns the threads in order (thread id = body index)."""
    L = []
    n = [0]

    def add(name, decls, bodies):
        main = [f"sp {t}" for t in range(1, len(bodies) + 1)] + [f"jn {t}" for t in range(1, len(bodies) + 1)]
        L.append(prog_line(f"rc{name}{n[0]}", decls, [main] + bodies))
        n[0] += 1
    ST = ["rlx", "rel", "sc"]
    LD = ["rlx", "acq", "sc"]
    FN = [None, "rel", "acq", "ar", "sc"]
    # message passing through one atomic flag, with await, all orderings and fences
    for so in ST:
        for lo in LD:
            for f1 in FN:
                for f2 in FN:
                    if (f1 or f2) and (so != "rlx" or lo != "rlx") and tier == "quick":
                        continue
                    w = ["cw 0"] + ([f"fn {f1}"] if f1 else []) + [f"st 1 1 {so}"]
                    r = [f"aw 1 1 {lo}"] + ([f"fn {f2}"] if f2 else []) + ["cr 0"]
                    add("MP", ["U", "A0"], [w, r])
    # the same without waiting: the reader reads the cell whatever it saw
    for so in ST:
        for lo in LD:
            add("MPn", ["U", "A0"], [["cw 0", f"st 1 1 {so}"], [f"ld 1 {lo}", "cr 0"]])
    # write after the flag: always a race with a reader that waited
    add("MPw", ["U", "A0"], [["st 1 1 rel", "cw 0"], ["aw 1 1 acq", "cr 0"]])
    # release sequence through another thread's RMW
    for ro in ["rlx", "rel", "acq", "ar", "sc"]:
        add("RS", ["U", "A0"], [["cw 0", "st 1 1 rel"], [f"rmw 1 swap 2 {ro}"], ["aw 1 2 acq", "cr 0"]])
        add("RSc", ["U", "A0"], [["cw 0", "st 1 1 rel"], [f"cas 1 1 2 {ro} rlx"], ["ld 1 acq", "cr 0"]])
    # a plain store by another thread breaks the sequence
    add("RSb", ["U", "A0"], [["cw 0", "st 1 1 rel"], ["st 1 2 rlx"], ["aw 1 2 acq", "cr 0"]])
    # same-thread later relaxed store (C++20: not in the release sequence)
    add("RSs", ["U", "A0"], [["cw 0", "st 1 1 rel", "st 1 2 rlx"], ["aw 1 2 acq", "cr 0"]])
    # two hops
    for o1 in [("rel", "acq"), ("rlx", "acq"), ("rel", "rlx"), ("sc", "sc")]:
        for o2 in [("rel", "acq"), ("rlx", "rlx")]:
            add("H2", ["U", "A0", "A0"], [["cw 0", f"st 1 1 {o1[0]}"], [f"aw 1 1 {o1[1]}", f"st 2 1 {o2[0]}"], [f"aw 2 1 {o2[1]}", "cr 0"]])
    # two hops where ONE fence of the relay thread plays both roles: it acquires what the relaxed load
    # before it read, and releases it through the relaxed store after it (only ar / sc do both)
    for f in ["ar", "sc", "acq", "rel"]:
        add("H2f", ["U", "A0", "A0"], [["cw 0", "st 1 1 rel"], ["aw 1 1 rlx", f"fn {f}", "st 2 1 rlx"], ["aw 2 1 acq", "cr 0"]])
    add("H2f", ["U", "A0", "A0"], [["cw 0", "st 1 1 rel"], ["aw 1 1 rlx", "fn ar", "rmw 2 add 1 rlx"], ["aw 2 1 rlx", "fn acq", "cr 0"]])
    add("H2f", ["U", "A0", "A0"], [["cw 0", "fn rel", "st 1 1 rlx"], ["aw 1 1 rlx", "fn sc", "st 2 1 rlx"], ["aw 2 1 rlx", "fn sc", "cr 0"]])
    add("H2u", ["A0", "A0", "A0"], [["wm 0 9", "st 1 1 rel"], ["aw 1 1 rlx", "fn ar", "st 2 1 rlx"], ["aw 2 1 acq", "usl 0"]])
    # an access made right AFTER a releasing operation is not covered by it: the acquirer's conflicting access
    # races with it (a read as the first operation after a release store / unlock / send / notify)
    for so, lo in (("rel", "acq"), ("sc", "sc")):
        add("AfR", ["U", "A0"], [[f"st 1 1 {so}", "cr 0"], [f"aw 1 1 {lo}", "cw 0"]])
        add("AfR", ["U", "A0"], [[f"rmw 1 add 1 {so}", "cr 0"], [f"aw 1 1 {lo}", "cw 0"]])
    add("AfM", ["U", "M", "A0"], [["lk 1", "st 2 1 sc", "ul 1", "cr 0"], ["aw 2 1 sc", "lk 1", "cw 0", "ul 1"]])
    add("AfH", ["U", "H"], [["sd 1 5", "cr 0"], ["rv 1", "cw 0"]])
    add("AfN", ["U", "N"], [["nn 1", "cr 0"], ["nw 1", "cw 0"]])
    add("AfU", ["A0", "A0"], [["st 1 1 rel", "usl 0"], ["aw 1 1 acq", "wm 0 9"]])
    # the same with the access BEFORE the release: ordered
    add("BfR", ["U", "A0"], [["cr 0", "st 1 1 rel"], ["aw 1 1 acq", "cw 0"]])
    # a FAILED compare-exchange acquires with its failure ordering only
    for so, fo in (("acq", "rlx"), ("sc", "rlx"), ("sc", "acq"), ("rlx", "rlx")):
        add("MPcf", ["U", "A0"], [["cw 0", "st 1 1 rel"], [f"cas 1 7 5 {so} {fo}", "cr 0"]])
    # Arc::get_mut returning the unique handle acquires the drops of the other handles: the former owner's
    # accesses happen-before the exclusive access (the flag is relaxed: it orders nothing by itself)
    L.append(prog_line(f"rcGm{n[0]}", ["K", "U", "A0"], [["ac 0 0 2", "sp 1", "aw 2 1 rlx", "ag 0 0", "cw 1", "jn 1", "ad 0 0"], ["cw 1", "ad 0 2", "st 2 1 rlx"]])); n[0] += 1
    L.append(prog_line(f"rcGm{n[0]}", ["K", "U", "A0"], [["ac 0 0 2", "sp 1", "aw 2 1 rlx", "au 0 0", "cw 1", "jn 1"], ["cw 1", "ad 0 2", "st 2 1 rlx"]])); n[0] += 1
    L.append(prog_line(f"rcGm{n[0]}", ["K", "U", "A0", "U", "A0"], [["ac 0 0 1", "ac 0 0 2", "sp 1", "sp 2", "aw 2 1 rlx", "aw 4 1 rlx", "ag 0 0", "cw 1", "cw 3", "jn 1", "jn 2", "ad 0 0"],
                                                                    ["cw 1", "ad 0 1", "st 2 1 rlx"], ["cw 3", "ad 0 2", "st 4 1 rlx"]])); n[0] += 1
    # locks
    add("Mx", ["U", "M"], [["lk 1", "cw 0", "ul 1"], ["lk 1", "cr 0", "ul 1"]])
    add("Mx", ["U", "M"], [["lk 1", "cw 0", "ul 1"], ["lk 1", "cw 0", "ul 1"], ["lk 1", "cr 0", "ul 1"]])
    add("Mxr", ["U", "M"], [["lk 1", "cw 0", "ul 1"], ["cr 0"]])
    add("Mxr", ["U", "M"], [["lk 1", "ul 1", "cw 0"], ["lk 1", "cr 0", "ul 1"]])
    add("Mxt", ["U", "M"], [["lk 1", "cw 0", "ul 1"], ["tl 1", "cr 0", "ul 1"]])
    add("Mx2", ["U", "M", "M"], [["lk 1", "cw 0", "ul 1"], ["lk 2", "cr 0", "ul 2"]])
    add("Rw", ["U", "R"], [["wr 1", "cw 0", "uwr 1"], ["rd 1", "cr 0", "urd 1"], ["rd 1", "cr 0", "urd 1"]])
    add("Rw", ["U", "R"], [["rd 1", "cr 0", "urd 1"], ["wr 1", "cw 0", "uwr 1"]])
    add("Rwr", ["U", "R"], [["rd 1", "cw 0", "urd 1"], ["rd 1", "cr 0", "urd 1"]])
    add("Rwo", ["U", "R"], [["rd 1", "cr 0", "yl", "urd 1"], ["rd 1", "yl", "cr 0", "urd 1"], ["wr 1", "cw 0", "uwr 1"]])
    add("Rwo", ["U", "R"], [["rd 1", "cr 0", "yl", "urd 1"], ["rd 1", "cr 0", "urd 1"], ["yl", "wr 1", "cw 0", "uwr 1"]])
    add("Mxy", ["U", "M"], [["lk 1", "cw 0", "yl", "ul 1"], ["lk 1", "yl", "cr 0", "ul 1"], ["lk 1", "cw 0", "ul 1"]])
    add("Rwt", ["U", "R"], [["wr 1", "cw 0", "uwr 1"], ["trd 1", "cr 0", "urd 1"], ["twr 1", "cw 0", "uwr 1"]])
    # channels
    add("Ch", ["U", "H"], [["cw 0", "sd 1 5"], ["rv 1", "cr 0"]])
    add("Ch", ["U", "H"], [["sd 1 5", "cw 0"], ["rv 1", "cr 0"]])
    add("Ch2", ["U", "U", "H"], [["cw 0", "sd 2 5"], ["cw 1", "sd 2 6"], ["rv 2", "rv 2", "cr 0", "cr 1"]])
    add("Ch2", ["U", "U", "H"], [["cw 0", "sd 2 5", "cw 1", "sd 2 6"], ["rv 2", "cr 0", "rv 2", "cr 1"]])
    add("Cht", ["U", "H"], [["cw 0", "sd 1 5"], ["trv 1", "cr 0"]])
    # two messages queued when the receiver starts (a relaxed flag orders execution, not happens-before): the
    # receive of the FIRST message does not cover what the sender did after sending it
    add("Chq", ["U", "H", "A0"], [["sd 1 5", "cw 0", "sd 1 6", "st 2 1 rlx"], ["aw 2 1 rlx", "rv 1", "cr 0", "rv 1"]])
    add("Chq", ["U", "H", "A0"], [["sd 1 5", "cw 0", "sd 1 6", "st 2 1 rlx"], ["aw 2 1 rlx", "rv 1", "rv 1", "cr 0"]])
    add("Chq", ["U", "H", "A0", "A0"], [["sd 1 5", "st 2 1 rlx"], ["aw 2 1 rlx", "cw 0", "sd 1 6", "st 3 1 rlx"], ["aw 3 1 rlx", "rv 1", "cr 0", "rv 1"]])
    # park / unpark (thread 2 parks, thread 1 unparks it)
    add("Pk", ["U", "A0"], [["cw 0", "up 2"], ["pk", "cr 0"]])
    add("Pk", ["U", "A0"], [["up 2", "cw 0"], ["pk", "cr 0"]])
    add("Pkn", ["U", "A0"], [["cw 0", "up 2"], ["ld 1 sc", "cr 0"]])
    # spawn / join only (main writes before spawning, reads after joining)
    L.append(prog_line(f"rcJn{n[0]}", ["U"], [["cw 0", "sp 1", "jn 1", "cr 0"], ["cr 0", "cw 0"]])); n[0] += 1
    L.append(prog_line(f"rcJn{n[0]}", ["U"], [["sp 1", "cw 0", "jn 1"], ["cr 0"]])); n[0] += 1
    L.append(prog_line(f"rcJn{n[0]}", ["U"], [["sp 1", "sp 2", "jn 1", "jn 2", "cr 0"], ["cw 0"], ["cr 0"]])); n[0] += 1
    # a lazy static that is already initialised is no rendezvous: an access acquires what the INITIALISER released,
    # it releases nothing itself
    L.append(prog_line(f"rcLz{n[0]}", ["U", "A0"], [["lz 0", "sp 1", "sp 2", "jn 1", "jn 2"], ["cw 0", "lz 0", "st 1 1 rlx"], ["aw 1 1 rlx", "lz 0", "cr 0"]])); n[0] += 1
    L.append(prog_line(f"rcLz{n[0]}", ["U", "A0"], [["lz 0", "sp 1", "sp 2", "jn 1", "jn 2"], ["cw 0", "lz 0", "st 1 1 rel"], ["aw 1 1 acq", "lz 0", "cr 0"]])); n[0] += 1
    # fences only
    add("Fsc", ["U", "A0"], [["cw 0", "fn sc", "st 1 1 rlx"], ["aw 1 1 rlx", "fn sc", "cr 0"]])
    add("Fsc", ["U", "A0"], [["cw 0", "fn sc"], ["fn sc", "cr 0"]])
    # atomics accessed without synchronisation (unsync_load / with_mut)
    for so in ST:
        add("Us", ["A0", "A0"], [[f"st 0 1 {so}", f"st 1 1 {so}"], ["aw 1 1 acq", "usl 0"]])
        add("Us", ["A0", "A0"], [["wm 0 7", f"st 1 1 {so}"], ["aw 1 1 acq", "ld 0 rlx"]])
    add("Us", ["A0"], [["st 0 1 rlx"], ["usl 0"]])
    add("Us", ["A0"], [["ld 0 rlx"], ["wm 0 3"]])
    add("Us", ["A0"], [["usl 0"], ["usl 0"]])
    add("Us", ["A0"], [["wm 0 3"], ["wm 0 4"]])
    return L


def fam_rw_recursive():
    """Correspondence only (no oracle: std leaves recursive read locking unspecified -- it may
    deadlock or panic): rt::RwLock keeps its readers as a set while the std lock inside the
    wrapper counts guards, so after `rd ; rd ; urd` the two disagree and the wrapper's
    `expect("loom::RwLock state corrupt")` fires when a writer is admitted."""
    P = [
        [["sp 1", "rd 0", "rd 0", "urd 0", "jn 1", "urd 0"], ["wr 0", "uwr 0"]],
        [["sp 1", "rd 0", "rd 0", "urd 0", "urd 0", "jn 1"], ["wr 0", "uwr 0"]],
        [["sp 1", "rd 0", "rd 0", "urd 0", "jn 1", "urd 0"], ["twr 0", "uwr 0"]],
        [["sp 1", "rd 0", "rd 0", "urd 0", "jn 1", "urd 0"], ["rd 0", "urd 0"]],
        [["sp 1", "rd 0", "trd 0", "urd 0", "st 1 1 sc", "urd 0", "jn 1"], ["ld 1 sc", "twr 0", "uwr 0"]],
    ]
    # not included: `rd 0 ; rd 0 ; urd 0 ; twr 0 ; urd 0` in ONE thread -- the "state corrupt" panic unwinds
    # through the remaining read guard, whose release panics again ("invalid internal loom state"): the
    # process aborts. Recursive read locking is unspecified in std (may deadlock or panic), so this is
    # recorded in DESIGN.md as an observation, not as a finding.
    return [prog_line(f"rwRR{i}", ["R", "A0"], b) for i, b in enumerate(P)]


def fam_tls_core(tier="quick"):
    """F-tls (C17): 1-2 thread-locals and lazy statics touched from 1-4 threads in all orders."""
    big = tier != "quick"
    L = []
    a = ["tw 0", "tw 1", "lz 0", "lz 1", "tw 0 ; tw 0", "lz 0 ; lz 0"]
    L += exhaustive("tlA", ["A0"], [a, a], 2, stride=1 if big else 3)
    b = ["st 0 1 sc ; lz 0", "ld 0 sc ; lz 0", "lz 0 ; st 0 2 sc", "tw 0 ; ld 0 sc"]
    L += exhaustive("tlB", ["A0"], [b, b], 1)
    L += exhaustive("tlC", ["A0"], [["lz 0"], ["lz 0 ; tw 0"], ["tw 0 ; lz 1"], ["lz 1 ; lz 0"]], 1)
    L += exhaustive("tlD", ["A0"], [b[:2], b[:2], b[2:]], 1)
    # single thread
    L.append(prog_line("tlS0", ["A0"], [["tw 0", "tw 1", "tw 0", "lz 0", "lz 0", "lz 1"]]))
    # a lazy static first used by a child and read by main after the join
    L.append(prog_line("tlS1", ["A0"], [["sp 1", "jn 1", "lz 0"], ["lz 0"]]))
    # not joined: the child may still run while main finishes (lazy statics are dropped by main)
    L += exhaustive("tlE", ["A0"], [["lz 0", "tw 0"], ["st 0 1 sc ; tw 0", "st 0 1 sc ; st 0 2 sc ; tw 1"]], 1, join=False)
    # thread-local 2 uses thread-local 0 of its own thread from its destructor (try_with while the
    # thread is torn down must report AccessError); only in threads that initialise thread-local 0
    d = ["tw 0 ; tw 2", "tw 2 ; tw 0", "tw 0 ; tw 2 ; tw 1 ; tw 2", "tw 0", "tw 1 ; tw 0 ; tw 2"]
    L += exhaustive("tlF", ["A0"], [d, d], 1)
    L.append(prog_line("tlS2", ["A0"], [["tw 2", "tw 0", "tw 2"]]))
    L += exhaustive("tlG", ["A0"], [["tw 0 ; tw 2"], d[:3], d[:3]], 1, join=False)
    # lazy static 2 has an initialiser with a scheduling point (yield_now): threads racing on the first access
    z = ["lz 2", "lz 2 ; lz 2", "lz 0 ; lz 2", "st 0 1 sc ; lz 2"]
    L += exhaustive("tlZ", ["A0"], [z, z], 1)
    L += exhaustive("tlY", ["A0"], [["lz 2"], ["lz 2"], ["lz 2", "ld 0 sc ; lz 2"]], 1)
    # an initialised lazy static is no rendezvous (race oracle in C17.extra)
    L.append(prog_line("tlRc0", ["U", "A0"], [["lz 0", "sp 1", "sp 2", "jn 1", "jn 2"], ["cw 0", "lz 0", "st 1 1 rlx"], ["aw 1 1 rlx", "lz 0", "cr 0"]]))
    L.append(prog_line("tlRc1", ["U", "A0"], [["lz 0", "sp 1", "sp 2", "jn 1", "jn 2"], ["cw 0", "lz 0", "st 1 1 rel"], ["aw 1 1 acq", "lz 0", "cr 0"]]))
    L.append(prog_line("tlS3", ["A0"], [["lz 2", "lz 2"]]))
    return L


def fam_fut_core(tier="quick"):
    """F-fut (C20): one blocked future and 1-2 waking threads; wake before / after / during
    the poll and the registration; missing wakes."""
    L = []
    w1 = ["st 0 1 rel ; wk 1", "wk 1 ; st 0 1 rel", "st 0 1 rel", "wk 1", "st 0 1 rlx ; wk 1", "st 0 2 rel ; wk 1 ; st 0 1 rel ; wk 1"]
    w2 = ["wk 1", "st 0 1 rel ; wk 1", "ld 0 acq"]
    # the future is driven by main
    L += exhaustive("fuA", ["A0", "W"], [["bo 0 1 1"], w1], 1, main_post=["tkw 1"])
    L += exhaustive("fuB", ["A0", "W"], [["bo 0 1 1"], w1[:3], w2], 1, main_post=["tkw 1"])
    # the future is driven by a child, main wakes
    L += exhaustive("fuC", ["A0", "W"], [w1[:4], ["bo 0 1 1"]], 1, main_post=["tkw 1"])
    # two futures in sequence on the same AtomicWaker
    L += exhaustive("fuD", ["A0", "W"], [["bo 0 1 1 ; bo 0 2 1"], ["st 0 1 rel ; wk 1 ; st 0 2 rel ; wk 1"]], 1, main_post=["tkw 1"])
    # nobody ever wakes / nobody ever stores
    L.append(prog_line("fuN0", ["A0", "W"], [["bo 0 1 1"]]))
    L.append(prog_line("fuN1", ["A0", "W"], [["sp 1", "bo 0 1 1", "jn 1"], ["wk 1"]]))
    L.append(prog_line("fuN2", ["A1", "W"], [["bo 0 1 1", "tkw 1"]]))
    # a second block_on on the same AtomicWaker after the first one finished WITHOUT being woken (its waker is
    # still registered): wake() must reach the latest registration
    L.append(prog_line("fuD2", ["A0", "W", "A0"], [["sp 1", "bo 0 1 1", "bo 2 1 1", "jn 1", "tkw 1"], ["st 0 1 rel", "st 2 1 rel", "wk 1"]]))
    L.append(prog_line("fuD4", ["A1", "W", "A0"], [["sp 1", "bo 0 1 1", "bo 2 1 1", "jn 1", "tkw 1"], ["st 2 1 rel", "wk 1"]]))
    # wakers handed out directly: the first Pending poll spawns the waking threads with one clone
    # of the waker each (no AtomicWaker in between, so the wake itself must carry the ordering)
    s1 = ["wme", "st 0 1 rlx ; wme", "st 0 1 rel ; wme", "wme ; st 0 1 rel", "st 0 1 rel", "wme ; wme"]
    for i, x in enumerate(s1):
        L.append(prog_line(f"fuS{i}", ["A0"], [["bs 0 1 1 0", "jn 1"], x.split(" ; ")]))
    s2 = [("wme", "st 0 1 rlx ; wme"), ("wme", "st 0 1 rel ; wme"), ("st 0 1 rlx ; wme", "wme"), ("wme", "st 0 1 rlx")]
    if tier != "quick":
        s2 += [("st 0 1 rlx ; wme", "st 0 1 rlx ; wme"), ("st 0 2 rlx ; wme", "st 0 1 rlx ; wme"), ("wme", "wme")]
    for i, (x, y) in enumerate(s2):
        L.append(prog_line(f"fuT{i}", ["A0"], [["bs 0 1 1 2"], x.split(" ; "), y.split(" ; ")]))
    # a value already there: no Pending poll, nobody is spawned
    L.append(prog_line("fuU0", ["A1"], [["bs 0 1 1 2"], ["wme"], ["wme"]]))
    return L
