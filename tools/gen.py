#!/usr/bin/env python3
"""Program generators for the shared program language (see harness/src/prog.rs).

Every family has a deterministic bounded-exhaustive core and a seeded random
extension. All random choices come from one random.Random(seed)."""
import itertools
import random

ORDS_LOAD = ["rlx", "acq", "sc"]
ORDS_STORE = ["rlx", "rel", "sc"]
ORDS_RMW = ["rlx", "rel", "acq", "ar", "sc"]
ORDS_FENCE = ["rel", "acq", "ar", "sc"]
RMW_OPS = ["swap", "add", "sub", "and", "nand", "or", "xor", "max", "min"]


def cfg_str(mt=5, mb=1000, pb=None, mp=None, ci=None, ee=0):
    f = lambda v: "-" if v is None else str(v)
    return f"mt={mt} mb={mb} pb={f(pb)} mp={f(mp)} ci={f(ci)} ee={ee}"


def prog_line(pid, decls, bodies, **cfg):
    return " | ".join([pid, cfg_str(**cfg), " ".join(decls)] + [" ; ".join(b) for b in bodies])


class Gen:
    """Random generator of structurally valid programs."""

    def __init__(self, rng, kinds, nthreads, maxops, nobj=None):
        self.rng = rng
        self.kinds = kinds          # allowed object kinds, letters
        self.nthreads = nthreads
        self.maxops = maxops
        self.nobj = nobj

    def make(self, pid, **cfg):
        rng = self.rng
        decls = []
        byk = {}
        nobj = self.nobj or rng.randint(1, 3)
        # always have the kinds needed by dependent kinds
        kinds = [k for k in self.kinds if k not in 'PFY']
        for _ in range(nobj):
            k = rng.choice(kinds)
            if k == "C" and "M" not in [d[0] for d in decls]:
                byk.setdefault("M", []).append(len(decls))
                decls.append("M")
            byk.setdefault(k, []).append(len(decls))
            decls.append("A0" if k == "A" else k)
        self.store_val = 0
        nth = self.nthreads
        bodies = [[] for _ in range(nth)]
        # main spawns all, does its ops, joins (mostly)
        for t in range(nth):
            bodies[t] = self.body(t, byk, nth)
        main = []
        spawn_at = sorted(rng.sample(range(len(bodies[0]) + 1), 1) * (nth - 1)) if rng.random() < 0.3 else [0] * (nth - 1)
        ops = list(bodies[0])
        out = []
        idx = 0
        for t in range(1, nth):
            while idx < spawn_at[t - 1] and ops:
                out.append(ops.pop(0))
                idx += 1
            out.append(f"sp {t}")
        out += ops
        joinset = [t for t in range(1, nth) if rng.random() < 0.85]
        rng.shuffle(joinset)
        # sometimes interleave joins with trailing ops
        for t in joinset:
            out.append(f"jn {t}")
        if rng.random() < 0.3:
            out += self.body(0, byk, nth, n=rng.randint(1, 2), after_join=True)
        bodies[0] = out
        return prog_line(pid, decls, bodies, **cfg)

    def body(self, t, byk, nth, n=None, after_join=False):
        rng = self.rng
        n = n if n is not None else rng.randint(1, self.maxops)
        ops = []
        held = []  # (kind, obj)
        for _ in range(n):
            k = rng.choice(list(byk.keys()) + (["P"] if "P" in self.kinds else []) + (["F"] if "F" in self.kinds else []) + (["Y"] if "Y" in self.kinds else []))
            if k == "A":
                a = rng.choice(byk["A"])
                c = rng.random()
                if c < 0.35:
                    ops.append(f"ld {a} {rng.choice(ORDS_LOAD)}")
                elif c < 0.7:
                    self.store_val += 1
                    ops.append(f"st {a} {self.store_val} {rng.choice(ORDS_STORE)}")
                elif c < 0.85:
                    self.store_val += 1
                    ops.append(f"rmw {a} {rng.choice(RMW_OPS)} {self.store_val} {rng.choice(ORDS_RMW)}")
                elif c < 0.95:
                    self.store_val += 1
                    ops.append(f"cas {a} {rng.randint(0, self.store_val)} {self.store_val} {rng.choice(ORDS_RMW)} {rng.choice(ORDS_LOAD)}")
                else:
                    self.store_val += 1
                    ops.append(f"fu {a} add {self.store_val} {rng.choice(ORDS_RMW)} {rng.choice(ORDS_LOAD)}")
            elif k == "F":
                ops.append(f"fn {rng.choice(ORDS_FENCE)}")
            elif k == "Y":
                ops.append("yl")
            elif k == "M":
                m = rng.choice(byk["M"])
                if ("M", m) in held:
                    ops.append(f"ul {m}")
                    held.remove(("M", m))
                elif rng.random() < 0.25:
                    ops.append(f"tl {m}")
                    ops.append(f"ul {m}")
                else:
                    ops.append(f"lk {m}")
                    held.append(("M", m))
            elif k == "R":
                r = rng.choice(byk["R"])
                mine = [h for h in held if h[1] == r]
                if mine:
                    kind = mine[0][0]
                    ops.append(("urd " if kind == "RD" else "uwr ") + str(r))
                    held.remove(mine[0])
                else:
                    c = rng.random()
                    if c < 0.35:
                        ops.append(f"rd {r}"); held.append(("RD", r))
                    elif c < 0.7:
                        ops.append(f"wr {r}"); held.append(("WR", r))
                    elif c < 0.85:
                        ops.append(f"trd {r}"); ops.append(f"urd {r}")
                    else:
                        ops.append(f"twr {r}"); ops.append(f"uwr {r}")
            elif k == "C":
                c = rng.choice(byk["C"])
                ms = byk.get("M", [])
                x = rng.random()
                if x < 0.4 and ms:
                    m = rng.choice(ms)
                    if ("M", m) in held:
                        ops.append(f"wt {c} {m}")
                    else:
                        ops += [f"lk {m}", f"wt {c} {m}", f"ul {m}"]
                elif x < 0.8:
                    ops.append(f"n1 {c}")
                else:
                    ops.append(f"na {c}")
            elif k == "N":
                nn = rng.choice(byk["N"])
                ops.append(f"nw {nn}" if (t == 0 and rng.random() < 0.5) else f"nn {nn}")
            elif k == "H":
                h = rng.choice(byk["H"])
                if t == 0:
                    x = rng.random()
                    if x < 0.5:
                        ops.append(f"rv {h}")
                    elif x < 0.8:
                        ops.append(f"trv {h}")
                    elif x < 0.9:
                        self.store_val += 1
                        ops.append(f"sd {h} {self.store_val}")
                    else:
                        ops.append(f"drx {h}")
                else:
                    self.store_val += 1
                    ops.append(f"sd {h} {self.store_val}")
            elif k == "U":
                u = rng.choice(byk["U"])
                ops.append(f"cr {u}" if rng.random() < 0.5 else f"cw {u}")
            elif k == "K":
                kk = rng.choice(byk["K"])
                x = rng.random()
                i = rng.randint(0, 2)
                if x < 0.3:
                    ops.append(f"ac {kk} {rng.randint(0, 1)} {t + 2}")
                elif x < 0.6:
                    ops.append(f"ad {kk} {rng.choice([0, 1, t + 2])}")
                elif x < 0.75:
                    ops.append(f"an {kk} {rng.choice([0, t + 2])}")
                elif x < 0.9:
                    ops.append(f"ag {kk} {rng.choice([0, t + 2])}")
                else:
                    ops.append(f"au {kk} {rng.choice([0, t + 2])}")
            elif k == "T":
                ops.append(f"td {rng.choice(byk['T'])}")
            elif k == "P":
                x = rng.random()
                if x < 0.5:
                    ops.append("pk")
                else:
                    ops.append(f"up {rng.randrange(nth)}" if not after_join else "pk")
        for kind, o in reversed(held):
            ops.append({"M": "ul", "RD": "urd", "WR": "uwr"}[kind] + f" {o}")
        return ops


def family_random(seed, n, kinds, nthreads=(2, 3), maxops=3, prefix="r", **cfg):
    rng = random.Random(seed)
    out = []
    for i in range(n):
        nth = rng.choice(list(nthreads))
        g = Gen(rng, kinds, nth, maxops)
        out.append(g.make(f"{prefix}{seed}_{i}", **cfg))
    return out


if __name__ == "__main__":
    import sys
    seed = int(sys.argv[1]) if len(sys.argv) > 1 else 1
    n = int(sys.argv[2]) if len(sys.argv) > 2 else 20
    kinds = sys.argv[3] if len(sys.argv) > 3 else "AMRCNHUKTPFY"
    for l in family_random(seed, n, list(kinds)):
        print(l)
