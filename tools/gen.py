#!/usr/bin/env python3
"""Program generators for the shared program language (see harness/src/prog.rs).

Every family has a deterministic bounded-exhaustive core and a seeded random
extension. All random choices come from one random.Random(seed)."""
import itertools
import random

ORDS_LOAD = ["rlx", "acq", "sc"]
ORDS_STORE = ["rlx", "rel", "sc"]
ORDS_RMW = ["rlx", "rel", "acq", "ar", "sc"]
ORDS_FENCE = ["rel", "acq", "ar", "sc"]
RMW_OPS = ["swap", "add", "sub", "and", "nand", "or", "xor", "max", "min"]


def cfg_str(mt=5, mb=1000, pb=None, mp=None, ci=None, ee=0):
    f = lambda v: "-" if v is None else str(v)
    return f"mt={mt} mb={mb} pb={f(pb)} mp={f(mp)} ci={f(ci)} ee={ee}"


def prog_line(pid, decls, bodies, **cfg):
    return " | ".join([pid, cfg_str(**cfg), " ".join(decls)] + [" ; ".join(b) for b in bodies])


class Gen:
    """Random generator of structurally valid programs."""

    def __init__(self, rng, kinds, nthreads, maxops, nobj=None):
        self.rng = rng
        self.kinds = kinds          # allowed object kinds, letters
        self.nthreads = nthreads
        self.maxops = maxops
        self.nobj = nobj

    def make(self, pid, **cfg):
        rng = self.rng
        decls = []
        byk = {}
        nobj = self.nobj or rng.randint(1, 3)
        # always have the kinds needed by dependent kinds
        kinds = [k for k in self.kinds if k not in 'PFY']
        for _ in range(nobj):
            k = rng.choice(kinds)
            if k == "C" and "M" not in [d[0] for d in decls]:
                byk.setdefault("M", []).append(len(decls))
                decls.append("M")
            byk.setdefault(k, []).append(len(decls))
            decls.append("A0" if k == "A" else k)
        self.store_val = 0
        nth = self.nthreads
        bodies = [[] for _ in range(nth)]
        # main spawns all, does its ops, joins (mostly)
        for t in range(nth):
            bodies[t] = self.body(t, byk, nth)
        main = []
        spawn_at = sorted(rng.sample(range(len(bodies[0]) + 1), 1) * (nth - 1)) if rng.random() < 0.3 else [0] * (nth - 1)
        ops = list(bodies[0])
        out = []
        idx = 0
        for t in range(1, nth):
            while idx < spawn_at[t - 1] and ops:
                out.append(ops.pop(0))
                idx += 1
            out.append(f"sp {t}")
        out += ops
        joinset = [t for t in range(1, nth) if rng.random() < 0.85]
        rng.shuffle(joinset)
        # sometimes interleave joins with trailing ops
        for t in joinset:
            out.append(f"jn {t}")
        if rng.random() < 0.3:
            out += self.body(0, byk, nth, n=rng.randint(1, 2), after_join=True)
        bodies[0] = out
        return prog_line(pid, decls, bodies, **cfg)

    def body(self, t, byk, nth, n=None, after_join=False):
        rng = self.rng
        n = n if n is not None else rng.randint(1, self.maxops)
        ops = []
        held = []  # (kind, obj)
        for _ in range(n):
            k = rng.choice(list(byk.keys()) + (["P"] if "P" in self.kinds else []) + (["F"] if "F" in self.kinds else []) + (["Y"] if "Y" in self.kinds else []))
            if k == "A":
                a = rng.choice(byk["A"])
                c = rng.random()
                if c < 0.35:
                    ops.append(f"ld {a} {rng.choice(ORDS_LOAD)}")
                elif c < 0.7:
                    self.store_val += 1
                    ops.append(f"st {a} {self.store_val} {rng.choice(ORDS_STORE)}")
                elif c < 0.85:
                    self.store_val += 1
                    ops.append(f"rmw {a} {rng.choice(RMW_OPS)} {self.store_val} {rng.choice(ORDS_RMW)}")
                elif c < 0.95:
                    self.store_val += 1
                    ops.append(f"cas {a} {rng.randint(0, self.store_val)} {self.store_val} {rng.choice(ORDS_RMW)} {rng.choice(ORDS_LOAD)}")
                else:
                    self.store_val += 1
                    ops.append(f"fu {a} add {self.store_val} {rng.choice(ORDS_RMW)} {rng.choice(ORDS_LOAD)}")
            elif k == "F":
                ops.append(f"fn {rng.choice(ORDS_FENCE)}")
            elif k == "Y":
                ops.append("yl")
            elif k == "M":
                m = rng.choice(byk["M"])
                if ("M", m) in held:
                    ops.append(f"ul {m}")
                    held.remove(("M", m))
                elif rng.random() < 0.25:
                    ops.append(f"tl {m}")
                    ops.append(f"ul {m}")
                else:
                    ops.append(f"lk {m}")
                    held.append(("M", m))
            elif k == "R":
                r = rng.choice(byk["R"])
                mine = [h for h in held if h[1] == r]
                if mine:
                    kind = mine[0][0]
                    ops.append(("urd " if kind == "RD" else "uwr ") + str(r))
                    held.remove(mine[0])
                else:
                    c = rng.random()
                    if c < 0.35:
                        ops.append(f"rd {r}"); held.append(("RD", r))
                    elif c < 0.7:
                        ops.append(f"wr {r}"); held.append(("WR", r))
                    elif c < 0.85:
                        ops.append(f"trd {r}"); ops.append(f"urd {r}")
                    else:
                        ops.append(f"twr {r}"); ops.append(f"uwr {r}")
            elif k == "C":
                c = rng.choice(byk["C"])
                ms = byk.get("M", [])
                x = rng.random()
                if x < 0.4 and ms:
                    m = rng.choice(ms)
                    if ("M", m) in held:
                        ops.append(f"wt {c} {m}")
                    else:
                        ops += [f"lk {m}", f"wt {c} {m}", f"ul {m}"]
                elif x < 0.8:
                    ops.append(f"n1 {c}")
                else:
                    ops.append(f"na {c}")
            elif k == "N":
                nn = rng.choice(byk["N"])
                ops.append(f"nw {nn}" if (t == 0 and rng.random() < 0.5) else f"nn {nn}")
            elif k == "H":
                h = rng.choice(byk["H"])
                if t == 0:
                    x = rng.random()
                    if x < 0.5:
                        ops.append(f"rv {h}")
                    elif x < 0.8:
                        ops.append(f"trv {h}")
                    elif x < 0.9:
                        self.store_val += 1
                        ops.append(f"sd {h} {self.store_val}")
                    else:
                        ops.append(f"drx {h}")
                else:
                    self.store_val += 1
                    ops.append(f"sd {h} {self.store_val}")
            elif k == "U":
                u = rng.choice(byk["U"])
                ops.append(f"cr {u}" if rng.random() < 0.5 else f"cw {u}")
            elif k == "K":
                kk = rng.choice(byk["K"])
                x = rng.random()
                i = rng.randint(0, 2)
                if x < 0.3:
                    ops.append(f"ac {kk} {rng.randint(0, 1)} {t + 2}")
                elif x < 0.6:
                    ops.append(f"ad {kk} {rng.choice([0, 1, t + 2])}")
                elif x < 0.75:
                    ops.append(f"an {kk} {rng.choice([0, t + 2])}")
                elif x < 0.9:
                    ops.append(f"ag {kk} {rng.choice([0, t + 2])}")
                else:
                    ops.append(f"au {kk} {rng.choice([0, t + 2])}")
            elif k == "T":
                ops.append(f"td {rng.choice(byk['T'])}")
            elif k == "P":
                x = rng.random()
                if x < 0.5:
                    ops.append("pk")
                else:
                    ops.append(f"up {rng.randrange(nth)}" if not after_join else "pk")
        for kind, o in reversed(held):
            ops.append({"M": "ul", "RD": "urd", "WR": "uwr"}[kind] + f" {o}")
        return ops


def family_random(seed, n, kinds, nthreads=(2, 3), maxops=3, prefix="r", **cfg):
    rng = random.Random(seed)
    out = []
    for i in range(n):
        nth = rng.choice(list(nthreads))
        g = Gen(rng, kinds, nth, maxops)
        out.append(g.make(f"{prefix}{seed}_{i}", **cfg))
    return out


if __name__ == "__main__":
    import sys
    seed = int(sys.argv[1]) if len(sys.argv) > 1 else 1
    n = int(sys.argv[2]) if len(sys.argv) > 2 else 20
    kinds = sys.argv[3] if len(sys.argv) > 3 else "AMRCNHUKTPFY"
    for l in family_random(seed, n, list(kinds)):
        print(l)


# ----------------------------------------------------------------------------
# Deterministic bounded-exhaustive families. A family is described by the
# declared objects and, per thread, an alphabet of macro-operations (strings of
# one or more instructions, kept together so that guards are released, etc.).
def exhaustive(prefix, decls, alphabets, maxlen, main_pre=(), main_post=(), join=True, stride=1, limit=None, **cfg):
    """alphabets[0] is the main thread's alphabet, alphabets[t] thread t's.
    Every thread runs every sequence of 1..maxlen macro-ops (main: 0..maxlen).
    stride/limit subsample the product deterministically."""
    nth = len(alphabets)

    def seqs(alpha, lo):
        out = []
        for n in range(lo, maxlen + 1):
            out += [list(s) for s in itertools.product(alpha, repeat=n)]
        return out
    per = [seqs(alphabets[0], 0)] + [seqs(a, 1) for a in alphabets[1:]]
    lines = []
    k = 0
    for combo in itertools.product(*per):
        k += 1
        if (k - 1) % stride:
            continue
        bodies = []
        main = list(main_pre) + [f"sp {t}" for t in range(1, nth)]
        for m in combo[0]:
            main += m.split(";")
        if join:
            main += [f"jn {t}" for t in range(1, nth)]
        main += list(main_post)
        bodies.append([x.strip() for x in main])
        for t in range(1, nth):
            b = []
            for m in combo[t]:
                b += [x.strip() for x in m.split(";")]
            bodies.append(b)
        lines.append(prog_line(f"{prefix}{len(lines)}", decls, bodies, **cfg))
        if limit and len(lines) >= limit:
            break
    return lines


def fam_sync_core(tier="quick"):
    """F-sync: SC atomics, mutex, rwlock, channel, notify, condvar, park; 2-3 threads."""
    L = []
    big = tier != "quick"
    # atomics (sequentially consistent accesses), one and two locations
    a1 = ["ld 0 sc", "st 0 1 sc", "rmw 0 add 1 sc", "cas 0 0 5 sc sc"]
    a2 = ["ld 0 sc", "st 0 2 sc", "rmw 0 add 2 sc", "cas 0 0 6 sc sc"]
    L += exhaustive("syA", ["A0"], [a1, a2], 2, stride=1 if big else 3)
    b1 = ["st 0 1 sc", "ld 1 sc", "ld 0 sc"]
    b2 = ["st 1 1 sc", "ld 0 sc", "ld 1 sc"]
    L += exhaustive("syB", ["A0", "A0"], [b1, b2], 2, stride=1 if big else 3)
    c3 = ["ld 0 sc", "st 0 3 sc"]
    L += exhaustive("syC", ["A0"], [["ld 0 sc"], ["st 0 1 sc", "ld 0 sc"], c3], 2 if big else 1)
    # mutex with a visible operation inside the critical section
    m1 = ["lk 0 ; st 1 1 sc ; ul 0", "lk 0 ; ld 1 sc ; ul 0", "ld 1 sc"]
    m2 = ["lk 0 ; st 1 2 sc ; ul 0", "tl 0 ; st 1 3 sc ; ul 0", "ld 1 sc"]
    L += exhaustive("syM", ["M", "A0"], [m1, m2], 2, stride=1 if big else 2)
    # rwlock
    r1 = ["rd 0 ; ld 1 sc ; urd 0", "wr 0 ; st 1 1 sc ; uwr 0"]
    r2 = ["rd 0 ; ld 1 sc ; urd 0", "wr 0 ; st 1 2 sc ; uwr 0", "trd 0 ; ld 1 sc ; urd 0", "twr 0 ; st 1 3 sc ; uwr 0"]
    L += exhaustive("syR", ["R", "A0"], [r1, r2], 2, stride=1 if big else 2)
    # channel: main receives, others send
    h0 = ["rv 0", "trv 0"]
    h1 = ["sd 0 1", "sd 0 2"]
    h2 = ["sd 0 3"]
    L += exhaustive("syH", ["H"], [h0, h1], 2, main_post=["drx 0"])
    L += exhaustive("syH3", ["H"], [h0, h1, h2], 2 if big else 1, main_post=["drx 0"])
    # notify / park
    n0 = ["nw 0", "ld 1 sc"]
    n1 = ["nn 0", "st 1 1 sc"]
    L += exhaustive("syN", ["N", "A0"], [n0, n1], 2)
    p0 = ["pk", "ld 0 sc"]
    p1 = ["up 0", "st 0 1 sc"]
    L += exhaustive("syP", ["A0"], [p0, p1], 2)
    # condvar with the usual predicate loop unrolled once
    c0 = ["lk 0 ; wt 1 0 ; ul 0", "lk 0 ; ld 2 sc ; ul 0"]
    c1 = ["lk 0 ; st 2 1 sc ; ul 0 ; n1 1", "n1 1", "na 1"]
    L += exhaustive("syC", ["M", "C", "A0"], [c0, c1], 2)
    return L
