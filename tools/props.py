"""Per-property check logic: families, correspondence scope, oracles."""
import json
import os
import shutil
import tempfile

import corr
import gen
import hb

TRUSTED_BASE = [
    "Coq 8.16.1 kernel (coqc); vm_compute used for witnesses; no native_compute",
    "no axioms: every property theorem is closed under the global context (Print Assumptions)",
    "extraction: ExtrOcamlBasic only (bool, option, unit, list, prod, sumbool, sumor); nat/N/positive stay inductive; no Extract Constant",
    "hand-written OCaml driver (parser/printer), Rust harness (interpreter of the program language on the loom API), Python orchestrator and generators, gen_params.py",
    "correspondence = differential testing of the model against the implementation on generated programs",
    "reference semantics R (Ref.v) is the specification",
    "modelled, not verified: generator coroutines, unwinding/Drop order, std::sync types inside the wrappers, serde, tracing, HashMap order, Instant, Location capture",
]


class Ctx:
    def __init__(self, pid, tier, seed, root, work):
        self.pid, self.tier, self.seed, self.root, self.work = pid, tier, seed, root, work
        os.makedirs(work, exist_ok=True)
        self.dir = tempfile.mkdtemp(prefix=f"{pid}-", dir=work)

    def cleanup(self):
        shutil.rmtree(self.dir, ignore_errors=True)


# ---------------------------------------------------------------- parsing
def parse_dump(s):
    """'pos=.. ex=.. | S pre=.. | L ..' -> dict(head, entries)"""
    parts = [p.strip() for p in s.split("|")]
    head = dict(kv.split("=", 1) for kv in parts[0].split())
    entries = []
    for e in parts[1:]:
        w = e.split()
        d = dict(kv.split("=", 1) for kv in w[1:])
        d["k"] = w[0]
        entries.append(d)
    return {"head": head, "entries": entries}


def choice_of(e):
    if e["k"] == "S":
        i = e["th"].find("A")
        return ("S", i)
    if e["k"] == "L":
        return ("L", int(e["pos"]))
    return ("P", int(e["spur"]))


def parse_program_output(lines):
    """harness lines of one program -> dict(iterations=[{begin,end,ops,api}], run=str)"""
    its = []
    cur = None
    run = None
    for l in lines:
        if l.startswith("BEGIN "):
            cur = {"begin": l[6:], "end": None, "ops": [], "api": [], "drops": []}
            its.append(cur)
        elif l.startswith("END "):
            cur["end"] = l[4:]
        elif l.startswith("O "):
            w = l.split(" ", 3)
            cur["ops"].append((int(w[1]), int(w[2]), w[3]))
        elif l.startswith("D "):
            cur["drops"].append(l)
            cur["ops"].append((-1, -1, l))
        elif l.startswith("API "):
            cur["api"].append(l[4:])
        elif l.startswith("RUN "):
            run = l[4:]
    return {"iterations": its, "run": run}


def outcome_of_iteration(it):
    """The observable result of one execution: per-thread result vectors."""
    per = {}
    for b, pc, r in it["ops"]:
        per.setdefault(b, []).append((pc, r))
    return tuple(sorted((b, tuple(v)) for b, v in per.items()))


# ---------------------------------------------------------------- running
class FamilyRun:
    """Runs one family of programs on the implementation once and offers the
    comparisons with the model."""

    def __init__(self, ctx, lines, name="fam", timeout=1800, cap=3000, shards=None):
        self.ctx = ctx
        self.lines = lines
        self.file = os.path.join(ctx.dir, name + ".txt")
        open(self.file, "w").write("\n".join(lines) + "\n")
        self.cap = cap
        self.impl, self.raw = corr.run_harness(self.file, len(lines), timeout, cap=cap, shards=shards)
        self.rawfile = os.path.join(ctx.dir, name + ".harness.out")
        open(self.rawfile, "w").write(self.raw)
        self.parsed = {}
        self.aborts = []
        self.badprog = 0
        self.capped = 0
        for i, pr in self.impl.items():
            if pr["crash"]:
                self.aborts.append({"index": i, "prog": lines[i], "crash": pr["crash"]})
                continue
            if pr["lines"] and "badprog" in pr["lines"][-1]:
                self.badprog += 1
                continue
            if pr["lines"] and pr["lines"][-1].endswith(" capped"):
                self.capped += 1
                continue
            self.parsed[i] = parse_program_output(pr["lines"])

    def whole_run_mismatches(self):
        out, code, err = corr.run_driver("run", self.file, cap=self.cap)
        if code != 0:
            return [{"what": "driver failed", "detail": err[:500]}]
        mprogs = corr.split_progs(out)
        mism = []
        for i in sorted(self.parsed):
            hl = corr.strip_api(self.impl[i]["lines"])
            ml = corr.strip_api(mprogs.get(i, {"lines": []})["lines"])
            if hl != ml:
                k = 0
                while k < min(len(hl), len(ml)) and hl[k] == ml[k]:
                    k += 1
                mism.append({
                    "index": i, "prog": self.lines[i],
                    "iteration": sum(1 for l in hl[:k + 1] if l.startswith("BEGIN ")),
                    "impl": hl[k] if k < len(hl) else "<end of output>",
                    "model": ml[k] if k < len(ml) else "<end of output>",
                    "impl_iters": sum(1 for l in hl if l.startswith("BEGIN ")),
                    "model_iters": sum(1 for l in ml if l.startswith("BEGIN ")),
                    "impl_run": next((l for l in hl if l.startswith("RUN ")), ""),
                    "model_run": next((l for l in ml if l.startswith("RUN ")), "")})
        return mism

    def replay_mismatches(self):
        """Component replay of rt/path.rs (driver replay mode)."""
        # aborted programs have truncated output; replay only complete ones
        f = os.path.join(self.ctx.dir, "replay.in")
        with open(f, "w") as fh:
            for i in sorted(self.parsed):
                fh.write(f"PROG {i} x\n")
                fh.write("\n".join(self.impl[i]["lines"]) + "\n")
        out, code, err = corr.run_driver("replay", f)
        mism = [l for l in out.splitlines() if l.startswith("MISMATCH")]
        summary = [l for l in out.splitlines() if l.startswith("REPLAY")]
        stats = {}
        if summary:
            for kv in summary[0].split()[1:]:
                k, v = kv.split("=")
                stats[k] = int(v)
        if code != 0 and not mism:
            mism.append("driver replay failed: " + err[:300])
        return mism, stats

    def stats(self):
        its = sum(len(p["iterations"]) for p in self.parsed.values())
        outcomes = {}
        for p in self.parsed.values():
            key = " ".join((p["run"] or "?").split()[:1] + (p["run"] or "?").split()[2:4])
            outcomes[key] = outcomes.get(key, 0) + 1
        return {"programs": len(self.parsed), "iterations": its, "aborts": len(self.aborts),
                "badprog": self.badprog, "capped": self.capped, "outcomes": outcomes}


def sample_programs(lines, k=3):
    return lines[:k]



# ---------------------------------------------------------------- outcome keys / oracle
def key_of_logs(ops):
    """Same function as key_of_logs in ocaml/driver.ml."""
    last = {}
    for b, pc, r in ops:
        if b < 0:
            continue
        # a second result for the same instruction is a further poll of an await loop: keep the last
        # value and the one bit "an earlier poll failed" (rendered like R's ROk)
        last[(b, pc)] = ("ok " + r if r.isdigit() else r) if (b, pc) in last else r
    bodies = sorted({b for b, _ in last})
    return ";".join(
        f"{b}:" + ",".join(f"{pc}={last[(b2, pc)]}" for (b2, pc) in sorted(last) if b2 == b) for b in bodies)


def failure_key(run, ops):
    """run = 'panic iters=N <class...>' -> outcome key of the failing iteration"""
    w = run.split()
    cls = w[2:]
    if cls[0] == "deadlock":
        return "deadlock"
    if cls[0] == "leak":
        return f"leak {cls[1]} {cls[2]}|" + key_of_logs(ops)
    if cls[0] == "user":
        return "panic"
    if cls[0] == "internal" and " ".join(cls[1:4]) in ("currently reading from", "currently writing to"):
        return "panic"      # loom's report of an access to a cell from inside another access
    if cls[0] == "causality":
        return "causality"
    if cls[0] == "branchlimit":
        return "branchlimit"
    return "internal:" + " ".join(cls)


def impl_keys(parsed):
    """-> (set of outcome keys of all iterations, final: 'ok' or failure key)"""
    keys = set()
    its = parsed["iterations"]
    run = parsed["run"] or ""
    failed = run.startswith("panic")
    for n, it in enumerate(its):
        if failed and n == len(its) - 1:
            keys.add(failure_key(run, it["ops"]))
        else:
            keys.add("ok|" + key_of_logs(it["ops"]))
    return keys, (failure_key(run, its[-1]["ops"]) if failed and its else "ok")


def driver_keys(mode, file, cap=30000):
    out, code, err = corr.run_driver(mode, file, cap=cap)
    if code != 0:
        raise RuntimeError("driver " + mode + " failed: " + err[:300])
    res = {}
    cur = None
    for l in out.splitlines():
        if l.startswith("PROG "):
            cur = int(l.split()[1])
            res[cur] = {"keys": set(), "run": None}
        elif l.startswith("K "):
            res[cur]["keys"].add(l[2:])
        elif l.startswith("RUN "):
            res[cur]["run"] = l[4:]
    return res


def is_failure(k):
    return not k.startswith("ok|")


def oracle_deviations(ikeys, ifinal, rkeys, wkeys=None, skip_races=True):
    """Compare the implementation's outcome set with the reference semantics.
    rkeys: outcomes of R with sequentially consistent atomics -- the LOWER bound
    (everything an interleaving can produce must be explored); wkeys: outcomes of
    R with unconstrained atomic reads -- the UPPER bound for what the sync objects
    allow (defaults to rkeys). Returns a list of deviation strings."""
    if wkeys is None:
        wkeys = rkeys
    dev = []
    if "ref-out-of-fuel" in rkeys or "ref-out-of-fuel" in wkeys:
        return ["ref-out-of-fuel"]
    if skip_races and (ifinal == "causality" or "causality" in ikeys):
        return []          # data races are C04's business; R has no race detector
    rfail = {k for k in rkeys if is_failure(k)}
    rok = rkeys - rfail
    wfail = {k for k in wkeys if is_failure(k)}
    wok = wkeys - wfail
    if ifinal == "ok":
        for k in sorted(rfail):
            dev.append("missed-failure:" + k.split("|")[0])
        for k in sorted(rok - ikeys):
            dev.append("missing:" + k)
    elif ifinal == "branchlimit":
        # a spin loop that can never exit: R blocks for ever (deadlock)
        if "deadlock" not in wkeys:
            dev.append("spurious-failure:branchlimit")
    else:
        base = ifinal.split("|")[0]
        if ifinal not in wkeys and not any(k.split("|")[0] == base for k in wfail if base in ("deadlock", "panic")):
            dev.append("spurious-failure:" + ifinal)
    for k in sorted(k for k in ikeys if not is_failure(k) and k not in wok):
        dev.append("forbidden:" + k)
    return dev


def norm_prog(line):
    """program text without its id"""
    return line.split("|", 1)[1].strip()


class Known:
    """known_findings.json: listed findings are identified by the exact input
    (program text) and the exact deviation observed on it."""

    def __init__(self, root, pid):
        self.entries = []
        p = os.path.join(root, "known_findings.json")
        if os.path.exists(p):
            d = json.load(open(p))
            self.entries = [e for e in d.get("known", []) if pid in e.get("properties", [e.get("property")])]
        self.pid = pid
        self.hits = {}

    def match(self, prog_line, deviation):
        np = norm_prog(prog_line)
        for e in self.entries:
            for inst in e.get("instances", []):
                if inst["prog"] == np and inst["deviation"] == deviation and self.pid in inst.get("properties", [self.pid]):
                    self.hits[e["id"]] = self.hits.get(e["id"], 0) + 1
                    return e["id"]
        return None

    def lines(self):
        out = []
        for e in self.entries:
            if e["id"] in self.hits:
                out.append(f"{e['id']} {e['what']} [{e['call_site']}] witness: {e['witness']} ({self.hits[e['id']]} listed inputs reproduced)")
        return out


def oracle_modes(ref_mode):
    """-> (lower bound driver mode, upper bound driver mode)"""
    if isinstance(ref_mode, tuple):
        return ref_mode
    return ("ref", "refw") if ref_mode == "refw" else ("ref", "ref")


def oracle_compare(ctx, fam, known, ref_mode="ref"):
    """For every program of the family: implementation outcome set vs R.
    ref_mode "ref": R_sc is both bounds; "refw": R_sc lower bound, R_weak upper bound.
    Returns (violations, nknown, stats)."""
    lo, up = oracle_modes(ref_mode)
    rk = driver_keys(lo, fam.file)
    wk = driver_keys(up, fam.file) if up != lo else rk
    violations = []
    nknown = 0
    ndev_progs = 0
    for i, p in sorted(fam.parsed.items()):
        ik, ifinal = impl_keys(p)
        devs = oracle_deviations(ik, ifinal, rk[i]["keys"], wk[i]["keys"])
        if devs:
            ndev_progs += 1
        for d in devs:
            if known.match(fam.lines[i], d):
                nknown += 1
            else:
                violations.append({"prog": fam.lines[i], "deviation": d,
                                   "impl_outcomes": sorted(ik)[:12], "ref_outcomes": sorted(rk[i]["keys"])[:12]})
    return violations, nknown, {"oracle_programs": len(fam.parsed), "programs_deviating_from_R": ndev_progs}


# ---------------------------------------------------------------- C14
def c14_analyse(parsed):
    """Direct search on the implementation's own dumps: repeated decision
    sequence, broken depth-first order, count mismatch."""
    seqs = []
    for it in parsed["iterations"]:
        d = it["end"] or None
        if d is None:
            continue
        seqs.append(tuple(choice_of(e) for e in parse_dump(d)["entries"]))
    problems = []
    seen = {}
    for i, s in enumerate(seqs):
        if s in seen:
            problems.append({"what": "two iterations followed the same decision sequence",
                             "iterations": [seen[s] + 1, i + 1]})
            break
        seen[s] = i
    # depth-first contiguity: if i<j<k and i,k share a prefix of length n then j shares it
    # (checked through consecutive common-prefix lengths: lcp(i,k) >= min over consecutive pairs)
    def lcp(a, b):
        n = 0
        while n < len(a) and n < len(b) and a[n] == b[n]:
            n += 1
        return n
    for i in range(len(seqs)):
        m = None
        for k in range(i + 1, min(len(seqs), i + 40)):
            c = lcp(seqs[k - 1], seqs[k])
            m = c if m is None else min(m, c)
            if lcp(seqs[i], seqs[k]) > m:
                problems.append({"what": "depth-first order broken: a subtree was re-entered",
                                 "iterations": [i + 1, k + 1]})
                break
        if problems:
            break
    run = parsed["run"] or ""
    if run.startswith("ok"):
        n = int(run.split("iters=")[1].split()[0])
        if n != len(set(seqs)):
            problems.append({"what": f"iteration count {n} differs from the number of distinct decision sequences {len(set(seqs))}"})
    return problems, len(seqs)


class C14:
    level = "proof"
    design_ref = "DESIGN.md section 8, C14"
    technique = "Coq proof (mixed-radix termination measure, DFS divergence invariant; both instantiated on the concrete iteration of the execution model L: L_explore_terminates, L_decisions_distinct) + component replay of rt/path.rs"
    level_text = ("Machine-checked theorems about the Coq transcription of rt/path.rs: for every iteration function that uses the stack "
                  "only through the Path API, exploration stops within 8^max_branches iterations, any two iterations diverge at a definite "
                  "position (no repeats, depth-first), and each API function satisfies the iteration contract. The model is tied to the code by "
                  "replaying the implementation's own Path API trace and stack dumps, and the implementation's dumps are searched directly for "
                  "repeated or out-of-order decision sequences.")
    level_note = ("Trusted: Coq kernel, the replay driver (OCaml) and hooks; the link 'real iterations touch the path only through the API' is by "
                  "inspection of src/rt plus the replay (every API call of every iteration is replayed). Termination of each single iteration "
                  "(the program's own loops) is outside the theorem.")
    assumptions = [
        "theorems are about the Coq model of rt/path.rs and hold for every iteration function satisfying iter_ok",
        "the model's Path is tied to src/rt/path.rs by component replay of the hook's API trace on generated programs",
        "iterations of real programs satisfy iter_ok because they touch the path only through the API (PathApi.v lemmas)",
    ]

    def families(self, ctx):
        n = 150 if ctx.tier == "quick" else 1500
        lines = []
        lines += gen.family_random(ctx.seed, n, list("AMRCNHUKFY"), nthreads=(2, 3), maxops=3, prefix="c14a")
        lines += gen.family_random(ctx.seed + 1000, n // 3, list("AF"), nthreads=(2, 3, 4), maxops=3, prefix="c14b")
        lines += gen.family_random(ctx.seed + 2000, n // 3, list("AMN"), nthreads=(2, 3), maxops=3, prefix="c14c", pb=2)
        # decisions made while exploration is switched off / not yet on (explore, stop_exploring, skip_branch,
        # explicit-explore mode): which entries take part in the enumeration is part of the Path API contract
        ctl = [l for l in gen.fam_ctl_core(ctx.tier) if l.startswith(("ctE", "ctK", "ctS", "ctM"))]
        lines += ctl if ctx.tier != "quick" else ctl[::3]
        return lines

    def run(self, ctx):
        lines = self.families(ctx)
        fam = FamilyRun(ctx, lines, "c14")
        res = {"coverage": {}, "violations": [], "broken": [], "known": []}
        mism, rstats = fam.replay_mismatches()
        direct = []
        nseq = 0
        for i, p in fam.parsed.items():
            probs, n = c14_analyse(p)
            nseq += n
            for pr in probs:
                direct.append({"prog": lines[i], **pr})
        if mism:
            res["broken"].append("component replay of rt/path.rs: " + mism[0])
            # search for a concrete input: a program whose number of iterations differs from the model's
            # depth-first enumeration (which PathExhaust / L_decisions_distinct show to be exactly the
            # distinct paths over the decisions open for exploration)
            for m in fam.whole_run_mismatches():
                if "index" not in m:
                    continue
                if m["impl_iters"] != m["model_iters"] and m["impl_run"].startswith("RUN ok") and m["model_run"].startswith("RUN ok"):
                    direct.append({"prog": m["prog"], "deviation": f"the iterations are not the depth-first enumeration of the decisions open for exploration: "
                                   f"the implementation ran {m['impl_iters']} iterations where the enumeration has {m['model_iters']} distinct paths "
                                   f"(first difference in iteration {m['iteration']})",
                                   "found_by": "search after component-replay mismatch"})
                    break
        for d in direct[:3]:
            res["violations"].append(d)
        # termination of single executions: programs whose loops all exit must be explored to the end
        chain = gen.fam_chain_spin()
        fam2 = FamilyRun(ctx, chain, "c14spin")
        for i, p in fam2.parsed.items():
            run = p["run"] or ""
            if not run.startswith("ok"):
                res["violations"].append({"prog": chain[i], "deviation": "an execution of a program whose loops all exit did not terminate: " + run[:80]})
        wm2 = fam2.whole_run_mismatches()
        if wm2:
            m = wm2[0]
            res["broken"].append(f"correspondence L vs implementation (chained spinners): `{m.get('prog')}` iteration {m.get('iteration')}")
        st = fam.stats()
        res["coverage"] = {
            "programs": st["programs"], "iterations": st["iterations"],
            "api_calls_replayed": rstats.get("api_calls", 0), "steps_replayed": rstats.get("steps", 0),
            "decision_sequences_checked": nseq,
            "disagreements_checked": len(mism),
            "evaluations": st["iterations"], "distinct_nontrivial": len({l.split("|", 2)[2] for l in lines}),
            "rule": "random programs over all object kinds (2-4 threads, <=3 ops), with and without preemption bound; non-trivial = distinct program text after the id",
            "samples": sample_programs(lines),
            "outcomes": st["outcomes"],
        }
        ctx.cleanup()
        return res

    def replay(self, ctx, path):
        print(open(path).read())
        return 0



# ---------------------------------------------------------------- generic outcome-based check
class OutcomeCheck:
    """Correspondence (whole run) on a deterministic core and a seeded random
    family; oracle comparison with the reference semantics R on the core.

    Deviations from R on the core must be exactly the listed known findings.
    On the random family the oracle is consulted only for programs on which the
    implementation differs from the model (behaviour the faithful model does not
    have): that is how a concrete failing input is searched when the tie breaks."""
    level = "proof"
    design_ref = "DESIGN.md section 8"
    kinds = ("missing", "missed-failure", "spurious-failure", "forbidden")
    ref_mode = "ref"          # "ref" = SC atomics, "refw" = unconstrained atomics
    cap = 3000
    shards = None             # None = corr.SHARDS processes; 1 where the order of programs within one process matters
    heavy_family = lambda self, ctx: []     # programs with very many executions: oracle on the implementation only
    heavy_cap = 400000
    assumptions = [
        "theorems are about the Coq model L; L is tied to src/rt by whole-run correspondence (every decision of every iteration, every result, the outcome) on the families",
        "R (Ref.v) is the specification of what outcomes a program can produce",
    ]

    def det_family(self, ctx):
        return []

    def rnd_family(self, ctx):
        return []

    def extra(self, ctx, fam, lines):
        return []

    def relevant(self, dev):
        return dev.split(":")[0] in self.kinds

    def run(self, ctx):
        res = {"coverage": {}, "violations": [], "broken": [], "known": []}
        known = Known(ctx.root, ctx.pid)
        det = self.det_family(ctx)
        rnd = self.rnd_family(ctx)
        cov = {"samples": [], "rule": self.rule}
        fam_d = FamilyRun(ctx, det, "det", cap=self.cap, shards=self.shards) if det else None
        fam_r = FamilyRun(ctx, rnd, "rnd", cap=self.cap, shards=self.shards) if rnd else None
        nprog = nit = 0
        mism_total = 0
        aborts = []
        outcomes = {}
        for name, fam in (("core", fam_d), ("random", fam_r)):
            if fam is None:
                continue
            st = fam.stats()
            nprog += st["programs"]
            nit += st["iterations"]
            for k, v in st["outcomes"].items():
                outcomes[k] = outcomes.get(k, 0) + v
            aborts += fam.aborts
            mm = fam.whole_run_mismatches()
            mism_total += len(mm)
            if mm:
                m = mm[0]
                res["broken"].append(
                    f"correspondence L vs implementation ({name} family): program `{m.get('prog', '?')}` iteration {m.get('iteration')}: impl `{str(m.get('impl'))[:160]}` model `{str(m.get('model'))[:160]}`")
                # search: programs whose behaviour the model does not reproduce
                lo, up = oracle_modes(self.ref_mode)
                # only the programs that disagree are looked up (a file with the same line numbering)
                idx = {m.get("index") for m in mm if m.get("index") is not None}
                sf = os.path.join(ctx.dir, name + ".search.txt")
                open(sf, "w").write("\n".join(l if i in idx else "" for i, l in enumerate(fam.lines)) + "\n")
                try:
                    rk = driver_keys(lo, sf)
                    wk = driver_keys(up, sf) if up != lo else rk
                    mk_ = driver_keys("keys", sf)
                except RuntimeError as ex:
                    res["broken"].append("the search for a failing input could not evaluate the specification: " + str(ex)[:200])
                    mm = []
                for m in mm:
                    i = m.get("index")
                    if i is None or i not in fam.parsed:
                        continue
                    ik, ifinal = impl_keys(fam.parsed[i])
                    for d in oracle_deviations(ik, ifinal, rk[i]["keys"], wk[i]["keys"], skip_races=False):
                        if d == "spurious-failure:causality" and "causality" in mk_[i]["keys"]:
                            continue      # the faithful model reports the same race
                        if d.startswith("spurious-failure:causality"):
                            d = d + " (a data race is reported in a program whose accesses the model and R order)"
                            res["violations"].append({"prog": fam.lines[i], "deviation": d, "found_by": "search after correspondence mismatch"})
                            continue
                        if self.relevant(d) and not known.match(fam.lines[i], d):
                            res["violations"].append({"prog": fam.lines[i], "deviation": d, "found_by": "search after correspondence mismatch"})
            for v in self.extra(ctx, fam, fam.lines):
                if not known.match(v["prog"], v["deviation"]):
                    res["violations"].append(v)
        ndev = 0
        nknown = 0
        if fam_d is not None:
            viol, nknown, ost = oracle_compare(ctx, fam_d, known, self.ref_mode)
            ndev = ost["programs_deviating_from_R"]
            for v in viol:
                if self.relevant(v["deviation"]):
                    res["violations"].append(v)
        heavy = self.heavy_family(ctx)
        nheavy = 0
        if heavy:
            fam_h = FamilyRun(ctx, heavy, "heavy", cap=self.heavy_cap, shards=self.shards)
            violh, nkh, osth = oracle_compare(ctx, fam_h, known, self.ref_mode)
            nknown += nkh
            nheavy = len(fam_h.parsed)
            sth = fam_h.stats()
            nprog += sth["programs"]
            nit += sth["iterations"]
            aborts += fam_h.aborts
            for v in violh:
                if self.relevant(v["deviation"]):
                    res["violations"].append(v)
        for a in aborts:
            d = "abort:" + a["crash"]
            if not known.match(a["prog"], d):
                res["violations"].append({"prog": a["prog"], "deviation": d})
            else:
                nknown += 1
        res["known"] = known.lines()
        alllines = det + rnd
        cov.update({
            "programs": nprog, "iterations": nit, "disagreements_checked": mism_total,
            "oracle_programs": len(fam_d.parsed) if fam_d else 0, "programs_deviating_from_R": ndev,
            "known_finding_instances_reproduced": nknown, "heavy_programs_oracle_only": nheavy,
            "evaluations": nit, "distinct_nontrivial": len({norm_prog(l) for l in alllines}),
            "samples": sample_programs(alllines), "outcomes": outcomes,
            "aborts": len(aborts),
        })
        res["coverage"] = cov
        ctx.cleanup()
        return res

    def replay(self, ctx, path):
        d = json.load(open(path))
        print(json.dumps(d, indent=1)[:4000])
        v = d.get("violation") or {}
        if "prog" in v:
            f = os.path.join(ctx.dir, "replay.txt")
            open(f, "w").write(v["prog"] + "\n")
            fam = FamilyRun(ctx, [v["prog"]], "replay", cap=self.cap)
            lo, up = oracle_modes(self.ref_mode)
            rk = driver_keys(lo, fam.file)
            wk = driver_keys(up, fam.file)
            for i, p in fam.parsed.items():
                ik, ifinal = impl_keys(p)
                print("implementation outcomes:", sorted(ik))
                print("reference outcomes (SC):", sorted(rk[i]["keys"]))
                print("reference outcomes (up):", sorted(wk[i]["keys"]))
                print("deviations             :", oracle_deviations(ik, ifinal, rk[i]["keys"], wk[i]["keys"]))
        ctx.cleanup()
        return 0


def mk(cls_name, **kw):
    return type(cls_name, (OutcomeCheck,), kw)()


class C01(OutcomeCheck):
    kinds = ("missing", "missed-failure")
    technique = "Coq model + refutation theorems (listed findings) + partial theorems (DFS exhaustion of every registered alternative, for the abstract stack and for the concrete model: L_exhaustive_complete); whole-run correspondence; outcome-set oracle against the interleaving semantics R"
    rule = "bounded-exhaustive F-sync core (2-3 threads x <=2 macro-ops per object kind, SC atomics) + seeded random programs over all object kinds; distinct = program text"
    level_text = ("The full completeness statement (every outcome of the interleaving semantics R is explored) is a Coq Definition; DPOR completeness is not proved. "
                  "Proved: the DFS over registered alternatives is exhaustive and terminating (C14 theorems), the Path API contract. The faithful model is tied to the code by "
                  "whole-run correspondence; the implementation's outcome sets are compared with R's on a bounded-exhaustive core, where every deviation must be a listed known finding.")
    level_note = "partial: completeness of the partial-order reduction itself is validated by the oracle on bounded programs, not proved"

    def det_family(self, ctx):
        return gen.fam_sync_core(ctx.tier) + gen.fam_yield_dpor()

    def rnd_family(self, ctx):
        n = 200 if ctx.tier == "quick" else 2000
        return gen.family_random(ctx.seed, n, list("AMRCNHUPFY"), nthreads=(2, 3), maxops=3, prefix="c01r")



def rnd(prefix, kinds, nq=120, nt=1200, nthreads=(2, 3), maxops=3, **cfg):
    def f(self, ctx):
        n = nq if ctx.tier == "quick" else nt
        return gen.family_random(ctx.seed, n, list(kinds), nthreads=nthreads, maxops=maxops, prefix=prefix, **cfg)
    return f


PARTIAL_NOTE = ("The refinement of L to R for all programs is not proved; what is proved is listed in the evidence (theorems) and the rest is "
                "validated by whole-run correspondence and the outcome oracle on the bounded-exhaustive core.")


class C05(OutcomeCheck):
    kinds = ("missed-failure", "spurious-failure")
    technique = "Coq model + refutation theorems + local lemmas; whole-run correspondence; deadlock oracle against R"
    rule = "bounded-exhaustive F-dead core (lock order, channels, notify, park/unpark incl. unpark of threads blocked elsewhere, condvar lost wake-ups, rwlock) + seeded random blocking programs"
    level_text = ("Deadlock exactness is stated against R (a deadlock is reported iff R reaches a state with an unfinished thread and no enabled step). "
                  "Proved: refutation witnesses for the listed findings (unpark waking a thread blocked on a join: internal panic; early unpark never explored); "
                  "first-failure-is-the-result (CheckFacts). " + PARTIAL_NOTE)
    level_note = "partial: deadlock soundness/completeness for all programs is not a theorem"
    ref_mode = "refw"
    det_family = lambda self, ctx: gen.fam_dead_core(ctx.tier)
    rnd_family = rnd("c05r", "MRCNHPA")


class C07(OutcomeCheck):
    kinds = ("forbidden", "spurious-failure")     # completeness of the exploration is C01 / C05
    technique = "Coq proof (mutual exclusion as a global invariant of every run of the model: ExclFacts.run_excl_inv, mutex_exclusion, rwlock_writer_excludes; try_* exactness; hand-over of clocks over any number of intermediate steps: SyncMono) + whole-run correspondence + lock-language trace check + outcome oracle"
    rule = "bounded-exhaustive F-lock core (<=2 mutexes, rwlock, nested/overlapping sections with cells inside) + seeded random lock programs; every execution's trace is checked for exclusion"
    level_text = ("Proved (SyncFacts): try_lock/try_read/try_write succeed exactly when the lock is compatible at the step; release publishes the releaser's clock and the next "
                  "acquire joins it (hand-over happens-before). Exclusion and blocking are checked on every explored execution's trace and against R. " + PARTIAL_NOTE)
    level_note = "exclusion and hand-over are theorems about the model L for all programs and schedules; blocking / no-starvation outcomes (which acquisition orders are explored) are oracle-checked on the bounded core; the tie of L to the code is differential"
    ref_mode = "refw"
    det_family = lambda self, ctx: gen.fam_lock_core(ctx.tier)
    rnd_family = lambda self, ctx: rnd("c07r", "MRUA")(self, ctx) + gen.fam_rw_recursive()

    def extra(self, ctx, fam, lines):
        return lock_trace_check(fam, lines)


class C08(OutcomeCheck):
    technique = "Coq proof (a pending notification survives every step but the waiter's consuming step; no_lost_wakeup over arbitrary interleavings; a blocked waiter is resumed only by a notify; at most one spurious return; clock transfer) + refutation of the listed finding D14 + whole-run correspondence + outcome oracle"
    rule = "bounded-exhaustive F-wait core (condvar, Notify, park/unpark, join; early/late/double notifications) + seeded random"
    level_text = ("Proved (SyncFacts): a wait returns only with the flag set and consumes it, notify publishes the notifier's clock to the woken thread, unpark joins clocks. "
                  "Refuted on the current tree (listed findings): park tokens are lost / unpark wakes threads blocked elsewhere. " + PARTIAL_NOTE)
    level_note = "partial"
    ref_mode = "refw"
    det_family = lambda self, ctx: gen.fam_wait_core(ctx.tier) + [l for l in gen.fam_dead_core(ctx.tier) if l.startswith(("ddN", "ddP", "ddC"))]
    rnd_family = rnd("c08r", "MCNPU")


class C09(OutcomeCheck):
    technique = "Coq proof (global invariant of every run: message count = queued views = std queue length; every step appends one value at the back, removes the front, or leaves the queue alone; FIFO hand-over of clocks over any steps) + whole-run correspondence + outcome oracle"
    rule = "bounded-exhaustive F-chan core (1-3 senders, one receiver, recv/try_recv/drop) + seeded random channel programs"
    level_text = ("Proved (SyncFacts): every send increments the message count and publishes the sender's clock in FIFO position, a receive joins the clock of the message it takes, "
                  "receive on an empty channel cannot complete. FIFO/exactly-once/try_recv exactness are compared with R on the core. " + PARTIAL_NOTE)
    level_note = "partial"
    ref_mode = "refw"
    det_family = lambda self, ctx: gen.fam_chan_core(ctx.tier)
    rnd_family = rnd("c09r", "HUA")


class C10(OutcomeCheck):
    technique = "Coq theorem on the leak check (first leaking entry) + whole-run correspondence + outcome oracle with leak outcomes"
    rule = "bounded-exhaustive F-leak core (Arc handles cloned/moved/unwrapped/dropped, Track, channel contents) + seeded random"
    level_text = ("The leak check of the model reports exactly the first store entry that still has a positive Arc count, an undropped allocation or queued messages (computed by the model, "
                  "compared with the implementation on every iteration and with R's final states). " + PARTIAL_NOTE)
    level_note = "partial"
    ref_mode = "refw"
    det_family = lambda self, ctx: gen.fam_leak_core(ctx.tier)
    rnd_family = rnd("c10r", "KTHA")


class C11(OutcomeCheck):
    technique = "Coq proof (global invariant of every disciplined run: reference count = live handles + drops in flight; strong_count / try_unwrap / final drop characterised by it; final drop acquires every earlier drop's clock over any steps) + whole-run correspondence + outcome oracle"
    rule = "bounded-exhaustive F-arc core (clone/strong_count/get_mut/try_unwrap/drop in 2-3 threads) + seeded random"
    level_text = ("Proved (SyncFacts): each drop publishes its clock, the drop that reaches zero joins all of them; counts returned by strong_count/get_mut/try_unwrap are compared with the "
                  "reference counter machine R for every interleaving of the core. " + PARTIAL_NOTE)
    level_note = "partial"
    ref_mode = "refw"
    det_family = lambda self, ctx: gen.fam_arc_core(ctx.tier)
    rnd_family = rnd("c11r", "KA")


class C18(OutcomeCheck):
    technique = "Coq proof (Execution::schedule after yield_now: the yielder is not chosen while another thread is runnable, continues when alone, others are re-activated; branch limit arithmetic) + whole-run correspondence + outcome oracle with blocking await"
    rule = "bounded-exhaustive F-spin core (one await loop at every placement over atomics written once, all orderings) + never-true loop with a small branch limit"
    level_text = ("Spin loops are compared with R where await is a blocking read: every exit combination must be explored and the branch limit must not be hit; a loop that can never exit "
                  "must end in the branch-limit panic. " + PARTIAL_NOTE)
    level_note = "partial"
    ref_mode = "refw"
    kinds = ("missing", "missed-failure", "spurious-failure")
    det_family = lambda self, ctx: gen.fam_spin_core(ctx.tier)
    # correspondence only: with two threads spinning at once R (where a failed poll constrains nothing) asks for
    # combinations of "failed before" bits that loom's yield rule (not before another thread has run) excludes
    rnd_family = lambda self, ctx: gen.fam_chain_spin()

    def extra(self, ctx, fam, lines):
        """read / yield / read again under two unordered stores: every outcome RC11 allows must be explored
        (the pruning of values seen before a yield must follow the modification order, not the order of
        execution)"""
        if getattr(self, "_lit_done", None) == ctx.dir:
            return []
        self._lit_done = ctx.dir
        lit = gen.fam_spin_litmus()
        fl = FamilyRun(ctx, lit, "spinlit", cap=30000)
        rk = driver_keys("rc11s", fl.file, cap=30000)
        viol = []
        for i, p in fl.parsed.items():
            k, fin = impl_keys(p)
            miss = sorted(x for x in rk.get(i, {"keys": set()})["keys"] if x not in k)
            if fin != "ok":
                viol.append({"prog": lit[i], "deviation": "spurious-failure:" + fin})
            elif miss:
                viol.append({"prog": lit[i], "deviation": "missing:" + miss[0], "impl_outcomes": sorted(k)[:12], "rc11_outcomes": sorted(rk[i]["keys"])[:12]})
        wm = fl.whole_run_mismatches()
        if wm and not viol:
            m = wm[0]
            viol.append({"prog": m.get("prog"), "deviation": f"correspondence:L and the implementation differ at iteration {m.get('iteration')} (no outcome of RC11 is missing)"})
        return viol


def lock_trace_check(fam, lines):
    """Mutual exclusion on every explored execution, from the order in which the
    operations completed: a mutex / write guard is never held by two threads,
    readers never coexist with a writer."""
    import re
    viol = []
    for i, p in fam.parsed.items():
        bodies = [b.split(";") for b in lines[i].split("|")[3:]]
        ops = [[o.strip() for o in b] for b in bodies]
        for n, it in enumerate(p["iterations"]):
            held = {}   # obj -> ("M", tid) | ("W", tid) | ("R", set)
            bad = None
            for b, pc, r in it["ops"]:
                if b < 0 or b >= len(ops) or pc >= len(ops[b]):
                    continue
                w = ops[b][pc].split()
                if not w:
                    continue
                op = w[0]
                if op in ("lk", "tl") and (op == "lk" or r == "1"):
                    m = int(w[1])
                    if m in held:
                        bad = f"mutex {m} acquired by thread {b} while held by {held[m]}"
                    held[m] = ("M", b)
                elif op == "ul" and r == "-":
                    held.pop(int(w[1]), None)
                elif op in ("wr", "twr") and (op == "wr" or r == "1"):
                    m = int(w[1])
                    if m in held:
                        bad = f"write lock {m} acquired by thread {b} while held by {held[m]}"
                    held[m] = ("W", b)
                elif op == "uwr" and r == "-":
                    held.pop(int(w[1]), None)
                elif op in ("rd", "trd") and (op == "rd" or r == "1"):
                    m = int(w[1])
                    if m in held and held[m][0] == "W":
                        bad = f"read lock {m} acquired by thread {b} while write-held by {held[m]}"
                    cur = held.get(m, ("R", set()))
                    if cur[0] == "R":
                        cur[1].add(b)
                        held[m] = cur
                elif op == "urd" and r == "-":
                    m = int(w[1])
                    if m in held and held[m][0] == "R":
                        held[m][1].discard(b)
                        if not held[m][1]:
                            held.pop(m)
                elif op == "wt" and r == "-":
                    pass
                if bad:
                    break
            if bad:
                viol.append({"prog": lines[i], "deviation": "exclusion:" + bad, "iteration": n + 1})
                break
    return viol



class C12:
    level = "proof"
    design_ref = "DESIGN.md section 8, C12"
    technique = "Coq proof (u64 encoding round trip, every RMW closure equals the std semantics, all operation sequences) + four-way differential check loom / std / model-loom / model-std"
    level_text = ("NumFacts.v proves, for all 12 atomic types, all operand values in range and all operation sequences, that the loom implementation through the u64 encoding returns "
                  "the same values and final content as the std semantics (num_roundtrip, loom_step_matches_std, atomic_matches_std). The model of the encoding and closures is tied to the "
                  "code by running the same boundary-biased sequences on the real loom atomic (inside a model, so the store ring and match_load_to_stores are exercised), on the real "
                  "std atomic, and on both Coq definitions.")
    level_note = ("Trusted: Coq kernel; the transcription of rt/num.rs and the closures of sync/atomic/*.rs (validated by the four-way comparison); "
                  "orderings do not influence single-thread values and are varied only on the implementation side.")
    assumptions = ["single thread; all valid orderings are exercised on the implementation, the model ignores them",
                   "std atomics of the host are the reference implementation of the std semantics"]

    def run(self, ctx):
        res = {"coverage": {}, "violations": [], "broken": [], "known": []}
        per = 40 if ctx.tier == "quick" else 600
        cases = gen.fam_num(ctx.seed, per)
        f = os.path.join(ctx.dir, "num.txt")
        open(f, "w").write("\n".join(cases) + "\n")
        import subprocess
        h = subprocess.run([corr.HARNESS, "num", f], capture_output=True, text=True, timeout=1200, env=corr.clean_env())
        d = subprocess.run([corr.DRIVER, "num", f], capture_output=True, text=True, timeout=1200)
        hl = [l for l in h.stdout.splitlines() if l.startswith("NUM ")]
        dl = [l for l in d.stdout.splitlines() if l.startswith("NUM ")]
        if h.returncode != 0 or d.returncode != 0 or len(hl) != len(cases) or len(dl) != len(cases):
            res["broken"].append(f"num runs failed: harness rc={h.returncode} lines={len(hl)} driver rc={d.returncode} lines={len(dl)} {h.stderr[-300:]} {d.stderr[-300:]}")
        ntypes = {}
        nops = 0
        for case, a, b in zip(cases, hl, dl):
            ty = case.split("|")[1].strip()
            ntypes[ty] = ntypes.get(ty, 0) + 1
            nops += case.count(";") + 1
            pa = [x.strip() for x in a.split("|")]
            pb = [x.strip() for x in b.split("|")]
            if "NOT-WELL-FORMED" in b:
                res["broken"].append("generator produced an ill-formed case: " + case)
                continue
            if len(pa) < 3:
                res["violations"].append({"case": case, "what": "the loom atomic panicked", "impl": a})
                continue
            il, istd = pa[1][5:], pa[2][4:]
            ml, mstd = pb[1][5:], pb[2][4:]
            il = il.replace("-skip-", "")
            if istd != il and "-skip-" not in pa[1]:
                res["violations"].append({"case": case, "what": "loom atomic differs from std atomic", "loom": il, "std": istd})
            elif ml != il and "-skip-" not in pa[1]:
                res["broken"].append(f"correspondence Num.v vs implementation: case `{case}` impl `{il}` model `{ml}`")
            if mstd != ml:
                res["broken"].append(f"Num.v: loom_run and std_run disagree on `{case}` (atomic_matches_std should make this impossible)")
        res["coverage"] = {
            "programs": len(cases), "operations": nops, "per_type": ntypes,
            "disagreements_checked": len(res["broken"]),
            "evaluations": len(cases), "distinct_nontrivial": len({c.split("|", 1)[1] for c in cases}),
            "rule": "per type: fixed boundary corpus (overflow at both ends, sign boundaries, ring wrap with >7 stores) + seeded boundary-biased random sequences of 1-12 operations over all operations and valid orderings; distinct = case text",
            "samples": cases[:2] + cases[-2:],
        }
        ctx.cleanup()
        return res

    def replay(self, ctx, path):
        print(open(path).read())
        return 0



def sched_preemption_check(dump, bound):
    """On one END dump: every Schedule entry respects the bound, and the stored
    preemption count equals an independent count of 'switches away from a thread
    that could have continued'."""
    entries = [e for e in parse_dump(dump)["entries"] if e["k"] == "S"]
    count = 0
    prev_active = 0          # the main thread runs first
    for k, e in enumerate(entries):
        th = e["th"]
        active = th.find("A")
        pre = int(e["pre"])
        cur = pre + (1 if e["ia"] != "-" and int(e["ia"]) != active else 0)
        if bound is not None and cur > bound:
            return f"schedule entry {k} has {cur} preemptions > bound {bound}"
        if prev_active is not None and active != -1 and active != prev_active and th[prev_active] in "ASPV":
            count += 1
        # loom also counts the choice of a non-default thread after the running
        # thread blocked, so its count is an upper bound of the independent one
        if active != -1 and count > cur:
            return f"schedule entry {k}: stored preemption count {cur} but {count} switches away from a runnable thread in the trace"
        if active != -1:
            prev_active = active
    return None


class C15:
    level = "proof"
    design_ref = "DESIGN.md section 8, C15"
    technique = "Coq proof (stored-counter invariant of the Path API and of every model iteration; INDEPENDENT count of switches away from a runnable thread <= bound on every path of the exploration of every program: L_explore_switches_le_bound) + component replay + independent preemption count on the implementation's dumps + outcome-set monotonicity oracle"
    level_text = ("Proved: c15_inv (every Schedule entry has preemptions() <= bound, and an entry at the bound holds no pending alternative) is preserved by every Path API function and by step, "
                  "and by every iteration of the model L (ExecFacts.L_preemptions_le_bound). The count is validated against an independent definition on the implementation's own stacks; "
                  "'found with bound n => found unbounded', monotonicity in n and equality for n >= program size are compared on the bounded-exhaustive core (not proved: they need DPOR completeness).")
    level_note = "partial: monotonicity/completeness of the bounded result sets are oracle-checked, not theorems"
    assumptions = ["theorems are about the Coq model; tie = component replay of rt/path.rs and whole-run correspondence with preemption bounds 0..n",
                   "the independent preemption count uses the thread statuses stored in the Schedule entries"]

    def run(self, ctx):
        res = {"coverage": {}, "violations": [], "broken": [], "known": []}
        base = gen.fam_bound_core(ctx.tier) + gen.fam_yield_dpor()
        bounds = [0, 1, 2, 3] if ctx.tier == "quick" else [0, 1, 2, 3, 4, 5, 6]
        lines = []
        idx = {}
        for b in base:
            for n in bounds + [None]:
                idx[(norm_prog(b), n)] = len(lines)
                lines.append(gen.with_cfg(b, pb=n))
        extra = gen.family_random(ctx.seed, 60 if ctx.tier == "quick" else 600, list("AMNH"), nthreads=(2, 3), maxops=3, prefix="c15r", pb=ctx.seed % 3)
        fam = FamilyRun(ctx, lines + extra, "c15")
        mism, rstats = fam.replay_mismatches()
        if mism:
            res["broken"].append("component replay of rt/path.rs with a preemption bound: " + mism[0])
        wm = fam.whole_run_mismatches()
        if wm:
            m = wm[0]
            res["broken"].append(f"correspondence L vs implementation: `{m.get('prog')}` iteration {m.get('iteration')}: impl `{str(m.get('impl'))[:150]}` model `{str(m.get('model'))[:150]}`")
        ndumps = 0
        keys = {}
        all_lines = lines + extra
        for i, p in fam.parsed.items():
            bstr = all_lines[i].split("|")[1].split("pb=")[1].split()[0]
            bound = None if bstr == "-" else int(bstr)
            for n, it in enumerate(p["iterations"]):
                if it["end"]:
                    ndumps += 1
                    why = sched_preemption_check(it["end"], bound)
                    if why:
                        res["violations"].append({"prog": all_lines[i], "iteration": n + 1, "deviation": "preemptions:" + why})
                        break
            keys[i] = impl_keys(p)
        # programs of atomics only: the smallest bound with which the interleaving semantics (R with a
        # preemption budget) already produces every outcome
        atom = [b for b in base if b.startswith(("pbA", "pbR"))]
        need = {}
        if atom:
            f = os.path.join(ctx.dir, "refb.txt")
            rl = [gen.with_cfg(b, pb=n) for b in atom for n in bounds + [None]]
            open(f, "w").write("\n".join(rl) + "\n")
            rb = driver_keys("refb", f)
            per = len(bounds) + 1
            for a_i, b in enumerate(atom):
                full = rb[a_i * per + per - 1]["keys"]
                for n_i, n in enumerate(bounds):
                    if rb[a_i * per + n_i]["keys"] == full:
                        need[norm_prog(b)] = n
                        break
        nmono = 0
        for b in base:
            nb = norm_prog(b)
            # program size = number of instructions
            size = sum(len([o for o in body.split(";") if o.strip()]) for body in b.split("|")[3:])
            un = idx[(nb_cfg(b, None), None)] if False else idx[(nb, None)]
            if un not in keys:
                continue
            ukeys, ufinal = keys[un]
            prevk = None
            for n in bounds:
                j = idx[(nb, n)]
                if j not in keys:
                    prevk = None
                    continue
                k, fin = keys[j]
                nmono += 1
                if ufinal == "ok" and fin == "ok":
                    extra_k = {x for x in k if x not in ukeys}
                    if extra_k:
                        res["violations"].append({"prog": lines[j], "deviation": "bounded-result-not-in-unbounded:" + sorted(extra_k)[0]})
                    if prevk is not None and not prevk <= k:
                        res["violations"].append({"prog": lines[j], "deviation": f"not-monotone: a result found with bound {n - 1} is missing with bound {n}: " + sorted(prevk - k)[0]})
                    if n >= size and k != ukeys:
                        res["violations"].append({"prog": lines[j], "deviation": f"bound {n} >= program size {size} but the result set differs from the unbounded one"})
                    elif nb in need and n >= need[nb] + 1 and k != ukeys:
                        # (+1: loom also counts the choice of a thread other than 0 at the very first entry)
                        res["violations"].append({"prog": lines[j], "deviation": f"every outcome needs at most {need[nb]} preemptions, but with bound {n} the result set differs from the unbounded one: missing " + sorted(ukeys - k)[0]})
                    prevk = k
                else:
                    prevk = None
        known = Known(ctx.root, ctx.pid)
        kept = []
        for v in res["violations"]:
            if known.match(v["prog"], v["deviation"]):
                continue
            kept.append(v)
        res["violations"] = kept
        res["known"] = known.lines()
        st = fam.stats()
        res["coverage"] = {
            "programs": st["programs"], "iterations": st["iterations"], "api_calls_replayed": rstats.get("api_calls", 0),
            "dumps_checked_for_preemption_count": ndumps, "bound_pairs_compared": nmono, "bounds": [str(b) for b in bounds] + ["unbounded"],
            "disagreements_checked": len(mism) + len(wm),
            "evaluations": st["iterations"], "distinct_nontrivial": len({norm_prog(l) for l in all_lines}),
            "rule": "bounded-exhaustive sync/atomic core x preemption bounds 0..n and unbounded, plus seeded random programs with a bound; distinct = program text with its configuration",
            "samples": sample_programs(lines), "outcomes": st["outcomes"],
        }
        ctx.cleanup()
        return res

    def replay(self, ctx, path):
        print(open(path).read())
        return 0


def nb_cfg(b, n):
    return norm_prog(b)



def frozen_check(parsed):
    """Non-exploring entries keep their decision while they stay on the stack:
    between consecutive iterations, an entry with ex=0 that survives (same
    position, the prefix before it unchanged) has the same choice."""
    prev = None
    for n, it in enumerate(parsed["iterations"]):
        if not it["end"]:
            continue
        cur = parse_dump(it["end"])["entries"]
        if prev is not None:
            k = 0
            while k < min(len(prev), len(cur)) and choice_of(prev[k]) == choice_of(cur[k]):
                k += 1
            # position k is where the decision sequences part ways: it must be an exploring entry
            if k < min(len(prev), len(cur)) and prev[k].get("ex") == "0":
                return f"iteration {n + 1}: the decision at position {k} changed although that entry was created with exploration disabled"
        prev = cur
    return None


def region_check(parsed):
    """Decisions taken between stop_exploring() and explore(), or after
    skip_branch(), must be recorded as non-exploring (so that no alternative is
    ever tried for them). Independent of the flag stored in the path: the region
    is reconstructed from the calls in the API trace."""
    for n, it in enumerate(parsed["iterations"]):
        if not it["end"]:
            continue
        beg = parse_dump(it["begin"])
        length = len(beg["entries"])
        pos = 0
        explicit = beg["head"].get("eos") == "0"
        in_region = explicit        # expect_explicit_explore: nothing explored before explore()
        skipped = False
        must_freeze = []
        for a in it["api"]:
            if a == "critical":
                in_region = True
            elif a == "explore":
                in_region = False
            elif a == "skip":
                skipped = True
            elif a.startswith(("branch_thread ->", "branch_load ->", "branch_spurious ->")):
                pos += 1
            elif a.startswith(("branch_thread seed", "push_load")):
                if in_region or skipped:
                    must_freeze.append(length)
                length += 1
        end = parse_dump(it["end"])["entries"]
        for k in must_freeze:
            if k < len(end) and end[k].get("ex") == "1":
                return f"iteration {n + 1}: the decision at position {k} was taken while exploration was stopped/skipped but is recorded as explorable"
    return None


class C19:
    level = "proof"
    design_ref = "DESIGN.md section 8, C19"
    technique = "Coq proof (non-exploring entries are frozen; control calls only move the exploring/skipping flags; limit arithmetic of Builder::check) + component replay + subset/limit checks on the implementation"
    level_text = ("Proved: step never advances and backtrack never marks an entry created with exploration disabled; new entries inherit the current flag; stop_exploring/explore/skip_branch "
                  "change only the flags (and panic exactly in the documented misuse cases); the branch limit is reported at the first branch beyond max_branches; max_permutations stops the loop "
                  "only at a checkpoint boundary and returns normally (CheckFacts). On the implementation: component replay of every control call, decisions at non-exploring positions never "
                  "change, the restricted result set is a subset of the unrestricted one, limit values need-1 / need behave as documented.")
    level_note = "partial: 'decisions outside the region are still fully explored' is not a theorem (completeness)"
    assumptions = ["theorems are about the Coq model; tie = component replay of rt/path.rs incl. explore_state/critical/skip_branch and whole-run correspondence"]

    def run(self, ctx):
        res = {"coverage": {}, "violations": [], "broken": [], "known": []}
        ctl = gen.fam_ctl_core(ctx.tier)
        plain = [gen.strip_controls(l) for l in ctl]
        # limits: programs run with max_branches around their exact need, max_threads, max_permutations
        limit_base = gen.fam_bound_core("quick")[::9][:20]
        # single-thread programs whose stack alternates schedule and load entries: the entry that exceeds the
        # limit is a Load entry for some limits, a Schedule entry for others
        limit_every = [gen.prog_line("c19L0", ["A0"], [["ld 0 sc", "ld 0 sc", "ld 0 sc", "ld 0 sc"]]),
                       gen.prog_line("c19L1", ["A0"], [["ld 0 sc", "st 0 1 sc", "ld 0 sc", "ld 0 sc", "ld 0 sc", "rmw 0 add 1 sc"]]),
                       gen.prog_line("c19L2", ["A0"], [["sp 1", "ld 0 sc", "ld 0 sc", "jn 1"], ["st 0 1 sc", "ld 0 sc"]])]
        limit_base = limit_every + limit_base
        lines = ctl + plain + limit_base
        fam = FamilyRun(ctx, lines, "c19")
        mism, rstats = fam.replay_mismatches()
        if mism:
            res["broken"].append("component replay of rt/path.rs (controls): " + mism[0])
        wm = fam.whole_run_mismatches()
        if wm:
            m = wm[0]
            res["broken"].append(f"correspondence L vs implementation: `{m.get('prog')}` iteration {m.get('iteration')}: impl `{str(m.get('impl'))[:150]}` model `{str(m.get('model'))[:150]}`")
        nfrozen = nsub = 0
        for i in range(len(ctl)):
            if i not in fam.parsed or (len(ctl) + i) not in fam.parsed:
                continue
            p = fam.parsed[i]
            why = frozen_check(p) or region_check(p)
            nfrozen += 1
            if why:
                res["violations"].append({"prog": lines[i], "deviation": "frozen:" + why})
            k, fin = impl_keys(p)
            ku, finu = impl_keys(fam.parsed[len(ctl) + i])
            nsub += 1
            run = p["run"] or ""
            misuse = lines[i].startswith("ctX")
            if misuse:
                want = "not in critical state" if " ex " in lines[i].split("|")[3] + " " and "sx" not in lines[i] else "not in exploring state"
                if want not in run:
                    res["violations"].append({"prog": lines[i], "deviation": f"misuse-not-reported: expected panic `{want}`, run ended `{run}`"})
                continue
            if fin != "ok" and finu == "ok":
                res["violations"].append({"prog": lines[i], "deviation": "control-calls-introduce-failure:" + fin})
            if finu == "ok":
                bad = sorted(x for x in k if x.startswith("ok|") and strip_ctl_key(x, lines[i]) not in ku)
                if bad:
                    res["violations"].append({"prog": lines[i], "deviation": "restricted-result-not-in-unrestricted:" + bad[0]})
        # regions as blocks: every outcome of R with each stop_exploring..explore region executed without
        # interference must be explored (the decisions outside the regions are still all taken)
        nreg = 0
        reg_idx = [i for i in range(len(ctl)) if lines[i].startswith("ctR") and i in fam.parsed]
        if reg_idx:
            f = os.path.join(ctx.dir, "regions.txt")
            open(f, "w").write("\n".join(lines[i] if i in reg_idx else "" for i in range(len(ctl))) + "\n")
            rk = driver_keys("refa", f)
            for i in reg_idx:
                k, fin = impl_keys(fam.parsed[i])
                nreg += 1
                miss = sorted(x for x in rk.get(i, {"keys": set()})["keys"] if x.startswith("ok|") and x not in k)
                if miss and fin == "ok":
                    res["violations"].append({"prog": lines[i], "deviation": "missing-outside-region:" + miss[0],
                                              "impl_outcomes": sorted(k)[:12], "region_block_outcomes": sorted(rk[i]["keys"])[:12]})
        # limits
        lim_lines = []
        lim_expect = []
        for j, b in enumerate(limit_base):
            pi = fam.parsed.get(len(ctl) + len(plain) + j)
            if not pi or not (pi["run"] or "").startswith("ok"):
                continue
            need = max(len(parse_dump(it["end"])["entries"]) for it in pi["iterations"] if it["end"])
            iters = len(pi["iterations"])
            lim_lines.append(gen.with_cfg(b, mb=need)); lim_expect.append(("ok", iters))
            lim_lines.append(gen.with_cfg(b, mb=need - 1)); lim_expect.append(("branchlimit", None))
            if j < len(limit_every):
                for mb_ in range(2, need - 1):      # EVERY limit below the need must be enforced
                    lim_lines.append(gen.with_cfg(b, mb=mb_)); lim_expect.append(("branchlimit", None))
            nth = len(b.split("|")) - 3
            lim_lines.append(gen.with_cfg(b, mt=nth)); lim_expect.append(("ok", iters))
            if nth > 1:
                lim_lines.append(gen.with_cfg(b, mt=nth - 1)); lim_expect.append(("maxthreads", None))
            # no max_permutations: the checkpoint interval must not change what is explored
            for ci in (1, 2, 7):
                lim_lines.append(gen.with_cfg(b, ci=ci)); lim_expect.append(("ok", iters))
            for mp, ci in ((1, 1), (2, 1), (3, 2), (2, 5), (iters + 5, 1)):
                # iterations run = (first boundary b >= mp with b % ci == 0) - 1, capped by the total
                bnd = ((max(mp, 1) + ci - 1) // ci) * ci
                lim_lines.append(gen.with_cfg(b, mp=mp, ci=ci)); lim_expect.append(("ok", min(iters, bnd - 1)))
        fam2 = FamilyRun(ctx, lim_lines, "c19lim") if lim_lines else None
        nlim = 0
        if fam2:
            wm2 = fam2.whole_run_mismatches()
            if wm2:
                m = wm2[0]
                res["broken"].append(f"correspondence L vs implementation (limits): `{m.get('prog')}`: impl `{str(m.get('impl'))[:150]}` model `{str(m.get('model'))[:150]}`")
            for i, p in fam2.parsed.items():
                kind, iters = lim_expect[i]
                run = p["run"] or ""
                nlim += 1
                if kind == "ok":
                    if not run.startswith("ok") or int(run.split("iters=")[1].split()[0]) != iters:
                        res["violations"].append({"prog": lim_lines[i], "deviation": f"limit: expected a normal return after {iters} iterations, got `{run}`"})
                elif kind == "branchlimit":
                    if "branchlimit" not in run:
                        res["violations"].append({"prog": lim_lines[i], "deviation": f"limit: max_branches below the need must panic with the documented message, got `{run}`"})
                elif kind == "maxthreads":
                    if "self.threads.len() < self.max()" not in run:
                        res["violations"].append({"prog": lim_lines[i], "deviation": f"limit: spawning beyond max_threads must panic, got `{run}`"})
        st = fam.stats()
        res["coverage"] = {
            "programs": st["programs"] + (fam2.stats()["programs"] if fam2 else 0), "iterations": st["iterations"],
            "api_calls_replayed": rstats.get("api_calls", 0), "control_placements": len(ctl), "frozen_checks": nfrozen,
            "subset_checks": nsub, "limit_runs": nlim, "disagreements_checked": len(mism) + len(wm),
            "evaluations": st["iterations"], "distinct_nontrivial": len({norm_prog(l) for l in lines + lim_lines}),
            "rule": "every placement of stop_exploring/explore, skip_branch and explore under expect_explicit_explore in three base programs, the same programs without controls, misuse cases, and limit values need-1 / need for max_branches, max_threads, max_permutations x checkpoint_interval",
            "samples": sample_programs(ctl) + lim_lines[:2], "outcomes": st["outcomes"],
        }
        ctx.cleanup()
        return res

    def replay(self, ctx, path):
        print(open(path).read())
        return 0


def strip_ctl_key(key, line):
    """Outcome key of a program with control calls -> key of the program without them
    (drop the entries of the control instructions and renumber the pcs)."""
    bodies = [[o.strip() for o in b.split(";") if o.strip()] for b in line.split("|")[3:]]
    head, rest = key.split("|", 1)
    out = []
    for part in rest.split(";"):
        if not part:
            continue
        b, items = part.split(":", 1)
        b = int(b)
        new = []
        for it in items.split(","):
            pc, r = it.split("=", 1)
            pc = int(pc)
            if bodies[b][pc] in ("ex", "sx", "sk"):
                continue
            npc = pc - sum(1 for o in bodies[b][:pc] if o in ("ex", "sx", "sk"))
            new.append(f"{npc}={r}")
        out.append(f"{b}:" + ",".join(new))
    return head + "|" + ";".join(out)



class C13:
    level = "proof"
    design_ref = "DESIGN.md section 8, C13"
    technique = "Coq proof (Builder::check loop: records depend on the begin path only, resume = suffix, failing checkpoint reproduces the failure first) + kill/resume differential runs with real checkpoint files + repeat-run determinism"
    level_text = ("Proved (CheckFacts): every record of a run is a function of its begin path; resuming from the begin path of iteration k, with any counter and checkpoint content, visits exactly "
                  "the iterations k.. of the uninterrupted run with the same outcome (resume_is_suffix); with interval 1 the stored checkpoint of a failing run is the begin path of the failing "
                  "iteration and reloading it fails first (failing_checkpoint_first). On the implementation: every program is run twice in one process and once in a second process (identical "
                  "dumps), killed after k iterations for every k and several intervals and resumed from the real checkpoint file (the resumed dumps must be the suffix), and failing runs are reloaded.")
    level_note = ("Trusted/modelled: serde round trip of the path (load(store p) = p is assumed by the model and exercised by the resume runs); HashMap iteration order of thread-locals is outside "
                  "the programs used here.")
    assumptions = ["programs are deterministic closures (no TLS destructors with loom-visible effects)",
                   "tie: component replay of the resumed runs' Path API traces + whole-run correspondence of the uninterrupted runs"]

    def run_one(self, ctx, line, extra, name):
        import subprocess
        f = os.path.join(ctx.dir, name + ".txt")
        open(f, "w").write(line + "\n")
        p = subprocess.run([corr.HARNESS, "run", f, "--cap", "3000"] + extra, capture_output=True, text=True, timeout=300, env=corr.clean_env())
        return p.returncode, p.stdout

    def run(self, ctx):
        res = {"coverage": {}, "violations": [], "broken": [], "known": []}
        base = gen.fam_bound_core("quick")[::7][:24] if ctx.tier == "quick" else gen.fam_bound_core("thorough")[::3][:120]
        failing = [l for l in gen.fam_dead_core("quick") if l.startswith(("ddM", "ddH"))][:12]
        rnd = gen.family_random(ctx.seed, 20 if ctx.tier == "quick" else 150, list("AMNH"), nthreads=(2, 3), maxops=3, prefix="c13r")
        # the whole configuration must survive the checkpoint: preemption bounds, explicit exploration
        bounded = [gen.with_cfg(l, pb=b) for b in (1, 2) for l in gen.fam_bound_core("quick") if l.startswith(("pbA3", "pbM"))][:16]
        bounded += [gen.with_cfg(l, ee=1) for l in gen.fam_ctl_core("quick") if l.startswith("ctE")][:4]
        # state that an iteration could inherit from the previous one (SC-fence clock, objects): a resumed run
        # starts its first iteration from nothing, so any such leak shows as a difference
        state = [gen.prog_line("c13F0", ["A0", "A0"], [["sp 1", "ld 1 rlx", "fn sc", "ld 0 rlx", "jn 1", "fn sc"], ["st 0 1 rlx", "st 1 1 rlx"]]),
                 gen.prog_line("c13F1", ["A0", "A0"], [["sp 1", "st 0 1 rlx", "fn sc", "ld 1 rlx", "jn 1", "fn sc"], ["st 1 1 rlx", "fn sc", "ld 0 rlx"]])]
        state += [l for l in gen.fam_litmus_core("quick") if "fn sc" in l][::9][:6]
        progs = base + rnd + bounded + state
        # 1. determinism: the same family twice in one process, once more in another process
        fam = FamilyRun(ctx, progs + progs, "c13a", shards=1)   # one process: the second run of each program follows the first
        fam2 = FamilyRun(ctx, progs, "c13b")
        wm = fam.whole_run_mismatches()
        if wm:
            m = wm[0]
            res["broken"].append(f"correspondence L vs implementation: `{m.get('prog')}` iteration {m.get('iteration')}")
        ndet = 0
        n = len(progs)
        for i in range(n):
            if i in fam.impl and (n + i) in fam.impl and i in fam2.impl:
                a = corr.strip_api(fam.impl[i]["lines"])
                b = corr.strip_api(fam.impl[n + i]["lines"])
                c = corr.strip_api(fam2.impl[i]["lines"])
                ndet += 1
                if a != b or a != c:
                    k = 0
                    while k < min(len(a), len(b)) and a[k] == b[k]:
                        k += 1
                    res["violations"].append({"prog": progs[i], "deviation": f"nondeterministic: repeated runs differ at line {k}"})
        # 2. kill after k iterations, resume from the checkpoint file
        nres = 0
        replay_in = []
        intervals = [1, 2, 3] if ctx.tier == "quick" else [1, 2, 3, 7]
        for i, line in enumerate(progs):
            if i not in fam.parsed or not (fam.parsed[i]["run"] or "").startswith("ok"):
                continue
            total = len(fam.parsed[i]["iterations"])
            if total < 3:
                continue
            for ci in intervals:
                lc = gen.with_cfg(line, ci=ci)
                rc, full = self.run_one(ctx, lc, [], "full")
                fbeg = [l for l in full.splitlines() if l.startswith(("BEGIN ", "END ", "O ", "RUN "))]
                fits = parse_program_output(full.splitlines())["iterations"]
                ks = sorted(set([1, 2, 3, total // 2, total - 1])) if ctx.tier == "quick" else range(1, min(total, 40))
                for k in ks:
                    if k < 1 or k >= total:
                        continue
                    ck = os.path.join(ctx.dir, "ck.json")
                    if os.path.exists(ck):
                        os.remove(ck)
                    rc1, out1 = self.run_one(ctx, lc, ["--checkpoint", ck, "--stop-after", str(k)], "stop")
                    if rc1 != 77:
                        res["broken"].append(f"stop-after run of `{lc}` exited with {rc1}")
                        continue
                    if not os.path.exists(ck):
                        # no boundary reached yet: resuming starts from scratch
                        continue
                    rc2, out2 = self.run_one(ctx, lc, ["--checkpoint", ck], "resume")
                    replay_in.append(out2)
                    rits = parse_program_output(out2.splitlines())
                    nres += 1
                    if not rits["iterations"]:
                        res["violations"].append({"prog": lc, "deviation": f"resume after {k} iterations ran nothing", "k": k})
                        continue
                    first = rits["iterations"][0]["begin"]
                    j = next((x for x, it in enumerate(fits) if it["begin"] == first), None)
                    if j is None:
                        res["violations"].append({"prog": lc, "deviation": f"resume after {k} iterations starts from a path the uninterrupted run never had", "k": k})
                        continue
                    want = [(it["begin"], it["end"], it["ops"]) for it in fits[j:]]
                    got = [(it["begin"], it["end"], it["ops"]) for it in rits["iterations"]]
                    if want != got:
                        res["violations"].append({"prog": lc, "deviation": f"resume after {k} iterations (interval {ci}) does not visit the suffix of the uninterrupted run (starts at iteration {j + 1})", "k": k})
                    # the checkpoint is the last boundary at or before the first unexecuted iteration
                    if not (j <= k and j >= k - ci):
                        res["violations"].append({"prog": lc, "deviation": f"resume after {k} iterations (interval {ci}) restarted at iteration {j + 1}, not at the last stored checkpoint", "k": k})
        # 3. a stored checkpoint of a failing iteration reproduces the failure first
        nfail = 0
        for line in failing:
            lc = gen.with_cfg(line, ci=1)
            ck = os.path.join(ctx.dir, "ckf.json")
            if os.path.exists(ck):
                os.remove(ck)
            rc1, out1 = self.run_one(ctx, lc, ["--checkpoint", ck], "fail1")
            run1 = [l for l in out1.splitlines() if l.startswith("RUN ")]
            if not run1 or not run1[0].startswith("RUN panic"):
                continue
            rc2, out2 = self.run_one(ctx, lc, ["--checkpoint", ck], "fail2")
            run2 = [l for l in out2.splitlines() if l.startswith("RUN ")]
            nfail += 1
            cls1 = " ".join(run1[0].split()[3:])
            if not run2 or not run2[0].startswith("RUN panic iters=1 ") or " ".join(run2[0].split()[3:]) != cls1:
                res["violations"].append({"prog": lc, "deviation": f"reloading the checkpoint of a failing run does not reproduce the failure first: first run `{run1[0]}`, reloaded `{run2[0] if run2 else '?'}`"})
        # component replay of the resumed runs
        if replay_in:
            f = os.path.join(ctx.dir, "replay.in")
            with open(f, "w") as fh:
                for t, out in enumerate(replay_in):
                    fh.write(out)
            out, code, err = corr.run_driver("replay", f)
            mm = [l for l in out.splitlines() if l.startswith("MISMATCH")]
            if mm or code != 0:
                res["broken"].append("component replay of resumed runs: " + (mm[0] if mm else err[:200]))
        st = fam.stats()
        res["coverage"] = {
            "programs": len(progs), "iterations": st["iterations"], "determinism_triples": ndet, "kill_resume_runs": nres,
            "failing_checkpoint_reloads": nfail, "intervals": intervals, "disagreements_checked": len(wm),
            "evaluations": ndet + nres + nfail, "distinct_nontrivial": len({norm_prog(l) for l in progs + failing}),
            "rule": "sync/atomic core + seeded random programs; each run twice in one process and once in another; killed after k iterations (k around the start, middle, end; all k in the thorough tier) for checkpoint intervals 1,2,3(,7) and resumed from the real checkpoint file; failing runs reloaded",
            "samples": sample_programs(progs),
        }
        ctx.cleanup()
        return res

    def replay(self, ctx, path):
        print(open(path).read())
        return 0



class C06(OutcomeCheck):
    kinds = ("missed-failure", "spurious-failure")
    technique = "Coq proof (Builder::check control flow: first failure is the result, nothing runs after it, a normal return means no failure) + crash-point enumeration on the implementation with abort detection"
    rule = "F-crash: a user panic inserted at every position of every thread of small programs over atomics, mutex, rwlock, channel, condvar, notify (so also while holding guards), each panicking program followed in the same process by the program without the panic"
    level_text = ("Proved (CheckFacts): if any iteration fails, check returns that very failure, every earlier iteration finished, and nothing is executed afterwards; a normal return means every iteration "
                  "finished (and, without max_permutations, that the exploration was exhausted); the next run starts from a state that depends on nothing but the program. Unwinding, destructors running "
                  "during a panic, aborts and hangs are runtime behaviour the model cannot exhibit: they are observed on the implementation (each program runs in a monitored process; an abort or a hang is a violation).")
    level_note = "partial by nature: the Coq part covers the control flow of Builder::check; process-level behaviour is decided by the crash-point runs"
    ref_mode = "refw"
    shards = 1                # each panicking program is followed in the same process by the clean one
    det_family = lambda self, ctx: gen.fam_crash_core(ctx.tier)
    rnd_family = rnd("c06r", "AMRHN", nq=60, nt=600)


class C16:
    level = "proof"
    design_ref = "DESIGN.md section 8, C16"
    technique = "Coq proof (the state of an iteration is rebuilt from the program and the path only) + back-to-back and concurrent model runs in one process compared with the model's stand-alone prediction"
    level_text = ("Proved (CheckFacts): init_exec depends on the path only, an iteration is a function of (program, path), records of different runs agree on equal begin paths. On the implementation: every "
                  "program of a mixed family (finishing, deadlocking, leaking, panicking) is run twice, interleaved with the others, in one process, and again on four OS threads running models concurrently; "
                  "each output must equal the model's stand-alone prediction (thread ids, object indices, clocks through the candidate sets, channel contents).")
    level_note = "process-wide statics and real TLS are outside the model; they are covered by the back-to-back / concurrent runs only"
    assumptions = ["the Coq theorems are about the model's Execution::new/step; the implementation's reset is validated by whole-run correspondence of every iteration of every run"]

    def run(self, ctx):
        import subprocess
        res = {"coverage": {}, "violations": [], "broken": [], "known": []}
        pool = (gen.fam_sync_core("quick")[::13] + gen.fam_dead_core("quick")[::9] + gen.fam_leak_core("quick")[::9] +
                gen.fam_crash_core("quick")[::15] + gen.fam_arc_core("quick")[::40])
        # state that lives in the thread set / objects across a whole iteration: SC-fence clock, lazy statics, TLS
        pool += [l for l in gen.fam_race_core("quick") if l.startswith(("rcFsc", "rcMP"))][::6]
        pool += [l for l in gen.fam_litmus_core("quick") if "fn sc" in l][::5]
        pool += gen.fam_tls_core("quick")[::40]
        # exploration control state (exploring / critical / skipping) must not survive an iteration either
        pool += [l for l in gen.fam_ctl_core("quick") if l.startswith(("ctM", "ctK", "ctE"))][::5]
        pool += [gen.prog_line("c16K0", ["A0"], [["sp 1", "ex", "ld 0 sc", "sk", "st 0 1 sc", "jn 1"], ["st 0 2 sc", "ld 0 sc"]], ee=1),
                 gen.prog_line("c16K1", ["A0"], [["sp 1", "ld 0 sc", "sk", "sx", "st 0 1 sc", "ex", "ld 0 sc", "jn 1"], ["st 0 2 sc", "ld 0 sc"]])]
        pool += gen.family_random(ctx.seed, 30 if ctx.tier == "quick" else 300, list("AMRCNHUKF"), nthreads=(2, 3), maxops=3, prefix="c16r")
        seq = []
        for i in range(0, len(pool) - 1, 2):
            seq += [pool[i], pool[i + 1], pool[i], pool[i + 1]]
        fam = FamilyRun(ctx, seq, "c16seq", shards=1)   # one process: A,B,A,B back to back
        wm = fam.whole_run_mismatches()
        for m in wm[:3]:
            # a program whose behaviour depends on what ran before it
            res["violations"].append({"prog": m.get("prog"), "deviation": f"back-to-back run differs from the stand-alone prediction at iteration {m.get('iteration')}: impl `{str(m.get('impl'))[:120]}` expected `{str(m.get('model'))[:120]}`"})
        # concurrent models
        f = os.path.join(ctx.dir, "par.txt")
        open(f, "w").write("\n".join(pool) + "\n")
        p = subprocess.run([corr.HARNESS, "par", f, "--cap", "3000"], capture_output=True, text=True, timeout=900, env=corr.clean_env())
        npar = 0
        if p.returncode != 0:
            res["violations"].append({"prog": "(concurrent run of the pool)", "deviation": f"the process running four models concurrently died: exit {p.returncode} {p.stderr[-200:]}"})
        else:
            par = corr.split_progs(p.stdout)
            out, code, err = corr.run_driver("run", f)
            mp = corr.split_progs(out)
            for i in sorted(par):
                hl = corr.strip_api(par[i]["lines"])
                if hl and ("badprog" in hl[-1] or hl[-1].endswith(" capped")):
                    continue
                npar += 1
                ml = corr.strip_api(mp.get(i, {"lines": []})["lines"])
                if hl != ml:
                    k = 0
                    while k < min(len(hl), len(ml)) and hl[k] == ml[k]:
                        k += 1
                    res["violations"].append({"prog": pool[i], "deviation": f"concurrent run differs from the stand-alone prediction: impl `{(hl[k] if k < len(hl) else '<end>')[:120]}` expected `{(ml[k] if k < len(ml) else '<end>')[:120]}`"})
        if fam.aborts:
            res["violations"].append({"prog": fam.aborts[0]["prog"], "deviation": "abort:" + fam.aborts[0]["crash"]})
        st = fam.stats()
        res["coverage"] = {
            "programs": st["programs"] + npar, "iterations": st["iterations"], "back_to_back_runs": st["programs"], "concurrent_runs": npar,
            "disagreements_checked": len(wm), "evaluations": st["programs"] + npar, "distinct_nontrivial": len({norm_prog(l) for l in pool}),
            "rule": "mixed pool (finishing, deadlocking, leaking, panicking programs over all object kinds + seeded random); sequence A,B,A,B in one process; the pool on 4 OS threads concurrently; each output compared with the model's stand-alone run",
            "samples": sample_programs(pool), "outcomes": st["outcomes"],
        }
        ctx.cleanup()
        return res

    def replay(self, ctx, path):
        print(open(path).read())
        return 0



class C02(OutcomeCheck):
    kinds = ("missing",)
    cap = 30000
    ref_mode = ("rc11s", "rc11w")
    technique = "executable RC11 (Coq, validated on the published litmus verdicts) as lower-bound oracle + whole-run correspondence of the view-based atomic model; proved: exact characterisation of load candidate sets (nothing is excluded but for the three coherence reasons; never empty; every mo-maximal store is a candidate), fence/clock lemmas"
    rule = "F-litmus: SB, MP, LB, S, R, CoRR/CoWR/CoRW, 2+2W, WRC, RWC, IRIW, RMW and CAS shapes, release sequences x ordering assignments x fence insertions (2-thread shapes exhaustively in the thorough tier) + seeded random atomic programs"
    level_text = ("The statement 'every RC11-consistent outcome with acyclic po+rf is explored (fewer stores than the history)' is compared against RC11.v, an executable transcription of RC11 "
                  "(strong instance: SeqCst accesses are SC) that enumerates all consistent outcomes of each litmus program; a missing outcome is a violation (over-synchronisation). "
                  "Proved: causality transfer lemmas for stores/loads/RMWs/fences (SyncFacts), vector-clock lattice (VVFacts); the fence_acq over-synchronisation found this way was repaired (fixed entry). "
                  "Completeness of loom's view machine w.r.t. RC11 for all programs is not proved.")
    level_note = "partial: RC11 completeness is oracle-checked on the litmus core; RC11.v is trusted as the specification (validated by 77 litmus Examples)"
    det_family = lambda self, ctx: gen.fam_litmus_core(ctx.tier)
    rnd_family = rnd("c02r", "AF", nq=100, nt=1000, nthreads=(2, 3), maxops=3)


class C03(OutcomeCheck):
    kinds = ("forbidden",)
    cap = 30000
    ref_mode = ("rc11s", "rc11w")
    technique = "executable RC11 (weak instance: SeqCst accesses demoted, C++20 release sequences) as upper-bound oracle + whole-run correspondence; proved: exact candidate sets (CoWR/CoRR and SeqCst exclusion for arbitrary states and thread counts, RMW reads a mo-maximal store), coherence and RMW atomicity over SEQUENCES of loads / stores / RMWs of any number of threads for the model's current functions (an invariant carrying a ranking of the live stores in which every RMW follows its source: edges of the modification order are never lost, assert_ne never fires, CoRR/CoWR/CoRW/CoWW, no store between an RMW and its source), release/acquire clock hand-over"
    rule = C02.rule
    level_text = ("Every outcome of every explored iteration of the litmus core (and of a few programs with tens of thousands of executions, run on the implementation only) must be allowed by the "
                  "weakest documented model (RC11.v weak instance: SeqCst accesses behave as acquire/release as loom's README says, SC fences kept, C++20 release sequences). Forbidden outcomes are "
                  "violations. Three defects of the modification-order bookkeeping found this way or while proving were repaired (fixed entries 189e88b, c0421c4, 01ecff8). Proved: exact candidate sets, "
                  "coherence and RMW atomicity over sequences of operations of any number of threads for the current functions (AtomicClosure; ring wrap-around excluded) and over the executions of the model L from init_exec through a frame lemma over all micro-operations (AtomicRun..AtomicRun4: invariant, RMW atomicity, CoRR/CoWR along SyncMono.steps; hypotheses left: ring room, and for replayed load entries that the recorded entry equals the candidate list -- proved for first iterations and after the stored prefix, checked with a sound Coq checker otherwise; no-hypothesis instances for two concrete programs), release/acquire, RMW release "
                  "sequences and fences transfer at least the clocks C11 demands.")
    level_note = "coherence and atomicity of the modification-order bookkeeping are theorems about L (one cell, no ring wrap-around); the full RC11 consistency of explored executions (SC fences, release sequences across cells) is oracle-checked on the litmus core"
    det_family = lambda self, ctx: gen.fam_litmus_core(ctx.tier)
    rnd_family = rnd("c03r", "AF", nq=100, nt=1000, nthreads=(2, 3), maxops=3)
    heavy_family = lambda self, ctx: gen.fam_litmus_heavy(ctx.tier)



class C04:
    level = "proof"
    design_ref = "DESIGN.md section 8, C04"
    technique = "Coq proof (vector-clock lattice, exactness of the race test at each access, clock transfer lemmas of every synchronisation primitive) + whole-run correspondence + independent declarative happens-before oracle on every executed trace"
    level_text = ("Proved: the clock order/join/ahead functions decide the pointwise lattice (VVFacts); a cell/atomic access panics iff some recorded conflicting access is not below the thread's clock "
                  "(C04_cell_* theorems); every synchronisation primitive transfers the releaser's clock to the acquirer (SyncFacts). Not proved: the global statement over whole executions. "
                  "On the implementation: for every explored iteration of the F-race core an independent vector-clock construction of happens-before (two readings bracketing the spec) decides whether "
                  "the executed accesses race; a race under the strongest reading that loom does not report, or a report without a race under the weakest reading, is a violation.")
    level_note = "partial: per-execution exactness is oracle-checked; 'if some execution races it is reported' additionally relies on exploration completeness (C01/C02)"
    assumptions = ["the oracle reconstructs reads-from from values (every store of the family writes a distinct value)",
                   "happens-before follows C11 with C++20 release sequences; where the documentation leaves room (SC fence order, unpark before park, reader-reader hand-over) only definite violations are reported"]

    def run(self, ctx):
        import hb
        res = {"coverage": {}, "violations": [], "broken": [], "known": []}
        known = Known(ctx.root, ctx.pid)
        det = gen.fam_race_core(ctx.tier)
        rnd_ = gen.family_random(ctx.seed, 120 if ctx.tier == "quick" else 1200, list("UAMHF"), nthreads=(2, 3), maxops=3, prefix="c04r")
        nexec = nrace = nambig = 0
        outcomes = {}
        nprog = nit = 0
        for name, lines in (("core", det), ("random", rnd_)):
            fam = FamilyRun(ctx, lines, name, cap=5000)
            st = fam.stats()
            nprog += st["programs"]
            nit += st["iterations"]
            for k, v in st["outcomes"].items():
                outcomes[k] = outcomes.get(k, 0) + v
            mm = fam.whole_run_mismatches()
            if mm:
                m = mm[0]
                res["broken"].append(f"correspondence L vs implementation ({name}): `{m.get('prog')}` iteration {m.get('iteration')}: impl `{str(m.get('impl'))[:150]}` model `{str(m.get('model'))[:150]}`")
            if name == "random":
                # the random family has reused values: the oracle needs distinct values, use it for correspondence only
                continue
            for i, p in sorted(fam.parsed.items()):
                run = p["run"] or ""
                failed = run.startswith("panic")
                caus = failed and " causality " in (" " + run + " ")
                for n_, it in enumerate(p["iterations"]):
                    last = n_ == len(p["iterations"]) - 1
                    if failed and last and not caus:
                        continue
                    nexec += 1
                    rs, rw = hb.analyse_iteration(lines[i], it, caus and last)
                    reported = caus and last
                    dev = None
                    if rs and not reported:
                        dev = "missed-race"
                    elif reported and not rw:
                        dev = "false-race-report"
                    elif rw != rs:
                        nambig += 1
                    if reported or rs:
                        nrace += 1
                    if dev:
                        d = f"{dev}:iteration-shape " + key_of_logs(it["ops"])
                        if known.match(lines[i], dev):
                            pass
                        else:
                            res["violations"].append({"prog": lines[i], "deviation": dev, "iteration": n_ + 1, "trace": key_of_logs(it["ops"])})
                        break
        res["known"] = known.lines()
        res["coverage"] = {
            "programs": nprog, "iterations": nit, "executions_checked_by_hb_oracle": nexec, "executions_with_a_race": nrace,
            "executions_where_the_two_readings_differ": nambig, "disagreements_checked": len(res["broken"]),
            "evaluations": nexec, "distinct_nontrivial": len({norm_prog(l) for l in det + rnd_}),
            "rule": "F-race core: message passing through atomics (all orderings x fences, with and without waiting), release sequences, two hops, mutex, rwlock, channel, park/unpark, spawn/join, SC fences, unsync_load/with_mut; every explored execution analysed; + seeded random programs for correspondence",
            "samples": sample_programs(det), "outcomes": outcomes,
        }
        ctx.cleanup()
        return res

    def replay(self, ctx, path):
        print(open(path).read())
        return 0



def tls_trace_check(fam, lines):
    """Property-level checks of C17 on the implementation's own output."""
    viol = []
    for i, p in fam.parsed.items():
        raw = [l for l in fam.impl[i]["lines"] if not l.startswith("API ")]
        bodies = [[o.strip() for o in b.split(";") if o.strip()] for b in lines[i].split("|")[3:]]
        it_lines = []
        cur = None
        for l in raw:
            if l.startswith("BEGIN "):
                cur = []
                it_lines.append(cur)
            elif cur is not None and not l.startswith(("END ", "RUN ")):
                cur.append(l)
        bad = None
        for n, ls in enumerate(it_lines):
            tls_init = {}
            tls_drop = {}
            lazy_init = {}
            lazy_drop = {}
            lazy_ninit = {}
            lazy_ndrop = {}
            twice = None
            last_o = {}
            for pos, l in enumerate(ls):
                w = l.split()
                if w[0] == "I" and w[1] == "tls":
                    k = (int(w[2]), int(w[3]))
                    if k in tls_init:
                        bad = f"thread-local {k[0]} initialised twice by thread {k[1]}"
                    tls_init[k] = pos
                elif w[0] == "D" and w[1] == "tls":
                    k = (int(w[2]), int(w[3]))
                    if k in tls_drop or k not in tls_init:
                        bad = f"thread-local {k[0]} of thread {k[1]} dropped twice or without initialisation"
                    tls_drop[k] = pos
                elif w[0] == "I" and w[1] == "lazy":
                    k = int(w[2])
                    if lazy_ninit.get(k, 0) >= 1:
                        # a second run of the initialiser in the same execution
                        twice = f"lazy static {w[2]} initialised twice in one execution"
                    lazy_ninit[k] = lazy_ninit.get(k, 0) + 1
                    lazy_init.setdefault(k, pos)
                elif w[0] == "D" and w[1] == "lazy":
                    k = int(w[2])
                    lazy_ndrop[k] = lazy_ndrop.get(k, 0) + 1
                    if lazy_ndrop[k] > lazy_ninit.get(k, 0):
                        bad = f"lazy static {w[2]} dropped twice or without initialisation"
                    if lazy_ndrop[k] == lazy_ninit.get(k, 0):
                        lazy_drop[k] = pos
                elif w[0] == "O":
                    b, pc = int(w[1]), int(w[2])
                    last_o[b] = pos
                    if b < len(bodies) and pc < len(bodies[b]):
                        ins = bodies[b][pc].split()
                        if ins[0] == "tw" and w[3] == "-" and (int(ins[1]), b) not in tls_init:
                            bad = f"thread {b} used thread-local {ins[1]} before it was initialised for that thread"
                        if ins[0] == "tw" and (int(ins[1]), b) in tls_drop:
                            bad = f"thread {b} used thread-local {ins[1]} after it was dropped"
                        if ins[0] == "lz":
                            if int(ins[1]) not in lazy_init:
                                bad = f"lazy static {ins[1]} read before initialisation"
                            elif w[3] != str(41 + int(ins[1])):
                                bad = f"lazy static {ins[1]} returned {w[3]}"
                            if int(ins[1]) in lazy_drop:
                                bad = f"lazy static {ins[1]} used after it was dropped"
            finished = (n < len(it_lines) - 1) or (p["run"] or "").startswith("ok")
            if finished and not bad:
                for k in tls_init:
                    if k not in tls_drop:
                        bad = f"thread-local {k[0]} of thread {k[1]} was never dropped"
                    elif tls_drop[k] < last_o.get(k[1], -1):
                        bad = f"thread-local {k[0]} of thread {k[1]} dropped before the thread finished"
                for k in lazy_init:
                    if k not in lazy_drop:
                        bad = f"lazy static {k} was not dropped at the end of the iteration"
            if bad or twice:
                viol.append({"prog": lines[i], "deviation": "tls:" + (bad or twice), "iteration": n + 1})
                break
    return viol


class C17(OutcomeCheck):
    technique = "Coq proof (global invariants of every run: initialisations logged = keys held, at most one per thread and key; a lazy static is initialised at most once per execution, the registry stays shut after main's exit, initialisation happens-before every later access) + whole-run correspondence incl. try_with from a destructor during thread teardown + trace checks + outcome oracle"
    rule = "F-tls: 1-2 thread-locals and 1-2 lazy statics touched from 1-4 threads in all orders, repeated and nested use, use before/after join, unjoined threads; every iteration's init/drop lines are checked"
    level_text = ("The model carries the per-thread set of initialised keys and the per-execution lazy-static registry (value cell + Synchronize); whole-run correspondence compares every initialisation, every "
                  "destructor and every value with the implementation on the F-tls core (destructor order canonicalised: it is HashMap order in the code). On the implementation's traces: one initialisation "
                  "per thread and key, destruction when the thread finishes, one initialisation per execution for a lazy static, all threads read the initialised value (a loom cell written by the initialiser, so "
                  "initialisation happens-before every access or a race is reported), destruction at the end of the iteration, re-initialisation in the next one. Proved: fresh state per iteration (C16 theorems), "
                  "the race test exactness used for the init-happens-before-access edge (C04 theorems).")
    level_note = "init-once / shutdown / init-happens-before-access are theorems about L; destruction at thread exit, AccessError after teardown and privacy are decided by correspondence + trace checks; Lazy::get has no scheduling point, so which thread initialises is decided by the surrounding operations only"
    ref_mode = "refw"
    det_family = lambda self, ctx: gen.fam_tls_core(ctx.tier)
    rnd_family = lambda self, ctx: []

    def extra(self, ctx, fam, lines):
        viol = tls_trace_check(fam, lines)
        # an access to an initialised lazy static acquires what the initialiser released and releases nothing:
        # the happens-before oracle (which has no edge for such accesses) is applied to the `tlRc` programs
        for i, p in sorted(fam.parsed.items()):
            if not lines[i].startswith("tlRc"):
                continue
            run = p["run"] or ""
            caus = run.startswith("panic") and " causality " in (" " + run + " ")
            for n_, it in enumerate(p["iterations"]):
                last = n_ == len(p["iterations"]) - 1
                rs, rw = hb.analyse_iteration(lines[i], it, caus and last)
                if rs and not (caus and last):
                    viol.append({"prog": lines[i], "deviation": "missed-race", "iteration": n_ + 1,
                                 "detail": "a data race between accesses that only a lazy-static access 'orders' is not reported"})
                    break
                if caus and last and not rw:
                    viol.append({"prog": lines[i], "deviation": "false-race-report", "iteration": n_ + 1})
                    break
        return viol



def fut_trace_check(fam, lines):
    """block_on re-polls only after a wake-up or the one modelled spurious return:
    per block_on call, polls - 1 <= wake calls started so far + 1 (a wake call has
    started once the operation before it in its thread has completed)."""
    viol = []
    for i, p in fam.parsed.items():
        raw = [l for l in fam.impl[i]["lines"] if not l.startswith("API ")]
        bodies = [[o.strip() for o in b.split(";") if o.strip()] for b in lines[i].split("|")[3:]]
        bad = None
        n = 0
        polls = {}
        done_pc = {}
        spawned = {0}
        for l in raw:
            w = l.split()
            if w[0] == "BEGIN":
                polls, done_pc, spawned = {}, {}, {0}
                n += 1
            elif w[0] == "P":
                k = (int(w[1]), int(w[2]))
                polls[k] = polls.get(k, 0) + 1
                ins = bodies[k[0]][k[1]].split() if k[0] < len(bodies) and k[1] < len(bodies[k[0]]) else []
                if ins and ins[0] == "bs" and polls[k] > 1:
                    # the first Pending poll spawned the waking threads
                    spawned |= {int(x) for x in ins[3:5] if int(x) != 0}
                started = 0
                for b in spawned:
                    nxt = done_pc.get(b, -1) + 1
                    for pc, o in enumerate(bodies[b]):
                        if o.split()[0] in ("wk", "wme") and pc <= nxt:
                            started += 1
                if polls[k] - 1 > started + 1:
                    bad = f"iteration {n}: block_on at {k} polled {polls[k]} times with only {started} wake calls started"
            elif w[0] == "O":
                b, pc = int(w[1]), int(w[2])
                done_pc[b] = pc
                if b < len(bodies) and pc < len(bodies[b]) and bodies[b][pc].split()[0] == "sp":
                    spawned.add(int(bodies[b][pc].split()[1]))
        if bad:
            viol.append({"prog": lines[i], "deviation": "futures:" + bad})
    return viol


class C20(OutcomeCheck):
    technique = "Coq proof (rt::Notify, which backs block_on's waker: no_lost_wakeup over arbitrary interleavings, re-poll only after a notify or the single spurious return) + Coq model of block_on / AtomicWaker / directly handed wakers as derived programs over Notify, Arc and Mutex + whole-run correspondence (features futures) + outcome oracle (R with wake edges) + re-poll trace check"
    rule = "F-fut: one blocked future (poll = check, register with an AtomicWaker, re-check) and 1-2 waking threads: wake before/after/during poll and registration, lost and missing wakes, two futures in sequence; futures whose first Pending poll hands a waker clone to each of 1-2 spawned threads (the wake itself carries the ordering)"
    level_text = ("block_on and AtomicWaker::register/wake/take_waker are modelled as the sequences of rt operations their source performs (Notify(false,true) inside a loom Arc, waker clone/drop as RefInc/RefDec, "
                  "rt::Mutex(false) with try-acquire on register); every decision, poll and result is compared with the implementation built with the futures feature. R: a future blocked in block_on completes iff "
                  "its value can be read, after a wake-up or once spuriously; a run where no wake can arrive deadlocks. Proved: the Notify lemmas of C08 (a wait completes only with the flag set, notify publishes), "
                  "fresh state per iteration. On traces: polls - 1 <= completed wake-ups + 1 for every block_on.")
    level_note = "the Notify half and the AtomicWaker slot protocol (latest registration, registered-then-woken is not lost, wake during registration) are theorems about L for all interleavings; which interleavings are explored is decided by correspondence + oracle on the bounded core"
    ref_mode = "refw"
    det_family = lambda self, ctx: gen.fam_fut_core(ctx.tier)
    rnd_family = lambda self, ctx: []

    def extra(self, ctx, fam, lines):
        return fut_trace_check(fam, lines)


HOOK_COMMITS = ["8f72140"]
FIX_COMMITS = ["4a97b3f", "e9415b5", "1d4f62f", "36c0d26", "7942235", "13413be", "756d098", "cac202b", "91a3e2b", "189e88b", "c0421c4", "4a05908", "01ecff8", "02b5837"]
NOT_CLAIMED = {}
REGISTRY = {"C14": C14(), "C01": C01(), "C05": C05(), "C07": C07(), "C08": C08(), "C09": C09(),
            "C10": C10(), "C11": C11(), "C18": C18(), "C12": C12(), "C15": C15(), "C19": C19(), "C13": C13(), "C06": C06(), "C16": C16(), "C02": C02(), "C03": C03(), "C04": C04(), "C17": C17(), "C20": C20()}
