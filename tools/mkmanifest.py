#!/usr/bin/env python3
"""Writes MANIFEST.json from the registry in props.py (claimed checks) and the
property list (everything else goes to not_applicable with its reason)."""
import json
import os
import sys

ROOT = os.path.dirname(os.path.dirname(os.path.abspath(__file__)))
sys.path.insert(0, os.path.join(ROOT, "tools"))
import props  # noqa: E402

ids = [json.loads(l)["id"] for l in open(os.path.join(ROOT, "properties.jsonl"))]
checks = []
for pid in ids:
    if pid not in props.REGISTRY:
        continue
    c = props.REGISTRY[pid]
    checks.append({
        "property_id": pid,
        "quick_cmd": f"./check {pid} --tier quick",
        "thorough_cmd": f"./check {pid} --tier thorough",
        "evidence_file": f"/verif/evidence/{pid}.json",
        "replay_cmd_template": f"./check {pid} --replay {{path}}",
        "engine": "coq-model-correspondence",
        "level_claimed": {"category": c.level, "text": c.level_text, "design_ref": c.design_ref},
        "level_note": c.level_note,
        "technique": c.technique,
    })
na = [{"property_id": pid, "reason": props.NOT_CLAIMED.get(pid, "check not built yet (work in progress; DESIGN.md section 12)")}
      for pid in ids if pid not in props.REGISTRY]
m = {
    "version": 1,
    "setup_cmd": "./check --setup",
    "hooks": {
        "guard": "--cfg tokio_rs_loom_verif",
        "enable": "RUSTFLAGS=--cfg tokio_rs_loom_verif, set in /verif/harness/.cargo/config.toml; the harness depends on /repo by path with features checkpoint,futures",
        "baseline_off_cmd": "cd /repo && cargo nextest run --workspace --no-fail-fast --offline",
        "source_commits": props.HOOK_COMMITS,
        "add_only": True,
    },
    "engines": [{
        "name": "coq-model-correspondence", "path": "/verif/coq + /verif/ocaml + /verif/harness + /verif/tools",
        "serves_properties": [c["property_id"] for c in checks],
        "kind_free_text": "Coq 8.16 model of src/rt with machine-checked theorems; extracted OCaml driver; Rust harness interpreting a program language on the real loom; differential correspondence and reference-semantics oracle",
    }],
    "checks": checks,
    "not_applicable": na,
    "notes": "See DESIGN.md. Every check rebuilds the Coq development (make), the driver and the harness from the current trees.",
}
json.dump(m, open(os.path.join(ROOT, "MANIFEST.json"), "w"), indent=1)
print(f"MANIFEST.json: {len(checks)} checks, {len(na)} not claimed")
