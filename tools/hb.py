"""Declarative happens-before on an executed trace (C04 oracle), independent of
loom's implementation: vector clocks built from the edges the property names --
spawn/join, lock hand-over, channel messages, park/unpark, atomic
release/acquire (release sequences through RMWs, fences).

Two readings bracket the places where the specification leaves room:
  strong = every edge loom is entitled to use (unpark orders at once, SC fences
           are totally ordered, an RwLock read release orders before a later
           read acquire)           -> fewest races
  weak   = only the edges C11 / std guarantee (unpark orders only through the
           park that consumes it, no hb between SC fences, reader -> reader
           not ordered)            -> most races
A race under `strong` that loom does not report is a definite miss; a report
with no race even under `weak` is a definite false alarm."""


def join(a, b):
    for k, v in b.items():
        if a.get(k, 0) < v:
            a[k] = v


def leq_at(wclocks, c):
    """no recorded access is ahead of clock c"""
    return all(c.get(j, 0) >= v for j, v in wclocks.items())


class HB:
    def __init__(self, nthreads, decls, strong):
        self.strong = strong
        self.C = {0: {0: 1}}
        self.released = {}
        self.reads = {}
        self.store_view = {}      # (loc, value) -> view
        self.lock = {}            # mutex -> view
        self.rw_w = {}
        self.rw_r = {}
        self.chan_s = {}
        self.chan_q = {}
        self.token = {}
        self.arc = {}             # Arc -> view released by the drops of its handles
        self.scg = {}
        self.cellW = {}
        self.cellR = {}
        self.aload = {}
        self.astore = {}
        self.uload = {}
        self.umut = {}
        self.decls = decls
        for i, d in enumerate(decls):
            if d.startswith("A"):
                self.store_view[(i, int(d[1:]))] = {}
                # creation is an unsync mut by main before anything else
                self.umut[i] = {0: 1}
            if d == "U":
                self.cellW[i] = {0: 1}

    def clock(self, t):
        return self.C.setdefault(t, {})

    def tick(self, t):
        c = self.clock(t)
        c[t] = c.get(t, 0) + 1

    def race_of(self, t, w):
        """Would instruction w (list of words), executed now by thread t, race?"""
        c = dict(self.clock(t))
        c[t] = c.get(t, 0) + 1
        op = w[0]
        if op == "cr":
            u = int(w[1])
            return not leq_at(self.cellW.get(u, {}), c)
        if op == "cw":
            u = int(w[1])
            return not (leq_at(self.cellW.get(u, {}), c) and leq_at(self.cellR.get(u, {}), c))
        if op in ("ld", "aw"):
            return not leq_at(self.umut.get(int(w[1]), {}), c)
        if op in ("st", "rmw", "cas", "fu"):
            a = int(w[1])
            return not (leq_at(self.umut.get(a, {}), c) and leq_at(self.uload.get(a, {}), c))
        if op == "usl":
            a = int(w[1])
            return not (leq_at(self.umut.get(a, {}), c) and leq_at(self.astore.get(a, {}), c))
        if op == "wm":
            a = int(w[1])
            return not (leq_at(self.umut.get(a, {}), c) and leq_at(self.uload.get(a, {}), c) and
                        leq_at(self.astore.get(a, {}), c) and leq_at(self.aload.get(a, {}), c))
        return False

    def step(self, t, w, res):
        """Apply the completed instruction w of thread t with result res.
        Returns True if the access races with an earlier one."""
        race = self.race_of(t, w)
        self.tick(t)
        c = self.clock(t)
        op = w[0]
        acq = lambda o: o in ("acq", "ar", "sc")
        rel = lambda o: o in ("rel", "ar", "sc")
        if op == "sp":
            b = int(w[1])
            self.C[b] = dict(c)
            self.C[b][b] = self.C[b].get(b, 0) + 1
        elif op == "jn":
            join(c, self.clock(int(w[1])))
        elif op in ("ld", "aw"):
            a, o = int(w[1]), w[-1]
            if res.isdigit():
                v = self.store_view.get((a, int(res)), {})
                self.reads.setdefault(t, []).append(v)
                if acq(o):
                    join(c, v)
            self.aload.setdefault(a, {})[t] = c[t]
        elif op == "st":
            a, val, o = int(w[1]), int(w[2]), w[3]
            view = dict(self.released.get(t, {}))
            if rel(o):
                join(view, c)
            self.store_view[(a, val)] = view
            self.astore.setdefault(a, {})[t] = c[t]
        elif op in ("rmw", "cas"):
            a = int(w[1])
            if op == "rmw":
                so = fo = w[4]
                old = int(res)
                ok = True
                new = apply_rmw(w[2], old, int(w[3]))
            else:
                so, fo = w[4], w[5]
                ok = res.startswith("ok")
                old = int(res.split()[1])
                new = int(w[3])
            src = self.store_view.get((a, old), {})
            self.reads.setdefault(t, []).append(src)
            self.aload.setdefault(a, {})[t] = c[t]
            if ok:
                if acq(so):
                    join(c, src)
                view = dict(src)
                join(view, self.released.get(t, {}))
                if rel(so):
                    join(view, c)
                self.store_view[(a, new)] = view
                self.astore.setdefault(a, {})[t] = c[t]
            elif acq(fo):
                join(c, src)
        elif op == "fn":
            o = w[1]
            if acq(o):
                for v in self.reads.get(t, []):
                    join(c, v)
            if rel(o):
                self.released[t] = dict(c)
            if o == "sc" and self.strong:
                join(c, self.scg)
                join(self.scg, c)
        elif op in ("lk", "tl"):
            if op == "lk" or res == "1":
                join(c, self.lock.get(int(w[1]), {}))
        elif op == "ul":
            if res == "-":
                join(self.lock.setdefault(int(w[1]), {}), c)
        elif op in ("wr", "twr"):
            if op == "wr" or res == "1":
                r = int(w[1])
                join(c, self.rw_w.get(r, {}))
                join(c, self.rw_r.get(r, {}))
        elif op in ("rd", "trd"):
            if op == "rd" or res == "1":
                r = int(w[1])
                join(c, self.rw_w.get(r, {}))
                if self.strong:
                    join(c, self.rw_r.get(r, {}))
        elif op == "uwr":
            if res == "-":
                join(self.rw_w.setdefault(int(w[1]), {}), c)
        elif op == "urd":
            if res == "-":
                join(self.rw_r.setdefault(int(w[1]), {}), c)
        elif op == "sd":
            h = int(w[1])
            s = self.chan_s.setdefault(h, {})
            join(s, c)
            self.chan_q.setdefault(h, []).append(dict(s))
        elif op in ("rv", "trv"):
            h = int(w[1])
            if res.isdigit() and self.chan_q.get(h):
                join(c, self.chan_q[h].pop(0))
        elif op == "ad":
            # dropping a handle releases; the drop that destroys the value acquires every earlier drop
            if res in ("-", "1"):
                k = int(w[1])
                join(self.arc.setdefault(k, {}), c)
                if res == "1":
                    join(c, self.arc[k])
        elif op in ("ag", "au", "an"):
            # get_mut / try_unwrap that find the handle unique acquire the drops of the other handles
            # (std: the Acquire that pairs with the Release decrement in drop); loom acquires in every case
            k = int(w[1])
            if res != "x" and (self.strong or (op in ("ag", "au") and res == "1")):
                join(c, self.arc.get(k, {}))
        elif op == "up":
            b = int(w[1])
            if self.strong:
                join(self.clock(b), c)
            join(self.token.setdefault(b, {}), c)
        elif op == "pk":
            join(c, self.token.pop(t, {}))
        elif op == "cr":
            self.cellR.setdefault(int(w[1]), {})[t] = c[t]
        elif op == "cw":
            u = int(w[1])
            self.cellW.setdefault(u, {})[t] = c[t]
        elif op == "usl":
            self.uload.setdefault(int(w[1]), {})[t] = c[t]
        elif op == "wm":
            a = int(w[1])
            self.umut.setdefault(a, {})[t] = c[t]
            self.store_view[(a, int(w[2]))] = {}
        return race


M64 = 1 << 64


def apply_rmw(f, x, v):
    return {"swap": v, "add": (x + v) % M64, "sub": (x - v) % M64, "and": x & v, "nand": (~(x & v)) % M64,
            "or": x | v, "xor": x ^ v, "max": max(x, v), "min": min(x, v)}[f]


def analyse_iteration(line, it, panicked_causality):
    """-> (race_strong, race_weak). For a finished iteration: did any executed access
    race? For an iteration that ended in a causality panic: does the access the
    panicking thread was about to make race?"""
    parts = [p.strip() for p in line.split("|")]
    decls = parts[2].split()
    bodies = [[o.strip().split() for o in b.split(";") if o.strip()] for b in parts[3:]]
    out = []
    for strong in (True, False):
        hb = HB(len(bodies), decls, strong)
        raced = False
        last_pc = {}
        for b, pc, r in it["ops"]:
            if b < 0:
                continue
            if pc < len(bodies[b]) and hb.step(b, bodies[b][pc], r):
                raced = True
            last_pc[b] = pc
        if panicked_causality and not raced:
            # the thread that was running when the panic was raised
            t = None
            for a in reversed(it["api"]):
                if a.startswith("branch_thread -> "):
                    x = a.split("-> ")[1]
                    t = None if x == "-" else int(x)
                    break
            cands = [t] if t is not None else list(range(len(bodies)))
            for b in cands:
                pc = last_pc.get(b, -1) + 1
                if b < len(bodies) and pc < len(bodies[b]) and hb.race_of(b, bodies[b][pc]):
                    raced = True
        out.append(raced)
    return out[0], out[1]
