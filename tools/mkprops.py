#!/usr/bin/env python3
"""Offline helper: writes coq/Props/<pid>.v from a table of (theorem name, lemma,
comment). The statement of each theorem is the type Coq prints for the lemma
(Check), restated in full and closed with `exact`, followed by Print Assumptions.
Run by hand when the table changes; the generated files are committed."""
import os
import re
import subprocess
import sys

ROOT = os.path.dirname(os.path.dirname(os.path.abspath(__file__)))
COQ = os.path.join(ROOT, "coq")


def coq_type(imports, lemma):
    script = f"Require Import {imports}.\nSet Printing Width 100.\nSet Printing Depth 1000.\nCheck {lemma}.\n"
    p = subprocess.run(["coqtop", "-Q", COQ, "LV", "-quiet"], input=script, capture_output=True, text=True, cwd=COQ)
    out = p.stdout
    m = re.search(re.escape(lemma) + r"\s*\n?\s*:\s*(.*?)\n\s*\n", out + "\n\n", flags=re.S)
    if not m:
        raise RuntimeError(f"cannot get type of {lemma}: {out[-400:]} {p.stderr[-400:]}")
    return m.group(1).strip()


def write(pid, header, imports, items, extra=""):
    lines = [f"(* {pid} -- {header}", "   Statements restated in full, closed with exact, assumptions printed. *)",
             f"Require Import {imports}.", ""]
    for name, lemma, comment in items:
        ty = coq_type(imports, lemma)
        lines.append(f"(* {comment} *)")
        lines.append(f"Theorem {name} :\n  {ty}.")
        lines.append(f"Proof. exact {lemma}. Qed.")
        lines.append(f"Print Assumptions {name}.")
        lines.append("")
    if extra:
        lines.append(extra)
    open(os.path.join(COQ, "Props", pid + ".v"), "w").write("\n".join(lines))
    print("wrote", pid, len(items), "theorems")


IMP = "LV.Base LV.VV LV.VVFacts LV.Path LV.PathSpec LV.Prog LV.Objects LV.Exec LV.Atomic LV.Ops LV.Check LV.Ref LV.Outcome LV.Witness LV.SyncFacts LV.CheckFacts LV.ExecFacts LV.SyncMono"

TABLE = {
 "C05": ("Deadlocks are reported exactly. Full statement: Definition C05_statement (not proved: needs DPOR completeness); refuted on this tree by the listed findings.", [
    ("C05_D5_repaired_unpark_of_joiner", "D5_repaired", "D5 (repaired): unparking a thread blocked in join no longer wakes it; the program finishes as R says (computed witness)"),
    ("C05_D11_repaired_token_survives_blocking", "D11_repaired", "D11 (repaired): a park token delivered before the thread blocks on a mutex is still there when it parks"),
    ("C05_refuted_D14_deadlock_missed", "D14_deadlock_missed", "D14: a deadlock that needs two unparks to coalesce before the first park is never reached"),
    ("C05_first_failure_is_result", "first_failure_is_result", "the first iteration that fails (e.g. with a deadlock) is the result of the run, and all iterations before it finished"),
    ("C05_try_lock_never_blocks", "post_acquire_fails_iff", "a try_lock observes the lock state at its own step: it fails iff the lock is held then (it does not wait)"),
 ]),
 "C07": ("Mutex and RwLock: exclusion, blocking, hand-over ordering (local lemmas; the global invariant is checked per execution).", [
    ("C07_try_lock_exact", "post_acquire_fails_iff", "try_lock (and the post-action of lock) succeeds exactly when the mutex is free at that step"),
    ("C07_try_read_exact", "post_acquire_read_fails_iff", "try_read fails exactly when the lock is write-held"),
    ("C07_try_write_exact", "post_acquire_write_fails_iff", "try_write fails exactly when the lock is held in any mode"),
    ("C07_failed_try_changes_nothing", "post_acquire_fail_id", "a failed acquisition leaves the whole state unchanged"),
    ("C07_release_publishes", "release_lock_publishes", "release publishes the releaser's clock in the mutex and frees it"),
    ("C07_acquire_acquires", "post_acquire_acquires", "a successful acquisition joins the mutex's view into the acquirer's clock and records the owner"),
    ("C07_mutex_handover", "mutex_handover", "everything before a release happens-before everything after the next acquisition"),
    ("C07_rw_write_handover", "rw_write_handover", "the same for an RwLock write guard"),
    ("C07_rw_read_handover", "rw_read_handover", "and for a read guard"),
    ("C07_mutex_handover_global", "mutex_handover_global_ok", "GLOBAL: after a release, over ANY number of micro-steps of any threads (steps), the next acquisition of the free mutex succeeds and sees everything before the release"),
    ("C07_rw_write_handover_global", "rwlock_write_handover_global", "GLOBAL: the same for an RwLock write guard, towards any later read or write acquisition"),
    ("C07_rw_read_handover_global", "rwlock_read_handover_global", "GLOBAL: a read release happens-before any later write acquisition"),
    ("C07_run_monotone", "run_mono", "every run of the model is monotone: thread clocks and object views only grow, objects keep their kind"),
 ]),
 "C08": ("Waiting primitives wake exactly on notification (local lemmas + refutations).", [
    ("C08_wait_needs_flag", "notify_wait2_acquires", "Notify::wait / join complete only with the flag set, consume it, and acquire the notifier's clock"),
    ("C08_wait_without_flag_panics", "notify_wait2_fails_iff", "reaching the post-action without the flag is exactly loom's internal assertion (the D5 symptom)"),
    ("C08_notify_publishes", "notify_post_publishes", "notify sets the flag and publishes the notifier's clock"),
    ("C08_notify_handover", "notify_handover", "the notifier's prior writes happen-before the woken thread's continuation"),
    ("C08_unpark_transfers", "threads_unpark_transfers", "unpark joins the unparker's clock into the target and leaves every other thread alone"),
    ("C08_notify_handover_global", "notify_handover_global", "GLOBAL: a notification happens-before the wake-up that consumes it, whatever happens in between"),
    ("C08_D5_repaired", "D5_repaired", "D5 (repaired): unpark of a thread blocked in join stores a token instead of waking it"),
    ("C08_D11_repaired", "D11_repaired", "D11 (repaired): the park token is not lost when the thread blocks on / is woken by a lock"),
    ("C08_refuted_D14", "D14_deadlock_missed", "D14: park/unpark are not scheduling points"),
 ]),
 "C09": ("mpsc channels: count, FIFO views, ordering (local lemmas).", [
    ("C09_send_publishes", "send_post_publishes", "a send increments the count and appends the accumulated sender view for the receiver of that message"),
    ("C09_recv_acquires", "recv_post_acquires", "a receive takes the oldest view, joins it, decrements the count"),
    ("C09_recv_empty_fails", "recv_post_empty_fails", "a receive that reaches its post-action on an empty channel is loom's internal failure, never a value"),
    ("C09_channel_handover", "channel_handover", "a send happens-before the receive that obtains it and every later receive"),
    ("C09_channel_fifo_handover_global", "channel_fifo_handover_global", "GLOBAL FIFO: with n messages queued ahead, any receive that follows at least n other receives (over any steps) acquires the sender's clock"),
    ("C09_channel_handover_global", "channel_handover_global", "GLOBAL: a send on a queue whose pending views already dominate the sender is acquired by the next receive, whatever happens in between"),
 ]),
 "C11": ("loom::sync::Arc: counter machine and drop ordering (local lemmas).", [
    ("C11_clone_counts", "arc_inc_post_no_transfer", "clone increments the count and transfers no causality"),
    ("C11_drop_publishes", "arc_dec_post_publishes", "a drop decrements the count and publishes its clock; the drop that reaches zero acquires all of them"),
    ("C11_drop_of_released_fails", "arc_dec_post_released_fails", "dropping at count 0 is loom's 'Arc is already released' failure"),
    ("C11_drop_handover", "arc_drop_handover", "every earlier drop of a handle happens-before the final drop"),
    ("C11_drop_handover_global", "arc_drop_handover_global", "GLOBAL: a drop happens-before the final drop over any number of intermediate steps"),
    ("C11_get_mut_reads_count", "arc_get_mut_post_acquires", "get_mut / try_unwrap decide on the count at their step and acquire"),
    ("C11_strong_count_reads_count", "arc_count_post_acquires", "strong_count returns the count at its step"),
 ]),
}

if __name__ == "__main__":
    which = sys.argv[1:] or list(TABLE)
    for pid in which:
        header, items = TABLE[pid]
        write(pid, header, IMP, items)
