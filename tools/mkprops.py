#!/usr/bin/env python3
"""Offline helper: writes coq/Props/<pid>.v from a table of (theorem name, lemma,
comment). The statement of each theorem is the type Coq prints for the lemma
(Check), restated in full and closed with `exact`, followed by Print Assumptions.
Run by hand when the table changes; the generated files are committed."""
import os
import re
import subprocess
import sys

ROOT = os.path.dirname(os.path.dirname(os.path.abspath(__file__)))
COQ = os.path.join(ROOT, "coq")


def coq_type(imports, lemma):
    script = f"Require Import {imports}.\nSet Printing Width 100.\nSet Printing Depth 1000.\nCheck {lemma}.\n"
    p = subprocess.run(["coqtop", "-Q", COQ, "LV", "-quiet"], input=script, capture_output=True, text=True, cwd=COQ)
    out = p.stdout
    m = re.search(re.escape(lemma) + r"\s*\n?\s*:\s*(.*?)\n\s*\n", out + "\n\n", flags=re.S)
    if not m:
        raise RuntimeError(f"cannot get type of {lemma}: {out[-400:]} {p.stderr[-400:]}")
    return m.group(1).strip()


def write(pid, header, imports, items, extra=""):
    lines = [f"(* {pid} -- {header}", "   Statements restated in full, closed with exact, assumptions printed. *)",
             f"Require Import {imports}.", ""]
    for name, lemma, comment in items:
        ty = coq_type(imports, lemma)
        lines.append(f"(* {comment} *)")
        lines.append(f"Theorem {name} :\n  {ty}.")
        lines.append(f"Proof. exact {lemma}. Qed.")
        lines.append(f"Print Assumptions {name}.")
        lines.append("")
    if extra:
        lines.append(extra)
    open(os.path.join(COQ, "Props", pid + ".v"), "w").write("\n".join(lines))
    print("wrote", pid, len(items), "theorems")


IMP = "LV.Base LV.VV LV.VVFacts LV.Path LV.PathSpec LV.Prog LV.Objects LV.Exec LV.Atomic LV.Ops LV.Check LV.Ref LV.Outcome LV.Witness LV.SyncFacts LV.CheckFacts LV.ExecFacts LV.SyncMono"

TABLE = {
 "C05": ("Deadlocks are reported exactly. Full statement: Definition C05_statement (not proved: needs DPOR completeness); refuted on this tree by the listed findings.", [
    ("C05_D5_repaired_unpark_of_joiner", "D5_repaired", "D5 (repaired): unparking a thread blocked in join no longer wakes it; the program finishes as R says (computed witness)"),
    ("C05_D11_repaired_token_survives_blocking", "D11_repaired", "D11 (repaired): a park token delivered before the thread blocks on a mutex is still there when it parks"),
    ("C05_refuted_D14_deadlock_missed", "D14_deadlock_missed", "D14: a deadlock that needs two unparks to coalesce before the first park is never reached"),
    ("C05_first_failure_is_result", "first_failure_is_result", "the first iteration that fails (e.g. with a deadlock) is the result of the run, and all iterations before it finished"),
    ("C05_try_lock_never_blocks", "post_acquire_fails_iff", "a try_lock observes the lock state at its own step: it fails iff the lock is held then (it does not wait)"),
 ]),
 "C07": ("Mutex and RwLock: exclusion, blocking, hand-over ordering (local lemmas; the global invariant is checked per execution).", [
    ("C07_try_lock_exact", "post_acquire_fails_iff", "try_lock (and the post-action of lock) succeeds exactly when the mutex is free at that step"),
    ("C07_try_read_exact", "post_acquire_read_fails_iff", "try_read fails exactly when the lock is write-held"),
    ("C07_try_write_exact", "post_acquire_write_fails_iff", "try_write fails exactly when the lock is held in any mode"),
    ("C07_failed_try_changes_nothing", "post_acquire_fail_id", "a failed acquisition leaves the whole state unchanged"),
    ("C07_release_publishes", "release_lock_publishes", "release publishes the releaser's clock in the mutex and frees it"),
    ("C07_acquire_acquires", "post_acquire_acquires", "a successful acquisition joins the mutex's view into the acquirer's clock and records the owner"),
    ("C07_mutex_handover", "mutex_handover", "everything before a release happens-before everything after the next acquisition"),
    ("C07_rw_write_handover", "rw_write_handover", "the same for an RwLock write guard"),
    ("C07_rw_read_handover", "rw_read_handover", "and for a read guard"),
    ("C07_mutex_handover_global", "mutex_handover_global_ok", "GLOBAL: after a release, over ANY number of micro-steps of any threads (steps), the next acquisition of the free mutex succeeds and sees everything before the release"),
    ("C07_rw_write_handover_global", "rwlock_write_handover_global", "GLOBAL: the same for an RwLock write guard, towards any later read or write acquisition"),
    ("C07_rw_read_handover_global", "rwlock_read_handover_global", "GLOBAL: a read release happens-before any later write acquisition"),
    ("C07_run_monotone", "run_mono", "every run of the model is monotone: thread clocks and object views only grow, objects keep their kind"),
 ]),
 "C08": ("Waiting primitives wake exactly on notification (local lemmas + refutations).", [
    ("C08_wait_needs_flag", "notify_wait2_acquires", "Notify::wait / join complete only with the flag set, consume it, and acquire the notifier's clock"),
    ("C08_wait_without_flag_panics", "notify_wait2_fails_iff", "reaching the post-action without the flag is exactly loom's internal assertion (the D5 symptom)"),
    ("C08_notify_publishes", "notify_post_publishes", "notify sets the flag and publishes the notifier's clock"),
    ("C08_notify_handover", "notify_handover", "the notifier's prior writes happen-before the woken thread's continuation"),
    ("C08_unpark_transfers", "threads_unpark_transfers", "unpark joins the unparker's clock into the target and leaves every other thread alone"),
    ("C08_notify_handover_global", "notify_handover_global", "GLOBAL: a notification happens-before the wake-up that consumes it, whatever happens in between"),
    ("C08_D5_repaired", "D5_repaired", "D5 (repaired): unpark of a thread blocked in join stores a token instead of waking it"),
    ("C08_D11_repaired", "D11_repaired", "D11 (repaired): the park token is not lost when the thread blocks on / is woken by a lock"),
    ("C08_refuted_D14", "D14_deadlock_missed", "D14: park/unpark are not scheduling points"),
 ]),
 "C09": ("mpsc channels: count, FIFO views, ordering (local lemmas).", [
    ("C09_send_publishes", "send_post_publishes", "a send increments the count and appends the accumulated sender view for the receiver of that message"),
    ("C09_recv_acquires", "recv_post_acquires", "a receive takes the oldest view, joins it, decrements the count"),
    ("C09_recv_empty_fails", "recv_post_empty_fails", "a receive that reaches its post-action on an empty channel is loom's internal failure, never a value"),
    ("C09_channel_handover", "channel_handover", "a send happens-before the receive that obtains it and every later receive"),
    ("C09_channel_fifo_handover_global", "channel_fifo_handover_global", "GLOBAL FIFO: with n messages queued ahead, any receive that follows at least n other receives (over any steps) acquires the sender's clock"),
    ("C09_channel_handover_global", "channel_handover_global", "GLOBAL: a send on a queue whose pending views already dominate the sender is acquired by the next receive, whatever happens in between"),
 ]),
 "C11": ("loom::sync::Arc: counter machine and drop ordering (local lemmas).", [
    ("C11_clone_counts", "arc_inc_post_no_transfer", "clone increments the count and transfers no causality"),
    ("C11_drop_publishes", "arc_dec_post_publishes", "a drop decrements the count and publishes its clock; the drop that reaches zero acquires all of them"),
    ("C11_drop_of_released_fails", "arc_dec_post_released_fails", "dropping at count 0 is loom's 'Arc is already released' failure"),
    ("C11_drop_handover", "arc_drop_handover", "every earlier drop of a handle happens-before the final drop"),
    ("C11_drop_handover_global", "arc_drop_handover_global", "GLOBAL: a drop happens-before the final drop over any number of intermediate steps"),
    ("C11_get_mut_reads_count", "arc_get_mut_post_acquires", "get_mut / try_unwrap decide on the count at their step and acquire"),
    ("C11_strong_count_reads_count", "arc_count_post_acquires", "strong_count returns the count at its step"),
 ]),
}

MARK = "(* ==== appended by tools/mkprops.py (APPEND table) ==== *)"
BASEIMP = "LV.Base LV.VV LV.VVFacts LV.Path LV.PathSpec LV.PathTerm LV.PathDistinct LV.PathApi LV.Prog LV.Objects LV.Exec LV.Atomic LV.Ops LV.Check"

# theorems appended to Props files (hand-written or generated above): (imports, note, items)
APPEND = {
 "C14": [("LV.PathExhaust LV.ExecFacts LV.ExecFacts2",
          "The abstract theorems above instantiated on the concrete iteration of the execution model (Check.iteration): L satisfies both iteration contracts (ExecFacts.L_iter_ok, ExecFacts2.L_iter_ok2)", [
    ("C14_L_explore_terminates", "L_explore_terminates", "the exploration loop over the concrete iteration of the model L (every program, every fuel) stops by itself from the initial path"),
    ("C14_L_decisions_distinct", "L_decisions_distinct", "and no two of its iterations take the same decisions"),
 ])],
 "C01": [("LV.PathExhaust LV.ExecFacts LV.ExecFacts2", "the same on the concrete execution model", [
    ("C01_partial_L_iter_ok2", "L_iter_ok2", "the concrete iteration of the model L satisfies the second contract of dfs_exhaustive (one Active thread per entry, appended entries are fresh)"),
    ("C01_partial_L_exhaustive_complete", "L_exhaustive_complete", "for every program: the exploration of L from the initial path stops by itself and every alternative registered by any of its iterations (Pending thread, further load candidate, spurious branch) is decided by some iteration with the same decisions before it"),
 ]), ("LV.PathExhaust LV.ExecFacts LV.ExecFacts2 LV.Ref LV.Outcome LV.Witness LV.DporFacts", "The DPOR rule as a theorem (DporFacts.v): every race the dependence check detects is registered on the stack, hence its reversal is explored", [
    ("C01_partial_sched_backtrack_spec", "sched_backtrack_spec", "EXACT: what Schedule::backtrack does to an entry"),
    ("C01_partial_backtrack_spec", "backtrack_spec", "EXACT: what Path::backtrack changes: only the nearest exploring Schedule entry at or below the point (and, with a bound, one conservative entry), only by Schedule::backtrack"),
    ("C01_partial_dpor_loop_registers", "dpor_loop_registers", "for every thread with a pending operation and every last dependent access that does not happen-before it: after the DPOR loop the thread is marked for exploration at the backtrack point (or, if it is disabled there, every thread is)"),
    ("C01_partial_dpor_loop_mono", "dpor_loop_mono", "marks are never taken back within the loop"),
    ("C01_partial_race_reversal_explored", "race_reversal_explored", "for the exploration of the concrete model without a bound: a race detected at any scheduling point of any iteration, with the racing thread runnable at the backtrack point, is followed by an iteration with the same decisions up to that point that schedules the racing thread there"),
    ("C01_partial_run_race_reversal_explored", "run_race_reversal_explored", "the same phrased on a state reached inside iteration k"),
    ("C01_refuted_D24_missing", "D24_missing", "D24 (listed finding, computed): yield_now is invisible to DPOR; main `fetch_add; store`, t1 `yield_now; load`: R lets t1 read the fetch_add's value, the unbounded exploration of L finishes without ever producing it"),
    ("C01_observed_yield_race_reversal_missed", "yield_race_reversal_missed", "observed (computed): when the racing thread is in state Yield at the backtrack point nothing is registered and the reversed order is never run: yield_now means `not before another thread has run` (loom's documented pruning; outside C01's primitives)"),
 ])],
 "C15": [("LV.PathPreempt LV.Witness", "Preemptions counted independently of the stored counter (PathPreempt.v)", [
    ("C15_refuted_D24_bounded_not_subset", "D24_bounded_not_subset", "D24 (listed finding, computed): for that program the run with preemption_bound = 2 explores an outcome that the unbounded run does not: clause `every result found is also found by the unbounded run` fails (the bounded run is right: the outcome is legal; the unbounded run is incomplete)"),
    ("C15_switches_le_preemptions", "switches_le_preemptions", "INDEPENDENT READING: the number of context switches away from a still-runnable thread, counted from the recorded schedule entries alone, never exceeds the stored preemption counter"),
    ("C15_switches_le_bound", "switches_le_bound", "hence never exceeds the bound"),
    ("C15_branch_thread_keeps_link", "branch_thread_pre_inv", "branch_thread keeps the linking invariant for every seed in which a switch away from the running thread happens only when that thread is Disabled or Yield"),
    ("C15_step_keeps_link", "step_pre_inv", "step keeps it"),
    ("C15_reachable_switches_le_bound", "reach_switches_le_bound", "every stack reachable through the Path API with such seeds has at most n counted switches"),
 ]), ("LV.PathPreempt LV.ExecFacts LV.ExecFacts2 LV.ExecPreempt", "The seeds that Execution::schedule really passes satisfy the hypothesis, so the bound holds for the whole model (ExecPreempt.v)", [
    ("C15_schedule_seed_ok", "sched_seed_ok", "the seed built by schedule keeps the running thread Active unless it is blocked or yielded, and contains no Pending / Visited"),
    ("C15_L_iteration_switches_le_bound", "L_iteration_switches_le_bound", "every iteration of the model L from a stack at position 0: independently counted switches <= bound"),
    ("C15_L_explore_switches_le_bound", "L_explore_switches_le_bound", "EVERY path of the exploration of EVERY program from the initial path has at most preemption_bound independently counted preemptions"),
    ("C15_L_switches_nonvacuous", "L_switches_nonvacuous", "non-vacuity: a two-thread program with bound 1 explores a path with exactly one counted switch"),
 ])],
 "C03": [("LV.AtomicFacts LV.AtomicCoherence", "Exact characterisation of the candidate sets of loads and RMWs, for arbitrary states and any number of threads (AtomicCoherence.v)", [
    ("C03_load_candidates_spec", "load_candidates_spec", "a ring slot is a load candidate iff it is live and no live store that is later in modification order is already seen by the thread / excluded by the yield or SeqCst rule"),
    ("C03_coherence_write_read", "coherence_write_read", "CoWR / CoRR: a thread never reads a store that is mo-before a store it has already observed"),
    ("C03_coherence_seq_cst", "coherence_seq_cst", "a SeqCst load never reads a SeqCst store that is mo-before another SeqCst store"),
    ("C03_rmw_candidates_spec", "rmw_candidates_spec", "an RMW reads exactly a mo-maximal live store"),
    ("C03_rmw_candidates_are_load_candidates", "rmw_candidates_are_load_candidates", "every RMW candidate is a load candidate"),
    ("C03_load_candidates_none", "load_candidates_none", "loom's `left != right` assertion fires only when two distinct live stores have equal modification-order clocks"),
    ("C03_rmw_atomicity_fixpoint", "rmw_atomicity_fixpoint", "RMW atomicity (fix 189e88b): at the fixpoint, every RMW store whose source is mo-before the new store is itself mo-before the new store"),
    ("C03_rmw_atomicity_sufficient_fuel", "rmw_atomicity_sufficient_fuel", "the fixpoint is reached with fuel = ring size"),
    ("C03_atomic_store_from_rmw_atomic", "atomic_store_from_rmw_atomic", "the postcondition of the model's own store: the new store is mo-after the thread's clock, after every store it has seen, and closed under RMW atomicity"),
 ]), ("LV.AtomicFacts LV.AtomicCoherence LV.AtomicCoRR", "COHERENCE OVER SEQUENCES of operations by several threads on one atomic (AtomicCoRR.v), with arbitrary extra happens-before edges between threads. Proved for the machine whose load rule is the one of fix c0421c4 (suffix _c0421c4); the model's current functions add the RMW-atomicity closure of fix 01ecff8 after it: they coincide with that machine on every run without RMWs (theorems below), and the closure itself is covered by computed searches", [
    ("C03_model_alc_eq", "model_alc_eq", "the model's apply_load_coherence is the c0421c4 rule followed by the RMW-atomicity closure"),
    ("C03_mrun_model_eq", "mrun_model_eq", "on runs without RMWs the machine built from the model's atomic_load / atomic_store is, step for step, the c0421c4 machine"),
    ("C03_model_rmw_free_inv", "model_rmw_free_inv", "so for the model's own functions on RMW-free runs: the invariant holds and loom's `assert_ne!(mo_i, mo_j)` never fires"),
    ("C03_mrun_inv2_c0421c4", "mrun_inv2_c0421c4", "the invariant (clocks bounded by their owners, every live store keyed by its storing thread's stamp, the key order is exactly vv_lt, no two live stores ordered both ways, first-seen stamps bounded) is preserved by every run"),
    ("C03_mlts_never_none_c0421c4", "mlts_never_none_c0421c4", "no two live stores ever have equal modification-order clocks"),
    ("C03_run_stable_c0421c4", "run_stable_c0421c4", "THE KEY LEMMA: an edge `a <mo b` between live stores is never lost, whatever any thread does afterwards"),
    ("C03_CoRR_CoWR_c0421c4", "CoRR_CoWR_c0421c4", "CoRR / CoWR in happens-before form: once a thread knows a store j (its own store, a store it read, or through any chain of synchronisation), it can never again read a store that was mo-before j"),
    ("C03_CoRR_same_thread_c0421c4", "CoRR_same_thread_c0421c4", "read-read coherence for one thread with arbitrary steps of arbitrary threads in between"),
    ("C03_CoWR_same_thread_c0421c4", "CoWR_same_thread_c0421c4", "write-read coherence likewise"),
    ("C03_CoRW_same_thread_c0421c4", "CoRW_same_thread_c0421c4", "read-write coherence: a later store of the thread is mo-after what it read"),
    ("C03_CoWW_same_thread_c0421c4", "CoWW_same_thread_c0421c4", "write-write coherence"),
    ("C03_coherence_counterexample_before_fix", "coherence_counterexample_before_fix", "computed: with the rule before fix c0421c4 a thread reads its own older store after its newer one"),
    ("C03_rmw_gap_before_fix", "rmw_gap_before_fix", "computed: with the rule before fix 01ecff8 loads order a store between an RMW's source and the RMW's own store"),
    ("C03_rmw_gap_refused", "rmw_gap_refused", "computed: the model's current functions refuse both orders of that scenario"),
    ("C03_search_closure_clean", "search_closure_clean", "computed, exhaustive (4 threads x 3 steps, 3 threads x 4 steps after store | store ; fetch_add): with the model's current functions no modification-order edge is lost, no two clocks are equal, every RMW store immediately follows its source, and every state is closed"),
 ]), ("LV.AtomicFacts LV.AtomicCoherence LV.AtomicCoRR LV.AtomicClosure", "THE SAME FOR THE MODEL'S CURRENT FUNCTIONS ON ALL RUNS, RMWs included (AtomicClosure.v): the invariant survives the RMW-atomicity closure of fix 01ecff8. Witness carried by the invariant: a ranking of the live stores that extends the modification order and in which every RMW store immediately follows the store it read", [
    ("C03_reach_model_good", "reach_model_good", "the invariant holds in every state reachable by any sequence of loads, stores, RMWs and synchronisations of any number of threads (machine steps = the model's atomic_load / atomic_store / atomic_rmw)"),
    ("C03_rmw_atomicity_stable", "rmw_atomicity_stable", "RMW ATOMICITY AS AN INVARIANT: in every reachable state every live RMW store is strictly mo-after the store it read, and no live store is strictly between them"),
    ("C03_mlts_never_none_model", "mlts_never_none_model", "loom's `assert_ne!(mo_i, mo_j)` never fires"),
    ("C03_run_stable_model", "run_stable_model", "an edge of the modification order between live stores is never lost"),
    ("C03_CoRR_CoWR_model", "CoRR_CoWR_model", "CoRR / CoWR in happens-before form"),
    ("C03_CoRR_CoWR_rmw_model", "CoRR_CoWR_rmw_model", "an RMW never reads a store that was ever mo-before another"),
    ("C03_CoWW_CoRW_model", "CoWW_CoRW_model", "a new store is mo-after everything its thread knows"),
    ("C03_CoRR_same_thread_model", "CoRR_same_thread_model", "read-read coherence of one thread, arbitrary steps of arbitrary threads in between"),
    ("C03_CoWR_same_thread_model", "CoWR_same_thread_model", "write-read coherence"),
    ("C03_CoRW_same_thread_model", "CoRW_same_thread_model", "read-write coherence"),
    ("C03_CoWW_same_thread_model", "CoWW_same_thread_model", "write-write coherence"),
    ("C03_close_model_closed", "close_model_closed", "the fuel of the closure (4 x ring size) suffices: every productive round adds an ordered pair, there are at most 21"),
    ("C03_reach_model_example", "reach_model_example", "non-vacuity: both runs of the former D19 scenario (they contain an RMW) end in reachable states"),
 ]), ("LV.AtomicFacts LV.AtomicCoherence LV.AtomicCoRR LV.AtomicClosure LV.AtomicBridge", "TOWARDS THE EXECUTION MODEL (AtomicBridge.v): the machine generalised by an arbitrary clock-growth step -- a thread joins ANY view v whose components are bounded by their owners' own stamps (exactly what ClockFacts.run_clock_wf gives for every view stored anywhere in an execution state: mutex, channel, notify, release sequences ...), instead of only another thread's current clock -- and the calls of Ops.v shown to be machine steps. Still missing for a full bridge (DESIGN section 11): the tracking-clock fields of the invariant, t_rel <> vv_new, replayed indices, spawn", [
    ("C03_grow_goodS", "grow_goodS", "the invariant survives a join with any admissible view"),
    ("C03_sync_view_admissible", "sync_view_admissible", "the synchronisation view of any live store is admissible (acquire fences)"),
    ("C03_brun_goodS", "brun_goodS", "the invariant holds along every run of the generalised machine (model steps + arbitrary admissible growth)"),
    ("C03_brun_stable", "brun_stable", "no modification-order edge is ever lost along such a run"),
    ("C03_brun_atomicity", "brun_atomicity", "RMW atomicity in every state of every such run"),
    ("C03_brun_never_none", "brun_never_none", "loom's assert_ne never fires"),
    ("C03_CoRR_CoWR_b", "CoRR_CoWR_b", "CoRR / CoWR in happens-before form for the generalised machine"),
    ("C03_CoRR_CoWR_rmw_b", "CoRR_CoWR_rmw_b", "likewise for RMWs"),
    ("C03_CoRR_same_thread_b", "CoRR_same_thread_b", "read-read coherence"),
    ("C03_CoWR_same_thread_b", "CoWR_same_thread_b", "write-read coherence"),
    ("C03_CoRW_same_thread_b", "CoRW_same_thread_b", "read-write coherence"),
    ("C03_CoWW_same_thread_b", "CoWW_same_thread_b", "write-write coherence"),
    ("C03_atomic_new_goodS", "atomic_new_goodS", "the cell may be created by any thread at any point of a system with arbitrary bounded clocks that dominate the creation clock"),
    ("C03_load_call_is_step", "load_call_is_step", "Ops.v's load call (candidates computed with any last_yield) is a machine load step"),
    ("C03_store_call_is_step", "store_call_is_step", "the store call is a machine store step"),
    ("C03_rmw_call_is_step", "rmw_call_is_step", "the RMW call is a machine RMW step"),
    ("C03_MStorePost_is_step", "MStorePost_is_step", "one micro-operation end to end: exec_micro on MStorePost is the machine's store step on (atomic a, the threads' clocks) (for t_rel <= t_caus, ring not full)"),
    ("C03_MLoadPost_is_step", "MLoadPost_is_step", "likewise MLoadPost is a load step (hypothesis: the replayed index is a candidate)"),
    ("C03_MFuLoadPost_is_step", "MFuLoadPost_is_step", "the load of fetch_update"),
    ("C03_MRmwPost_is_step", "MRmwPost_is_step", "MRmwPost is an RMW step with the thread's released clock"),
    ("C03_MUnsyncLoad_is_step", "MUnsyncLoad_is_step", "unsync_load is the machine's unsync step: ticks the clock, touches no store clock"),
    ("C03_MWithMut_is_step", "MWithMut_is_step", "with_mut likewise"),
    ("C03_unsync_load_out", "unsync_load_out", "the invariant survives unsync_load"),
    ("C03_with_mut_out", "with_mut_out", "and with_mut"),
    ("C03_bstep_out", "bstep_out", "every step kind of the generalised machine (model steps, stores/RMWs with any released clock below the thread's clock, unsync accesses, admissible growth): invariant kept, stamps kept, mo only extended, clocks only grow"),
 ]), ("LV.AtomicFacts LV.AtomicCoherence LV.AtomicCoRR LV.AtomicClosure LV.AtomicBridge LV.NotifyFacts LV.ClockFacts LV.SyncMono LV.AtomicRun", "OVER EXECUTIONS OF THE MODEL L (AtomicRun.v): along SyncMono.steps -- arbitrary interleavings of the micro-operations of all threads, scheduling and spawn included -- the invariant of one atomic cell is preserved. The headline (run_goodAt) starts at init_exec; its remaining hypotheses (RunOK) are stated in the theorem: at every access to the cell the replayed index is a candidate (an exploration-level fact), the ring has not wrapped, t_rel <= t_caus and the thread id is below MAX_THREADS (the last two are not yet proved as execution invariants)", [
    ("C03_exec_micro_akeep", "exec_micro_akeep", "THE FRAME LEMMA: every micro-operation that is not an access to atomic a (scheduling, park, yield, every operation on other objects and other atomics, fences, spawn, termination: one tactic over all 77 micro-operations) keeps a's stores, count and mutating flag"),
    ("C03_growto_goodS", "growto_goodS", "the invariant survives ANY change of the clock list that grows pointwise and stays bounded by the owners' own components"),
    ("C03_exec_growto", "exec_growto", "and every micro-operation is such a change (ClockFacts.clock_wf + SyncMono's monotonicity), on the clock list padded with empty clocks for unspawned threads, so spawn is an ordinary growth step"),
    ("C03_frame_step_goodS", "frame_step_goodS", "hence a non-access micro-operation preserves the invariant of a"),
    ("C03_access_step_padded", "access_step_padded", "an access step looks at the accessing thread's clock only: the _is_step lemmas transfer to the padded list"),
    ("C03_step_goodAt", "step_goodAt", "one step of the execution model preserves the invariant of a"),
    ("C03_steps_goodAt", "steps_goodAt", "along any number of steps"),
    ("C03_steps_atomicity", "steps_atomicity", "RMW atomicity in every state along the steps"),
    ("C03_steps_never_none", "steps_never_none", "loom's assert_ne cannot fire along the steps"),
    ("C03_init_goodAt", "init_goodAt", "the invariant holds for every declared atomic in the initial state of every iteration (init_exec p pa)"),
    ("C03_acc_step_is_bstep", "acc_step_is_bstep", "all eight access micro-operations (load, fetch_update load, store, RMW, unsync_load, with_mut, the two block_on polls) are steps of the generalised machine under SideOK"),
    ("C03_run_goodAt", "run_goodAt", "HEADLINE: for every program p, every recorded path pa, every declared atomic a and every state e reachable from init_exec p pa by steps of the execution model, the invariant of a holds in e -- under RunOK: at every access to a, (i) the replayed index is a candidate, (ii) the ring has not wrapped, (iii) t_rel <= t_caus, (iv) thread id < MAX_THREADS"),
    ("C03_run_atomicity", "run_atomicity", "hence RMW atomicity in every reachable state of every execution"),
    ("C03_run_never_none", "run_never_none", "and loom's assert_ne never fires in any reachable state"),
    ("C03_run_atomic_exists", "run_atomic_exists", "the atomic is never removed"),
    ("C03_steps_stable", "steps_stable", "COHERENCE OVER EXECUTIONS: an edge of the modification order between live stores of a is never lost along the steps of an execution"),
    ("C03_steps_knows", "steps_knows", "a store that a thread's clock has seen stays seen"),
    ("C03_CoRR_CoWR_steps", "CoRR_CoWR_steps", "CoRR / CoWR over executions: once thread t knows store j of a, in every later state of the execution neither a load by t (with the clock MLoadPost uses) nor an RMW has a store that was mo-before j among its candidates"),
 ]), ("LV.AtomicFacts LV.AtomicCoherence LV.AtomicCoRR LV.AtomicClosure LV.AtomicBridge LV.NotifyFacts LV.ClockFacts LV.SyncMono LV.AtomicRun LV.AtomicRun2", "THE SAME WITH TWO OF THE FOUR RUN HYPOTHESES DISCHARGED (AtomicRun2.v): t_rel <= t_caus and the thread bound are invariants of executions (for configurations with max_threads <= MAX_THREADS); RunOK2 keeps only `the replayed index is a candidate` and `the ring has not wrapped`", [
    ("C03_run_rel_le_caus", "run_rel_le_caus", "every thread's released clock is below its clock in every reachable state"),
    ("C03_run_threads_bound", "run_threads_bound", "at most MAX_THREADS threads in every reachable state"),
    ("C03_RunOK2_RunOK", "RunOK2_RunOK", "the two-hypothesis condition implies the four-hypothesis one"),
    ("C03_run_goodAt2", "run_goodAt2", "the headline under RunOK2"),
    ("C03_run_atomicity2", "run_atomicity2", "RMW atomicity in every reachable state under RunOK2"),
    ("C03_steps_stable2", "steps_stable2", "no mo edge is lost along an execution, under RunOK2"),
    ("C03_CoRR_CoWR_steps2", "CoRR_CoWR_steps2", "CoRR / CoWR over executions, under RunOK2"),
 ]), ("LV.AtomicFacts LV.AtomicCoherence LV.AtomicCoRR LV.AtomicClosure LV.AtomicBridge LV.NotifyFacts LV.ClockFacts LV.SyncMono LV.ExecFacts LV.AtomicRun LV.AtomicRun2 LV.AtomicRun3", "THE REPLAY HYPOTHESIS (AtomicRun3.v). The clause says: the index a replayed Load entry answers is in the candidate list the access computes (for the non-empty list that access itself hands to choose_store -- an earlier formulation quantified over every list and was unsatisfiable, which made the run-level theorems vacuous; found while trying to discharge it, corrected in AtomicRun/AtomicRun2). Discharged outright for the first iteration of every program and for everything after the stored prefix of any iteration; for replayed entries reduced to `the recorded entry equals this access's candidate list` (RecordedOK), which a Coq function checks over a whole exploration (sound: explore_rec_sound) -- the general proof needs prefix determinism of iterations (a two-run simulation), which is not done", [
    ("C03_steps_traversed", "steps_traversed", "once the stored prefix is consumed it stays consumed along the steps"),
    ("C03_fresh_load_is_candidate", "fresh_load_is_candidate", "a freshly pushed Load entry answers a candidate, records exactly the candidate list, position 0"),
    ("C03_first_iteration_goodAt", "first_iteration_goodAt", "THE FIRST ITERATION OF EVERY PROGRAM: the invariant of every declared atomic holds in every reachable state, with the ring hypothesis only (and max_threads <= MAX_THREADS)"),
    ("C03_first_iteration_coherence", "first_iteration_coherence", "hence CoRR / CoWR / RMW coherence over the first iteration of every program"),
    ("C03_after_prefix_ReplayAt", "after_prefix_ReplayAt", "in any iteration every access after the stored prefix satisfies the clause"),
    ("C03_steps_load_entry_fixed", "steps_load_entry_fixed", "a Load entry of the stack is never modified during an iteration"),
    ("C03_step_load_entry", "step_load_entry", "Path::step keeps the values of every Load entry it keeps and advances the last one inside its list"),
    ("C03_recorded_ReplayAt", "recorded_ReplayAt", "if the entry under the cursor records this access's candidate list, the replayed answer is a candidate"),
    ("C03_recorded_run_goodAt", "recorded_run_goodAt", "the run-level theorem under RecordedOK and the ring hypothesis"),
    ("C03_explore_rec_sound", "explore_rec_sound", "the checker is sound: if explore_rec answers (_, _, true, true), RecordedOK holds for every path of the exploration"),
    ("C03_check_records_Explored", "check_records_Explored", "the begin path of every record of Builder::check is such a path"),
    ("C03_explored_run_goodAt", "explored_run_goodAt", "for a program whose exploration passes the checker: the invariant in every reachable state of every iteration"),
    ("C03_p_sl_checked", "p_sl_checked", "computed: store/load race, 25 iterations, 28 replayed loads, all recorded entries agree"),
    ("C03_p_mp_checked", "p_mp_checked", "computed: message passing with release store, RMW and relaxed loads, 72 iterations, 181 replayed loads"),
 ]), ("LV.AtomicFacts LV.AtomicCoherence LV.AtomicCoRR LV.AtomicClosure LV.AtomicBridge LV.NotifyFacts LV.ClockFacts LV.SyncMono LV.ExecFacts LV.AtomicRun LV.AtomicRun2 LV.AtomicRun3 LV.AtomicRun4", "NON-VACUITY (AtomicRun4.v): a generic checker over whole explorations with a soundness theorem, the ring hypothesis established by it, and for a concrete two-thread program the run theorems with NO remaining hypothesis -- in all 25 iterations, the replaying ones included", [
    ("C03_explore_chk_sound", "explore_chk_sound", "if the checker answers (true, true), the checked predicate holds at every micro-operation of every state reachable by steps in the iteration of every explored path"),
    ("C03_ring_checked_RunOK3", "ring_checked_RunOK3", "ring room established by the checker"),
    ("C03_p_sl_RunOK2", "p_sl_RunOK2", "the hypotheses of run_goodAt2 hold on every explored path of the program (two threads, each a relaxed store and a relaxed load of one atomic)"),
    ("C03_p_sl_all_good", "p_sl_all_good", "NO HYPOTHESIS LEFT: in every state reachable in every iteration of the exploration of that program the invariant holds"),
    ("C03_p_sl_atomicity", "p_sl_atomicity", "RMW atomicity likewise"),
    ("C03_p_sl_coherence", "p_sl_coherence", "CoRR / CoWR / RMW coherence between any two states of any iteration"),
    ("C03_p_sl_check_all_good", "p_sl_check_all_good", "the same for the begin path of every record Builder::check returns"),
    ("C03_p_mp_all_good", "p_mp_all_good", "the same with NO hypothesis for a program with an RMW (message passing with a release store, fetch_add(AcqRel) and relaxed loads), for the atomic the RMW acts on: all 72 iterations"),
    ("C03_p_mp_atomicity", "p_mp_atomicity", "RMW atomicity in every reachable state of every iteration of it"),
    ("C03_p_mp_coherence", "p_mp_coherence", "coherence between any two states of any iteration of it"),
    ("C03_e_mp_rmw_store", "e_mp_rmw_store", "a reachable state of it really contains a live RMW store (slot 2, source slot 1)"),
    ("C03_p_mp_atomicity_instance", "p_mp_atomicity_instance", "and the atomicity conclusion instantiated at that state: the source is mo-before the RMW store and no live store is between them"),
    ("C03_side_instance", "side_instance", "one concrete reachable access at which every clause of SideOK holds non-trivially: a candidate list of length >= 2, the replayed index in it, three stores in the ring"),
 ])],
 "C02": [("LV.AtomicFacts LV.AtomicCoherence", "Nothing allowed is pruned without a reason: the candidate set is never empty and contains every mo-maximal store (AtomicCoherence.v)", [
    ("C02_mo_maximal_is_candidate", "mo_maximal_is_candidate", "a live store with no mo-later live store is always a candidate"),
    ("C02_mo_maximal_exists", "mo_maximal_exists", "such a store exists as soon as one store was made"),
    ("C02_candidates_nonempty", "candidates_nonempty", "hence a load always has a candidate"),
    ("C02_load_candidates_spec", "load_candidates_spec", "and a slot is excluded only for one of the three stated reasons"),
 ])],
 "C17": [("LV.SyncFacts LV.ExecFacts LV.SyncMono LV.TlsFacts", "Global bookkeeping invariants over whole runs of the model (TlsFacts.v)", [
    ("C17_run_tls_count", "run_tls_count", "EXACT: in every run, the number of initialisations of key k logged for body b equals the number of threads of body b that have k initialised"),
    ("C17_tls_init_once", "tls_init_once", "hence at most one initialisation per thread and key (threads identified by body: the side condition says no body is spawned twice)"),
    ("C17_run_tls_nodup", "run_tls_nodup", "a thread's set of initialised keys has no duplicates"),
    ("C17_lazy_registered_once", "lazy_registered_once", "a lazy static is REGISTERED at most once per execution, in every run of every program: all threads get the same instance"),
    ("C17_lazy_init_once", "lazy_init_once", "its initialiser runs at most once per execution -- for the statics whose initialiser has no scheduling point (every key but 2)"),
    ("C17_run_lazy_balance", "run_lazy_balance", "for every key: initialiser runs = [registered] + values dropped at once + initialisations in flight"),
    ("C17_run_lazy_all_dropped", "run_lazy_all_dropped", "at the end of a finished iteration every value an initialiser built has been dropped"),
    ("C17_lazyY_handover_global", "lazyY_handover_global", "the winner's registration happens-before every later read, also the loser's"),
    ("C17_lazy_yielding_init_runs_twice", "lazy_yielding_init_runs_twice", "computed (listed finding D22): with a yielding initialiser both racing threads run it; one value is registered, the other dropped at once, both threads read the same value"),
    ("C17_lazy_none_stays", "lazy_none_stays", "after the shutdown at main's exit the registry stays shut under every micro-step"),
    ("C17_lazy_get_after_shutdown", "lazy_get_after_shutdown", "and every later access fails with loom's shutdown panic"),
    ("C17_lazy_get_acquires", "lazy_get_acquires", "an access to a registered lazy static acquires the view registered by its initialiser"),
    ("C17_lazy_handover_global", "lazy_handover_global", "GLOBAL: initialisation happens-before every later successful access, whatever happens in between"),
 ])],
 "C18": [("LV.ExecFacts LV.YieldFacts", "Yield scheduling (YieldFacts.v): the decisions of Execution::schedule after yield_now", [
    ("C18_yield_other_runnable", "yield_other_runnable", "a thread that yields is not chosen while another thread is runnable: the spin loop lets the writer run"),
    ("C18_yield_alone_continues", "yield_alone_continues", "if nothing else can run the yielded thread continues (no false deadlock)"),
    ("C18_yield_others_reactivated", "yield_others_reactivated", "after a scheduling decision every other yielded thread is runnable again"),
    ("C18_schedule_succeeds", "schedule_succeeds", "schedule never fails while some thread is runnable or yielded and the stack has room"),
 ])],
 "C20": [("LV.SyncFacts LV.ExecFacts LV.SyncMono LV.NotifyFacts", "No lost wake-up at the level of rt::Notify, which backs block_on's waker (NotifyFacts.v)", [
    ("C20_notified_persists", "notified_persists", "a pending notification survives every micro-step of every thread except the waiter's consuming step"),
    ("C20_no_lost_wakeup", "no_lost_wakeup", "GLOBAL: after a wake, whatever happens in between, the waiter's wait does not block, its consuming step succeeds, and its clock then dominates the waker's clock at the wake"),
    ("C20_wake_wait1_not_blocking", "wake_wait1_not_blocking", "all outcomes of entering the wait after a wake: proceed, or the one spurious return"),
    ("C20_wait1_unnotified_blocks", "wait1_unnotified_blocks", "without a notification the waiter blocks (or takes the single spurious return)"),
    ("C20_unnotified_waiter_blocked_until_post", "unnotified_waiter_blocked_until_post", "and stays blocked until a notify on that object: re-polls happen only after a wake"),
    ("C20_spurious_at_most_once", "spurious_at_most_once", "the modelled spurious return happens at most once per Notify"),
 ]), ("LV.SyncFacts LV.ExecFacts LV.SyncMono LV.NotifyFacts LV.CountFacts LV.ExclFacts LV.WakerFacts", "The AtomicWaker protocol over all interleavings (WakerFacts.v)", [
    ("C20_slot_step", "slot_step", "EXACT, for every micro-operation: the waker slot changes only by a successful register (to the registering task's own waker) and by a take (to empty)"),
    ("C20_wake_wakes_latest", "wake_wakes_latest", "the slot always holds the waker of the most recent successful registration since the last take: wake() notifies that task or nobody"),
    ("C20_register_success_effect", "register_success_effect", "a successful register stores the task's waker under the lock and drops the one it replaces"),
    ("C20_register_contended_effect", "register_contended_effect", "a contended register makes the task notify ITSELF, so its next wait does not block"),
    ("C20_wake_take_effect", "wake_take_effect", "wake(): take the stored waker, release the lock, then notify its task and drop it"),
    ("C20_registered_then_woken_not_lost", "registered_then_woken_not_lost", "GLOBAL: a registered waker that is later taken by a wake() -- any steps of any threads in between -- is notified: the wake is in the waking thread's continuation or the task's flag is set, the task's wait then does not block and its consuming step succeeds"),
    ("C20_wake_during_registration_b", "wake_during_registration_b", "a wake that arrives while a registration holds the lock is blocked until the release and then takes the freshly stored waker (exclusion from ExclFacts)"),
    ("C20_wake_during_registration_a", "wake_during_registration_a", "a registration that follows a take succeeds on the free lock and acquires the waking thread's clock through it: it observes the wake"),
    ("C20_repoll_only_after_wake", "repoll_only_after_wake", "after a Pending poll the task's continuation is exactly [Notify::wait; poll]: it re-polls only after a wake or the single spurious return"),
    ("C20_wake_never_lost_exhaustive", "wake_never_lost_exhaustive", "computed: all 205 schedules of the canonical one-task / one-waker program for three store orderings: never a deadlock"),
 ])],
 "C08": [("LV.NotifyFacts", "Global persistence of notifications (NotifyFacts.v)", [
    ("C08_no_lost_wakeup", "no_lost_wakeup", "GLOBAL: a notification is never lost: after notify, over any steps of any threads, the wait proceeds and acquires the notifier's clock"),
    ("C08_blocked_waiter_stays", "blocked_waiter_stays", "a blocked waiter is not resumed by anything but a notify on its object"),
    ("C08_spurious_at_most_once", "spurious_at_most_once", "at most one spurious return per Notify"),
 ]), ("LV.NotifyFacts LV.ParkFacts", "thread::park / unpark over whole interleavings (ParkFacts.v; the token is a field of its own since fix 91a3e2b)", [
    ("C08_token_persists", "token_persists", "a park token survives every micro-step of every thread except the owner's own park: blocking on / being woken by a lock, a channel, a join, a notify neither consumes nor loses it (defect D11)"),
    ("C08_unpark_effect", "unpark_effect", "EXACT effect of unpark: a parked target becomes Runnable, any other live target keeps its state and gets the token, a terminated one is left alone; the target acquires the unparker's clock; nothing else changes"),
    ("C08_park_effect_token", "park_effect_token", "park with a token consumes it and does not block"),
    ("C08_park_blocks", "park_blocks", "park without a token blocks and hands the processor over"),
    ("C08_no_lost_unpark", "no_lost_unpark", "GLOBAL: after an unpark, whatever happens in between, the target's next park does not block (or it was parked and is Runnable now)"),
    ("C08_parked_stays_parked", "parked_stays_parked", "a parked thread is resumed only by an unpark of it or by a condvar notify that pops it: not by lock releases, sends, notify posts or the scheduler (defect D5)"),
 ]), ("LV.Ref LV.Outcome LV.Witness LV.NotifyFacts LV.ParkFacts LV.CondvarFacts", "Condvar over whole interleavings (CondvarFacts.v)", [
    ("C08_cv_queue_step_shape", "cv_queue_step_shape", "the waiter queue changes only by a registration at the back (wait), a pop at the front (notify_one) or being emptied (notify_all)"),
    ("C08_reg_persists", "reg_persists", "a registered waiter stays registered until a notify pops it"),
    ("C08_notify_one_wakes_front", "notify_one_wakes_front", "notify_one pops exactly the front waiter and unparks it with the notifier's clock; all other threads and objects are untouched"),
    ("C08_notify_one_empty_noop", "notify_one_empty_noop", "on an empty queue notify_one does nothing: the notification is not stored (std's contract)"),
    ("C08_notify_all_wakes_all", "notify_all_wakes_all", "notify_all wakes every registered waiter"),
    ("C08_cv_wait_returns_only_after_notify", "cv_wait_returns_only_after_notify", "a waiter parked in wait stays parked and registered under every step that neither notifies a queue that pops it nor unparks it"),
    ("C08_cv_no_lost_wakeup", "cv_no_lost_wakeup", "a notify that pops a waiter that has registered but not yet parked is not lost: its park returns at once"),
    ("C08_cv_waiter_reacquires", "cv_waiter_reacquires", "the step that ends the wait runs on a free mutex, leaves the waiter as its owner and acquires the mutex's view"),
    ("C08_cv_wakeup_hb", "cv_wakeup_hb", "the notifier's prior writes happen-before the woken thread's continuation"),
    ("C08_unpark_satisfies_condvar_wait", "unpark_satisfies_condvar_wait", "observed (computed): Condvar::wait parks through the thread's park token, so a stray Thread::unpark ends a wait nobody notified (a spurious wake-up std permits) and leaves a stale queue entry"),
 ])],
 "C07": [("LV.ExecFacts LV.SyncMono LV.ExclFacts", "MUTUAL EXCLUSION AS A GLOBAL INVARIANT of every run of every program (ExclFacts.v)", [
    ("C07_run_excl_inv", "run_excl_inv", "the exclusion invariant (lock word = the one thread inside; a write guard excludes every other guard; registered readers own guards) holds in the final state of every non-panicking run; every intermediate state is such a final state for smaller fuel"),
    ("C07_mutex_exclusion", "mutex_exclusion", "if two distinct threads own a guard of one mutex, one of them is inside Condvar::wait and has given the mutex up (its next step is the re-acquisition)"),
    ("C07_mutex_lock_owner", "mutex_lock_owner", "the lock word names exactly the thread that is inside the mutex"),
    ("C07_lock_acquire_only_when_free", "lock_acquire_only_when_free", "an acquisition that hands out a guard ran on a free mutex"),
    ("C07_lock_no_second_owner", "lock_no_second_owner", "while a thread is inside, another thread's acquisition step can only be a failing try_lock"),
    ("C07_rwlock_writer_excludes", "rwlock_writer_excludes", "a write guard never coexists with another thread's read or write guard on the same RwLock"),
    ("C07_mutex_guard_once", "mutex_guard_once", "a thread never owns two guards of one mutex (recursive lock deadlocks, recursive try_lock fails)"),
    ("C07_recursive_read_corrupt", "recursive_read_corrupt", "witness (computed): after a recursive read the runtime's reader SET and the std lock's guard COUNT disagree and the wrapper's `RwLock state corrupt` panic is what the run ends with"),
 ])],
 "C10": [("LV.CheckFacts LV.SyncFacts LV.ExecFacts LV.SyncMono LV.CountFacts LV.DeadlockFacts LV.LeakFacts", "The leak check against the harness-level truth, for whole iterations (LeakFacts.v)", [
    ("C10_iteration_leak_iff", "iteration_leak_iff", "EXACT: an iteration ends with a leak panic iff its run finished and the leak scan of the final objects finds that entry first; no micro-step and no run ever raises it"),
    ("C10_iteration_after_panic", "iteration_after_panic", "after a failure the leak check is not run"),
    ("C10_arc_leak_iff", "arc_leak_iff", "finished disciplined iteration: Arc k is reported iff one of its handles is still alive (no drop is in flight at the end: proved)"),
    ("C10_chan_leak_iff", "chan_leak_iff", "a channel is reported iff its runtime message count is positive, which is the length of the std queue while the receiver lives"),
    ("C10_track_leak_iff", "track_leak_iff", "a tracked allocation is reported iff it was never dropped"),
    ("C10_iteration_done_iff", "iteration_done_iff", "an iteration finishes normally iff nothing declared leaks (and no block_on waker clone is left registered)"),
    ("C10_true_leak_is_reported", "true_leak_is_reported", "every true leak is reported (at that entry or an earlier leaking one)"),
    ("C10_leak_reported_is_true", "leak_reported_is_true", "every reported leak is true and is the first one in object order"),
    ("C10_chan_leak_queue", "chan_leak_queue", "a channel is reported iff messages are still queued, whether or not the receiver is alive"),
    ("C10_send_after_drop_not_reported", "send_after_drop_not_reported", "witness (computed): after fix 4a05908 a message handed back by send() to a dropped receiver is not reported as leaked"),
 ])],
 "C05": [("LV.ExecFacts LV.SyncMono LV.DeadlockFacts", "Run-level statements (DeadlockFacts.v)", [
    ("C05_deadlock_only_from_schedule", "exec_micro_deadlock_only_from_schedule", "the deadlock panic is raised by Execution::schedule and nowhere else"),
    ("C05_run_deadlock_no_runnable", "run_deadlock_no_runnable", "SOUND: when a run (not replaying a stored prefix) ends with the deadlock panic, every thread is Blocked or Terminated, one is Blocked, and the reported states are the thread states"),
    ("C05_iteration_deadlock_exact", "iteration_deadlock_exact", "the same for whole iterations"),
    ("C05_run_done_all_terminated", "run_done_all_terminated", "a run that finishes has terminated every thread: nothing is silently left blocked"),
    ("C05_blocked_forever_is_reported", "blocked_forever_is_reported", "COMPLETE per state: a scheduling call in a state where everything is Blocked/Terminated and something is Blocked never returns normally"),
 ])],
 "C04": [("LV.SyncFacts LV.ExecFacts LV.SyncMono LV.ClockFacts", "Well-formedness of the vector clocks over whole runs (ClockFacts.v)", [
    ("C04_run_clock_wf", "run_clock_wf", "in every state of every run nobody knows more about a thread than the thread itself: every thread clock, released view, object view, store view, access stamp and the SeqCst clock is bounded componentwise by the owners' own components"),
    ("C04_clock_wf_caus", "clock_wf_caus", "in particular for thread clocks"),
    ("C04_own_component_increases", "own_component_increases", "every tracked access (cell read/write, atomic load/store/RMW, fence) strictly advances the accessing thread's own component first: two accesses of one thread never carry the same stamp"),
    ("C04_cell_write_stamp", "cell_write_stamp", "the stamp a cell records for a write is the writer's own component at that moment"),
    ("C04_seen_only_if_acquired", "seen_only_if_acquired", "a thread passes the race test against an access of thread t only if its clock has acquired t's component of that access"),
    ("C04_cell_write_allowed_iff", "cell_write_allowed_iff", "the write check in terms of stamps"),
 ])],
 "C09": [("LV.CountFacts", "Counting invariants over whole runs (CountFacts.v)", [
    ("C09_run_chan_inv", "run_chan_inv", "EVERY run of EVERY program: runtime message count = number of queued views = length of the std queue (while the receiver lives)"),
    ("C09_send_appends_one", "send_appends_one", "a send appends exactly its value at the back"),
    ("C09_recv_removes_front", "recv_removes_front", "a receive removes exactly the front value and returns it"),
    ("C09_queue_step_shape", "queue_step_shape", "every micro-step leaves a queue unchanged, appends one value or removes the front: no loss, no duplication, no reordering"),
    ("C09_steps_queue_fifo", "steps_queue_fifo", "FIFO over any number of steps"),
    ("C09_recv_never_empty_handed", "recv_never_empty_handed", "when the runtime lets a receive proceed the std queue is not empty"),
 ])],
 "C11": [("LV.CountFacts", "Reference count = live handles, over whole runs (CountFacts.v)", [
    ("C11_run_count_inv", "run_count_inv", "every run whose handle uses are disciplined (no clone into an occupied slot, no try_unwrap racing a drop of the same handle: both impossible in safe Rust): count = live handles + drops in flight"),
    ("C11_strong_count_is_live_handles", "strong_count_is_live_handles", "strong_count returns exactly that number"),
    ("C11_final_drop_iff_last_handle", "final_drop_iff_last_handle", "the value is destroyed exactly by the drop that removes the last handle"),
    ("C11_no_double_release", "no_double_release", "the 'already released' failure is unreachable"),
    ("C11_try_unwrap_iff_unique", "try_unwrap_iff_unique", "try_unwrap / get_mut succeed exactly for a unique handle"),
 ])],
}


def append_all(pid):
    path = os.path.join(COQ, "Props", pid + ".v")
    s = open(path).read()
    if MARK in s:
        s = s[:s.index(MARK)]
    s = s.rstrip("\n") + "\n\n" + MARK + "\n"
    for imports, note, items in APPEND.get(pid, []):
        s += f"\nRequire Import {BASEIMP} {imports}.\n\n(* {note} *)\n"
        for name, lemma, comment in items:
            ty = coq_type(BASEIMP + " " + imports, lemma)
            s += f"(* {comment} *)\nTheorem {name} :\n  {ty}.\nProof. exact {lemma}. Qed.\nPrint Assumptions {name}.\n\n"
    open(path, "w").write(s)
    print("appended", pid, sum(len(x[2]) for x in APPEND.get(pid, [])), "theorems")


if __name__ == "__main__":
    which = sys.argv[1:] or list(TABLE)
    for pid in which:
        if pid in TABLE:
            header, items = TABLE[pid]
            write(pid, header, IMP, items)
        if pid in APPEND:
            append_all(pid)
