#!/usr/bin/env python3
"""Runs registered checks against the seeded changes in /verif/seeded/<id>/patch.diff:
apply to /repo, run the checks, undo. Usage: seeded.py <seed-id> [check ids...]"""
import json
import os
import subprocess
import sys

ROOT = os.path.dirname(os.path.dirname(os.path.abspath(__file__)))


def main():
    sid = sys.argv[1]
    checks = sys.argv[2:] or [sid[:3]]
    patch = os.path.join(ROOT, "seeded", sid, "patch.diff")
    st = subprocess.run(["git", "-C", "/repo", "status", "--porcelain", "--untracked-files=no"], capture_output=True, text=True).stdout
    if st.strip():
        print("refusing: /repo has local changes")
        return 2
    r = subprocess.run(["git", "-C", "/repo", "apply", patch], capture_output=True, text=True)
    if r.returncode != 0:
        print("patch does not apply:", r.stderr)
        return 2
    results = {}
    try:
        for c in checks:
            p = subprocess.run([os.path.join(ROOT, "check"), c], capture_output=True, text=True)
            lines = [l for l in p.stdout.splitlines() if l.startswith("VIOLATION") or l.startswith(c + ":")]
            results[c] = {"exit": p.returncode, "lines": lines}
            print(c, p.returncode, lines)
    finally:
        subprocess.run(["git", "-C", "/repo", "checkout", "--", "."])
    print(json.dumps(results))
    return 0


if __name__ == "__main__":
    sys.exit(main())
