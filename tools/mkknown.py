#!/usr/bin/env python3
"""Offline tool (never run by a check): runs the deterministic oracle families of
every registered OutcomeCheck on the current tree, classifies each deviation by
root cause with the rules below, and rewrites the `known` part of
known_findings.json. Unclassified deviations are printed and NOT listed."""
import json
import os
import re
import sys

ROOT = os.path.dirname(os.path.dirname(os.path.abspath(__file__)))
sys.path.insert(0, os.path.join(ROOT, "tools"))
import props  # noqa: E402

FINDINGS = {
    "D4": ("RMW atomicity / coherence: a store that is concurrent with an RMW is not ordered after the RMW's write in modification order, so a later load of the storing thread reads the RMW's value (mo: init, RMW, store) although the RMW read init", "src/rt/atomic.rs store()/apply_load_coherence (the 'RMW Atomicity' rule of the file header is not implemented)", "A0 | sp 1 ; sp 2 ; jn 1 ; jn 2 | st 0 1 rlx ; ld 0 rlx | rmw 0 add 2 rlx ; ld 0 rlx"),
    "D5": ("unpark of a thread blocked on a join/lock wakes it: internal panic `assertion failed: state.notified` or a lost wake-up", "src/rt/thread.rs set_unparked", "A0 | sp 1 ; jn 1 | up 0"),
    "D6": ("try_recv on an empty channel has no branch point and is independent of send: the reversal is never explored", "src/sync/mpsc.rs try_recv / src/rt/mpsc.rs", "H | sp 1 ; trv 0 ; jn 1 ; drx 0 | sd 0 1"),
    "D11": ("a park token is erased when the thread blocks on / is woken by an object (set_blocked/set_runnable): false deadlock", "src/rt/thread.rs set_runnable/set_blocked", "see instances"),
    "D13": ("dropping a guard is not a scheduling point and not a DPOR access: try_lock/try_read/try_write never observe the lock held after the last visible operation of the critical section", "src/rt/mutex.rs release_lock, src/rt/rwlock.rs release_*", "M A0 | sp 1 ; lk 0 ; st 1 1 sc ; ul 0 ; jn 1 | ld 1 sc ; tl 0 ; st 1 3 sc ; ul 0"),
    "D14": ("park / unpark are not scheduling points and not DPOR accesses: an unpark that precedes the park (token delivered early, or two unparks coalescing) is never explored", "src/rt/mod.rs park, src/thread.rs unpark", "A0 | sp 1 ; pk ; pk ; jn 1 | up 0 ; up 0"),
    "D19": ("RMW atomicity against loads: two loads by one thread order a concurrent store after the store an RMW read, another pair of loads orders it before the RMW's own store (mo: 20, 10, 21 with 21 = fetch_add of 20); the store-time RMW-atomicity rule (fix 189e88b) and the transitive load rule (fix c0421c4) do not close the modification order under atomicity when LOADS add the edges", "src/rt/atomic.rs apply_load_coherence (the clock of the loaded store is raised without the RMW-atomicity closure)", "A0 | sp 1 ; sp 2 ; sp 3 ; jn 1 ; jn 2 ; jn 3 | st 0 10 rlx | st 0 20 rlx ; rmw 0 add 1 rlx | ld 0 rlx ; ld 0 rlx ; ld 0 rlx"),
    "D21": ("SeqCst fences are ordered by execution order: an outcome that C11/RC11 allows only when a fence executed LATER precedes an earlier one in the SC order S (possible when the only link between them is a chain of relaxed reads-from through a third thread) is never explored", "src/rt/execution.rs / src/rt/atomic.rs fence_seqcst (operational semantics: S = execution order)", "A0 A0 A0 | sp 1 ; sp 2 ; sp 3 ; jn 1 ; jn 2 ; jn 3 | st 0 1 rlx ; fn sc ; st 1 1 rlx | ld 1 rlx ; st 2 1 rlx | ld 2 rlx ; fn sc ; ld 0 rlx"),
    "D22": ("a lazy static whose initialiser contains a scheduling point is initialised more than once per execution: Lazy::get runs the initialiser outside the execution lock, a second thread arriving meanwhile runs it too, the first to finish registers its value and the other value is dropped at once (all threads still see ONE instance)", "src/lazy_static.rs Lazy::get ('the first thread to get here wins')", "A0 | sp 1 ; lz 2 ; jn 1 | lz 2"),
    "D24": ("yield_now is invisible to DPOR although it constrains scheduling (the yielding thread is not scheduled before another thread has taken a step): an outcome that needs the yield to happen EARLIER than the point at which DPOR reverses the race that follows it is never explored by the unbounded run; bounded runs find it through their conservative backtrack points, so their result set is not a subset of the unbounded one", "src/rt/mod.rs yield_now (operation = None: no DPOR access) / src/rt/execution.rs schedule", "A0 | sp 1 ; rmw 0 add 1 sc ; st 0 5 sc ; jn 1 | yl ; ld 0 sc"),
    "D15": ("condvar/notify: a wake-up is delivered as a park token to a thread that is not parked yet (notify before the waiter parks) or consumed by a later park", "src/rt/condvar.rs, src/rt/notify.rs", "see instances"),
}


def classify(prog, dev):
    kind = dev.split(":")[0]
    body = prog.split("|", 3)[3] if prog.count("|") >= 3 else prog
    has = lambda *ops: any(re.search(r"(^|[;|] *)" + o + r"( |$)", body) for o in ops)
    if "state.notified" in dev:
        return "D5"
    if dev.startswith("tls:lazy static 2 initialised twice"):
        return "D22"
    if kind == "missing" and has("yl") and prog.startswith("pbY"):
        return "D24"
    if kind in ("missing", "missed-failure") and has("trv"):
        return "D6"
    if has("pk", "up"):
        if kind == "spurious-failure":
            return "D11"
        return "D14"
    if kind == "missing" and has("tl", "trd", "twr"):
        return "D13"
    if kind == "missing" and body.count("fn sc") >= 2 and body.count("|") >= 3:
        return "D21"
    if kind == "forbidden" and has("rmw", "cas", "fu") and has("ld") and has("st"):
        return "D19"
    if has("wt", "n1", "na", "nw", "nn"):
        return "D15"
    return None


def main():
    import check
    ok, log = check.build()
    if not ok:
        print("build failed", log[-2000:])
        return
    only = sys.argv[1:]
    path = os.path.join(ROOT, "known_findings.json")
    cur = json.load(open(path)) if os.path.exists(path) else {"known": [], "fixed": []}
    entries = {e["id"]: e for e in cur.get("known", [])}
    todo = [pid for pid in sorted(props.REGISTRY) if isinstance(props.REGISTRY[pid], props.OutcomeCheck) and (not only or pid in only)]
    # forget what is about to be recomputed
    for e in entries.values():
        for inst in e["instances"]:
            inst["properties"] = [x for x in inst.get("properties", e.get("properties", [])) if x not in todo]
        e["instances"] = [i for i in e["instances"] if i["properties"]]
    unclassified = []
    cache = {}
    for pid in todo:
        chk = props.REGISTRY[pid]
        for tier in ("quick", "thorough"):
            ctx = props.Ctx(pid, tier, 1, ROOT, os.path.join(ROOT, ".work"))
            det = chk.det_family(ctx)
            heavy = chk.heavy_family(ctx)
            if not det and not heavy:
                continue
            key = (tuple(det), tuple(heavy), chk.cap, str(chk.ref_mode))
            if key not in cache:
                viol = []
                for lines, cap in ((det, chk.cap), (heavy, chk.heavy_cap)):
                    if not lines:
                        continue
                    fam = props.FamilyRun(ctx, lines, "det", cap=cap)
                    empty = props.Known("/nonexistent", pid)
                    v1, _, _ = props.oracle_compare(ctx, fam, empty, chk.ref_mode)
                    viol += v1
                    viol += [dict(v, extra=True) for v in chk.extra(ctx, fam, fam.lines)]
                    for a in fam.aborts:
                        viol.append({"prog": a["prog"], "deviation": "abort:" + a["crash"]})
                cache[key] = viol
            for v in cache[key]:
                if not chk.relevant(v["deviation"]) and not v["deviation"].startswith("abort") and not v.get("extra"):
                    continue
                d = classify(v["prog"], v["deviation"])
                if d is None:
                    unclassified.append((pid, v["prog"], v["deviation"]))
                    continue
                e = entries.setdefault(d, {"id": d, "properties": [], "what": FINDINGS[d][0], "call_site": FINDINGS[d][1],
                                           "witness": FINDINGS[d][2], "instances": []})
                e["what"], e["call_site"], e["witness"] = FINDINGS[d]
                np_ = props.norm_prog(v["prog"])
                inst = next((i for i in e["instances"] if i["prog"] == np_ and i["deviation"] == v["deviation"]), None)
                if inst is None:
                    inst = {"prog": np_, "deviation": v["deviation"], "properties": []}
                    e["instances"].append(inst)
                if pid not in inst["properties"]:
                    inst["properties"].append(pid)
            ctx.cleanup()
    for e in entries.values():
        e["properties"] = sorted({x for i in e["instances"] for x in i["properties"]})
    cur["known"] = [entries[k] for k in sorted(entries) if entries[k]["instances"]]
    json.dump(cur, open(path, "w"), indent=1)
    for e in cur["known"]:
        print(e["id"], e["properties"], len(e["instances"]), "instances")
    print("UNCLASSIFIED:", len(unclassified))
    for u in unclassified[:40]:
        print("  ", u)


if __name__ == "__main__":
    main()
