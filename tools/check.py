#!/usr/bin/env python3
"""Entry point of every registered check.

  check.py --setup
  check.py Cxx [--tier quick|thorough] [--replay file]

Steps of a property check (DESIGN.md section 7):
  1. build: Params.v regenerated from /repo, Coq development (make), extracted
     driver, harness (cargo) -- all from the current working trees;
  2. proof audit: the property's Props/Cxx.v compiles, its theorems are closed
     under the global context (Print Assumptions), no Admitted/Axiom anywhere;
  3. correspondence between the model L and the implementation on the
     property's families;
  4. oracle / direct search for a concrete violation;
  5. evidence file.
"""
import fcntl
import hashlib
import json
import os
import re
import subprocess
import sys
import time

ROOT = os.path.dirname(os.path.dirname(os.path.abspath(__file__)))
sys.path.insert(0, os.path.join(ROOT, "tools"))
import corr  # noqa: E402
import gen  # noqa: E402
import props  # noqa: E402

WORK = os.path.join(ROOT, ".work")
COQ = os.path.join(ROOT, "coq")
FORBIDDEN = re.compile(
    r"\b(Admitted|admit|Axiom|Axioms|Parameter|Parameters|Conjecture|Abort)\b|"
    r"Unset\s+Guard|bypass_check|type-in-type|impredicative-set|Admit\s+Obligations")


def sh(cmd, cwd=None, timeout=3600, env=None):
    p = subprocess.run(cmd, cwd=cwd, shell=isinstance(cmd, str), capture_output=True, text=True,
                       timeout=timeout, env=env)
    return p.returncode, p.stdout, p.stderr


class Lock:
    def __enter__(self):
        os.makedirs(WORK, exist_ok=True)
        self.f = open(os.path.join(WORK, "build.lock"), "w")
        fcntl.flock(self.f, fcntl.LOCK_EX)
        return self

    def __exit__(self, *a):
        fcntl.flock(self.f, fcntl.LOCK_UN)
        self.f.close()


def offline_env():
    env = dict(os.environ)
    env["CARGO_NET_OFFLINE"] = "true"
    for k in list(env):
        if k.startswith("LOOM_"):
            del env[k]
    return env


def build(full=False):
    """Returns (ok, log). Everything is rebuilt from the current trees; make and
    cargo do the dependency tracking."""
    log = []
    with Lock():
        rc, out, err = sh([sys.executable, os.path.join(ROOT, "tools/gen_params.py")])
        log.append(out + err)
        if rc != 0:
            return False, "gen_params failed:\n" + out + err
        if full or not os.path.exists(os.path.join(COQ, "Makefile")):
            rc, out, err = sh("coq_makefile -f _CoqProject -o Makefile", cwd=COQ)
            if rc != 0:
                return False, "coq_makefile failed:\n" + out + err
        rc, out, err = sh("timeout 3000 make -j16", cwd=COQ, timeout=3100)
        log.append(out[-3000:] + err[-3000:])
        if rc != 0:
            return False, "coq build failed (a proof obligation no longer checks):\n" + (out + err)[-4000:]
        oc = os.path.join(ROOT, "ocaml")
        drv = os.path.join(oc, "driver")
        srcs = [os.path.join(oc, f) for f in ("loom_model.ml", "loom_model.mli", "driver.ml")]
        if not os.path.exists(drv) or any(os.path.getmtime(s) > os.path.getmtime(drv) for s in srcs):
            rc, out, err = sh("ocamlfind ocamlopt -O2 -w -a loom_model.mli loom_model.ml driver.ml -o driver", cwd=oc)
            if rc != 0:
                return False, "driver build failed:\n" + out + err
        hd = os.path.join(ROOT, "harness")
        lock = os.path.join(hd, "Cargo.lock")
        if not os.path.exists(lock) and os.path.exists("/repo/Cargo.lock"):
            sh(["cp", "/repo/Cargo.lock", lock])
        rc, out, err = sh("cargo build --release --offline", cwd=hd, env=offline_env(), timeout=1800)
        log.append(err[-2000:])
        if rc != 0:
            return False, "harness build failed (the implementation no longer offers what the harness uses):\n" + err[-4000:]
    return True, "\n".join(log)


def audit_sources():
    """No Admitted / Axiom / ... anywhere in the development."""
    bad = []
    for dp, _, fs in os.walk(COQ):
        for f in fs:
            if not f.endswith(".v"):
                continue
            txt = open(os.path.join(dp, f)).read()
            txt = re.sub(r"\(\*.*?\*\)", "", txt, flags=re.S)
            for m in FORBIDDEN.finditer(txt):
                bad.append(f"{f}: {m.group(0)}")
            # Variable / Hypothesis / Context declare axioms only outside a section
            depth = 0
            for line in txt.splitlines():
                if re.match(r"\s*Section\s+\w+", line):
                    depth += 1
                elif re.match(r"\s*End\s+\w+", line) and depth > 0:
                    depth -= 1
                elif depth == 0 and re.match(r"\s*(Variables?|Hypothes[ie]s|Context)\b", line):
                    bad.append(f"{f}: {line.strip()[:60]} (outside a section)")
    return bad


def audit_property(pid):
    """Compiles Props/<pid>.v on its own and reads Check / Print Assumptions output.
    Returns dict(obligations, discharged, theorems, problems)."""
    pf = os.path.join(COQ, "Props", pid + ".v")
    res = {"obligations": 0, "discharged": 0, "theorems": [], "problems": []}
    if not os.path.exists(pf):
        res["problems"].append("no Props file")
        return res
    import shutil
    import tempfile
    td = tempfile.mkdtemp(prefix="audit", dir=WORK)
    rc, out, err = sh(["timeout", "600", "coqc", "-Q", COQ, "LV", "-o", os.path.join(td, pid + ".vo"), pf], cwd=COQ)
    shutil.rmtree(td, ignore_errors=True)
    if rc != 0:
        res["problems"].append("Props file does not compile: " + (out + err)[-1500:])
    src = open(pf).read()
    src_nc = re.sub(r"\(\*.*?\*\)", "", src, flags=re.S)
    names = re.findall(r"^\s*Print\s+Assumptions\s+(\w+)\s*\.", src_nc, flags=re.M)
    res["theorems"] = names
    res["obligations"] = len(names)
    closed = out.count("Closed under the global context")
    # anything else printed by Print Assumptions is an axiom list
    axioms = re.findall(r"^Axioms:\n((?:.+\n)+)", out, flags=re.M)
    if axioms:
        res["problems"].append("axioms used: " + " ".join(a.strip() for a in axioms)[:500])
    res["discharged"] = min(closed, len(names)) if rc == 0 else 0
    if rc == 0 and closed < len(names):
        res["problems"].append(f"only {closed} of {len(names)} theorems reported closed under the global context")
    return res


def write_evidence(pid, tier, seed, level, coverage, assumptions, wall, violations):
    os.makedirs(os.path.join(ROOT, "evidence"), exist_ok=True)
    ev = {"property_id": pid, "tier": tier, "seed": seed, "level": level, "coverage": coverage,
          "assumptions": assumptions, "wall_s": round(wall, 2), "violations": violations}
    json.dump(ev, open(os.path.join(ROOT, "evidence", pid + ".json"), "w"), indent=1)


def write_replay(pid, payload):
    os.makedirs(os.path.join(ROOT, "replays"), exist_ok=True)
    h = hashlib.sha1(json.dumps(payload, sort_keys=True).encode()).hexdigest()[:10]
    path = os.path.join(ROOT, "replays", f"{pid}-{h}.json")
    json.dump(payload, open(path, "w"), indent=1)
    return path


def load_known():
    p = os.path.join(ROOT, "known_findings.json")
    if os.path.exists(p):
        return json.load(open(p))
    return {"known": [], "fixed": []}


def main():
    args = sys.argv[1:]
    if not args:
        print(__doc__)
        return 2
    if args[0] == "--setup":
        ok, log = build(full=True)
        print(log[-3000:])
        print("setup", "ok" if ok else "FAILED")
        return 0 if ok else 1
    pid = args[0]
    tier = os.environ.get("VERIF_TIER", "quick")
    replay = None
    i = 1
    while i < len(args):
        if args[i] == "--tier":
            tier = args[i + 1]
            i += 2
        elif args[i] == "--replay":
            replay = args[i + 1]
            i += 2
        else:
            i += 1
    seed = int(os.environ.get("VERIF_SEED", "1"))
    if pid not in props.REGISTRY:
        print(f"unknown property {pid}")
        return 2
    t0 = time.time()
    ctx = props.Ctx(pid=pid, tier=tier, seed=seed, root=ROOT, work=WORK)
    if replay:
        return props.REGISTRY[pid].replay(ctx, replay)

    findings = []      # list of dict(kind, detail, replay_payload, concrete: bool)
    ok, log = build()
    if not ok:
        findings.append({"kind": "build", "detail": log[-3000:], "concrete": False,
                         "broken": "build: " + log.splitlines()[0] if log else "build"})
    bad_src = audit_sources() if ok else []
    if bad_src:
        findings.append({"kind": "audit", "detail": "; ".join(bad_src[:10]), "concrete": False,
                         "broken": "forbidden declaration in the development"})
    aud = audit_property(pid) if ok else {"obligations": 0, "discharged": 0, "theorems": [], "problems": ["not built"]}
    for pr in aud["problems"]:
        findings.append({"kind": "proof", "detail": pr, "concrete": False, "broken": f"Props/{pid}.v: {pr[:200]}"})

    chk_note = None
    if ok and tier == "thorough":
        # independent re-check of the property's compiled closure
        rc, out, err = sh(["timeout", "1800", "coqchk", "-silent", "-o", "-Q", COQ, "LV", f"LV.Props.{pid}"], cwd=COQ, timeout=1900)
        txt = out + err
        if rc != 0 or "Axioms: <none>" not in txt.replace("* ", ""):
            findings.append({"kind": "proof", "detail": txt[-1500:], "concrete": False,
                             "broken": f"coqchk on Props/{pid}.v: " + ("failed" if rc != 0 else "axioms reported")})
        else:
            chk_note = "coqchk: closure re-checked, Axioms: <none>, no type-in-type, no unsafe fixpoints, no assumed positivity"
    result = {"coverage": {}, "violations": [], "broken": [], "known": []}
    harness_ok = os.path.exists(corr.HARNESS)
    if harness_ok and os.path.exists(corr.DRIVER):
        result = props.REGISTRY[pid].run(ctx)
    else:
        findings.append({"kind": "build", "detail": "harness or driver missing", "concrete": False,
                         "broken": "harness/driver not built"})

    known = load_known()
    for k in result.get("known", []):
        print(f"KNOWN-FINDING: property={pid} {k}")

    rc = 0
    concrete = result.get("violations", [])
    broken = [f["broken"] for f in findings] + result.get("broken", [])
    if concrete:
        v = concrete[0]
        path = write_replay(pid, {"property": pid, "kind": "concrete", "violation": v, "broken": broken,
                                  "seed": seed, "tier": tier,
                                  "replay_cmd": f"./check {pid} --replay <this file>"})
        print(f"VIOLATION property={pid} replay={path}")
        rc = 1
    elif broken:
        path = write_replay(pid, {"property": pid, "kind": "no-failing-input-found", "broken": broken,
                                  "details": [f["detail"] for f in findings][:5], "seed": seed, "tier": tier})
        print(f"VIOLATION property={pid} replay={path} no-failing-input-found")
        rc = 1

    cov = dict(result.get("coverage", {}))
    cov.setdefault("obligations", max(aud["obligations"], 1))
    cov["obligations"] = max(aud["obligations"], 1)
    cov["discharged"] = aud["discharged"]
    cov["theorems"] = aud["theorems"]
    cov["checker_cmd"] = f"coqc -Q coq LV coq/Props/{pid}.v (after make in coq/); coqchk in the thorough tier"
    cov["trusted_base"] = props.TRUSTED_BASE
    if chk_note:
        cov["coqchk"] = chk_note
    write_evidence(pid, tier, seed, props.REGISTRY[pid].level, cov, props.REGISTRY[pid].assumptions,
                   time.time() - t0, len(concrete) + (1 if broken and not concrete else 0))
    print(f"{pid}: {'FAIL' if rc else 'ok'} obligations={cov['obligations']} discharged={cov['discharged']} "
          f"programs={cov.get('programs')} wall={time.time() - t0:.1f}s")
    return rc


if __name__ == "__main__":
    sys.exit(main())
