(* NotifyFacts: "a wake-up is never lost" at the level of rt::Notify (thread
   join, block_on, AtomicWaker all go through MNotifyWait1 / MNotifyWait2 /
   MNotifyPost).

   Contents
     0. nt_le w (the order on Notify states: the notified flag persists unless
        [w] allows the consuming wait, did_spur persists, the spurious
        configuration is constant, the view grows), okeep, nkeep w n e e'
        (the order on states, on object n only), reflexivity, transitivity
     1. framing lemmas in continuation style for every helper of Ops.v and
        for schedule (same structure as SyncMono section 2)
     2. exec_micro_nkeep: one tactic for all micro-operations
        ([destruct m; nk_tac]); MTrackDrop and MNotifyWait2 by hand
     3. the requested one-step statements: notified_persists (A.1),
        did_spur_persists (A.4), nt_spurious_const
     4. steps_without_wait2 (A.2), sw2_notified_persists, steps_nw2 (the
        restriction of SyncMono.steps), steps_nw2_sw2
     5. exec_micro_notify_wait1 (what MNotifyWait1 does, exactly),
        no lost wake-up (A.3): wake_flag_set, wake_wait1_not_blocking,
        wake_wait2_succeeds, no_lost_wakeup
     6. the safety half (A.4): wait1_unnotified_blocks, branch_always_blocks,
        branch_never_keeps_state, blocked_not_scheduled, spurious_at_most_once
     7. a waiter blocked on Notify n is woken by MNotifyPost n only: bw b n
        (n is a Notify and thread b is Blocked with its pending operation on
        n) is preserved by every micro-operation of another thread other than
        MNotifyPost n (exec_micro_bw, again [destruct m; bw_tac]),
        blocked_waiter_stays, steps_without_post, blocked_until_post,
        branch_always_waiting, unnotified_waiter_blocked_until_post

   DEVIATIONS from the requested statements: see the end of the file. *)
Require Import LV.Base LV.VV LV.VVFacts LV.Path LV.PathSpec LV.PathApi LV.Prog LV.Objects
               LV.Exec LV.Atomic LV.Ops LV.Check LV.SyncFacts LV.ExecFacts LV.SyncMono.
From Coq Require Import List Arith Lia Bool.
Import ListNotations.

(* ================================================================== *)
(* 0. The order                                                        *)
(* ================================================================== *)

Definition nt_le (w : bool) (s s' : notify_state) : Prop :=
  (w = false -> nt_notified s = true -> nt_notified s' = true) /\
  (nt_did_spur s = true -> nt_did_spur s' = true) /\
  nt_spurious s' = nt_spurious s /\
  vle (nt_sync s) (nt_sync s').

Lemma nt_le_refl w s : nt_le w s s.
Proof. unfold nt_le. auto using vle_refl. Qed.

Lemma nt_le_trans w s1 s2 s3 : nt_le w s1 s2 -> nt_le w s2 s3 -> nt_le w s1 s3.
Proof.
  intros (Ha1 & Ha2 & Ha3 & Ha4) (Hb1 & Hb2 & Hb3 & Hb4). unfold nt_le.
  split; [auto|]. split; [auto|]. split; [congruence|eauto using vle_trans].
Qed.

(* what a write to an object slot must satisfy *)
Definition okeep (w : bool) (o o' : object) : Prop :=
  match o with
  | ONotify s => exists s', o' = ONotify s' /\ nt_le w s s'
  | _ => True
  end.

Lemma okeep_refl w o : okeep w o o.
Proof. destruct o; cbn [okeep]; auto. eexists; split; [reflexivity|apply nt_le_refl]. Qed.

Definition nkeep (w : bool) (n : nat) (e e' : exec) : Prop :=
  forall s, get_notify e n = Some s ->
    exists s', get_notify e' n = Some s' /\ nt_le w s s'.

Lemma nkeep_refl w n e : nkeep w n e e.
Proof. intros s Hs. exists s. split; [exact Hs|apply nt_le_refl]. Qed.

Lemma nkeep_trans w n e1 e2 e3 : nkeep w n e1 e2 -> nkeep w n e2 e3 -> nkeep w n e1 e3.
Proof.
  intros H12 H23 s Hs. destruct (H12 s Hs) as (s2 & Hs2 & Hle2).
  destruct (H23 s2 Hs2) as (s3 & Hs3 & Hle3). exists s3. split; [exact Hs3|].
  eapply nt_le_trans; eassumption.
Qed.

Lemma nkeep_k w n e0 e e' : nkeep w n e e' -> nkeep w n e0 e -> nkeep w n e0 e'.
Proof. intros H1 H0. eapply nkeep_trans; eassumption. Qed.

(* ---- basic shapes ---- *)
Lemma nkeep_same w n e e' : e_objects e' = e_objects e -> nkeep w n e e'.
Proof.
  intros Ho s Hs. exists s. split; [|apply nt_le_refl].
  rewrite (get_notify_objects_eq e' e n Ho). exact Hs.
Qed.

Lemma nkeep_same_k w n e0 e e' : e_objects e' = e_objects e -> nkeep w n e0 e -> nkeep w n e0 e'.
Proof. intros Ho. apply nkeep_k, nkeep_same, Ho. Qed.

Lemma nkeep_append w n e l : nkeep w n e (ex_set_objects e (e_objects e ++ l)).
Proof.
  intros s Hs. exists s. split; [|apply nt_le_refl].
  apply get_notify_nth in Hs. unfold get_notify.
  change (e_objects (ex_set_objects e (e_objects e ++ l))) with (e_objects e ++ l).
  rewrite nth_error_app1; [rewrite Hs; reflexivity|]. apply nth_error_Some. congruence.
Qed.

Lemma nkeep_append_k w n e0 e l :
  nkeep w n e0 e -> nkeep w n e0 (ex_set_objects e (e_objects e ++ l)).
Proof. apply nkeep_k, nkeep_append. Qed.

Lemma nkeep_upd_object w n e i f :
  (forall o, nth_error (e_objects e) i = Some o -> okeep w o (f o)) ->
  nkeep w n e (upd_object e i f).
Proof.
  intros Hf s Hs. pose proof (get_notify_nth _ _ _ Hs) as Hn.
  destruct (Nat.eq_dec i n) as [->|Hne].
  - specialize (Hf _ Hn). cbn [okeep] in Hf. destruct Hf as (s' & Hfs & Hle).
    exists s'. split; [|exact Hle].
    unfold get_notify. rewrite nth_error_objects_upd_same, Hn. cbn [option_map].
    rewrite Hfs. reflexivity.
  - exists s. split; [|apply nt_le_refl].
    unfold get_notify. rewrite nth_error_objects_upd_other by exact Hne. rewrite Hn. reflexivity.
Qed.

Lemma nkeep_upd_object_k w n e0 e i o' :
  (forall o, nth_error (e_objects e) i = Some o -> okeep w o o') ->
  nkeep w n e0 e -> nkeep w n e0 (upd_object e i (fun _ => o')).
Proof. intros Hf. apply nkeep_k, nkeep_upd_object, Hf. Qed.

(* an update of another slot *)
Lemma nkeep_upd_other w n e i f : i <> n -> nkeep w n e (upd_object e i f).
Proof.
  intros Hne s Hs. exists s. split; [|apply nt_le_refl].
  apply get_notify_nth in Hs.
  unfold get_notify. rewrite nth_error_objects_upd_other by exact Hne. rewrite Hs. reflexivity.
Qed.

(* ================================================================== *)
(* 1. Framing lemmas                                                   *)
(* ================================================================== *)

Lemma e_objects_threads_unpark e me id : e_objects (threads_unpark e me id) = e_objects e.
Proof. apply threads_unpark_objects. Qed.

Lemma e_objects_fold_unpark me l : forall e,
  e_objects (fold_left (fun e t => threads_unpark e me t) l e) = e_objects e.
Proof.
  induction l as [|x l IH]; intros e; cbn [fold_left]; [reflexivity|].
  rewrite IH. apply threads_unpark_objects.
Qed.

Ltac eobj_tac :=
  first [ reflexivity
        | apply e_objects_log_op
        | apply e_objects_log_poll
        | apply e_objects_threads_unpark
        | apply e_objects_fold_unpark
        | autorewrite with eobj; reflexivity ].

Lemma okeep_set_last_access w o act tid pid v : okeep w o (set_last_access o act tid pid v).
Proof.
  destruct o; cbn [okeep]; auto. cbn [set_last_access].
  eexists; split; [reflexivity|]. unfold nt_le; cbn. auto using vle_refl.
Qed.

Lemma nkeep_sched_note_k w n e0 e nx pid th :
  nkeep w n e0 e -> nkeep w n e0 (sched_note e nx pid th).
Proof.
  apply nkeep_k. unfold sched_note. destruct (t_op th) as [op|]; [|apply nkeep_refl].
  destruct (nth_error (e_objects e) (op_obj op)) as [o|]; [|apply nkeep_refl].
  cbv zeta.
  match goal with |- nkeep _ _ _ (upd_object ?E _ _) => apply (nkeep_trans w n _ E) end.
  - apply nkeep_same. reflexivity.
  - apply nkeep_upd_object. intros o' _. apply okeep_set_last_access.
Qed.

Lemma schedule_nkeep w n e : nkeep w n e (res_exec (fst (schedule e))).
Proof.
  destruct (schedule_cases e)
    as [(c & ->)|[(x & ->)|[(p1 & x & Hd & ->)|(curr & cur_th & p1 & p2 & next & Hp & ->)]]];
    cbn [fst res_exec]; try apply nkeep_refl.
  - apply nkeep_same. reflexivity.
  - assert (Hb : nkeep w n e (sched_base e p2 next)) by (apply nkeep_same; reflexivity).
    revert Hb. generalize (sched_base e p2 next). intros e1 Hb.
    unfold sched_post. destruct next as [nx|].
    + destruct (nth_error (e_threads e1) nx) as [th|]; cbn [fst res_exec]; [|exact Hb].
      eapply nkeep_same_k; [reflexivity|]. apply nkeep_sched_note_k, Hb.
    + destruct (forallb is_terminated (e_threads e1)); cbn [fst res_exec]; exact Hb.
Qed.

Lemma schedule_nkeep_k w n e0 e : nkeep w n e0 e -> nkeep w n e0 (res_exec (fst (schedule e))).
Proof. apply nkeep_k, schedule_nkeep. Qed.

Lemma do_branch_nkeep_k w n e0 e me obj act blk :
  nkeep w n e0 e -> nkeep w n e0 (res_exec (do_branch e me obj act blk)).
Proof.
  intros H. unfold do_branch. apply schedule_nkeep_k. eapply nkeep_same_k; [reflexivity|exact H].
Qed.

Lemma do_park_nkeep_k w n e0 e me : nkeep w n e0 e -> nkeep w n e0 (res_exec (do_park e me)).
Proof.
  intros H. unfold do_park. destruct (get_thread e me) as [t|]; [|exact H].
  destruct (t_token t); cbn [res_exec].
  - eapply nkeep_same_k; [reflexivity|exact H].
  - apply schedule_nkeep_k. eapply nkeep_same_k; [reflexivity|exact H].
Qed.

Lemma do_yield_nkeep_k w n e0 e me : nkeep w n e0 e -> nkeep w n e0 (res_exec (do_yield e me)).
Proof.
  intros H. unfold do_yield. apply schedule_nkeep_k. eapply nkeep_same_k; [reflexivity|exact H].
Qed.

Ltac okeep_const Hg :=
  let o := fresh "o" in let Ho := fresh "Ho" in
  intros o Ho; rewrite Hg in Ho; injection Ho as <-; exact I.

Lemma release_lock_nkeep_k w n e0 e me m : nkeep w n e0 e -> nkeep w n e0 (release_lock e me m).
Proof.
  intros H. unfold release_lock. destruct (get_mutex e m) as [s|] eqn:Hg; [|exact H].
  apply get_mutex_nth in Hg. cbv zeta.
  match goal with |- nkeep _ _ _ (match e_active ?E with _ => _ end) =>
    assert (H1 : nkeep w n e0 E) end.
  { apply nkeep_upd_object_k; [okeep_const Hg|exact H]. }
  destruct (e_active _); [|exact H1].
  eapply nkeep_same_k; [reflexivity|]. apply nkeep_upd_object_k; [|exact H1].
  intros o Ho. rewrite nth_error_objects_upd_same, Hg in Ho. cbn [option_map] in Ho.
  injection Ho as <-. exact I.
Qed.

Lemma post_acquire_nkeep w n e me m : nkeep w n e (fst (post_acquire e me m)).
Proof.
  unfold post_acquire. destruct (get_mutex e m) as [s|] eqn:Hg; [|apply nkeep_refl].
  apply get_mutex_nth in Hg. destruct (is_some (mx_lock s)); cbn [fst]; [apply nkeep_refl|].
  eapply nkeep_same_k; [reflexivity|]. eapply nkeep_same_k; [reflexivity|].
  apply nkeep_upd_object_k; [okeep_const Hg|apply nkeep_refl].
Qed.

Lemma post_acquire_read_nkeep w n e me r : nkeep w n e (fst (post_acquire_read e me r)).
Proof.
  unfold post_acquire_read. destruct (get_rw e r) as [s|] eqn:Hg; [|apply nkeep_refl].
  apply get_rw_nth in Hg.
  destruct (rw_lock s) as [[rs|x]|]; cbn [fst]; try apply nkeep_refl.
  all: eapply nkeep_same_k; [reflexivity|]; eapply nkeep_same_k; [reflexivity|];
    apply nkeep_upd_object_k; [okeep_const Hg|apply nkeep_refl].
Qed.

Lemma post_acquire_write_nkeep w n e me r : nkeep w n e (fst (post_acquire_write e me r)).
Proof.
  unfold post_acquire_write. destruct (get_rw e r) as [s|] eqn:Hg; [|apply nkeep_refl].
  apply get_rw_nth in Hg.
  destruct (rw_lock s) as [lk|]; cbn [fst]; try apply nkeep_refl.
  eapply nkeep_same_k; [reflexivity|]; eapply nkeep_same_k; [reflexivity|];
    apply nkeep_upd_object_k; [okeep_const Hg|apply nkeep_refl].
Qed.

Lemma release_read_nkeep w n e me r : nkeep w n e (res_exec (release_read e me r)).
Proof.
  unfold release_read. destruct (get_rw e r) as [s|] eqn:Hg; [|apply nkeep_refl].
  apply get_rw_nth in Hg. cbv zeta.
  destruct (rw_lock s) as [[rs|x]|]; cbn [res_exec]; try apply nkeep_refl.
  destruct (set_remove me rs); cbn [res_exec].
  - eapply nkeep_same_k; [reflexivity|]. apply nkeep_upd_object_k; [okeep_const Hg|apply nkeep_refl].
  - apply nkeep_upd_object_k; [okeep_const Hg|apply nkeep_refl].
Qed.

Lemma release_write_nkeep w n e me r : nkeep w n e (res_exec (release_write e me r)).
Proof.
  unfold release_write. destruct (get_rw e r) as [s|] eqn:Hg; [|apply nkeep_refl].
  apply get_rw_nth in Hg. cbn [res_exec].
  eapply nkeep_same_k; [reflexivity|]. apply nkeep_upd_object_k; [okeep_const Hg|apply nkeep_refl].
Qed.

Lemma choose_store_nkeep w n e seed : nkeep w n e (fst (choose_store e seed)).
Proof. destruct (choose_store_frame e seed) as (_ & H2 & _). apply nkeep_same. exact H2. Qed.

(* ================================================================== *)
(* 2. One micro-operation                                              *)
(* ================================================================== *)

Ltac nt_le_tac :=
  unfold nt_le, nt_set; cbn [nt_notified nt_did_spur nt_spurious nt_sync];
  repeat split; auto using vle_refl, sync_store_keeps.

Ltac nside_obj :=
  let o := fresh "o" in
  let Ho := fresh "Ho" in
  intros o Ho; conv_hyps; autorewrite with eobj in *;
  try match goal with
      | Hco : e_objects ?e1 = e_objects _ |- _ => rewrite Hco in Ho
      end;
  match goal with
  | Hg : nth_error ?l ?i = Some _, Ho' : nth_error ?l ?i = Some o |- _ =>
      rewrite Hg in Ho'; injection Ho' as Ho'; subst o
  end;
  cbn [okeep];
  first [ exact I | eexists; split; [reflexivity|nt_le_tac] ].

Ltac nclose_step :=
  match goal with
  | |- nkeep _ _ ?e ?e => apply nkeep_refl
  | H : nkeep ?w ?n ?E ?x |- nkeep ?w ?n _ ?x => apply (nkeep_trans w n _ E x); [|exact H]
  | |- nkeep _ _ _ (ex_set_objects ?e (e_objects ?e ++ _)) => apply nkeep_append_k
  | |- nkeep _ _ _ (release_lock _ _ _) => apply release_lock_nkeep_k
  | |- nkeep _ _ _ (upd_object _ _ _) => apply nkeep_upd_object_k; [nside_obj|]
  | |- nkeep _ _ _ (log_op ?e _ _) => apply (nkeep_same_k _ _ _ e); [eobj_tac|]
  | |- nkeep _ _ _ (log_poll ?e _) => apply (nkeep_same_k _ _ _ e); [eobj_tac|]
  | |- nkeep _ _ _ (push_cont ?e _ _) => apply (nkeep_same_k _ _ _ e); [eobj_tac|]
  | |- nkeep _ _ _ (push_guard ?e _ _ _) => apply (nkeep_same_k _ _ _ e); [eobj_tac|]
  | |- nkeep _ _ _ (drop_guard ?e _ _ _) => apply (nkeep_same_k _ _ _ e); [eobj_tac|]
  | |- nkeep _ _ _ (causality_inc ?e _) => apply (nkeep_same_k _ _ _ e); [eobj_tac|]
  | |- nkeep _ _ _ (set_slot ?e _ _ _) => apply (nkeep_same_k _ _ _ e); [eobj_tac|]
  | |- nkeep _ _ _ (threads_unpark ?e _ _) => apply (nkeep_same_k _ _ _ e); [eobj_tac|]
  | |- nkeep _ _ _ (fold_left _ _ ?e) => apply (nkeep_same_k _ _ _ e); [eobj_tac|]
  | |- nkeep _ _ _ (ex_set_path ?e _) => apply (nkeep_same_k _ _ _ e); [eobj_tac|]
  | |- nkeep _ _ _ (ex_set_active ?e _) => apply (nkeep_same_k _ _ _ e); [eobj_tac|]
  | |- nkeep _ _ _ (ex_set_seqcst ?e _) => apply (nkeep_same_k _ _ _ e); [eobj_tac|]
  | |- nkeep _ _ _ (ex_set_spawned ?e _) => apply (nkeep_same_k _ _ _ e); [eobj_tac|]
  | |- nkeep _ _ _ (ex_set_joined ?e _) => apply (nkeep_same_k _ _ _ e); [eobj_tac|]
  | |- nkeep _ _ _ (ex_set_log ?e _) => apply (nkeep_same_k _ _ _ e); [eobj_tac|]
  | |- nkeep _ _ _ (ex_set_lazy ?e _) => apply (nkeep_same_k _ _ _ e); [eobj_tac|]
  | |- nkeep _ _ _ (ex_set_threads ?e _) => apply (nkeep_same_k _ _ _ e); [eobj_tac|]
  | |- nkeep _ _ _ (ex_set_h ?e _) => apply (nkeep_same_k _ _ _ e); [eobj_tac|]
  | |- nkeep _ _ _ (upd_thread ?e _ _) => apply (nkeep_same_k _ _ _ e); [eobj_tac|]
  | |- nkeep _ _ _ (upd_hobj ?e _ _) => apply (nkeep_same_k _ _ _ e); [eobj_tac|]
  | |- nkeep _ _ _ (set_caus ?e _ _) => apply (nkeep_same_k _ _ _ e); [eobj_tac|]
  | |- nkeep _ _ _ (map_others ?e _ _ _) => apply (nkeep_same_k _ _ _ e); [eobj_tac|]
  end.

(* (the two rewrites: the dead first write of a disconnected MSendPost) *)
Ltac nclose :=
  cbn [res_exec lp_exec];
  rewrite ?upd_object_map_others_upd_object_const, ?upd_object_upd_object_const;
  repeat nclose_step.

Ltac nstep :=
  match goal with
  | |- nkeep _ _ _ (res_exec (fst (schedule _))) => apply schedule_nkeep_k
  | |- nkeep _ _ _ (res_exec (do_branch _ _ _ _ _)) => apply do_branch_nkeep_k
  | |- nkeep _ _ _ (res_exec (do_park _ _)) => apply do_park_nkeep_k
  | |- nkeep _ _ _ (res_exec (do_yield _ _)) => apply do_yield_nkeep_k
  | |- nkeep ?w ?n _ ?G =>
      match G with
      | context [post_acquire ?e ?me ?m] =>
          let H := fresh "Hfr" in
          pose proof (post_acquire_nkeep w n e me m) as H;
          destruct (post_acquire e me m); cbn [fst] in H
      | context [post_acquire_read ?e ?me ?m] =>
          let H := fresh "Hfr" in
          pose proof (post_acquire_read_nkeep w n e me m) as H;
          destruct (post_acquire_read e me m); cbn [fst] in H
      | context [post_acquire_write ?e ?me ?m] =>
          let H := fresh "Hfr" in
          pose proof (post_acquire_write_nkeep w n e me m) as H;
          destruct (post_acquire_write e me m); cbn [fst] in H
      | context [release_read ?e ?me ?m] =>
          let H := fresh "Hfr" in
          pose proof (release_read_nkeep w n e me m) as H;
          destruct (release_read e me m); cbn [res_exec] in H
      | context [release_write ?e ?me ?m] =>
          let H := fresh "Hfr" in
          pose proof (release_write_nkeep w n e me m) as H;
          destruct (release_write e me m); cbn [res_exec] in H
      | context [choose_store ?e ?s] =>
          let H := fresh "Hfr" in
          let Hct := fresh "Hct" in
          let Hco := fresh "Hco" in
          pose proof (choose_store_nkeep w n e s) as H;
          destruct (choose_store_frame e s) as (Hct & Hco & _);
          destruct (choose_store e s) as [? [?|?]]; cbn [fst] in H, Hct, Hco
      end
  | |- context [match ?x with _ => _ end] =>
      lazymatch x with
      | context [match _ with _ => _ end] => fail
      | _ => destruct x eqn:?
      end
  end; cbv beta iota.

Lemma load_post_nkeep w n e me a o : nkeep w n e (lp_exec (load_post e me a o)).
Proof. unfold load_post. repeat nstep. all: nclose. Qed.

Ltac nstep' :=
  first [ match goal with
          | |- nkeep ?w ?n _ ?G =>
              match G with
              | context [load_post ?e ?me ?a ?o] =>
                  let H := fresh "Hfr" in
                  pose proof (load_post_nkeep w n e me a o) as H;
                  destruct (load_post e me a o) as [[? ?]|[? ?]]; cbn [lp_exec] in H; cbv beta iota
              end
          end
        | nstep ].

Ltac nk_tac :=
  cbn [exec_micro]; unfold lift_path, mbind; cbv beta iota;
  repeat nstep'; nclose.

Lemma track_ok_not_notify e k s :
  track_ok e -> ho_track (get_h e k) = true -> get_notify e k = Some s -> False.
Proof.
  intros [_ Htr] Hk Hs. apply get_notify_nth in Hs.
  destruct (Htr k _ Hk Hs) as [d Hd]. discriminate Hd.
Qed.

(* every micro-operation except the consuming wait on n itself keeps the
   notified flag of n; every micro-operation keeps did_spur / nt_spurious and
   lets the view grow.  [track_ok] is needed for MTrackDrop only. *)
Lemma exec_micro_nkeep w n e me m :
  track_ok e -> (w = false -> m <> MNotifyWait2 n) ->
  nkeep w n e (res_exec (exec_micro e me m)).
Proof.
  intros Htr Hm.
  destruct m;
    try match goal with
        | |- nkeep _ _ _ (res_exec (exec_micro _ _ (MNotifyWait2 _))) => idtac
        | |- nkeep _ _ _ (res_exec (exec_micro _ _ (MTrackDrop _))) => idtac
        | |- _ => clear Htr Hm; nk_tac
        end.
  - (* MNotifyWait2 n0 *)
    rewrite exec_micro_notify_wait2.
    destruct (get_notify e n0) as [s0|] eqn:Hg; cbn [res_exec]; [|apply nkeep_refl].
    destruct (negb (nt_notified s0)); cbn [res_exec]; [apply nkeep_refl|].
    destruct (Nat.eq_dec n0 n) as [->|Hne].
    + destruct w; [|destruct (Hm eq_refl eq_refl)].
      apply nkeep_upd_object_k; [|apply nkeep_same; reflexivity].
      intros o Ho. apply get_notify_nth in Hg. autorewrite with eobj in Ho.
      rewrite Hg in Ho. injection Ho as <-. cbn [okeep].
      eexists; split; [reflexivity|]. unfold nt_le, nt_set; cbn. repeat split; auto using vle_refl.
    + eapply nkeep_trans; [|apply nkeep_upd_other; exact Hne]. apply nkeep_same. reflexivity.
  - (* MTrackDrop k *)
    cbn [exec_micro]. destruct (ho_track (get_h e k)) eqn:Hk; cbn [res_exec].
    + eapply nkeep_same_k; [apply e_objects_log_op|].
      destruct (Nat.eq_dec k n) as [->|Hne].
      * intros s Hs. destruct (track_ok_not_notify _ _ _ Htr Hk Hs).
      * eapply nkeep_trans; [|apply nkeep_upd_other; exact Hne]. apply nkeep_same. reflexivity.
    + apply nkeep_same. apply e_objects_log_op.
Qed.

(* ================================================================== *)
(* 3. The one-step statements                                          *)
(* ================================================================== *)

Lemma exec_micro_nkeep_ok w n e me m e' :
  track_ok e -> (w = false -> m <> MNotifyWait2 n) -> exec_micro e me m = MOk e' -> nkeep w n e e'.
Proof.
  intros Htr Hm H. pose proof (exec_micro_nkeep w n e me m Htr Hm) as Hk. rewrite H in Hk. exact Hk.
Qed.

(* A.1: only the consuming post-action MNotifyWait2 n clears the flag *)
Theorem notified_persists : forall e me m e' n s,
  track_ok e -> get_notify e n = Some s -> nt_notified s = true ->
  exec_micro e me m = MOk e' -> m <> MNotifyWait2 n ->
  exists s', get_notify e' n = Some s' /\ nt_notified s' = true /\ vle (nt_sync s) (nt_sync s').
Proof.
  intros e me m e' n s Htr Hg Hn Hx Hm.
  destruct (exec_micro_nkeep_ok false n e me m e' Htr (fun _ => Hm) Hx s Hg) as (s' & Hg' & H1 & _ & _ & H4).
  exists s'. auto.
Qed.

(* the same for the state carried by a panic *)
Theorem notified_persists_fail : forall e me m e' pn n s,
  track_ok e -> get_notify e n = Some s -> nt_notified s = true ->
  exec_micro e me m = MFail e' pn -> m <> MNotifyWait2 n ->
  exists s', get_notify e' n = Some s' /\ nt_notified s' = true /\ vle (nt_sync s) (nt_sync s').
Proof.
  intros e me m e' pn n s Htr Hg Hn Hx Hm.
  pose proof (exec_micro_nkeep false n e me m Htr (fun _ => Hm)) as Hk. rewrite Hx in Hk.
  destruct (Hk s Hg) as (s' & Hg' & H1 & _ & _ & H4). exists s'. auto.
Qed.

(* A.4, second half: did_spur and the spurious configuration persist under
   EVERY micro-operation (MNotifyWait2 n included) *)
Theorem did_spur_persists : forall e me m e' n s,
  track_ok e -> get_notify e n = Some s -> exec_micro e me m = MOk e' ->
  exists s', get_notify e' n = Some s' /\
             (nt_did_spur s = true -> nt_did_spur s' = true) /\
             nt_spurious s' = nt_spurious s /\ vle (nt_sync s) (nt_sync s').
Proof.
  intros e me m e' n s Htr Hg Hx.
  assert (Hm : true = false -> m <> MNotifyWait2 n) by discriminate.
  destruct (exec_micro_nkeep_ok true n e me m e' Htr Hm Hx s Hg) as (s' & Hg' & _ & H2 & H3 & H4).
  exists s'. auto.
Qed.

(* without track_ok the statement is false (same reason as
   SyncMono.view_mono_counterexample): MTrackDrop overwrites slot k whenever
   the harness flag of slot k is set, whatever the runtime object is *)
Definition cex_notify : notify_state := mkNotify false false false true None vv_new.
Definition cex_nstate (p : prog) (pa : path) : exec :=
  ex_set_h (ex_set_objects (init_exec p pa) [ONotify cex_notify]) [ho_set_track hobj_default true].

Lemma notified_persists_needs_track_ok p pa :
  get_notify (cex_nstate p pa) 0 = Some cex_notify /\ nt_notified cex_notify = true /\
  exists e', exec_micro (cex_nstate p pa) 0 (MTrackDrop 0) = MOk e' /\ get_notify e' 0 = None.
Proof. split; [reflexivity|]. split; [reflexivity|]. eexists. split; reflexivity. Qed.

(* ================================================================== *)
(* 4. Sequences of steps                                               *)
(* ================================================================== *)

(* the closure of: any thread executes a micro-operation satisfying P; the
   runtime pops the continuation of a thread (Check.run does both in one go) *)
Inductive msteps (P : micro -> Prop) : exec -> exec -> Prop :=
  | ms_refl e : msteps P e e
  | ms_micro e me m e1 e2 :
      P m -> exec_micro e me m = MOk e1 -> msteps P e1 e2 -> msteps P e e2
  | ms_pop e me rest e2 :
      msteps P (upd_thread e me (fun t => th_set_cont t rest)) e2 -> msteps P e e2.

Definition steps_without_wait2 (n : nat) : exec -> exec -> Prop :=
  msteps (fun m => m <> MNotifyWait2 n).
Definition any_steps : exec -> exec -> Prop := msteps (fun _ => True).

Lemma msteps_trans (P : micro -> Prop) e1 e2 e3 : msteps P e1 e2 -> msteps P e2 e3 -> msteps P e1 e3.
Proof.
  intros H12 H23. induction H12 as [e|e me m e1 e2 Hp Hx Hs IH|e me rest e2 Hs IH]; [exact H23| |].
  - eapply ms_micro; eauto.
  - eapply ms_pop; eauto.
Qed.

Lemma msteps_weaken (P Q : micro -> Prop) e e' :
  (forall m, P m -> Q m) -> msteps P e e' -> msteps Q e e'.
Proof.
  intros HPQ H. induction H as [e|e me m e1 e2 Hp Hx Hs IH|e me rest e2 Hs IH].
  - apply ms_refl.
  - eapply ms_micro; eauto.
  - eapply ms_pop; eauto.
Qed.

Lemma track_ok_same e e' : e_h e' = e_h e -> e_objects e' = e_objects e -> track_ok e -> track_ok e'.
Proof. intros Hh Ho [H1 H2]. unfold track_ok, get_h in *. rewrite Hh, Ho. split; assumption. Qed.

Lemma msteps_inv w n (P : micro -> Prop) e e' :
  (forall m, P m -> w = false -> m <> MNotifyWait2 n) ->
  msteps P e e' -> track_ok e -> nkeep w n e e' /\ track_ok e' /\ mono e e'.
Proof.
  intros HP H. induction H as [e|e me m e1 e2 Hp Hx Hs IH|e me rest e2 Hs IH]; intros Htr.
  - split; [apply nkeep_refl|]. split; [exact Htr|apply mono_refl].
  - destruct (IH (exec_micro_track_ok _ _ _ _ Htr Hx)) as (Hk & Htr2 & Hm).
    split; [|split; [exact Htr2|]].
    + eapply nkeep_trans; [|exact Hk]. eapply exec_micro_nkeep_ok; eauto.
    + eapply mono_trans; [|exact Hm]. eapply exec_micro_mono_ok; exact Hx.
  - assert (Htr1 : track_ok (upd_thread e me (fun t => th_set_cont t rest)))
      by (eapply track_ok_same; [| |exact Htr]; reflexivity).
    destruct (IH Htr1) as (Hk & Htr2 & Hm). split; [|split; [exact Htr2|]].
    + eapply nkeep_trans; [|exact Hk]. apply nkeep_same. reflexivity.
    + eapply mono_trans; [|exact Hm]. apply mono_upd_thread. intros t. apply vle_refl.
Qed.

(* A.2 *)
Theorem sw2_notified_persists : forall n e e' s,
  track_ok e -> steps_without_wait2 n e e' -> get_notify e n = Some s -> nt_notified s = true ->
  exists s', get_notify e' n = Some s' /\ nt_notified s' = true /\ vle (nt_sync s) (nt_sync s').
Proof.
  intros n e e' s Htr Hs Hg Hn.
  destruct (msteps_inv false n _ e e' (fun m Hm _ => Hm) Hs Htr) as (Hk & _ & _).
  destruct (Hk s Hg) as (s' & Hg' & H1 & _ & _ & H4). exists s'. auto.
Qed.

Theorem any_steps_did_spur_persists : forall n e e' s,
  track_ok e -> any_steps e e' -> get_notify e n = Some s ->
  exists s', get_notify e' n = Some s' /\
             (nt_did_spur s = true -> nt_did_spur s' = true) /\
             nt_spurious s' = nt_spurious s /\ vle (nt_sync s) (nt_sync s').
Proof.
  intros n e e' s Htr Hs Hg.
  assert (HP : forall m, True -> true = false -> m <> MNotifyWait2 n) by discriminate.
  destruct (msteps_inv true n _ e e' HP Hs Htr) as (Hk & _ & _).
  destruct (Hk s Hg) as (s' & Hg' & _ & H2 & H3 & H4). exists s'. auto.
Qed.

Lemma sw2_track_ok n e e' : track_ok e -> steps_without_wait2 n e e' -> track_ok e'.
Proof. intros Htr Hs. exact (proj1 (proj2 (msteps_inv false n _ e e' (fun m Hm _ => Hm) Hs Htr))). Qed.

Lemma sw2_mono n e e' : track_ok e -> steps_without_wait2 n e e' -> mono e e'.
Proof. intros Htr Hs. exact (proj2 (proj2 (msteps_inv false n _ e e' (fun m Hm _ => Hm) Hs Htr))). Qed.

(* the steps of the runtime (SyncMono.steps: the active thread pops and
   executes its next micro-operation), restricted to micro-operations other
   than MNotifyWait2 n, are such sequences *)
Inductive steps_nw2 (n : nat) : exec -> exec -> Prop :=
  | snw_refl e : steps_nw2 n e e
  | snw_step e me t m rest e1 e2 :
      e_active e = Some me -> nth_error (e_threads e) me = Some t -> t_cont t = m :: rest ->
      m <> MNotifyWait2 n ->
      exec_micro (upd_thread e me (fun t => th_set_cont t rest)) me m = MOk e1 ->
      steps_nw2 n e1 e2 -> steps_nw2 n e e2.

Lemma steps_nw2_sw2 n e e' : steps_nw2 n e e' -> steps_without_wait2 n e e'.
Proof.
  intros H. induction H as [e|e me t m rest e1 e2 Ha Ht Hc Hm Hx Hs IH]; [apply ms_refl|].
  eapply ms_pop, ms_micro; eauto.
Qed.

Lemma steps_nw2_steps n e e' : steps_nw2 n e e' -> steps e e'.
Proof.
  intros H. induction H as [e|e me t m rest e1 e2 Ha Ht Hc Hm Hx Hs IH]; [apply steps_refl|].
  eapply steps_step; eauto.
Qed.

(* ================================================================== *)
(* 5. No lost wake-up                                                  *)
(* ================================================================== *)

(* the continuation pushed by Notify::wait when it does not return spuriously *)
Definition wait1_cont (n : nat) (s : notify_state) : list micro :=
  [MBranch n AOpaque (if nt_notified s then BNever else BAlways); MNotifyWait2 n].

(* what MNotifyWait1 does, exactly *)
Lemma exec_micro_notify_wait1 e me n s :
  get_notify e n = Some s ->
  exec_micro e me (MNotifyWait1 n) =
  if nt_spurious s && negb (nt_did_spur s) then
    match branch_spurious (e_path e) with
    | PErr x => MFail e (PanicPath x)
    | POk (p, true) =>
        MOk (push_cont (upd_object (ex_set_path e p) n
                          (fun _ => ONotify (nt_set s true (nt_notified s) (nt_sync s)))) me [MYield])
    | POk (p, false) => MOk (push_cont (ex_set_path e p) me (wait1_cont n s))
    end
  else MOk (push_cont e me (wait1_cont n s)).
Proof.
  intros Hg. cbn [exec_micro]. rewrite Hg.
  destruct (nt_spurious s && negb (nt_did_spur s)); [|reflexivity].
  destruct (branch_spurious (e_path e)) as [[p [|]]|x]; reflexivity.
Qed.

(* a branch that never blocks leaves the thread's state alone: the thread
   only records its pending operation and goes through the scheduler *)
Lemma branch_never_keeps_state e b n act :
  exec_micro e b (MBranch n act BNever) =
  fst (schedule (upd_thread e b (fun t => th_set_op t (Some (mkOp n act))))).
Proof. reflexivity. Qed.

(* the wake publishes the flag and the waker's clock; both persist *)
Theorem wake_flag_set : forall e a n e1 e2,
  track_ok e -> exec_micro e a (MNotifyPost n) = MOk e1 -> steps_without_wait2 n e1 e2 ->
  exists s2, get_notify e2 n = Some s2 /\ nt_notified s2 = true /\ vle (caus_of e a) (nt_sync s2).
Proof.
  intros e a n e1 e2 Htr Hpost Hs.
  assert (Hg : exists s, get_notify e n = Some s).
  { rewrite exec_micro_notify_post in Hpost. destruct (get_notify e n) as [s|]; [eauto|discriminate]. }
  destruct Hg as (s & Hg).
  destruct (notify_post_publishes e a n s e1 Hg Hpost) as (s1 & Hg1 & Hpub & _ & Hn1).
  pose proof (exec_micro_track_ok _ _ _ _ Htr Hpost) as Htr1.
  destruct (sw2_notified_persists n e1 e2 s1 Htr1 Hs Hg1 Hn1) as (s2 & Hg2 & Hn2 & Hle).
  exists s2. split; [exact Hg2|]. split; [exact Hn2|]. eapply vle_trans; eassumption.
Qed.

(* A.3, first part: after a wake a waiter entering Notify::wait does not
   block.  All outcomes of MNotifyWait1 n in such a state:
   - the Notify cannot return spuriously (any more): the continuation
     [MBranch n AOpaque BNever; MNotifyWait2 n] is pushed, nothing else changes;
   - it can, and the path answers "no": the same, with the path advanced;
   - it can, and the path answers "yes": did_spur is set, the flag is kept,
     and the wait returns through MYield without consuming the notification;
   - the path panics in branch_spurious (branch limit / nondeterminism). *)
Theorem wake_wait1_not_blocking : forall e a n e1 e2 b,
  track_ok e -> exec_micro e a (MNotifyPost n) = MOk e1 -> steps_without_wait2 n e1 e2 ->
  exists s2, get_notify e2 n = Some s2 /\ nt_notified s2 = true /\
    ((nt_spurious s2 && negb (nt_did_spur s2) = false /\
      exec_micro e2 b (MNotifyWait1 n) =
        MOk (push_cont e2 b [MBranch n AOpaque BNever; MNotifyWait2 n])) \/
     (nt_spurious s2 && negb (nt_did_spur s2) = true /\
      ((exists p, branch_spurious (e_path e2) = POk (p, false) /\
          exec_micro e2 b (MNotifyWait1 n) =
            MOk (push_cont (ex_set_path e2 p) b [MBranch n AOpaque BNever; MNotifyWait2 n])) \/
       (exists p, branch_spurious (e_path e2) = POk (p, true) /\
          exec_micro e2 b (MNotifyWait1 n) =
            MOk (push_cont (upd_object (ex_set_path e2 p) n
                              (fun _ => ONotify (nt_set s2 true true (nt_sync s2)))) b [MYield])) \/
       (exists x, branch_spurious (e_path e2) = PErr x /\
          exec_micro e2 b (MNotifyWait1 n) = MFail e2 (PanicPath x))))).
Proof.
  intros e a n e1 e2 b Htr Hpost Hs.
  destruct (wake_flag_set e a n e1 e2 Htr Hpost Hs) as (s2 & Hg2 & Hn2 & _).
  exists s2. split; [exact Hg2|]. split; [exact Hn2|].
  rewrite (exec_micro_notify_wait1 e2 b n s2 Hg2). unfold wait1_cont. rewrite Hn2.
  destruct (nt_spurious s2 && negb (nt_did_spur s2)); [right|left; auto].
  split; [reflexivity|].
  destruct (branch_spurious (e_path e2)) as [[p [|]]|x]; eauto 6.
Qed.

(* A.3, second part: in every state reached from the wake without a consuming
   wait on n, MNotifyWait2 n succeeds (it is not MFail _ PanicNotified), it
   consumes the notification, and the waiter acquires the waker's clock *)
Theorem wake_wait2_succeeds : forall e a n e1 e4 b,
  track_ok e -> exec_micro e a (MNotifyPost n) = MOk e1 -> steps_without_wait2 n e1 e4 ->
  exists e5, exec_micro e4 b (MNotifyWait2 n) = MOk e5 /\
    (b < length (e_threads e4) -> vle (caus_of e a) (caus_of e5 b)) /\
    exists s5, get_notify e5 n = Some s5 /\ nt_notified s5 = false.
Proof.
  intros e a n e1 e4 b Htr Hpost Hs.
  destruct (wake_flag_set e a n e1 e4 Htr Hpost Hs) as (s4 & Hg4 & Hn4 & Hpub).
  rewrite exec_micro_notify_wait2, Hg4, Hn4. cbn [negb]. eexists. split; [reflexivity|].
  split.
  - intros Hb. rewrite caus_of_upd_object, caus_of_set_caus_same by exact Hb.
    eapply vle_trans; [exact Hpub|]. apply sync_load_acq. reflexivity.
  - eexists. split; [eapply get_notify_upd_const; rewrite e_objects_set_caus;
                     apply get_notify_nth; exact Hg4|reflexivity].
Qed.

(* the whole scenario: a wakes; any steps; b enters the wait (MNotifyWait1);
   any steps (b's non-blocking branch among them); b's MNotifyWait2 succeeds
   and b has acquired a's clock *)
Theorem no_lost_wakeup : forall e a n e1 e2 b e3 e4,
  track_ok e -> exec_micro e a (MNotifyPost n) = MOk e1 ->
  steps_without_wait2 n e1 e2 ->
  exec_micro e2 b (MNotifyWait1 n) = MOk e3 ->
  steps_without_wait2 n e3 e4 ->
  exists e5, exec_micro e4 b (MNotifyWait2 n) = MOk e5 /\
    (forall e' pn, exec_micro e4 b (MNotifyWait2 n) <> MFail e' pn) /\
    (b < length (e_threads e4) -> vle (caus_of e a) (caus_of e5 b)).
Proof.
  intros e a n e1 e2 b e3 e4 Htr Hpost H12 Hw1 H34.
  assert (H14 : steps_without_wait2 n e1 e4).
  { eapply msteps_trans; [exact H12|]. eapply ms_micro; [|exact Hw1|exact H34]. discriminate. }
  destruct (wake_wait2_succeeds e a n e1 e4 b Htr Hpost H14) as (e5 & Hx & Hc & _).
  exists e5. split; [exact Hx|]. split; [|exact Hc]. intros e' pn. rewrite Hx. discriminate.
Qed.

(* ================================================================== *)
(* 6. The safety half                                                  *)
(* ================================================================== *)

(* A.4: with the flag clear, the waiter either takes the single modelled
   spurious return or pushes a branch that always blocks *)
Theorem wait1_unnotified_blocks : forall e b n s e3,
  get_notify e n = Some s -> nt_notified s = false ->
  exec_micro e b (MNotifyWait1 n) = MOk e3 ->
  (exists p, (p = e_path e \/ branch_spurious (e_path e) = POk (p, false)) /\
     e_path e3 = p /\ e_objects e3 = e_objects e /\
     get_thread e3 b = option_map (fun t => th_set_cont t ([MBranch n AOpaque BAlways; MNotifyWait2 n] ++ t_cont t))
                         (get_thread e b)) \/
  (nt_spurious s = true /\ nt_did_spur s = false /\
   exists p, branch_spurious (e_path e) = POk (p, true) /\
     e3 = push_cont (upd_object (ex_set_path e p) n
                       (fun _ => ONotify (nt_set s true false (nt_sync s)))) b [MYield]).
Proof.
  intros e b n s e3 Hg Hn Hx. rewrite (exec_micro_notify_wait1 e b n s Hg) in Hx.
  unfold wait1_cont in Hx. rewrite Hn in Hx.
  assert (Hpc : forall e0 : exec, e_threads e0 = e_threads e ->
            get_thread (push_cont e0 b [MBranch n AOpaque BAlways; MNotifyWait2 n]) b =
            option_map (fun t => th_set_cont t ([MBranch n AOpaque BAlways; MNotifyWait2 n] ++ t_cont t))
                       (get_thread e b)).
  { intros e0 He0. unfold push_cont. rewrite get_thread_upd_thread_same.
    unfold get_thread. rewrite He0. reflexivity. }
  destruct (nt_spurious s) eqn:Hsp, (nt_did_spur s) eqn:Hds; cbn [andb negb] in Hx.
  - injection Hx as <-. left. exists (e_path e). rewrite Hpc by reflexivity. auto.
  - destruct (branch_spurious (e_path e)) as [[p [|]]|x] eqn:Hb; [| |discriminate Hx];
      injection Hx as <-.
    + right. split; [reflexivity|]. split; [reflexivity|]. exists p. auto.
    + left. exists p. rewrite Hpc by reflexivity. auto.
  - injection Hx as <-. left. exists (e_path e). rewrite Hpc by reflexivity. auto.
  - injection Hx as <-. left. exists (e_path e). rewrite Hpc by reflexivity. auto.
Qed.

(* such a branch marks the thread Blocked before it calls the scheduler *)
Lemma branch_always_blocks e b n act :
  exec_micro e b (MBranch n act BAlways) =
  fst (schedule (upd_thread e b (fun t => set_blocked (th_set_op t (Some (mkOp n act)))))).
Proof. reflexivity. Qed.

(* and the scheduler (not replaying) never resumes a Blocked thread *)
Lemma blocked_not_scheduled e e' b t nx :
  fst (schedule e) = MOk e' -> is_traversed (e_path e) = true ->
  nth_error (e_threads e) b = Some t -> is_blocked t = true ->
  e_active e' = Some nx -> nx <> b.
Proof.
  intros Hs Htr Ht Hb Ha ->.
  destruct (schedule_picks_runnable e e' b Hs Ha Htr) as (th & Hth & Hr).
  assert (th = t) by congruence. subst th.
  unfold is_blocked, is_runnable, is_yield in *. destruct (t_state t); discriminate.
Qed.

Theorem unnotified_waiter_not_resumed : forall e b n act e',
  exec_micro e b (MBranch n act BAlways) = MOk e' ->
  is_traversed (e_path e) = true -> b < length (e_threads e) ->
  e_active e' <> Some b /\
  exists t', get_thread e' b = Some t' /\ t_state t' = Blocked.
Proof.
  intros e b n act e' Hx Htr Hb. rewrite branch_always_blocks in Hx.
  destruct (get_thread_lt_some e b Hb) as (t & Ht).
  set (e0 := upd_thread e b (fun t => set_blocked (th_set_op t (Some (mkOp n act))))) in *.
  assert (Ht0 : nth_error (e_threads e0) b = Some (set_blocked (th_set_op t (Some (mkOp n act))))).
  { change (get_thread e0 b = Some (set_blocked (th_set_op t (Some (mkOp n act))))).
    unfold e0. rewrite get_thread_upd_thread_same, Ht. reflexivity. }
  split.
  - intros Ha. exact (blocked_not_scheduled e0 e' b _ b Hx Htr Ht0 eq_refl Ha eq_refl).
  - destruct (schedule_keeps_state e0 e' b _ Hx Ht0 eq_refl) as (t' & Ht' & Hst).
    exists t'. split; [exact Ht'|]. rewrite Hst. reflexivity.
Qed.

(* the spurious return happens at most once per Notify: it sets did_spur,
   did_spur stays set (did_spur_persists, any_steps_did_spur_persists), and
   with did_spur set MNotifyWait1 is deterministic and not spurious *)
Theorem spurious_sets_did_spur : forall e b n s p,
  get_notify e n = Some s -> nt_spurious s && negb (nt_did_spur s) = true ->
  branch_spurious (e_path e) = POk (p, true) ->
  exists e3 s3, exec_micro e b (MNotifyWait1 n) = MOk e3 /\
    get_notify e3 n = Some s3 /\ nt_did_spur s3 = true /\
    nt_notified s3 = nt_notified s /\ nt_sync s3 = nt_sync s.
Proof.
  intros e b n s p Hg Hm Hb. rewrite (exec_micro_notify_wait1 e b n s Hg), Hm, Hb.
  eexists. eexists. split; [reflexivity|]. split.
  - unfold push_cont. rewrite (get_notify_objects_eq _ _ n (e_objects_upd_thread _ _ _)).
    eapply get_notify_upd_const. apply get_notify_nth. exact Hg.
  - repeat split; reflexivity.
Qed.

Theorem did_spur_no_spurious : forall e b n s,
  get_notify e n = Some s -> nt_did_spur s = true ->
  exec_micro e b (MNotifyWait1 n) = MOk (push_cont e b (wait1_cont n s)).
Proof.
  intros e b n s Hg Hd. rewrite (exec_micro_notify_wait1 e b n s Hg), Hd, andb_false_r. reflexivity.
Qed.

Theorem spurious_at_most_once : forall e b n s p e3 e4 b',
  track_ok e -> get_notify e n = Some s ->
  nt_spurious s && negb (nt_did_spur s) = true -> branch_spurious (e_path e) = POk (p, true) ->
  exec_micro e b (MNotifyWait1 n) = MOk e3 -> any_steps e3 e4 ->
  exists s4, get_notify e4 n = Some s4 /\ nt_did_spur s4 = true /\
    exec_micro e4 b' (MNotifyWait1 n) = MOk (push_cont e4 b' (wait1_cont n s4)).
Proof.
  intros e b n s p e3 e4 b' Htr Hg Hm Hb Hx Hs.
  destruct (spurious_sets_did_spur e b n s p Hg Hm Hb) as (e3' & s3 & Hx' & Hg3 & Hd3 & _).
  assert (e3' = e3) by congruence. subst e3'.
  pose proof (exec_micro_track_ok _ _ _ _ Htr Hx) as Htr3.
  destruct (any_steps_did_spur_persists n e3 e4 s3 Htr3 Hs Hg3) as (s4 & Hg4 & Hd4 & _).
  exists s4. split; [exact Hg4|]. split; [auto|]. apply did_spur_no_spurious; auto.
Qed.

(* ================================================================== *)
(* 7. A waiter blocked on Notify n is woken by MNotifyPost n only      *)
(* ================================================================== *)

Section Blocked.
Variables b n : nat.

(* thread t is blocked with a pending operation on object n *)
Definition waiting (t : thread) : Prop := t_state t = Blocked /\ pending_on n t = true.

(* n is a Notify and thread b is blocked on it *)
Definition bw (e : exec) : Prop :=
  (exists s, get_notify e n = Some s) /\
  exists t, nth_error (e_threads e) b = Some t /\ waiting t.

(* thread updates that keep a waiting thread waiting *)
Definition wpres (f : thread -> thread) : Prop := forall t, waiting t -> waiting (f t).

Lemma bw_nkeep e e' : nkeep true n e e' ->
  (exists s, get_notify e n = Some s) -> exists s', get_notify e' n = Some s'.
Proof. intros Hk (s & Hs). destruct (Hk s Hs) as (s' & Hs' & _). eauto. Qed.

Lemma bw_set_threads_k e ths :
  (forall t, nth_error (e_threads e) b = Some t -> waiting t ->
     exists t', nth_error ths b = Some t' /\ waiting t') ->
  bw e -> bw (ex_set_threads e ths).
Proof.
  intros H (Hn & t & Ht & Hw). split; [exact Hn|]. destruct (H t Ht Hw) as (t' & Ht' & Hw'). eauto.
Qed.

Lemma bw_same_k e e' :
  e_objects e' = e_objects e -> e_threads e' = e_threads e -> bw e -> bw e'.
Proof.
  intros Ho Ht (Hn & Hw). split.
  - destruct Hn as (s & Hs). exists s. rewrite (get_notify_objects_eq e' e n Ho). exact Hs.
  - rewrite Ht. exact Hw.
Qed.

Lemma bw_upd_thread_k e i f : i <> b \/ wpres f -> bw e -> bw (upd_thread e i f).
Proof.
  intros Hf. apply bw_set_threads_k. intros t Ht Hw.
  destruct (Nat.eq_dec i b) as [->|Hne].
  - destruct Hf as [Hf|Hf]; [destruct (Hf eq_refl)|].
    rewrite nth_error_list_upd_same, Ht. cbn [option_map]. eauto.
  - rewrite nth_error_list_upd_other by exact Hne. eauto.
Qed.

Lemma bw_mapi_k e g : (forall id, wpres (g id)) -> bw e ->
  bw (ex_set_threads e (mapi g (e_threads e))).
Proof.
  intros Hg. apply bw_set_threads_k. intros t Ht Hw.
  rewrite nth_error_mapi, Ht. cbn [option_map]. eexists; split; [reflexivity|]. apply Hg, Hw.
Qed.

Lemma bw_map_others_k e me p f : wpres f -> bw e -> bw (map_others e me p f).
Proof.
  intros Hf. unfold map_others. apply bw_mapi_k. intros id t Hw.
  destruct (negb (Nat.eqb id me) && p t); [apply Hf, Hw|exact Hw].
Qed.

(* a wake-up aimed at the threads pending on another object *)
Lemma bw_map_others_other_k e me m f : m <> n -> bw e -> bw (map_others e me (pending_on m) f).
Proof.
  intros Hne. unfold map_others. apply bw_mapi_k. intros id t Hw.
  assert (Hp : pending_on m t = false).
  { destruct Hw as [_ Hp]. unfold pending_on in *. destruct (t_op t) as [op|]; [|reflexivity].
    apply Nat.eqb_eq in Hp. apply Nat.eqb_neq. congruence. }
  rewrite Hp, andb_false_r. exact Hw.
Qed.

Lemma bw_append_threads_k e l : bw e -> bw (ex_set_threads e (e_threads e ++ l)).
Proof.
  apply bw_set_threads_k. intros t Ht Hw. exists t. split; [|exact Hw].
  rewrite nth_error_app1; [exact Ht|]. apply nth_error_Some. congruence.
Qed.

Lemma bw_upd_object_k e i o' :
  (forall o, nth_error (e_objects e) i = Some o -> okeep true o o') ->
  bw e -> bw (upd_object e i (fun _ => o')).
Proof.
  intros Hf (Hn & Hw). split; [|exact Hw].
  exact (bw_nkeep _ _ (nkeep_upd_object true n e i _ Hf) Hn).
Qed.

Lemma bw_append_objects_k e l : bw e -> bw (ex_set_objects e (e_objects e ++ l)).
Proof. intros (Hn & Hw). split; [|exact Hw]. exact (bw_nkeep _ _ (nkeep_append true n e l) Hn). Qed.

(* object m is not the Notify n *)
Lemma bw_neq e m o : bw e -> nth_error (e_objects e) m = Some o ->
  (forall s, o <> ONotify s) -> m <> n.
Proof.
  intros ((s & Hs) & _) Hm Hno ->. apply get_notify_nth in Hs. rewrite Hs in Hm.
  injection Hm as <-. exact (Hno s eq_refl).
Qed.

Ltac wp_tac :=
  let t := fresh "t" in let Hw := fresh "Hw" in
  intros t Hw; exact Hw.

Lemma wpres_set_blocked : wpres set_blocked.
Proof. intros t [Hs Hp]. split; [reflexivity|exact Hp]. Qed.

Lemma wpres_set_unparked : wpres set_unparked.
Proof.
  intros t [Hs Hp]. unfold set_unparked.
  assert (Hpk : is_parked t = false).
  { unfold is_parked. unfold pending_on in Hp. destruct (t_op t); [apply andb_false_r|discriminate]. }
  rewrite Hpk. unfold is_terminated. rewrite Hs. split; [exact Hs|exact Hp].
Qed.

Lemma wpres_thread_unpark c : wpres (fun t => thread_unpark t c).
Proof. intros t Hw. unfold thread_unpark. apply wpres_set_unparked. exact Hw. Qed.

Lemma wpres_reactivate nx id :
  wpres (fun th => if is_yield th && negb (Nat.eqb id nx) then set_runnable th else th).
Proof.
  intros t Hw. assert (Hy : is_yield t = false) by (destruct Hw as [Hs _]; unfold is_yield; rewrite Hs; reflexivity).
  rewrite Hy. exact Hw.
Qed.

Lemma bw_threads_unpark_k e me id : me <> b -> bw e -> bw (threads_unpark e me id).
Proof.
  intros Hmb H. unfold threads_unpark. destruct (Nat.eqb id me).
  - apply bw_upd_thread_k; [left; exact Hmb|exact H].
  - apply bw_upd_thread_k; [right; apply wpres_thread_unpark|exact H].
Qed.

Lemma bw_fold_unpark_k me l : me <> b -> forall e,
  bw e -> bw (fold_left (fun e t => threads_unpark e me t) l e).
Proof.
  intros Hmb. induction l as [|x l IH]; intros e H; cbn [fold_left]; [exact H|].
  apply IH, bw_threads_unpark_k; assumption.
Qed.

Lemma bw_log_op_k e me r : bw e -> bw (log_op e me r).
Proof. apply bw_same_k; [apply e_objects_log_op|apply e_threads_log_op]. Qed.

Lemma e_threads_log_poll e me : e_threads (log_poll e me) = e_threads e.
Proof. unfold log_poll. destruct (get_thread e me); reflexivity. Qed.

Lemma bw_log_poll_k e me : bw e -> bw (log_poll e me).
Proof. apply bw_same_k; [apply e_objects_log_poll|apply e_threads_log_poll]. Qed.

Lemma bw_sched_note_k e nx pid th : bw e -> bw (sched_note e nx pid th).
Proof.
  intros H. unfold sched_note. destruct (t_op th) as [op|]; [|exact H].
  destruct (nth_error (e_objects e) (op_obj op)) as [o|]; [|exact H].
  cbv zeta.
  match goal with |- bw (upd_object ?E ?i ?f) => assert (H1 : bw E) end.
  { apply bw_upd_thread_k; [right; wp_tac|exact H]. }
  destruct H1 as (Hn & Hw). split; [|exact Hw].
  refine (bw_nkeep _ _ (nkeep_upd_object true n _ _ _ _) Hn).
  intros o' _. apply okeep_set_last_access.
Qed.

Lemma schedule_bw e : bw e -> bw (res_exec (fst (schedule e))).
Proof.
  intros H.
  destruct (schedule_cases e)
    as [(c & ->)|[(x & ->)|[(p1 & x & Hd & ->)|(curr & cur_th & p1 & p2 & next & Hp & ->)]]];
    cbn [fst res_exec]; try exact H.
  assert (Hb : bw (sched_base e p2 next)) by (eapply bw_same_k; [reflexivity..|exact H]).
  revert Hb. generalize (sched_base e p2 next). intros e1 Hb.
  unfold sched_post. destruct next as [nx|].
  - destruct (nth_error (e_threads e1) nx) as [th|]; cbn [fst res_exec]; [|exact Hb].
    unfold reactivate. apply bw_mapi_k; [intros id; apply wpres_reactivate|].
    apply bw_sched_note_k, Hb.
  - destruct (forallb is_terminated (e_threads e1)); cbn [fst res_exec]; exact Hb.
Qed.

Lemma do_branch_bw e me obj act blk : me <> b -> bw e -> bw (res_exec (do_branch e me obj act blk)).
Proof.
  intros Hmb H. unfold do_branch. apply schedule_bw. apply bw_upd_thread_k; [left; exact Hmb|exact H].
Qed.

Lemma do_park_bw e me : me <> b -> bw e -> bw (res_exec (do_park e me)).
Proof.
  intros Hmb H. unfold do_park. destruct (get_thread e me) as [t|]; [|exact H].
  destruct (t_token t); cbn [res_exec].
  - apply bw_upd_thread_k; [left; exact Hmb|exact H].
  - apply schedule_bw. apply bw_upd_thread_k; [left; exact Hmb|exact H].
Qed.

Lemma do_yield_bw e me : me <> b -> bw e -> bw (res_exec (do_yield e me)).
Proof.
  intros Hmb H. unfold do_yield. apply schedule_bw. apply bw_upd_thread_k; [left; exact Hmb|exact H].
Qed.

Ltac not_notify := let s := fresh in let H := fresh in intros s H; discriminate H.

Lemma okeep_const_kind w o o' :
  (forall s, o <> ONotify s) -> okeep w o o'.
Proof. intros H. destruct o; cbn [okeep]; auto. destruct (H s eq_refl). Qed.

Lemma bw_upd_object_kind_k e i o o' :
  nth_error (e_objects e) i = Some o -> (forall s, o <> ONotify s) ->
  bw e -> bw (upd_object e i (fun _ => o')).
Proof.
  intros Hi Hno. apply bw_upd_object_k. intros o1 Ho1. rewrite Hi in Ho1. injection Ho1 as <-.
  apply okeep_const_kind, Hno.
Qed.

Lemma release_lock_bw e me m : bw e -> bw (release_lock e me m).
Proof.
  intros H. unfold release_lock. destruct (get_mutex e m) as [s|] eqn:Hg; [|exact H].
  apply get_mutex_nth in Hg. cbv zeta.
  assert (Hne : m <> n) by (eapply bw_neq; [exact H|exact Hg|not_notify]).
  match goal with |- bw (match e_active ?E with _ => _ end) => assert (H1 : bw E) end.
  { eapply bw_upd_object_kind_k; [exact Hg|not_notify|exact H]. }
  destruct (e_active _); [|exact H1].
  apply bw_map_others_other_k; [exact Hne|].
  eapply bw_upd_object_kind_k;
    [rewrite nth_error_objects_upd_same, Hg; reflexivity|not_notify|exact H1].
Qed.

Lemma bw_set_caus_k e me v : me <> b -> bw e -> bw (set_caus e me v).
Proof. intros Hmb. apply bw_upd_thread_k. left. exact Hmb. Qed.

Lemma post_acquire_bw e me m : me <> b -> bw e -> bw (fst (post_acquire e me m)).
Proof.
  intros Hmb H. unfold post_acquire. destruct (get_mutex e m) as [s|] eqn:Hg; [|exact H].
  apply get_mutex_nth in Hg. destruct (is_some (mx_lock s)); cbn [fst]; [exact H|].
  apply bw_map_others_k; [apply wpres_set_blocked|]. apply bw_set_caus_k; [exact Hmb|].
  eapply bw_upd_object_kind_k; [exact Hg|not_notify|exact H].
Qed.

Lemma post_acquire_read_bw e me r : me <> b -> bw e -> bw (fst (post_acquire_read e me r)).
Proof.
  intros Hmb H. unfold post_acquire_read. destruct (get_rw e r) as [s|] eqn:Hg; [|exact H].
  apply get_rw_nth in Hg.
  destruct (rw_lock s) as [[rs|x]|]; cbn [fst]; try exact H.
  all: apply bw_map_others_k; [apply wpres_set_blocked|]; apply bw_set_caus_k; [exact Hmb|];
    eapply bw_upd_object_kind_k; [exact Hg|not_notify|exact H].
Qed.

Lemma post_acquire_write_bw e me r : me <> b -> bw e -> bw (fst (post_acquire_write e me r)).
Proof.
  intros Hmb H. unfold post_acquire_write. destruct (get_rw e r) as [s|] eqn:Hg; [|exact H].
  apply get_rw_nth in Hg.
  destruct (rw_lock s) as [lk|]; cbn [fst]; try exact H.
  apply bw_map_others_k; [apply wpres_set_blocked|]; apply bw_set_caus_k; [exact Hmb|];
    eapply bw_upd_object_kind_k; [exact Hg|not_notify|exact H].
Qed.

Lemma release_read_bw e me r : bw e -> bw (res_exec (release_read e me r)).
Proof.
  intros H. unfold release_read. destruct (get_rw e r) as [s|] eqn:Hg; [|exact H].
  apply get_rw_nth in Hg. cbv zeta.
  assert (Hne : r <> n) by (eapply bw_neq; [exact H|exact Hg|not_notify]).
  destruct (rw_lock s) as [[rs|x]|]; cbn [res_exec]; try exact H.
  destruct (set_remove me rs); cbn [res_exec].
  - apply bw_map_others_other_k; [exact Hne|].
    eapply bw_upd_object_kind_k; [exact Hg|not_notify|exact H].
  - eapply bw_upd_object_kind_k; [exact Hg|not_notify|exact H].
Qed.

Lemma release_write_bw e me r : bw e -> bw (res_exec (release_write e me r)).
Proof.
  intros H. unfold release_write. destruct (get_rw e r) as [s|] eqn:Hg; [|exact H].
  apply get_rw_nth in Hg. cbn [res_exec].
  assert (Hne : r <> n) by (eapply bw_neq; [exact H|exact Hg|not_notify]).
  apply bw_map_others_other_k; [exact Hne|].
  eapply bw_upd_object_kind_k; [exact Hg|not_notify|exact H].
Qed.

Lemma choose_store_bw e seed : bw e -> bw (fst (choose_store e seed)).
Proof. destruct (choose_store_frame e seed) as (H1 & H2 & _). apply bw_same_k; assumption. Qed.


Ltac bclose_step :=
  match goal with
  | H : bw ?x |- bw ?x => exact H
  | H : bw _ -> bw ?x |- bw ?x => apply H
  | |- bw (log_op _ _ _) => apply bw_log_op_k
  | |- bw (log_poll _ _) => apply bw_log_poll_k
  | |- bw (release_lock _ _ _) => apply release_lock_bw
  | |- bw (threads_unpark _ _ _) => apply bw_threads_unpark_k; [assumption|]
  | |- bw (fold_left _ _ _) => apply bw_fold_unpark_k; [assumption|]
  | |- bw (map_others _ _ _ set_blocked) => apply bw_map_others_k; [apply wpres_set_blocked|]
  | |- bw (ex_set_objects ?e (e_objects ?e ++ _)) => apply bw_append_objects_k
  | |- bw (ex_set_threads ?e (e_threads ?e ++ _)) => apply bw_append_threads_k
  | |- bw (upd_object _ _ _) => apply bw_upd_object_k; [nside_obj|]
  | |- bw (push_cont _ _ _) => apply bw_upd_thread_k; [left; assumption|]
  | |- bw (push_guard _ _ _ _) => apply bw_upd_thread_k; [left; assumption|]
  | |- bw (drop_guard _ _ _ _) => apply bw_upd_thread_k; [left; assumption|]
  | |- bw (causality_inc _ _) => apply bw_upd_thread_k; [left; assumption|]
  | |- bw (set_caus _ _ _) => apply bw_upd_thread_k; [left; assumption|]
  | |- bw (upd_thread _ _ _) => apply bw_upd_thread_k; [left; assumption|]
  | |- bw (upd_hobj ?e _ _) => apply (bw_same_k e); [reflexivity..|]
  | |- bw (set_slot ?e _ _ _) => apply (bw_same_k e); [reflexivity..|]
  | |- bw (ex_set_path ?e _) => apply (bw_same_k e); [reflexivity..|]
  | |- bw (ex_set_active ?e _) => apply (bw_same_k e); [reflexivity..|]
  | |- bw (ex_set_seqcst ?e _) => apply (bw_same_k e); [reflexivity..|]
  | |- bw (ex_set_spawned ?e _) => apply (bw_same_k e); [reflexivity..|]
  | |- bw (ex_set_joined ?e _) => apply (bw_same_k e); [reflexivity..|]
  | |- bw (ex_set_log ?e _) => apply (bw_same_k e); [reflexivity..|]
  | |- bw (ex_set_lazy ?e _) => apply (bw_same_k e); [reflexivity..|]
  | |- bw (ex_set_h ?e _) => apply (bw_same_k e); [reflexivity..|]
  end.

Ltac bclose := cbn [res_exec lp_exec]; repeat bclose_step.

Ltac bstep Hmb :=
  match goal with
  | |- bw (res_exec (fst (schedule _))) => apply schedule_bw
  | |- bw (res_exec (do_branch _ _ _ _ _)) => apply do_branch_bw; [exact Hmb|]
  | |- bw (res_exec (do_park _ _)) => apply do_park_bw; [exact Hmb|]
  | |- bw (res_exec (do_yield _ _)) => apply do_yield_bw; [exact Hmb|]
  | |- bw ?G =>
      match G with
      | context [post_acquire ?e ?me ?m] =>
          let H := fresh "Hfr" in
          pose proof (post_acquire_bw e me m Hmb) as H;
          destruct (post_acquire e me m); cbn [fst] in H
      | context [post_acquire_read ?e ?me ?m] =>
          let H := fresh "Hfr" in
          pose proof (post_acquire_read_bw e me m Hmb) as H;
          destruct (post_acquire_read e me m); cbn [fst] in H
      | context [post_acquire_write ?e ?me ?m] =>
          let H := fresh "Hfr" in
          pose proof (post_acquire_write_bw e me m Hmb) as H;
          destruct (post_acquire_write e me m); cbn [fst] in H
      | context [release_read ?e ?me ?m] =>
          let H := fresh "Hfr" in
          pose proof (release_read_bw e me m) as H;
          destruct (release_read e me m); cbn [res_exec] in H
      | context [release_write ?e ?me ?m] =>
          let H := fresh "Hfr" in
          pose proof (release_write_bw e me m) as H;
          destruct (release_write e me m); cbn [res_exec] in H
      | context [choose_store ?e ?s] =>
          let H := fresh "Hfr" in
          let Hct := fresh "Hct" in
          let Hco := fresh "Hco" in
          pose proof (choose_store_bw e s) as H;
          destruct (choose_store_frame e s) as (Hct & Hco & _);
          destruct (choose_store e s) as [? [?|?]]; cbn [fst] in H, Hct, Hco
      end
  | |- context [match ?x with _ => _ end] =>
      lazymatch x with
      | context [match _ with _ => _ end] => fail
      | _ => destruct x eqn:?
      end
  end; cbv beta iota.

Lemma load_post_bw e me a o : me <> b -> bw e -> bw (lp_exec (load_post e me a o)).
Proof. intros Hmb H0. unfold load_post. repeat bstep Hmb. all: bclose. Qed.

Ltac bstep' Hmb :=
  first [ match goal with
          | |- bw ?G =>
              match G with
              | context [load_post ?e ?me ?a ?o] =>
                  let H := fresh "Hfr" in
                  pose proof (load_post_bw e me a o Hmb) as H;
                  destruct (load_post e me a o) as [[? ?]|[? ?]]; cbn [lp_exec] in H; cbv beta iota
              end
          end
        | bstep Hmb ].

Ltac bw_tac Hmb :=
  cbn [exec_micro]; unfold lift_path, mbind; cbv beta iota;
  repeat bstep' Hmb; bclose.

(* every micro-operation executed by another thread, except the wake on n
   itself, leaves thread b blocked on Notify n (and n a Notify) *)
Lemma exec_micro_bw e me m :
  track_ok e -> me <> b -> m <> MNotifyPost n -> bw e -> bw (res_exec (exec_micro e me m)).
Proof.
  intros Htr Hmb Hm H0.
  destruct m;
    try match goal with
        | |- bw (res_exec (exec_micro _ _ (MNotifyWait2 _))) => idtac
        | |- bw (res_exec (exec_micro _ _ (MNotifyPost _))) => idtac
        | |- bw (res_exec (exec_micro _ _ (MSendPost _ _))) => idtac
        | |- bw (res_exec (exec_micro _ _ (MTrackDrop _))) => idtac
        | |- _ => clear Htr Hm; bw_tac Hmb
        end.
  - (* MNotifyWait2 *)
    rewrite exec_micro_notify_wait2.
    destruct (get_notify e n0) as [s0|] eqn:Hg; cbn [res_exec]; [|exact H0].
    destruct (negb (nt_notified s0)); cbn [res_exec]; [exact H0|].
    apply bw_upd_object_k; [|apply bw_set_caus_k; assumption].
    intros o Ho. apply get_notify_nth in Hg. autorewrite with eobj in Ho.
    rewrite Hg in Ho. injection Ho as <-. cbn [okeep].
    eexists; split; [reflexivity|]. unfold nt_le, nt_set; cbn [nt_notified nt_did_spur nt_spurious nt_sync].
    repeat split; try discriminate; auto using vle_refl.
  - (* MNotifyPost n0, n0 <> n *)
    assert (Hne : n0 <> n) by (intros ->; apply Hm; reflexivity).
    rewrite exec_micro_notify_post.
    destruct (get_notify e n0) as [s0|] eqn:Hg; cbn [res_exec]; [|exact H0].
    cbv zeta. apply bw_map_others_other_k; [exact Hne|].
    apply bw_upd_object_k; [|exact H0].
    intros o Ho. apply get_notify_nth in Hg. rewrite Hg in Ho. injection Ho as <-. cbn [okeep].
    eexists; split; [reflexivity|]. unfold nt_le, nt_set; cbn [nt_notified nt_did_spur nt_spurious nt_sync].
    repeat split; try discriminate; auto using vle_refl, sync_store_keeps.
  - (* MSendPost *)
    cbn [exec_micro]. destruct (get_chan e h) as [s|] eqn:Hg; cbn [res_exec]; [|exact H0].
    apply get_chan_nth in Hg. cbv zeta.
    assert (Hne : h <> n) by (eapply bw_neq; [exact H0|exact Hg|not_notify]).
    assert (H1 : forall o', bw (upd_object e h (fun _ => o')))
      by (intros o'; eapply bw_upd_object_kind_k; [exact Hg|not_notify|exact H0]).
    assert (H2 : forall o' (c : bool),
               bw (if c then map_others (upd_object e h (fun _ => o')) me (pending_on h) set_runnable
                   else upd_object e h (fun _ => o'))).
    { intros o' c. destruct c; [|apply H1]. apply bw_map_others_other_k; [exact Hne|apply H1]. }
    apply bw_log_op_k.
    match goal with |- context [ho_rx ?x] => destruct (ho_rx x) end; cbv iota.
    + eapply bw_same_k; [reflexivity..|apply H2].
    + (* receiver gone: the second write of the channel object replaces the first *)
      destruct (Nat.eqb _ 1);
        rewrite ?upd_object_map_others_upd_object_const, ?upd_object_upd_object_const.
      * apply (H2 _ true).
      * apply (H2 _ false).
  - (* MTrackDrop *)
    cbn [exec_micro]. destruct (ho_track (get_h e k)) eqn:Hk; cbn [res_exec].
    + apply bw_log_op_k.
      destruct (Nat.eq_dec k n) as [->|Hne].
      * destruct H0 as ((s & Hs) & _). destruct (track_ok_not_notify _ _ _ Htr Hk Hs).
      * destruct H0 as (Hn & Hw). split; [|exact Hw].
        refine (bw_nkeep _ _ _ Hn). eapply nkeep_trans; [|apply nkeep_upd_other; exact Hne].
        apply nkeep_same. reflexivity.
    + apply bw_log_op_k, H0.
Qed.

End Blocked.

(* the requested reading: thread b, Blocked with its pending operation on the
   Notify n, stays so under every micro-operation of another thread other
   than the wake MNotifyPost n *)
Theorem blocked_waiter_stays : forall b n e me m e' s t,
  track_ok e -> get_notify e n = Some s ->
  get_thread e b = Some t -> t_state t = Blocked -> pending_on n t = true ->
  me <> b -> m <> MNotifyPost n -> exec_micro e me m = MOk e' ->
  exists t', get_thread e' b = Some t' /\ t_state t' = Blocked /\ pending_on n t' = true.
Proof.
  intros b n e me m e' s t Htr Hg Ht Hs Hp Hmb Hm Hx.
  assert (H0 : bw b n e) by (split; [eauto|exists t; split; [exact Ht|split; assumption]]).
  pose proof (exec_micro_bw b n e me m Htr Hmb Hm H0) as H1. rewrite Hx in H1.
  destruct H1 as (_ & t' & Ht' & Hs' & Hp'). exists t'. auto.
Qed.

(* sequences: other threads execute anything but the wake on n; continuations
   (of any thread) are popped *)
Inductive steps_without_post (b n : nat) : exec -> exec -> Prop :=
  | swp_refl e : steps_without_post b n e e
  | swp_micro e me m e1 e2 :
      me <> b -> m <> MNotifyPost n -> exec_micro e me m = MOk e1 ->
      steps_without_post b n e1 e2 -> steps_without_post b n e e2
  | swp_pop e me rest e2 :
      steps_without_post b n (upd_thread e me (fun t => th_set_cont t rest)) e2 ->
      steps_without_post b n e e2.

Theorem blocked_until_post : forall b n e e',
  track_ok e -> bw b n e -> steps_without_post b n e e' -> bw b n e' /\ track_ok e'.
Proof.
  intros b n e e' Htr H0 Hs. induction Hs as [e|e me m e1 e2 Hmb Hm Hx Hs IH|e me rest e2 Hs IH].
  - auto.
  - apply IH; [eapply exec_micro_track_ok; eassumption|].
    pose proof (exec_micro_bw b n e me m Htr Hmb Hm H0) as H1. rewrite Hx in H1. exact H1.
  - apply IH; [eapply track_ok_same; [| |exact Htr]; reflexivity|].
    apply bw_upd_thread_k; [|exact H0]. right. intros t Hw. exact Hw.
Qed.

(* the blocking branch of an un-notified wait establishes that situation *)
Theorem branch_always_waiting : forall b n e act e' s,
  get_notify e n = Some s -> b < length (e_threads e) ->
  exec_micro e b (MBranch n act BAlways) = MOk e' -> bw b n e'.
Proof.
  intros b n e act e' s Hg Hb Hx. rewrite branch_always_blocks in Hx.
  destruct (get_thread_lt_some e b Hb) as (t & Ht).
  match type of Hx with fst (schedule ?E) = _ => assert (H0 : bw b n E) end.
  { split; [exists s; exact Hg|].
    exists (set_blocked (th_set_op t (Some (mkOp n act)))). split.
    - change (get_thread (upd_thread e b (fun t => set_blocked (th_set_op t (Some (mkOp n act))))) b =
              Some (set_blocked (th_set_op t (Some (mkOp n act))))).
      rewrite get_thread_upd_thread_same, Ht. reflexivity.
    - split; [reflexivity|]. unfold pending_on. cbn [t_op set_blocked th_set_state th_set_op op_obj].
      apply Nat.eqb_refl. }
  pose proof (schedule_bw b n _ H0) as H1. rewrite Hx in H1. exact H1.
Qed.

(* hence: a waiter that entered Notify::wait with the flag clear and did not
   return spuriously stays blocked until some thread executes MNotifyPost n *)
Corollary unnotified_waiter_blocked_until_post : forall b n e e1 e2 s,
  track_ok e -> get_notify e n = Some s -> b < length (e_threads e) ->
  exec_micro e b (MBranch n AOpaque BAlways) = MOk e1 ->
  steps_without_post b n e1 e2 ->
  exists t2, get_thread e2 b = Some t2 /\ t_state t2 = Blocked /\ pending_on n t2 = true.
Proof.
  intros b n e e1 e2 s Htr Hg Hb Hx Hs.
  pose proof (branch_always_waiting b n e AOpaque e1 s Hg Hb Hx) as H1.
  pose proof (exec_micro_track_ok _ _ _ _ Htr Hx) as Htr1.
  destruct (blocked_until_post b n e1 e2 Htr1 H1 Hs) as ((_ & t2 & Ht2 & Hs2 & Hp2) & _).
  exists t2. auto.
Qed.

Print Assumptions exec_micro_nkeep.
Print Assumptions notified_persists.
Print Assumptions notified_persists_fail.
Print Assumptions did_spur_persists.
Print Assumptions notified_persists_needs_track_ok.
Print Assumptions sw2_notified_persists.
Print Assumptions any_steps_did_spur_persists.
Print Assumptions steps_nw2_sw2.
Print Assumptions exec_micro_notify_wait1.
Print Assumptions wake_flag_set.
Print Assumptions wake_wait1_not_blocking.
Print Assumptions wake_wait2_succeeds.
Print Assumptions no_lost_wakeup.
Print Assumptions wait1_unnotified_blocks.
Print Assumptions unnotified_waiter_not_resumed.
Print Assumptions spurious_at_most_once.
Print Assumptions exec_micro_bw.
Print Assumptions blocked_waiter_stays.
Print Assumptions blocked_until_post.
Print Assumptions branch_always_waiting.
Print Assumptions unnotified_waiter_blocked_until_post.

(* DEVIATIONS from the requested statements

   N1  notified_persists (A.1) has the extra hypothesis [track_ok e]
       (SyncMono): MTrackDrop k overwrites slot k of the object store whenever
       the harness flag of slot k is set, without looking at the runtime
       object.  Without it the statement is false
       (notified_persists_needs_track_ok); track_ok holds along every run
       (SyncMono.init_exec_track_ok, exec_micro_track_ok, steps_track_ok).
       It is the only micro-operation that needs it.  The lemma behind it,
       exec_micro_nkeep, is proved for res_exec (notified_persists_fail: the
       state carried by a panic keeps the flag as well).
   N2  steps_without_wait2 n (A.2) is the closure of "ANY thread executes ANY
       micro-operation other than MNotifyWait2 n" and of "the continuation of
       a thread is popped" (Check.run pops and executes in one go): it is
       larger than the restriction of SyncMono.steps (steps_nw2,
       steps_nw2_sw2), so the theorems are stronger than requested and apply
       directly to the popped states.
   N3  A.3: exec_micro_notify_wait1 states exactly what MNotifyWait1 gives.
       After a wake (wake_wait1_not_blocking) the outcomes are: the
       continuation [MBranch n AOpaque BNever; MNotifyWait2 n] pushed on e2
       itself (Notify without spurious wake-ups, or did_spur already set); the
       same on e2 with the path advanced (branch_spurious answered false); the
       spurious return (branch_spurious answered true: did_spur is set, the
       flag is KEPT, [MYield] is pushed: the notification is not lost, the
       next wait finds it); or MFail e2 (PanicPath x) when branch_spurious
       itself panics (branch limit / nondeterminism).  MBranch _ _ BNever does
       not touch the thread state (branch_never_keeps_state).
       wake_wait2_succeeds: MNotifyWait2 n succeeds in every state reached
       from the wake by steps_without_wait2 n; the clock statement
       vle (caus_of e a) (caus_of e5 b) needs b < length (e_threads e4)
       (set_caus is the identity out of range, SyncFacts D-d); no_lost_wakeup
       is the requested scenario e -> e1 ->* e2 -wait1-> e3 ->* e4.
   N4  A.4: wait1_unnotified_blocks (flag clear: BAlways pushed, or the one
       spurious return), branch_always_blocks + unnotified_waiter_not_resumed
       (the thread is Blocked and, when the path is traversed, the scheduler
       does not pick it), spurious_sets_did_spur, did_spur_persists /
       any_steps_did_spur_persists (under EVERY micro-operation, MNotifyWait2
       included), did_spur_no_spurious, spurious_at_most_once.
       Section 7 adds the remaining half of "a waiter proceeds only via a
       notification": a thread Blocked with its pending operation on the
       Notify n stays so under every micro-operation of ANOTHER thread other
       than MNotifyPost n (blocked_waiter_stays; sequences:
       blocked_until_post; from the blocking branch:
       unnotified_waiter_blocked_until_post).  The other set_runnable sites
       are guarded by pending_on m for a mutex / rwlock / channel m (m <> n
       because n is a Notify), unpark only wakes parked threads (t_op = None)
       and the scheduler only resets Yielded threads.  Hypotheses: track_ok
       (MTrackDrop, as in N1) and me <> b (the blocked thread itself executes
       nothing: unnotified_waiter_not_resumed). *)
