
(** val negb : bool -> bool **)

let negb = function
| true -> false
| false -> true

type nat =
| O
| S of nat

(** val option_map : ('a1 -> 'a2) -> 'a1 option -> 'a2 option **)

let option_map f = function
| Some a -> Some (f a)
| None -> None

type ('a, 'b) sum =
| Inl of 'a
| Inr of 'b

(** val fst : ('a1 * 'a2) -> 'a1 **)

let fst = function
| (x, _) -> x

(** val snd : ('a1 * 'a2) -> 'a2 **)

let snd = function
| (_, y) -> y

(** val length : 'a1 list -> nat **)

let rec length = function
| [] -> O
| _ :: l' -> S (length l')

(** val app : 'a1 list -> 'a1 list -> 'a1 list **)

let rec app l m =
  match l with
  | [] -> m
  | a :: l1 -> a :: (app l1 m)

type comparison =
| Eq
| Lt
| Gt

(** val add : nat -> nat -> nat **)

let rec add n0 m =
  match n0 with
  | O -> m
  | S p -> S (add p m)

(** val mul : nat -> nat -> nat **)

let rec mul n0 m =
  match n0 with
  | O -> O
  | S p -> add m (mul p m)

(** val sub : nat -> nat -> nat **)

let rec sub n0 m =
  match n0 with
  | O -> n0
  | S k -> (match m with
            | O -> n0
            | S l -> sub k l)

module Nat =
 struct
  (** val sub : nat -> nat -> nat **)

  let rec sub n0 m =
    match n0 with
    | O -> n0
    | S k -> (match m with
              | O -> n0
              | S l -> sub k l)

  (** val eqb : nat -> nat -> bool **)

  let rec eqb n0 m =
    match n0 with
    | O -> (match m with
            | O -> true
            | S _ -> false)
    | S n' -> (match m with
               | O -> false
               | S m' -> eqb n' m')

  (** val leb : nat -> nat -> bool **)

  let rec leb n0 m =
    match n0 with
    | O -> true
    | S n' -> (match m with
               | O -> false
               | S m' -> leb n' m')

  (** val ltb : nat -> nat -> bool **)

  let ltb n0 m =
    leb (S n0) m

  (** val compare : nat -> nat -> comparison **)

  let rec compare n0 m =
    match n0 with
    | O -> (match m with
            | O -> Eq
            | S _ -> Lt)
    | S n' -> (match m with
               | O -> Gt
               | S m' -> compare n' m')

  (** val max : nat -> nat -> nat **)

  let rec max n0 m =
    match n0 with
    | O -> m
    | S n' -> (match m with
               | O -> n0
               | S m' -> S (max n' m'))

  (** val min : nat -> nat -> nat **)

  let rec min n0 m =
    match n0 with
    | O -> O
    | S n' -> (match m with
               | O -> O
               | S m' -> S (min n' m'))

  (** val divmod : nat -> nat -> nat -> nat -> nat * nat **)

  let rec divmod x y q u =
    match x with
    | O -> (q, u)
    | S x' ->
      (match u with
       | O -> divmod x' y (S q) y
       | S u' -> divmod x' y q u')

  (** val modulo : nat -> nat -> nat **)

  let modulo x = function
  | O -> x
  | S y' -> sub y' (snd (divmod x y' O y'))
 end

(** val nth : nat -> 'a1 list -> 'a1 -> 'a1 **)

let rec nth n0 l default =
  match n0 with
  | O -> (match l with
          | [] -> default
          | x :: _ -> x)
  | S m -> (match l with
            | [] -> default
            | _ :: t -> nth m t default)

(** val nth_error : 'a1 list -> nat -> 'a1 option **)

let rec nth_error l = function
| O -> (match l with
        | [] -> None
        | x :: _ -> Some x)
| S n1 -> (match l with
           | [] -> None
           | _ :: l0 -> nth_error l0 n1)

(** val rev : 'a1 list -> 'a1 list **)

let rec rev = function
| [] -> []
| x :: l' -> app (rev l') (x :: [])

(** val map : ('a1 -> 'a2) -> 'a1 list -> 'a2 list **)

let rec map f = function
| [] -> []
| a :: t -> (f a) :: (map f t)

(** val fold_left : ('a1 -> 'a2 -> 'a1) -> 'a2 list -> 'a1 -> 'a1 **)

let rec fold_left f l a0 =
  match l with
  | [] -> a0
  | b :: t -> fold_left f t (f a0 b)

(** val existsb : ('a1 -> bool) -> 'a1 list -> bool **)

let rec existsb f = function
| [] -> false
| a :: l0 -> (||) (f a) (existsb f l0)

(** val forallb : ('a1 -> bool) -> 'a1 list -> bool **)

let rec forallb f = function
| [] -> true
| a :: l0 -> (&&) (f a) (forallb f l0)

(** val filter : ('a1 -> bool) -> 'a1 list -> 'a1 list **)

let rec filter f = function
| [] -> []
| x :: l0 -> if f x then x :: (filter f l0) else filter f l0

(** val seq : nat -> nat -> nat list **)

let rec seq start = function
| O -> []
| S len0 -> start :: (seq (S start) len0)

(** val repeat : 'a1 -> nat -> 'a1 list **)

let rec repeat x = function
| O -> []
| S k -> x :: (repeat x k)

type positive =
| XI of positive
| XO of positive
| XH

type n =
| N0
| Npos of positive

module Pos =
 struct
  type mask =
  | IsNul
  | IsPos of positive
  | IsNeg
 end

module Coq_Pos =
 struct
  (** val succ : positive -> positive **)

  let rec succ = function
  | XI p -> XO (succ p)
  | XO p -> XI p
  | XH -> XO XH

  (** val add : positive -> positive -> positive **)

  let rec add x y =
    match x with
    | XI p ->
      (match y with
       | XI q -> XO (add_carry p q)
       | XO q -> XI (add p q)
       | XH -> XO (succ p))
    | XO p ->
      (match y with
       | XI q -> XI (add p q)
       | XO q -> XO (add p q)
       | XH -> XI p)
    | XH -> (match y with
             | XI q -> XO (succ q)
             | XO q -> XI q
             | XH -> XO XH)

  (** val add_carry : positive -> positive -> positive **)

  and add_carry x y =
    match x with
    | XI p ->
      (match y with
       | XI q -> XI (add_carry p q)
       | XO q -> XO (add_carry p q)
       | XH -> XI (succ p))
    | XO p ->
      (match y with
       | XI q -> XO (add_carry p q)
       | XO q -> XI (add p q)
       | XH -> XO (succ p))
    | XH ->
      (match y with
       | XI q -> XI (succ q)
       | XO q -> XO (succ q)
       | XH -> XI XH)

  (** val pred_double : positive -> positive **)

  let rec pred_double = function
  | XI p -> XI (XO p)
  | XO p -> XI (pred_double p)
  | XH -> XH

  type mask = Pos.mask =
  | IsNul
  | IsPos of positive
  | IsNeg

  (** val succ_double_mask : mask -> mask **)

  let succ_double_mask = function
  | IsNul -> IsPos XH
  | IsPos p -> IsPos (XI p)
  | IsNeg -> IsNeg

  (** val double_mask : mask -> mask **)

  let double_mask = function
  | IsPos p -> IsPos (XO p)
  | x0 -> x0

  (** val double_pred_mask : positive -> mask **)

  let double_pred_mask = function
  | XI p -> IsPos (XO (XO p))
  | XO p -> IsPos (XO (pred_double p))
  | XH -> IsNul

  (** val sub_mask : positive -> positive -> mask **)

  let rec sub_mask x y =
    match x with
    | XI p ->
      (match y with
       | XI q -> double_mask (sub_mask p q)
       | XO q -> succ_double_mask (sub_mask p q)
       | XH -> IsPos (XO p))
    | XO p ->
      (match y with
       | XI q -> succ_double_mask (sub_mask_carry p q)
       | XO q -> double_mask (sub_mask p q)
       | XH -> IsPos (pred_double p))
    | XH -> (match y with
             | XH -> IsNul
             | _ -> IsNeg)

  (** val sub_mask_carry : positive -> positive -> mask **)

  and sub_mask_carry x y =
    match x with
    | XI p ->
      (match y with
       | XI q -> succ_double_mask (sub_mask_carry p q)
       | XO q -> double_mask (sub_mask p q)
       | XH -> IsPos (pred_double p))
    | XO p ->
      (match y with
       | XI q -> double_mask (sub_mask_carry p q)
       | XO q -> succ_double_mask (sub_mask_carry p q)
       | XH -> double_pred_mask p)
    | XH -> IsNeg

  (** val compare_cont : comparison -> positive -> positive -> comparison **)

  let rec compare_cont r x y =
    match x with
    | XI p ->
      (match y with
       | XI q -> compare_cont r p q
       | XO q -> compare_cont Gt p q
       | XH -> Gt)
    | XO p ->
      (match y with
       | XI q -> compare_cont Lt p q
       | XO q -> compare_cont r p q
       | XH -> Gt)
    | XH -> (match y with
             | XH -> r
             | _ -> Lt)

  (** val compare : positive -> positive -> comparison **)

  let compare =
    compare_cont Eq

  (** val eqb : positive -> positive -> bool **)

  let rec eqb p q =
    match p with
    | XI p0 -> (match q with
                | XI q0 -> eqb p0 q0
                | _ -> false)
    | XO p0 -> (match q with
                | XO q0 -> eqb p0 q0
                | _ -> false)
    | XH -> (match q with
             | XH -> true
             | _ -> false)

  (** val coq_Nsucc_double : n -> n **)

  let coq_Nsucc_double = function
  | N0 -> Npos XH
  | Npos p -> Npos (XI p)

  (** val coq_Ndouble : n -> n **)

  let coq_Ndouble = function
  | N0 -> N0
  | Npos p -> Npos (XO p)

  (** val coq_lor : positive -> positive -> positive **)

  let rec coq_lor p q =
    match p with
    | XI p0 ->
      (match q with
       | XI q0 -> XI (coq_lor p0 q0)
       | XO q0 -> XI (coq_lor p0 q0)
       | XH -> p)
    | XO p0 ->
      (match q with
       | XI q0 -> XI (coq_lor p0 q0)
       | XO q0 -> XO (coq_lor p0 q0)
       | XH -> XI p0)
    | XH -> (match q with
             | XO q0 -> XI q0
             | _ -> q)

  (** val coq_land : positive -> positive -> n **)

  let rec coq_land p q =
    match p with
    | XI p0 ->
      (match q with
       | XI q0 -> coq_Nsucc_double (coq_land p0 q0)
       | XO q0 -> coq_Ndouble (coq_land p0 q0)
       | XH -> Npos XH)
    | XO p0 ->
      (match q with
       | XI q0 -> coq_Ndouble (coq_land p0 q0)
       | XO q0 -> coq_Ndouble (coq_land p0 q0)
       | XH -> N0)
    | XH -> (match q with
             | XO _ -> N0
             | _ -> Npos XH)

  (** val coq_lxor : positive -> positive -> n **)

  let rec coq_lxor p q =
    match p with
    | XI p0 ->
      (match q with
       | XI q0 -> coq_Ndouble (coq_lxor p0 q0)
       | XO q0 -> coq_Nsucc_double (coq_lxor p0 q0)
       | XH -> Npos (XO p0))
    | XO p0 ->
      (match q with
       | XI q0 -> coq_Nsucc_double (coq_lxor p0 q0)
       | XO q0 -> coq_Ndouble (coq_lxor p0 q0)
       | XH -> Npos (XI p0))
    | XH ->
      (match q with
       | XI q0 -> Npos (XO q0)
       | XO q0 -> Npos (XI q0)
       | XH -> N0)

  (** val of_succ_nat : nat -> positive **)

  let rec of_succ_nat = function
  | O -> XH
  | S x -> succ (of_succ_nat x)
 end

module N =
 struct
  (** val succ_double : n -> n **)

  let succ_double = function
  | N0 -> Npos XH
  | Npos p -> Npos (XI p)

  (** val double : n -> n **)

  let double = function
  | N0 -> N0
  | Npos p -> Npos (XO p)

  (** val add : n -> n -> n **)

  let add n0 m =
    match n0 with
    | N0 -> m
    | Npos p -> (match m with
                 | N0 -> n0
                 | Npos q -> Npos (Coq_Pos.add p q))

  (** val sub : n -> n -> n **)

  let sub n0 m =
    match n0 with
    | N0 -> N0
    | Npos n' ->
      (match m with
       | N0 -> n0
       | Npos m' ->
         (match Coq_Pos.sub_mask n' m' with
          | Coq_Pos.IsPos p -> Npos p
          | _ -> N0))

  (** val compare : n -> n -> comparison **)

  let compare n0 m =
    match n0 with
    | N0 -> (match m with
             | N0 -> Eq
             | Npos _ -> Lt)
    | Npos n' -> (match m with
                  | N0 -> Gt
                  | Npos m' -> Coq_Pos.compare n' m')

  (** val eqb : n -> n -> bool **)

  let eqb n0 m =
    match n0 with
    | N0 -> (match m with
             | N0 -> true
             | Npos _ -> false)
    | Npos p -> (match m with
                 | N0 -> false
                 | Npos q -> Coq_Pos.eqb p q)

  (** val leb : n -> n -> bool **)

  let leb x y =
    match compare x y with
    | Gt -> false
    | _ -> true

  (** val min : n -> n -> n **)

  let min n0 n' =
    match compare n0 n' with
    | Gt -> n'
    | _ -> n0

  (** val max : n -> n -> n **)

  let max n0 n' =
    match compare n0 n' with
    | Gt -> n0
    | _ -> n'

  (** val pos_div_eucl : positive -> n -> n * n **)

  let rec pos_div_eucl a b =
    match a with
    | XI a' ->
      let (q, r) = pos_div_eucl a' b in
      let r' = succ_double r in
      if leb b r' then ((succ_double q), (sub r' b)) else ((double q), r')
    | XO a' ->
      let (q, r) = pos_div_eucl a' b in
      let r' = double r in
      if leb b r' then ((succ_double q), (sub r' b)) else ((double q), r')
    | XH ->
      (match b with
       | N0 -> (N0, (Npos XH))
       | Npos p -> (match p with
                    | XH -> ((Npos XH), N0)
                    | _ -> (N0, (Npos XH))))

  (** val div_eucl : n -> n -> n * n **)

  let div_eucl a b =
    match a with
    | N0 -> (N0, N0)
    | Npos na -> (match b with
                  | N0 -> (N0, a)
                  | Npos _ -> pos_div_eucl na b)

  (** val modulo : n -> n -> n **)

  let modulo a b =
    snd (div_eucl a b)

  (** val coq_lor : n -> n -> n **)

  let coq_lor n0 m =
    match n0 with
    | N0 -> m
    | Npos p -> (match m with
                 | N0 -> n0
                 | Npos q -> Npos (Coq_Pos.coq_lor p q))

  (** val coq_land : n -> n -> n **)

  let coq_land n0 m =
    match n0 with
    | N0 -> N0
    | Npos p -> (match m with
                 | N0 -> N0
                 | Npos q -> Coq_Pos.coq_land p q)

  (** val coq_lxor : n -> n -> n **)

  let coq_lxor n0 m =
    match n0 with
    | N0 -> m
    | Npos p -> (match m with
                 | N0 -> n0
                 | Npos q -> Coq_Pos.coq_lxor p q)

  (** val of_nat : nat -> n **)

  let of_nat = function
  | O -> N0
  | S n' -> Npos (Coq_Pos.of_succ_nat n')
 end

(** val mAX_THREADS : nat **)

let mAX_THREADS =
  S (S (S (S (S O))))

(** val mAX_ATOMIC_HISTORY : nat **)

let mAX_ATOMIC_HISTORY =
  S (S (S (S (S (S (S O))))))

(** val list_set : 'a1 list -> nat -> 'a1 -> 'a1 list **)

let rec list_set l n0 x =
  match l with
  | [] -> []
  | h :: t -> (match n0 with
               | O -> x :: t
               | S n' -> h :: (list_set t n' x))

(** val list_upd : 'a1 list -> nat -> ('a1 -> 'a1) -> 'a1 list **)

let list_upd l n0 f =
  match nth_error l n0 with
  | Some x -> list_set l n0 (f x)
  | None -> l

(** val find_index : ('a1 -> bool) -> 'a1 list -> nat option **)

let rec find_index p = function
| [] -> None
| h :: t -> if p h then Some O else option_map (fun x -> S x) (find_index p t)

(** val find_last_index : ('a1 -> bool) -> 'a1 list -> nat option **)

let rec find_last_index p = function
| [] -> None
| h :: t ->
  (match find_last_index p t with
   | Some i -> Some (S i)
   | None -> if p h then Some O else None)

(** val opt_nat_eqb : nat option -> nat option -> bool **)

let opt_nat_eqb a b =
  match a with
  | Some x -> (match b with
               | Some y -> Nat.eqb x y
               | None -> false)
  | None -> (match b with
             | Some _ -> false
             | None -> true)

(** val is_some : 'a1 option -> bool **)

let is_some = function
| Some _ -> true
| None -> false

(** val pad_to : nat -> 'a1 -> 'a1 list -> 'a1 list **)

let rec pad_to n0 d l =
  match n0 with
  | O -> []
  | S n' ->
    (match l with
     | [] -> d :: (pad_to n' d [])
     | h :: t -> h :: (pad_to n' d t))

(** val mapi_from : nat -> (nat -> 'a1 -> 'a2) -> 'a1 list -> 'a2 list **)

let rec mapi_from i f = function
| [] -> []
| h :: t -> (f i h) :: (mapi_from (S i) f t)

(** val mapi : (nat -> 'a1 -> 'a2) -> 'a1 list -> 'a2 list **)

let mapi f l =
  mapi_from O f l

(** val index_list_from : nat -> 'a1 list -> (nat * 'a1) list **)

let rec index_list_from i = function
| [] -> []
| h :: t -> (i, h) :: (index_list_from (S i) t)

(** val index_list : 'a1 list -> (nat * 'a1) list **)

let index_list l =
  index_list_from O l

type vv = nat list

(** val vv_new : vv **)

let vv_new =
  repeat O mAX_THREADS

(** val vv_get : vv -> nat -> nat **)

let vv_get v i =
  nth i v O

(** val vv_inc : vv -> nat -> vv **)

let vv_inc v i =
  list_upd v i (fun x -> S x)

(** val vv_join : vv -> vv -> vv **)

let rec vv_join a b =
  match a with
  | [] -> b
  | x :: a' ->
    (match b with
     | [] -> a
     | y :: b' -> (Nat.max x y) :: (vv_join a' b'))

(** val vv_ahead_from : nat -> vv -> vv -> nat option **)

let rec vv_ahead_from i self = function
| [] -> None
| y :: other' ->
  let x = match self with
          | [] -> O
          | x :: _ -> x in
  if Nat.ltb x y
  then Some i
  else vv_ahead_from (S i) (match self with
                            | [] -> []
                            | _ :: s -> s) other'

(** val vv_ahead : vv -> vv -> nat option **)

let vv_ahead self other =
  vv_ahead_from O self other

(** val vv_zip : vv -> vv -> (nat * nat) list **)

let rec vv_zip a b =
  match a with
  | [] -> map (fun y -> (O, y)) b
  | x :: a' ->
    (match b with
     | [] -> (x, O) :: (vv_zip a' [])
     | y :: b' -> (x, y) :: (vv_zip a' b'))

(** val vv_pcmp_acc : comparison -> (nat * nat) list -> comparison option **)

let rec vv_pcmp_acc ret = function
| [] -> Some ret
| p :: l' ->
  let (x, y) = p in
  (match Nat.compare x y with
   | Eq -> vv_pcmp_acc ret l'
   | Lt -> let c = Lt in (match ret with
                          | Gt -> None
                          | _ -> vv_pcmp_acc c l')
   | Gt -> let c = Gt in (match ret with
                          | Lt -> None
                          | _ -> vv_pcmp_acc c l'))

(** val vv_pcmp : vv -> vv -> comparison option **)

let vv_pcmp a b =
  vv_pcmp_acc Eq (vv_zip a b)

(** val vv_le : vv -> vv -> bool **)

let vv_le a b =
  match vv_pcmp a b with
  | Some c -> (match c with
               | Gt -> false
               | _ -> true)
  | None -> false

(** val vv_lt : vv -> vv -> bool **)

let vv_lt a b =
  match vv_pcmp a b with
  | Some c -> (match c with
               | Lt -> true
               | _ -> false)
  | None -> false

(** val vv_eqb : vv -> vv -> bool **)

let vv_eqb a b =
  forallb (fun p -> Nat.eqb (fst p) (snd p)) (vv_zip a b)

type tstat =
| Disabled
| Skip
| TYield
| Pending
| Active
| Visited

(** val tstat_eqb : tstat -> tstat -> bool **)

let tstat_eqb a b =
  match a with
  | Disabled -> (match b with
                 | Disabled -> true
                 | _ -> false)
  | Skip -> (match b with
             | Skip -> true
             | _ -> false)
  | TYield -> (match b with
               | TYield -> true
               | _ -> false)
  | Pending -> (match b with
                | Pending -> true
                | _ -> false)
  | Active -> (match b with
               | Active -> true
               | _ -> false)
  | Visited -> (match b with
                | Visited -> true
                | _ -> false)

(** val is_active : tstat -> bool **)

let is_active t =
  tstat_eqb t Active

(** val is_pending : tstat -> bool **)

let is_pending t =
  tstat_eqb t Pending

(** val is_disabled : tstat -> bool **)

let is_disabled t =
  tstat_eqb t Disabled

(** val is_enabled : tstat -> bool **)

let is_enabled t =
  negb (is_disabled t)

(** val explore_t : tstat -> tstat **)

let explore_t t = match t with
| Skip -> Pending
| _ -> t

type schedule = { s_pre : nat; s_ia : nat option; s_threads : tstat list;
                  s_prev : nat option; s_ex : bool }

type load = { l_vals : nat list; l_pos : nat; l_ex : bool }

type spurious = { p_spur : bool; p_ex : bool }

type entry =
| ESched of schedule
| ELoad of load
| ESpur of spurious

type path = { bound : nat option; pos : nat; branches : entry list;
              exploring : bool; skipping : bool; eos : bool; cap : nat }

type ppanic =
| PBranchLimit
| PNondet
| PNotCritical
| PNotExploring
| PInternal of nat

type 'a pres =
| POk of 'a
| PErr of ppanic

(** val path_new : nat -> nat option -> bool -> path **)

let path_new max_branches0 b ex =
  { bound = b; pos = O; branches = []; exploring = ex; skipping = false;
    eos = ex; cap = max_branches0 }

(** val set_pos : path -> nat -> path **)

let set_pos p n0 =
  { bound = p.bound; pos = n0; branches = p.branches; exploring =
    p.exploring; skipping = p.skipping; eos = p.eos; cap = p.cap }

(** val set_branches : path -> entry list -> path **)

let set_branches p b =
  { bound = p.bound; pos = p.pos; branches = b; exploring = p.exploring;
    skipping = p.skipping; eos = p.eos; cap = p.cap }

(** val set_flags : path -> bool -> bool -> path **)

let set_flags p ex sk =
  { bound = p.bound; pos = p.pos; branches = p.branches; exploring = ex;
    skipping = sk; eos = p.eos; cap = p.cap }

(** val explore_state : path -> path pres **)

let explore_state p =
  if p.skipping
  then POk p
  else if p.exploring
       then PErr PNotCritical
       else POk (set_flags p true p.skipping)

(** val critical : path -> path pres **)

let critical p =
  if p.skipping
  then POk p
  else if p.exploring
       then POk (set_flags p false p.skipping)
       else PErr PNotExploring

(** val skip_branch : path -> path **)

let skip_branch p =
  set_flags p false true

(** val is_traversed : path -> bool **)

let is_traversed p =
  Nat.eqb p.pos (length p.branches)

(** val path_len_ok : path -> bool **)

let path_len_ok p =
  Nat.ltb (length p.branches) p.cap

(** val push_load : path -> nat list -> path pres **)

let push_load p seed =
  if negb (path_len_ok p)
  then PErr PBranchLimit
  else if negb (forallb (fun v -> Nat.ltb v mAX_ATOMIC_HISTORY) seed)
       then PErr (PInternal (S O))
       else if Nat.ltb mAX_ATOMIC_HISTORY (length seed)
            then PErr (PInternal (S (S O)))
            else POk
                   (set_branches p
                     (app p.branches ((ELoad { l_vals = seed; l_pos = O;
                       l_ex = p.exploring }) :: [])))

(** val branch_load : path -> (path * nat) pres **)

let branch_load p =
  if is_traversed p
  then PErr (PInternal (S (S (S O))))
  else (match nth_error p.branches p.pos with
        | Some e ->
          (match e with
           | ELoad l ->
             (match nth_error l.l_vals l.l_pos with
              | Some v -> POk ((set_pos p (S p.pos)), v)
              | None ->
                if Nat.ltb l.l_pos mAX_ATOMIC_HISTORY
                then POk ((set_pos p (S p.pos)), O)
                else PErr (PInternal (S (S (S (S O))))))
           | _ -> PErr PNondet)
        | None -> PErr (PInternal (S (S (S (S (S O)))))))

(** val branch_spurious : path -> (path * bool) pres **)

let branch_spurious p =
  let r =
    if is_traversed p
    then if negb (path_len_ok p)
         then PErr PBranchLimit
         else POk
                (set_branches p
                  (app p.branches ((ESpur { p_spur = false; p_ex =
                    p.exploring }) :: [])))
    else POk p
  in
  (match r with
   | POk p0 ->
     (match nth_error p0.branches p0.pos with
      | Some e ->
        (match e with
         | ESpur s -> POk ((set_pos p0 (S p0.pos)), s.p_spur)
         | _ -> PErr PNondet)
      | None -> PErr (PInternal (S (S (S (S (S O)))))))
   | PErr e -> PErr e)

(** val active_thread_index : schedule -> nat option **)

let active_thread_index s =
  find_index is_active s.s_threads

(** val preemptions : schedule -> nat **)

let preemptions s =
  if (&&) (is_some s.s_ia) (negb (opt_nat_eqb s.s_ia (active_thread_index s)))
  then S s.s_pre
  else s.s_pre

(** val is_sched : entry -> bool **)

let is_sched = function
| ESched _ -> true
| _ -> false

(** val last_schedule : path -> nat option **)

let last_schedule p =
  find_last_index is_sched p.branches

(** val get_sched : entry list -> nat -> schedule option **)

let get_sched b i =
  match nth_error b i with
  | Some e -> (match e with
               | ESched s -> Some s
               | _ -> None)
  | None -> None

(** val activate_first_yield : tstat list -> tstat list **)

let rec activate_first_yield = function
| [] -> []
| h :: t ->
  (match h with
   | TYield -> Active :: t
   | _ -> h :: (activate_first_yield t))

(** val opt_le_bound : nat -> nat option -> bool **)

let opt_le_bound pre = function
| Some b0 -> Nat.leb pre b0
| None -> true

(** val branch_thread : path -> tstat list -> (path * nat option) pres **)

let branch_thread p seed =
  let r =
    if is_traversed p
    then if negb (path_len_ok p)
         then PErr PBranchLimit
         else if Nat.ltb mAX_THREADS (length seed)
              then PErr (PInternal (S (S (S (S (S (S O)))))))
              else if Nat.ltb (S O) (length (filter is_active seed))
                   then PErr (PInternal (S (S (S (S (S (S (S O))))))))
                   else let prev = last_schedule p in
                        let threads0 = pad_to mAX_THREADS Disabled seed in
                        let threads =
                          match find_index is_active threads0 with
                          | Some _ -> threads0
                          | None -> activate_first_yield threads0
                        in
                        let active = find_index is_active threads in
                        let prev_s =
                          match prev with
                          | Some i -> get_sched p.branches i
                          | None -> None
                        in
                        let ia =
                          match prev_s with
                          | Some ps ->
                            if opt_nat_eqb active (active_thread_index ps)
                            then active
                            else None
                          | None -> active
                        in
                        let pre =
                          match prev_s with
                          | Some ps -> preemptions ps
                          | None -> O
                        in
                        if negb (opt_le_bound pre p.bound)
                        then PErr (PInternal (S (S (S (S (S (S (S (S
                               O)))))))))
                        else POk
                               (set_branches p
                                 (app p.branches ((ESched { s_pre = pre;
                                   s_ia = ia; s_threads = threads; s_prev =
                                   prev; s_ex = p.exploring }) :: [])))
    else POk p
  in
  (match r with
   | POk p0 ->
     (match nth_error p0.branches p0.pos with
      | Some e ->
        (match e with
         | ESched s -> POk ((set_pos p0 (S p0.pos)), (active_thread_index s))
         | _ -> PErr PNondet)
      | None -> PErr (PInternal (S (S (S (S (S O)))))))
   | PErr e -> PErr e)

(** val sched_backtrack : schedule -> nat -> nat option -> schedule pres **)

let sched_backtrack s tid b =
  if negb s.s_ex
  then PErr (PInternal (S (S (S (S (S (S (S (S (S O))))))))))
  else if negb (opt_le_bound s.s_pre b)
       then PErr (PInternal (S (S (S (S (S (S (S (S (S (S O)))))))))))
       else if match b with
               | Some b0 -> Nat.eqb s.s_pre b0
               | None -> false
            then POk s
            else (match nth_error s.s_threads tid with
                  | Some t ->
                    let th =
                      if is_enabled t
                      then list_upd s.s_threads tid explore_t
                      else map explore_t s.s_threads
                    in
                    POk { s_pre = s.s_pre; s_ia = s.s_ia; s_threads = th;
                    s_prev = s.s_prev; s_ex = s.s_ex }
                  | None -> POk s)

(** val find_backtrack_point : entry list -> nat -> nat -> nat option pres **)

let rec find_backtrack_point b point = function
| O -> POk None
| S fuel' ->
  (match nth_error b point with
   | Some e ->
     let hit = match e with
               | ESched s -> s.s_ex
               | _ -> false in
     if hit
     then POk (Some point)
     else (match point with
           | O -> POk None
           | S point' -> find_backtrack_point b point' fuel')
   | None -> PErr (PInternal (S (S (S (S (S (S (S (S (S (S (S O)))))))))))))

(** val upd_sched : entry list -> nat -> schedule -> entry list **)

let upd_sched b i s =
  list_set b i (ESched s)

(** val conservative :
    entry list -> nat -> nat -> nat option -> nat -> entry list pres **)

let rec conservative b curr tid bd = function
| O -> POk b
| S fuel' ->
  (match get_sched b curr with
   | Some cs ->
     (match cs.s_prev with
      | Some prev ->
        (match get_sched b prev with
         | Some ps ->
           if (&&)
                (negb
                  (opt_nat_eqb (active_thread_index cs)
                    (active_thread_index ps))) cs.s_ex
           then (match sched_backtrack cs tid bd with
                 | POk cs' -> POk (upd_sched b curr cs')
                 | PErr e -> PErr e)
           else conservative b prev tid bd fuel'
         | None ->
           PErr (PInternal (S (S (S (S (S (S (S (S (S (S (S (S O))))))))))))))
      | None ->
        if cs.s_ex
        then (match sched_backtrack cs tid bd with
              | POk cs' -> POk (upd_sched b curr cs')
              | PErr e -> PErr e)
        else POk b)
   | None ->
     PErr (PInternal (S (S (S (S (S (S (S (S (S (S (S (S O))))))))))))))

(** val backtrack : path -> nat -> nat -> path pres **)

let backtrack p point tid =
  match find_backtrack_point p.branches point (S point) with
  | POk a ->
    (match a with
     | Some i ->
       (match get_sched p.branches i with
        | Some s ->
          (match sched_backtrack s tid p.bound with
           | POk s' ->
             let b = upd_sched p.branches i s' in
             (match s'.s_prev with
              | Some curr ->
                (match p.bound with
                 | Some _ ->
                   (match conservative b curr tid p.bound (S (length b)) with
                    | POk b' -> POk (set_branches p b')
                    | PErr e -> PErr e)
                 | None -> POk (set_branches p b))
              | None -> POk (set_branches p b))
           | PErr e -> PErr e)
        | None ->
          PErr (PInternal (S (S (S (S (S (S (S (S (S (S (S (S O))))))))))))))
     | None -> POk p)
  | PErr e -> PErr e

(** val visit_active : tstat list -> tstat list **)

let rec visit_active = function
| [] -> []
| h :: t -> if is_active h then Visited :: t else h :: (visit_active t)

(** val activate_pending : tstat list -> tstat list option **)

let rec activate_pending = function
| [] -> None
| h :: t ->
  if is_pending h
  then Some (Active :: t)
  else option_map (fun x -> h :: x) (activate_pending t)

(** val advance_entry : entry -> entry option **)

let advance_entry = function
| ESched s ->
  if negb s.s_ex
  then None
  else (match activate_pending (visit_active s.s_threads) with
        | Some th ->
          Some (ESched { s_pre = s.s_pre; s_ia = s.s_ia; s_threads = th;
            s_prev = s.s_prev; s_ex = s.s_ex })
        | None -> None)
| ELoad l ->
  if negb l.l_ex
  then None
  else if Nat.ltb (S l.l_pos) (length l.l_vals)
       then Some (ELoad { l_vals = l.l_vals; l_pos = (S l.l_pos); l_ex =
              l.l_ex })
       else None
| ESpur s ->
  if negb s.p_ex
  then None
  else if s.p_spur
       then None
       else Some (ESpur { p_spur = true; p_ex = s.p_ex })

(** val step_rev : entry list -> entry list option **)

let rec step_rev = function
| [] -> None
| e :: rest ->
  (match advance_entry e with
   | Some e' -> Some (e' :: rest)
   | None -> step_rev rest)

(** val step : path -> path option **)

let step p =
  match step_rev (rev p.branches) with
  | Some rb ->
    Some { bound = p.bound; pos = O; branches = (rev rb); exploring = p.eos;
      skipping = false; eos = p.eos; cap = p.cap }
  | None -> None

type ord =
| Relaxed
| Release
| Acquire
| AcqRel
| SeqCst

type rmwop =
| RSwap
| RAdd
| RSub
| RAnd
| RNand
| ROr
| RXor
| RMax
| RMin

type decl =
| DAtomic of n
| DMutex
| DRwLock
| DCondvar
| DNotify
| DChan
| DCell
| DArc
| DTrack

type instr =
| ISpawn of nat
| IJoin of nat
| ILoad of nat * ord
| IStore of nat * n * ord
| IRmw of nat * rmwop * n * ord
| ICas of nat * n * n * ord * ord
| IFetchUpdate of nat * rmwop * n * ord * ord
| IFence of ord
| ILock of nat
| ITryLock of nat
| IUnlock of nat
| IRead of nat
| IWrite of nat
| ITryRead of nat
| ITryWrite of nat
| IUnread of nat
| IUnwrite of nat
| IWait of nat * nat
| INotifyOne of nat
| INotifyAll of nat
| INWait of nat
| INNotify of nat
| IPark
| IUnpark of nat
| ISend of nat * n
| IRecv of nat
| ITryRecv of nat
| IDropRx of nat
| ICellRead of nat
| ICellWrite of nat
| IYield
| IAwait of nat * n * ord
| IUnsyncLoad of nat
| IWithMut of nat * n
| IArcClone of nat * nat * nat
| IArcDrop of nat * nat
| IArcCount of nat * nat
| IArcGetMut of nat * nat
| IArcTryUnwrap of nat * nat
| ITrackDrop of nat
| IPanic
| IExplore
| IStopExploring
| ISkipBranch

type config = { max_threads : nat; max_branches : nat;
                preemption_bound : nat option; max_permutations : nat option;
                checkpoint_interval : nat option; explicit_explore : 
                bool }

type prog = { p_cfg : config; p_decls : decl list; p_bodies : instr list list }

(** val two64 : n **)

let two64 =
  Npos (XO (XO (XO (XO (XO (XO (XO (XO (XO (XO (XO (XO (XO (XO (XO (XO (XO
    (XO (XO (XO (XO (XO (XO (XO (XO (XO (XO (XO (XO (XO (XO (XO (XO (XO (XO
    (XO (XO (XO (XO (XO (XO (XO (XO (XO (XO (XO (XO (XO (XO (XO (XO (XO (XO
    (XO (XO (XO (XO (XO (XO (XO (XO (XO (XO (XO
    XH))))))))))))))))))))))))))))))))))))))))))))))))))))))))))))))))

(** val wrap64 : n -> n **)

let wrap64 x =
  N.modulo x two64

(** val apply_rmw : rmwop -> n -> n -> n **)

let apply_rmw f x v =
  match f with
  | RSwap -> v
  | RAdd -> wrap64 (N.add x v)
  | RSub -> wrap64 (N.sub (N.add x two64) v)
  | RAnd -> N.coq_land x v
  | RNand -> N.coq_lxor (N.coq_land x v) (N.sub two64 (Npos XH))
  | ROr -> N.coq_lor x v
  | RXor -> N.coq_lxor x v
  | RMax -> N.max x v
  | RMin -> N.min x v

type action =
| AOpaque
| ALoad
| AStore
| ARmw
| ARefInc
| ARefDec
| AInspect
| ASend
| ARecv
| ARead
| AWrite

(** val action_eqb : action -> action -> bool **)

let action_eqb a b =
  match a with
  | AOpaque -> (match b with
                | AOpaque -> true
                | _ -> false)
  | ALoad -> (match b with
              | ALoad -> true
              | _ -> false)
  | AStore -> (match b with
               | AStore -> true
               | _ -> false)
  | ARmw -> (match b with
             | ARmw -> true
             | _ -> false)
  | ARefInc -> (match b with
                | ARefInc -> true
                | _ -> false)
  | ARefDec -> (match b with
                | ARefDec -> true
                | _ -> false)
  | AInspect -> (match b with
                 | AInspect -> true
                 | _ -> false)
  | ASend -> (match b with
              | ASend -> true
              | _ -> false)
  | ARecv -> (match b with
              | ARecv -> true
              | _ -> false)
  | ARead -> (match b with
              | ARead -> true
              | _ -> false)
  | AWrite -> (match b with
               | AWrite -> true
               | _ -> false)

type operation = { op_obj : nat; op_act : action }

type tstate =
| Runnable of bool
| Blocked
| Yielded
| Terminated

type access = { a_path_id : nat; a_vv : vv }

type astore = { st_value : n; st_hb : vv; st_mo : vv; st_sync : vv;
                st_seen : nat option list; st_seqcst : bool }

(** val seen_new : nat option list **)

let seen_new =
  repeat None mAX_THREADS

(** val store_default : astore **)

let store_default =
  { st_value = N0; st_hb = vv_new; st_mo = vv_new; st_sync = vv_new;
    st_seen = seen_new; st_seqcst = false }

type atomic_state = { at_loaded : vv; at_unsync_loaded : vv; at_stored : 
                      vv; at_unsync_mut : vv; at_mutating : bool;
                      at_last : access option;
                      at_last_nonload : access option;
                      at_stores : astore list; at_cnt : nat }

type mutex_state = { mx_seqcst : bool; mx_lock : nat option;
                     mx_last : access option; mx_sync : vv }

type rwlocked =
| RLRead of nat list
| RLWrite of nat

type rwlock_state = { rw_lock : rwlocked option; rw_last : access option;
                      rw_sync : vv }

type condvar_state = { cv_last : access option; cv_waiters : nat list }

type notify_state = { nt_spurious : bool; nt_did_spur : bool;
                      nt_seqcst : bool; nt_notified : bool;
                      nt_last : access option; nt_sync : vv }

type chan_state = { ch_cnt : nat; ch_last_send : access option;
                    ch_last_recv : access option; ch_sender_sync : vv;
                    ch_recv_sync : vv list }

type refmod =
| RMInc
| RMDec

type arc_state = { arc_cnt : nat; arc_sync : vv;
                   arc_last_inc : access option;
                   arc_last_dec : access option;
                   arc_last_inspect : access option;
                   arc_last_mod : refmod option }

type cell_state = { ce_reading : nat; ce_writing : bool; ce_read : vv;
                    ce_write : vv }

type object0 =
| OAlloc of bool
| OArc of arc_state
| OAtomic of atomic_state
| OMutex of mutex_state
| OCondvar of condvar_state
| ONotify of notify_state
| ORwLock of rwlock_state
| OChannel of chan_state
| OCell of cell_state

type causality_kind =
| CLoadMut
| CUnsyncLoadMut
| CUnsyncLoadStore
| CStoreMut
| CStoreUnsyncLoad
| CMutLoad
| CMutUnsyncLoad
| CMutStore
| CMutMut
| CCellReadWrite
| CCellWriteWrite
| CCellWriteRead

type leak_kind =
| LArc
| LAlloc
| LMsgs

type panic =
| PanicPath of ppanic
| PanicDeadlock of tstate list
| PanicCausality of causality_kind
| PanicLeak of leak_kind * nat
| PanicUser
| PanicExpectLock
| PanicExpectRead
| PanicExpectWrite
| PanicNotified
| PanicExpectMsg
| PanicArcReleased
| PanicArcReleased2
| PanicMaxThreads
| PanicNotifyWaiter
| PanicRelaxedFence
| PanicMoEq
| PanicRwCorrupt
| PanicCellWriting
| PanicCellReading
| PanicMutating
| PanicRwInvalid
| PanicModel of nat

(** val access_hb : access -> vv -> bool **)

let access_hb a v =
  vv_le a.a_vv v

(** val set_or_create : nat -> vv -> access option **)

let set_or_create path_id v =
  Some { a_path_id = path_id; a_vv = v }

(** val last_dependent_access : object0 -> action -> access option option **)

let last_dependent_access o act =
  match o with
  | OArc s ->
    Some
      (match act with
       | ARefInc -> s.arc_last_inspect
       | ARefDec -> s.arc_last_dec
       | _ ->
         (match s.arc_last_mod with
          | Some r ->
            (match r with
             | RMInc -> s.arc_last_inc
             | RMDec -> s.arc_last_dec)
          | None -> None))
  | OAtomic s ->
    Some (match act with
          | ALoad -> s.at_last_nonload
          | _ -> s.at_last)
  | OMutex s -> Some s.mx_last
  | OCondvar s -> Some s.cv_last
  | ONotify s -> Some s.nt_last
  | ORwLock s -> Some s.rw_last
  | OChannel s ->
    Some (match act with
          | ASend -> s.ch_last_send
          | _ -> s.ch_last_recv)
  | _ -> None

(** val set_last_access : object0 -> action -> nat -> vv -> object0 **)

let set_last_access o act path_id v =
  let acc = set_or_create path_id v in
  (match o with
   | OArc s ->
     (match act with
      | ARefInc ->
        OArc { arc_cnt = s.arc_cnt; arc_sync = s.arc_sync; arc_last_inc =
          acc; arc_last_dec = s.arc_last_dec; arc_last_inspect =
          s.arc_last_inspect; arc_last_mod = (Some RMInc) }
      | ARefDec ->
        OArc { arc_cnt = s.arc_cnt; arc_sync = s.arc_sync; arc_last_inc =
          s.arc_last_inc; arc_last_dec = acc; arc_last_inspect =
          s.arc_last_inspect; arc_last_mod = (Some RMDec) }
      | _ ->
        OArc { arc_cnt = s.arc_cnt; arc_sync = s.arc_sync; arc_last_inc =
          s.arc_last_inc; arc_last_dec = s.arc_last_dec; arc_last_inspect =
          acc; arc_last_mod = s.arc_last_mod })
   | OAtomic s ->
     OAtomic { at_loaded = s.at_loaded; at_unsync_loaded =
       s.at_unsync_loaded; at_stored = s.at_stored; at_unsync_mut =
       s.at_unsync_mut; at_mutating = s.at_mutating; at_last = acc;
       at_last_nonload =
       (match act with
        | ALoad -> s.at_last_nonload
        | _ -> acc); at_stores = s.at_stores; at_cnt = s.at_cnt }
   | OMutex s ->
     OMutex { mx_seqcst = s.mx_seqcst; mx_lock = s.mx_lock; mx_last = acc;
       mx_sync = s.mx_sync }
   | OCondvar s -> OCondvar { cv_last = acc; cv_waiters = s.cv_waiters }
   | ONotify s ->
     ONotify { nt_spurious = s.nt_spurious; nt_did_spur = s.nt_did_spur;
       nt_seqcst = s.nt_seqcst; nt_notified = s.nt_notified; nt_last = acc;
       nt_sync = s.nt_sync }
   | ORwLock s ->
     ORwLock { rw_lock = s.rw_lock; rw_last = acc; rw_sync = s.rw_sync }
   | OChannel s ->
     (match act with
      | ASend ->
        OChannel { ch_cnt = s.ch_cnt; ch_last_send = acc; ch_last_recv =
          s.ch_last_recv; ch_sender_sync = s.ch_sender_sync; ch_recv_sync =
          s.ch_recv_sync }
      | _ ->
        OChannel { ch_cnt = s.ch_cnt; ch_last_send = s.ch_last_send;
          ch_last_recv = acc; ch_sender_sync = s.ch_sender_sync;
          ch_recv_sync = s.ch_recv_sync })
   | _ -> o)

(** val leak_of : object0 -> leak_kind option **)

let leak_of = function
| OAlloc dropped -> if dropped then None else Some LAlloc
| OArc s -> if Nat.eqb s.arc_cnt O then None else Some LArc
| OChannel s -> if Nat.eqb s.ch_cnt O then None else Some LMsgs
| _ -> None

(** val check_for_leaks_from : nat -> object0 list -> panic option **)

let rec check_for_leaks_from i = function
| [] -> None
| o :: t ->
  (match leak_of o with
   | Some k -> Some (PanicLeak (k, i))
   | None -> check_for_leaks_from (S i) t)

(** val check_for_leaks : object0 list -> panic option **)

let check_for_leaks l =
  check_for_leaks_from O l

type result =
| RUnit
| RVal of n
| ROk of n
| RErr of n
| RBool of bool
| RX
| REmpty
| RDisc

type logline =
| LOp of nat * nat * result
| LDrop of nat

type blockcond =
| BNever
| BAlways
| BMutexLocked
| BRwWrite
| BRwAny
| BChanEmpty

type lockmode =
| LMLock
| LMTry
| LMReacquire

type rmwkind =
| KOp of rmwop * n
| KCas of n * n
| KFu of rmwop * n * n

type gkind =
| GMutex
| GRead
| GWrite

(** val gkind_eqb : gkind -> gkind -> bool **)

let gkind_eqb a b =
  match a with
  | GMutex -> (match b with
               | GMutex -> true
               | _ -> false)
  | GRead -> (match b with
              | GRead -> true
              | _ -> false)
  | GWrite -> (match b with
               | GWrite -> true
               | _ -> false)

type micro =
| MBegin of nat
| MLog of result
| MSpawn of nat
| MBranch of nat * action * blockcond
| MJoin of nat
| MNotifyWait1 of nat
| MNotifyWait2 of nat
| MNotifyPost of nat
| MExitNotify
| MLoadPost of nat * ord * n option
| MFuLoadPost of nat * rmwop * n * ord * ord
| MStorePost of nat * n * ord
| MRmwPost of nat * rmwkind * ord * ord
| MFence of ord
| MLockPost of nat * lockmode
| MUnlock of nat
| MReadPost of nat * bool
| MWritePost of nat * bool
| MUnread of nat
| MUnwrite of nat
| MWait of nat * nat
| MCvWait of nat * nat
| MPark
| MCvNotify of nat * bool
| MUnpark of nat
| MSendPost of nat * n
| MRecvPost of nat * bool
| MRecv of nat
| MTryRecv of nat
| MDropRx of nat
| MCellRead of nat
| MCellWrite of nat * n
| MYield
| MUnsyncLoad of nat
| MWithMut of nat * n
| MArcClone of nat * nat * nat
| MArcIncPost of nat * nat
| MArcDrop of nat * nat
| MArcDecPost of nat * bool
| MArcCount of nat * nat
| MArcCountPost of nat
| MArcGetMut of nat * nat * bool
| MArcGetMutPost of nat * nat * bool
| MTrackDrop of nat
| MPanic
| MExplore
| MStop
| MSkip
| MNWaitBegin of nat
| MNWaitEnd of nat
| MReleaseAll
| MLazyDrop
| MDropLocals
| MTerminate

type thread = { t_state : tstate; t_op : operation option; t_caus : vv;
                t_rel : vv; t_dpor : vv; t_last_yield : nat option;
                t_yield_count : nat; t_cont : micro list; t_body : nat;
                t_pc : nat; t_guards : (gkind * nat) list }

(** val thread_new : nat -> micro list -> thread **)

let thread_new body cont =
  { t_state = (Runnable false); t_op = None; t_caus = vv_new; t_rel = vv_new;
    t_dpor = vv_new; t_last_yield = None; t_yield_count = O; t_cont = cont;
    t_body = body; t_pc = O; t_guards = [] }

(** val th_set_state : thread -> tstate -> thread **)

let th_set_state t s =
  { t_state = s; t_op = t.t_op; t_caus = t.t_caus; t_rel = t.t_rel; t_dpor =
    t.t_dpor; t_last_yield = t.t_last_yield; t_yield_count = t.t_yield_count;
    t_cont = t.t_cont; t_body = t.t_body; t_pc = t.t_pc; t_guards =
    t.t_guards }

(** val th_set_op : thread -> operation option -> thread **)

let th_set_op t o =
  { t_state = t.t_state; t_op = o; t_caus = t.t_caus; t_rel = t.t_rel;
    t_dpor = t.t_dpor; t_last_yield = t.t_last_yield; t_yield_count =
    t.t_yield_count; t_cont = t.t_cont; t_body = t.t_body; t_pc = t.t_pc;
    t_guards = t.t_guards }

(** val th_set_caus : thread -> vv -> thread **)

let th_set_caus t v =
  { t_state = t.t_state; t_op = t.t_op; t_caus = v; t_rel = t.t_rel; t_dpor =
    t.t_dpor; t_last_yield = t.t_last_yield; t_yield_count = t.t_yield_count;
    t_cont = t.t_cont; t_body = t.t_body; t_pc = t.t_pc; t_guards =
    t.t_guards }

(** val th_set_rel : thread -> vv -> thread **)

let th_set_rel t v =
  { t_state = t.t_state; t_op = t.t_op; t_caus = t.t_caus; t_rel = v;
    t_dpor = t.t_dpor; t_last_yield = t.t_last_yield; t_yield_count =
    t.t_yield_count; t_cont = t.t_cont; t_body = t.t_body; t_pc = t.t_pc;
    t_guards = t.t_guards }

(** val th_set_dpor : thread -> vv -> thread **)

let th_set_dpor t v =
  { t_state = t.t_state; t_op = t.t_op; t_caus = t.t_caus; t_rel = t.t_rel;
    t_dpor = v; t_last_yield = t.t_last_yield; t_yield_count =
    t.t_yield_count; t_cont = t.t_cont; t_body = t.t_body; t_pc = t.t_pc;
    t_guards = t.t_guards }

(** val th_set_cont : thread -> micro list -> thread **)

let th_set_cont t c =
  { t_state = t.t_state; t_op = t.t_op; t_caus = t.t_caus; t_rel = t.t_rel;
    t_dpor = t.t_dpor; t_last_yield = t.t_last_yield; t_yield_count =
    t.t_yield_count; t_cont = c; t_body = t.t_body; t_pc = t.t_pc; t_guards =
    t.t_guards }

(** val th_set_pc : thread -> nat -> thread **)

let th_set_pc t pc =
  { t_state = t.t_state; t_op = t.t_op; t_caus = t.t_caus; t_rel = t.t_rel;
    t_dpor = t.t_dpor; t_last_yield = t.t_last_yield; t_yield_count =
    t.t_yield_count; t_cont = t.t_cont; t_body = t.t_body; t_pc = pc;
    t_guards = t.t_guards }

(** val th_set_guards : thread -> (gkind * nat) list -> thread **)

let th_set_guards t g =
  { t_state = t.t_state; t_op = t.t_op; t_caus = t.t_caus; t_rel = t.t_rel;
    t_dpor = t.t_dpor; t_last_yield = t.t_last_yield; t_yield_count =
    t.t_yield_count; t_cont = t.t_cont; t_body = t.t_body; t_pc = t.t_pc;
    t_guards = g }

(** val is_runnable : thread -> bool **)

let is_runnable t =
  match t.t_state with
  | Runnable _ -> true
  | _ -> false

(** val is_blocked : thread -> bool **)

let is_blocked t =
  match t.t_state with
  | Blocked -> true
  | _ -> false

(** val is_yield : thread -> bool **)

let is_yield t =
  match t.t_state with
  | Yielded -> true
  | _ -> false

(** val is_terminated : thread -> bool **)

let is_terminated t =
  match t.t_state with
  | Terminated -> true
  | _ -> false

(** val set_runnable : thread -> thread **)

let set_runnable t =
  th_set_state t (Runnable false)

(** val set_blocked : thread -> thread **)

let set_blocked t =
  th_set_state t Blocked

(** val set_yield : nat -> thread -> thread **)

let set_yield me t =
  { t_state = Yielded; t_op = t.t_op; t_caus = t.t_caus; t_rel = t.t_rel;
    t_dpor = t.t_dpor; t_last_yield = (Some (vv_get t.t_caus me));
    t_yield_count = (S t.t_yield_count); t_cont = t.t_cont; t_body =
    t.t_body; t_pc = t.t_pc; t_guards = t.t_guards }

(** val set_unparked : thread -> thread **)

let set_unparked t =
  if (||) (is_blocked t) (is_yield t)
  then set_runnable t
  else if is_runnable t then th_set_state t (Runnable true) else t

(** val thread_unpark : thread -> vv -> thread **)

let thread_unpark t unparker_caus =
  set_unparked (th_set_caus t (vv_join t.t_caus unparker_caus))

type hobj = { ho_cell : n; ho_q : n list; ho_rx : bool; ho_slots : bool list;
              ho_track : bool; ho_waiting : bool }

(** val hobj_of_decl : decl -> hobj **)

let hobj_of_decl = function
| DChan ->
  { ho_cell = N0; ho_q = []; ho_rx = true; ho_slots = []; ho_track = false;
    ho_waiting = false }
| DArc ->
  { ho_cell = N0; ho_q = []; ho_rx = false; ho_slots =
    (true :: (repeat false (S (S (S (S (S (S (S O))))))))); ho_track = false;
    ho_waiting = false }
| DTrack ->
  { ho_cell = N0; ho_q = []; ho_rx = false; ho_slots = []; ho_track = true;
    ho_waiting = false }
| _ ->
  { ho_cell = N0; ho_q = []; ho_rx = false; ho_slots = []; ho_track = false;
    ho_waiting = false }

type exec = { e_path : path; e_threads : thread list; e_active : nat option;
              e_seqcst : vv; e_objects : object0 list; e_max_threads : 
              nat; e_h : hobj list; e_spawned : (nat * nat) option list;
              e_joined : bool list; e_log : logline list;
              e_bodies : micro list list }

(** val ex_set_path : exec -> path -> exec **)

let ex_set_path e p =
  { e_path = p; e_threads = e.e_threads; e_active = e.e_active; e_seqcst =
    e.e_seqcst; e_objects = e.e_objects; e_max_threads = e.e_max_threads;
    e_h = e.e_h; e_spawned = e.e_spawned; e_joined = e.e_joined; e_log =
    e.e_log; e_bodies = e.e_bodies }

(** val ex_set_threads : exec -> thread list -> exec **)

let ex_set_threads e t =
  { e_path = e.e_path; e_threads = t; e_active = e.e_active; e_seqcst =
    e.e_seqcst; e_objects = e.e_objects; e_max_threads = e.e_max_threads;
    e_h = e.e_h; e_spawned = e.e_spawned; e_joined = e.e_joined; e_log =
    e.e_log; e_bodies = e.e_bodies }

(** val ex_set_active : exec -> nat option -> exec **)

let ex_set_active e a =
  { e_path = e.e_path; e_threads = e.e_threads; e_active = a; e_seqcst =
    e.e_seqcst; e_objects = e.e_objects; e_max_threads = e.e_max_threads;
    e_h = e.e_h; e_spawned = e.e_spawned; e_joined = e.e_joined; e_log =
    e.e_log; e_bodies = e.e_bodies }

(** val ex_set_seqcst : exec -> vv -> exec **)

let ex_set_seqcst e v =
  { e_path = e.e_path; e_threads = e.e_threads; e_active = e.e_active;
    e_seqcst = v; e_objects = e.e_objects; e_max_threads = e.e_max_threads;
    e_h = e.e_h; e_spawned = e.e_spawned; e_joined = e.e_joined; e_log =
    e.e_log; e_bodies = e.e_bodies }

(** val ex_set_objects : exec -> object0 list -> exec **)

let ex_set_objects e o =
  { e_path = e.e_path; e_threads = e.e_threads; e_active = e.e_active;
    e_seqcst = e.e_seqcst; e_objects = o; e_max_threads = e.e_max_threads;
    e_h = e.e_h; e_spawned = e.e_spawned; e_joined = e.e_joined; e_log =
    e.e_log; e_bodies = e.e_bodies }

(** val ex_set_h : exec -> hobj list -> exec **)

let ex_set_h e h =
  { e_path = e.e_path; e_threads = e.e_threads; e_active = e.e_active;
    e_seqcst = e.e_seqcst; e_objects = e.e_objects; e_max_threads =
    e.e_max_threads; e_h = h; e_spawned = e.e_spawned; e_joined = e.e_joined;
    e_log = e.e_log; e_bodies = e.e_bodies }

(** val ex_set_spawned : exec -> (nat * nat) option list -> exec **)

let ex_set_spawned e s =
  { e_path = e.e_path; e_threads = e.e_threads; e_active = e.e_active;
    e_seqcst = e.e_seqcst; e_objects = e.e_objects; e_max_threads =
    e.e_max_threads; e_h = e.e_h; e_spawned = s; e_joined = e.e_joined;
    e_log = e.e_log; e_bodies = e.e_bodies }

(** val ex_set_joined : exec -> bool list -> exec **)

let ex_set_joined e j =
  { e_path = e.e_path; e_threads = e.e_threads; e_active = e.e_active;
    e_seqcst = e.e_seqcst; e_objects = e.e_objects; e_max_threads =
    e.e_max_threads; e_h = e.e_h; e_spawned = e.e_spawned; e_joined = j;
    e_log = e.e_log; e_bodies = e.e_bodies }

(** val ex_set_log : exec -> logline list -> exec **)

let ex_set_log e l =
  { e_path = e.e_path; e_threads = e.e_threads; e_active = e.e_active;
    e_seqcst = e.e_seqcst; e_objects = e.e_objects; e_max_threads =
    e.e_max_threads; e_h = e.e_h; e_spawned = e.e_spawned; e_joined =
    e.e_joined; e_log = l; e_bodies = e.e_bodies }

(** val upd_thread : exec -> nat -> (thread -> thread) -> exec **)

let upd_thread e i f =
  ex_set_threads e (list_upd e.e_threads i f)

(** val upd_object : exec -> nat -> (object0 -> object0) -> exec **)

let upd_object e i f =
  ex_set_objects e (list_upd e.e_objects i f)

(** val upd_hobj : exec -> nat -> (hobj -> hobj) -> exec **)

let upd_hobj e i f =
  ex_set_h e (list_upd e.e_h i f)

type mres =
| MOk of exec
| MFail of exec * panic

(** val mbind : mres -> (exec -> mres) -> mres **)

let mbind r f =
  match r with
  | MOk e -> f e
  | MFail (e, p) -> MFail (e, p)

(** val lift_path : exec -> 'a1 pres -> ('a1 -> mres) -> mres **)

let lift_path e r k =
  match r with
  | POk a -> k a
  | PErr x -> MFail (e, (PanicPath x))

(** val dpor_loop :
    object0 list -> (nat * thread) list -> path -> path pres **)

let rec dpor_loop objs ths p =
  match ths with
  | [] -> POk p
  | p0 :: rest ->
    let (id, th) = p0 in
    (match th.t_op with
     | Some op ->
       (match nth_error objs op.op_obj with
        | Some o ->
          (match last_dependent_access o op.op_act with
           | Some o0 ->
             (match o0 with
              | Some acc ->
                if access_hb acc th.t_dpor
                then dpor_loop objs rest p
                else (match backtrack p acc.a_path_id id with
                      | POk p' -> dpor_loop objs rest p'
                      | PErr x -> PErr x)
              | None -> dpor_loop objs rest p)
           | None ->
             PErr (PInternal (S (S (S (S (S (S (S (S (S (S (S (S (S (S (S (S
               (S (S (S (S (S O)))))))))))))))))))))))
        | None ->
          PErr (PInternal (S (S (S (S (S (S (S (S (S (S (S (S (S (S (S (S (S
            (S (S (S O))))))))))))))))))))))
     | None -> dpor_loop objs rest p)

(** val pick_initial :
    thread list -> (nat * thread) list -> nat option -> nat option **)

let rec pick_initial all ths init =
  match ths with
  | [] -> init
  | p :: rest ->
    let (i, th) = p in
    if negb (is_runnable th)
    then pick_initial all rest init
    else (match init with
          | Some j ->
            let yc =
              match nth_error all j with
              | Some tj -> tj.t_yield_count
              | None -> O
            in
            pick_initial all rest
              (if Nat.ltb th.t_yield_count yc then Some i else Some j)
          | None -> pick_initial all rest (Some i))

(** val seed_loop : (nat * thread) list -> nat option -> tstat list **)

let rec seed_loop ths initial =
  match ths with
  | [] -> []
  | p :: rest ->
    let (i, th) = p in
    let initial0 =
      match initial with
      | Some _ -> initial
      | None -> if is_runnable th then Some i else None
    in
    let st =
      if opt_nat_eqb initial0 (Some i)
      then Active
      else if is_yield th
           then TYield
           else if negb (is_runnable th) then Disabled else Skip
    in
    st :: (seed_loop rest initial0)

(** val schedule0 : exec -> mres * bool **)

let schedule0 e =
  match e.e_active with
  | Some curr ->
    (match nth_error e.e_threads curr with
     | Some cur_th ->
       let iths = index_list e.e_threads in
       (match dpor_loop e.e_objects iths e.e_path with
        | POk p1 ->
          let e0 = ex_set_path e p1 in
          let initial =
            if is_runnable cur_th
            then Some curr
            else pick_initial e0.e_threads iths None
          in
          let path_id = p1.pos in
          let seed = seed_loop iths initial in
          (match branch_thread p1 seed with
           | POk a ->
             let (p2, next) = a in
             let e1 = ex_set_active (ex_set_path e0 p2) next in
             (match next with
              | Some nx ->
                (match nth_error e1.e_threads nx with
                 | Some nth_ ->
                   let e2 =
                     match nth_.t_op with
                     | Some op ->
                       (match nth_error e1.e_objects op.op_obj with
                        | Some o ->
                          let dv =
                            match last_dependent_access o op.op_act with
                            | Some o0 ->
                              (match o0 with
                               | Some acc -> vv_join nth_.t_dpor acc.a_vv
                               | None -> nth_.t_dpor)
                            | None -> nth_.t_dpor
                          in
                          let dv0 = vv_inc dv nx in
                          let e2 =
                            upd_thread e1 nx (fun t -> th_set_dpor t dv0)
                          in
                          upd_object e2 op.op_obj (fun o0 ->
                            set_last_access o0 op.op_act path_id dv0)
                        | None -> e1)
                     | None -> e1
                   in
                   let e3 =
                     ex_set_threads e2
                       (mapi (fun id th ->
                         if (&&) (is_yield th) (negb (Nat.eqb id nx))
                         then set_runnable th
                         else th) e2.e_threads)
                   in
                   ((MOk e3), (negb (Nat.eqb curr nx)))
                 | None -> ((MFail (e1, (PanicModel (S (S (S O)))))), false))
              | None ->
                if forallb is_terminated e1.e_threads
                then ((MOk e1), true)
                else ((MFail (e1, (PanicDeadlock
                       (map (fun t -> t.t_state) e1.e_threads)))), true))
           | PErr x -> ((MFail (e0, (PanicPath x))), false))
        | PErr x -> ((MFail (e, (PanicPath x))), false))
     | None -> ((MFail (e, (PanicModel (S (S O))))), false))
  | None -> ((MFail (e, (PanicModel (S O)))), false)

(** val ord_acq : ord -> bool **)

let ord_acq = function
| Relaxed -> false
| Release -> false
| _ -> true

(** val ord_rel : ord -> bool **)

let ord_rel = function
| Relaxed -> false
| Acquire -> false
| _ -> true

(** val is_seq_cst : ord -> bool **)

let is_seq_cst = function
| SeqCst -> true
| _ -> false

(** val sync_load : vv -> vv -> ord -> vv **)

let sync_load caus s o =
  if ord_acq o then vv_join caus s else caus

(** val sync_store : vv -> vv -> vv -> ord -> vv **)

let sync_store s caus released o =
  let s0 = vv_join s released in if ord_rel o then vv_join s0 caus else s0

(** val seen_touch : nat option list -> nat -> nat -> nat option list **)

let seen_touch seen me ver =
  match nth_error seen me with
  | Some o ->
    (match o with
     | Some _ -> seen
     | None -> list_set seen me (Some ver))
  | None -> seen

(** val seen_by_current_from : nat -> nat option list -> vv -> bool **)

let rec seen_by_current_from i seen caus =
  match seen with
  | [] -> false
  | s :: rest ->
    (match s with
     | Some v ->
       if Nat.leb v (vv_get caus i)
       then true
       else seen_by_current_from (S i) rest caus
     | None -> seen_by_current_from (S i) rest caus)

(** val is_seen_by_current : nat option list -> vv -> bool **)

let is_seen_by_current seen caus =
  seen_by_current_from O seen caus

(** val is_seen_before_yield :
    nat option list -> nat -> nat option -> bool **)

let is_seen_before_yield seen me = function
| Some ly ->
  (match nth_error seen me with
   | Some o -> (match o with
                | Some v -> Nat.leb v ly
                | None -> false)
   | None -> false)
| None -> false

(** val aindex : nat -> nat **)

let aindex cnt =
  Nat.modulo cnt mAX_ATOMIC_HISTORY

(** val arange : nat -> nat * nat **)

let arange cnt =
  let start = aindex (sub cnt mAX_ATOMIC_HISTORY) in
  let e = aindex (Nat.min cnt mAX_ATOMIC_HISTORY) in
  (start, (if Nat.eqb e O then mAX_ATOMIC_HISTORY else e))

(** val stores_order : nat -> nat list **)

let stores_order cnt =
  let (start, e) = arange cnt in app (seq start (sub e start)) (seq O start)

(** val get_store : atomic_state -> nat -> astore **)

let get_store s i =
  nth i s.at_stores store_default

(** val at_set_stores : atomic_state -> astore list -> nat -> atomic_state **)

let at_set_stores s st cnt =
  { at_loaded = s.at_loaded; at_unsync_loaded = s.at_unsync_loaded;
    at_stored = s.at_stored; at_unsync_mut = s.at_unsync_mut; at_mutating =
    s.at_mutating; at_last = s.at_last; at_last_nonload = s.at_last_nonload;
    at_stores = st; at_cnt = cnt }

(** val st_set_mo : astore -> vv -> astore **)

let st_set_mo x mo =
  { st_value = x.st_value; st_hb = x.st_hb; st_mo = mo; st_sync = x.st_sync;
    st_seen = x.st_seen; st_seqcst = x.st_seqcst }

(** val st_set_seen : astore -> nat option list -> astore **)

let st_set_seen x seen =
  { st_value = x.st_value; st_hb = x.st_hb; st_mo = x.st_mo; st_sync =
    x.st_sync; st_seen = seen; st_seqcst = x.st_seqcst }

(** val st_set_value : astore -> n -> astore **)

let st_set_value x v =
  { st_value = v; st_hb = x.st_hb; st_mo = x.st_mo; st_sync = x.st_sync;
    st_seen = x.st_seen; st_seqcst = x.st_seqcst }

(** val track_load : atomic_state -> vv -> (atomic_state, panic) sum **)

let track_load s caus =
  if s.at_mutating
  then Inr PanicMutating
  else (match vv_ahead caus s.at_unsync_mut with
        | Some _ -> Inr (PanicCausality CLoadMut)
        | None ->
          Inl { at_loaded = (vv_join s.at_loaded caus); at_unsync_loaded =
            s.at_unsync_loaded; at_stored = s.at_stored; at_unsync_mut =
            s.at_unsync_mut; at_mutating = s.at_mutating; at_last =
            s.at_last; at_last_nonload = s.at_last_nonload; at_stores =
            s.at_stores; at_cnt = s.at_cnt })

(** val track_unsync_load :
    atomic_state -> vv -> (atomic_state, panic) sum **)

let track_unsync_load s caus =
  if s.at_mutating
  then Inr PanicMutating
  else (match vv_ahead caus s.at_unsync_mut with
        | Some _ -> Inr (PanicCausality CUnsyncLoadMut)
        | None ->
          (match vv_ahead caus s.at_stored with
           | Some _ -> Inr (PanicCausality CUnsyncLoadStore)
           | None ->
             Inl { at_loaded = s.at_loaded; at_unsync_loaded =
               (vv_join s.at_unsync_loaded caus); at_stored = s.at_stored;
               at_unsync_mut = s.at_unsync_mut; at_mutating = s.at_mutating;
               at_last = s.at_last; at_last_nonload = s.at_last_nonload;
               at_stores = s.at_stores; at_cnt = s.at_cnt }))

(** val track_store : atomic_state -> vv -> (atomic_state, panic) sum **)

let track_store s caus =
  if s.at_mutating
  then Inr PanicMutating
  else (match vv_ahead caus s.at_unsync_mut with
        | Some _ -> Inr (PanicCausality CStoreMut)
        | None ->
          (match vv_ahead caus s.at_unsync_loaded with
           | Some _ -> Inr (PanicCausality CStoreUnsyncLoad)
           | None ->
             Inl { at_loaded = s.at_loaded; at_unsync_loaded =
               s.at_unsync_loaded; at_stored = (vv_join s.at_stored caus);
               at_unsync_mut = s.at_unsync_mut; at_mutating = s.at_mutating;
               at_last = s.at_last; at_last_nonload = s.at_last_nonload;
               at_stores = s.at_stores; at_cnt = s.at_cnt }))

(** val track_unsync_mut : atomic_state -> vv -> (atomic_state, panic) sum **)

let track_unsync_mut s caus =
  if s.at_mutating
  then Inr PanicMutating
  else (match vv_ahead caus s.at_loaded with
        | Some _ -> Inr (PanicCausality CMutLoad)
        | None ->
          (match vv_ahead caus s.at_unsync_loaded with
           | Some _ -> Inr (PanicCausality CMutUnsyncLoad)
           | None ->
             (match vv_ahead caus s.at_stored with
              | Some _ -> Inr (PanicCausality CMutStore)
              | None ->
                (match vv_ahead caus s.at_unsync_mut with
                 | Some _ -> Inr (PanicCausality CMutMut)
                 | None ->
                   Inl { at_loaded = s.at_loaded; at_unsync_loaded =
                     s.at_unsync_loaded; at_stored = s.at_stored;
                     at_unsync_mut = (vv_join s.at_unsync_mut caus);
                     at_mutating = s.at_mutating; at_last = s.at_last;
                     at_last_nonload = s.at_last_nonload; at_stores =
                     s.at_stores; at_cnt = s.at_cnt }))))

(** val atomic_store :
    atomic_state -> nat -> vv -> vv -> vv -> n -> ord -> atomic_state **)

let atomic_store s me caus released sync0 value o =
  let idx = aindex s.at_cnt in
  let mo =
    fold_left (fun mo x ->
      if is_seen_by_current x.st_seen caus then vv_join mo x.st_mo else mo)
      s.at_stores caus
  in
  let sync = sync_store sync0 caus released o in
  let seen = seen_touch seen_new me (vv_get caus me) in
  at_set_stores s
    (list_set s.at_stores idx { st_value = value; st_hb = caus; st_mo = mo;
      st_sync = sync; st_seen = seen; st_seqcst = (is_seq_cst o) }) (S
    s.at_cnt)

(** val atomic_new : nat -> vv -> vv -> n -> (atomic_state, panic) sum **)

let atomic_new me caus released value =
  let s0 = { at_loaded = vv_new; at_unsync_loaded = vv_new; at_stored =
    vv_new; at_unsync_mut = vv_new; at_mutating = false; at_last = None;
    at_last_nonload = None; at_stores =
    (repeat store_default mAX_ATOMIC_HISTORY); at_cnt = O }
  in
  (match track_unsync_mut s0 caus with
   | Inl s1 -> Inl (atomic_store s1 me caus released vv_new value Release)
   | Inr p -> Inr p)

(** val apply_load_coherence : atomic_state -> vv -> nat -> atomic_state **)

let apply_load_coherence s caus index =
  let mo =
    fold_left (fun mo ix ->
      let (i, x) = ix in
      if Nat.eqb index i
      then mo
      else let mo0 =
             if is_seen_by_current x.st_seen caus
             then vv_join mo x.st_mo
             else mo
           in
           if vv_lt x.st_hb caus then vv_join mo0 x.st_mo else mo0)
      (index_list s.at_stores) (get_store s index).st_mo
  in
  at_set_stores s (list_upd s.at_stores index (fun x -> st_set_mo x mo))
    s.at_cnt

(** val mlts_inner :
    atomic_state -> nat -> vv -> nat option -> ord -> nat -> nat list -> bool
    option **)

let rec mlts_inner s me caus ly o i = function
| [] -> Some true
| j :: js' ->
  if (||) (Nat.eqb i j) (Nat.leb s.at_cnt j)
  then mlts_inner s me caus ly o i js'
  else let si = get_store s i in
       let sj = get_store s j in
       if vv_eqb si.st_mo sj.st_mo
       then None
       else if vv_lt si.st_mo sj.st_mo
            then if is_seen_by_current sj.st_seen caus
                 then Some false
                 else if is_seen_before_yield si.st_seen me ly
                      then Some false
                      else if (&&) ((&&) (is_seq_cst o) si.st_seqcst)
                                sj.st_seqcst
                           then Some false
                           else mlts_inner s me caus ly o i js'
            else mlts_inner s me caus ly o i js'

(** val mlts_outer :
    atomic_state -> nat -> vv -> nat option -> ord -> nat list -> nat list
    option **)

let rec mlts_outer s me caus ly o = function
| [] -> Some []
| i :: rest ->
  if Nat.leb s.at_cnt i
  then mlts_outer s me caus ly o rest
  else (match mlts_inner s me caus ly o i (seq O mAX_ATOMIC_HISTORY) with
        | Some keep ->
          (match mlts_outer s me caus ly o rest with
           | Some l -> Some (if keep then i :: l else l)
           | None -> None)
        | None -> None)

(** val match_load_to_stores :
    atomic_state -> nat -> vv -> nat option -> ord -> nat list option **)

let match_load_to_stores s me caus ly o =
  mlts_outer s me caus ly o (seq O mAX_ATOMIC_HISTORY)

(** val mrts_inner : atomic_state -> nat -> nat list -> bool option **)

let rec mrts_inner s i = function
| [] -> Some true
| j :: js' ->
  if (||) (Nat.eqb i j) (Nat.leb s.at_cnt j)
  then mrts_inner s i js'
  else let si = get_store s i in
       let sj = get_store s j in
       if vv_eqb si.st_mo sj.st_mo
       then None
       else if vv_lt si.st_mo sj.st_mo then Some false else mrts_inner s i js'

(** val mrts_outer : atomic_state -> nat list -> nat list option **)

let rec mrts_outer s = function
| [] -> Some []
| i :: rest ->
  if Nat.leb s.at_cnt i
  then mrts_outer s rest
  else (match mrts_inner s i (seq O mAX_ATOMIC_HISTORY) with
        | Some keep ->
          (match mrts_outer s rest with
           | Some l -> Some (if keep then i :: l else l)
           | None -> None)
        | None -> None)

(** val match_rmw_to_stores : atomic_state -> nat list option **)

let match_rmw_to_stores s =
  mrts_outer s (seq O mAX_ATOMIC_HISTORY)

(** val atomic_load :
    atomic_state -> nat -> vv -> nat -> ord -> ((atomic_state * vv) * n,
    panic) sum **)

let atomic_load s me caus index o =
  match track_load s caus with
  | Inl s1 ->
    let s2 = apply_load_coherence s1 caus index in
    let s3 =
      at_set_stores s2
        (list_upd s2.at_stores index (fun x ->
          st_set_seen x (seen_touch x.st_seen me (vv_get caus me)))) s2.at_cnt
    in
    let x = get_store s3 index in
    Inl ((s3, (sync_load caus x.st_sync o)), x.st_value)
  | Inr p -> Inr p

(** val atomic_rmw :
    atomic_state -> nat -> vv -> vv -> nat -> ord -> ord -> (n -> n option)
    -> (((atomic_state * vv) * n) * bool, panic) sum **)

let atomic_rmw s me caus released index so fo f =
  match track_load s caus with
  | Inl s1 ->
    let s2 = apply_load_coherence s1 caus index in
    let s3 =
      at_set_stores s2
        (list_upd s2.at_stores index (fun x ->
          st_set_seen x (seen_touch x.st_seen me (vv_get caus me)))) s2.at_cnt
    in
    let prev = (get_store s3 index).st_value in
    (match f prev with
     | Some next ->
       (match track_store s3 caus with
        | Inl s4 ->
          let sync = (get_store s4 index).st_sync in
          let caus' = sync_load caus sync so in
          let s5 = atomic_store s4 me caus' released sync next so in
          Inl (((s5, caus'), prev), true)
        | Inr p -> Inr p)
     | None ->
       Inl (((s3, (sync_load caus (get_store s3 index).st_sync fo)), prev),
         false))
  | Inr p -> Inr p

(** val fence_acq_atomic : atomic_state -> vv -> vv **)

let fence_acq_atomic s caus =
  fold_left (fun c i ->
    let x = get_store s i in
    if is_seen_by_current x.st_seen c then vv_join c x.st_sync else c)
    (stores_order s.at_cnt) caus

(** val fence_acq : object0 list -> vv -> vv **)

let fence_acq objs caus =
  fold_left (fun c o ->
    match o with
    | OAtomic s -> fence_acq_atomic s c
    | _ -> c) objs caus

(** val cell_new : vv -> cell_state **)

let cell_new caus =
  { ce_reading = O; ce_writing = false; ce_read = caus; ce_write = caus }

(** val cell_track_read : cell_state -> vv -> (cell_state, panic) sum **)

let cell_track_read s caus =
  match vv_ahead caus s.ce_write with
  | Some _ -> Inr (PanicCausality CCellReadWrite)
  | None ->
    Inl { ce_reading = s.ce_reading; ce_writing = s.ce_writing; ce_read =
      (vv_join s.ce_read caus); ce_write = s.ce_write }

(** val cell_track_write : cell_state -> vv -> (cell_state, panic) sum **)

let cell_track_write s caus =
  match vv_ahead caus s.ce_write with
  | Some _ -> Inr (PanicCausality CCellWriteWrite)
  | None ->
    (match vv_ahead caus s.ce_read with
     | Some _ -> Inr (PanicCausality CCellWriteRead)
     | None ->
       Inl { ce_reading = s.ce_reading; ce_writing = s.ce_writing; ce_read =
         s.ce_read; ce_write = (vv_join s.ce_write caus) })

(** val get_thread : exec -> nat -> thread option **)

let get_thread e i =
  nth_error e.e_threads i

(** val caus_of : exec -> nat -> vv **)

let caus_of e me =
  match get_thread e me with
  | Some t -> t.t_caus
  | None -> vv_new

(** val rel_of : exec -> nat -> vv **)

let rel_of e me =
  match get_thread e me with
  | Some t -> t.t_rel
  | None -> vv_new

(** val set_caus : exec -> nat -> vv -> exec **)

let set_caus e me v =
  upd_thread e me (fun t -> th_set_caus t v)

(** val causality_inc : exec -> nat -> exec **)

let causality_inc e me =
  upd_thread e me (fun t -> th_set_caus t (vv_inc t.t_caus me))

(** val push_cont : exec -> nat -> micro list -> exec **)

let push_cont e me ms =
  upd_thread e me (fun t -> th_set_cont t (app ms t.t_cont))

(** val log_op : exec -> nat -> result -> exec **)

let log_op e me r =
  match get_thread e me with
  | Some t -> ex_set_log e ((LOp (t.t_body, t.t_pc, r)) :: e.e_log)
  | None -> e

(** val hobj_default : hobj **)

let hobj_default =
  { ho_cell = N0; ho_q = []; ho_rx = false; ho_slots = []; ho_track = false;
    ho_waiting = false }

(** val get_h : exec -> nat -> hobj **)

let get_h e i =
  nth i e.e_h hobj_default

(** val ho_set_cell : hobj -> n -> hobj **)

let ho_set_cell h v =
  { ho_cell = v; ho_q = h.ho_q; ho_rx = h.ho_rx; ho_slots = h.ho_slots;
    ho_track = h.ho_track; ho_waiting = h.ho_waiting }

(** val ho_set_q : hobj -> n list -> hobj **)

let ho_set_q h q =
  { ho_cell = h.ho_cell; ho_q = q; ho_rx = h.ho_rx; ho_slots = h.ho_slots;
    ho_track = h.ho_track; ho_waiting = h.ho_waiting }

(** val ho_set_rx : hobj -> bool -> hobj **)

let ho_set_rx h b =
  { ho_cell = h.ho_cell; ho_q = h.ho_q; ho_rx = b; ho_slots = h.ho_slots;
    ho_track = h.ho_track; ho_waiting = h.ho_waiting }

(** val ho_set_slots : hobj -> bool list -> hobj **)

let ho_set_slots h s =
  { ho_cell = h.ho_cell; ho_q = h.ho_q; ho_rx = h.ho_rx; ho_slots = s;
    ho_track = h.ho_track; ho_waiting = h.ho_waiting }

(** val ho_set_track : hobj -> bool -> hobj **)

let ho_set_track h b =
  { ho_cell = h.ho_cell; ho_q = h.ho_q; ho_rx = h.ho_rx; ho_slots =
    h.ho_slots; ho_track = b; ho_waiting = h.ho_waiting }

(** val ho_set_waiting : hobj -> bool -> hobj **)

let ho_set_waiting h b =
  { ho_cell = h.ho_cell; ho_q = h.ho_q; ho_rx = h.ho_rx; ho_slots =
    h.ho_slots; ho_track = h.ho_track; ho_waiting = b }

(** val pending_on : nat -> thread -> bool **)

let pending_on obj t =
  match t.t_op with
  | Some op -> Nat.eqb op.op_obj obj
  | None -> false

(** val pending_on_act : nat -> action -> thread -> bool **)

let pending_on_act obj a t =
  match t.t_op with
  | Some op -> (&&) (Nat.eqb op.op_obj obj) (action_eqb op.op_act a)
  | None -> false

(** val map_others :
    exec -> nat -> (thread -> bool) -> (thread -> thread) -> exec **)

let map_others e me p f =
  ex_set_threads e
    (mapi (fun id t -> if (&&) (negb (Nat.eqb id me)) (p t) then f t else t)
      e.e_threads)

(** val threads_unpark : exec -> nat -> nat -> exec **)

let threads_unpark e me id =
  if Nat.eqb id me
  then upd_thread e me set_unparked
  else let c = caus_of e me in upd_thread e id (fun t -> thread_unpark t c)

(** val block_now : exec -> nat -> blockcond -> bool **)

let block_now e obj = function
| BNever -> false
| BAlways -> true
| BMutexLocked ->
  (match nth_error e.e_objects obj with
   | Some o -> (match o with
                | OMutex s -> is_some s.mx_lock
                | _ -> false)
   | None -> false)
| BRwWrite ->
  (match nth_error e.e_objects obj with
   | Some o ->
     (match o with
      | ORwLock s ->
        (match s.rw_lock with
         | Some r -> (match r with
                      | RLRead _ -> false
                      | RLWrite _ -> true)
         | None -> false)
      | _ -> false)
   | None -> false)
| BRwAny ->
  (match nth_error e.e_objects obj with
   | Some o -> (match o with
                | ORwLock s -> is_some s.rw_lock
                | _ -> false)
   | None -> false)
| BChanEmpty ->
  (match nth_error e.e_objects obj with
   | Some o -> (match o with
                | OChannel s -> Nat.eqb s.ch_cnt O
                | _ -> false)
   | None -> false)

(** val do_branch : exec -> nat -> nat -> action -> blockcond -> mres **)

let do_branch e me obj act blk =
  let blocked = block_now e obj blk in
  let e0 =
    upd_thread e me (fun t ->
      let t0 = th_set_op t (Some { op_obj = obj; op_act = act }) in
      if blocked then set_blocked t0 else t0)
  in
  fst (schedule0 e0)

(** val do_park : exec -> nat -> mres **)

let do_park e me =
  match get_thread e me with
  | Some t ->
    (match t.t_state with
     | Runnable unparked ->
       if unparked
       then MOk (upd_thread e me set_runnable)
       else fst
              (schedule0
                (upd_thread e me (fun t0 -> th_set_op (set_blocked t0) None)))
     | _ ->
       fst
         (schedule0
           (upd_thread e me (fun t0 -> th_set_op (set_blocked t0) None))))
  | None -> MFail (e, (PanicModel (S (S (S (S (S (S (S (S (S (S O))))))))))))

(** val do_yield : exec -> nat -> mres **)

let do_yield e me =
  fst (schedule0 (upd_thread e me (fun t -> th_set_op (set_yield me t) None)))

(** val get_mutex : exec -> nat -> mutex_state option **)

let get_mutex e m =
  match nth_error e.e_objects m with
  | Some o -> (match o with
               | OMutex s -> Some s
               | _ -> None)
  | None -> None

(** val post_acquire : exec -> nat -> nat -> exec * bool **)

let post_acquire e me m =
  match get_mutex e m with
  | Some s ->
    if is_some s.mx_lock
    then (e, false)
    else let e0 =
           upd_object e m (fun _ -> OMutex { mx_seqcst = s.mx_seqcst;
             mx_lock = (Some me); mx_last = s.mx_last; mx_sync = s.mx_sync })
         in
         let e1 = set_caus e0 me (sync_load (caus_of e0 me) s.mx_sync Acquire)
         in
         ((map_others e1 me (pending_on m) set_blocked), true)
  | None -> (e, false)

(** val release_lock : exec -> nat -> nat -> exec **)

let release_lock e me m =
  match get_mutex e m with
  | Some s ->
    let e0 =
      upd_object e m (fun _ -> OMutex { mx_seqcst = s.mx_seqcst; mx_lock =
        None; mx_last = s.mx_last; mx_sync = s.mx_sync })
    in
    (match e0.e_active with
     | Some _ ->
       let sy = sync_store s.mx_sync (caus_of e0 me) (rel_of e0 me) Release in
       let e1 =
         upd_object e0 m (fun _ -> OMutex { mx_seqcst = s.mx_seqcst;
           mx_lock = None; mx_last = s.mx_last; mx_sync = sy })
       in
       map_others e1 me (pending_on m) set_runnable
     | None -> e0)
  | None -> e

(** val get_rw : exec -> nat -> rwlock_state option **)

let get_rw e r =
  match nth_error e.e_objects r with
  | Some o -> (match o with
               | ORwLock s -> Some s
               | _ -> None)
  | None -> None

(** val set_insert : nat -> nat list -> nat list **)

let rec set_insert x l = match l with
| [] -> x :: []
| h :: t -> if Nat.eqb h x then l else h :: (set_insert x t)

(** val set_remove : nat -> nat list -> nat list **)

let set_remove x l =
  filter (fun y -> negb (Nat.eqb y x)) l

(** val post_acquire_read : exec -> nat -> nat -> exec * bool **)

let post_acquire_read e me r =
  match get_rw e r with
  | Some s ->
    (match s.rw_lock with
     | Some r0 ->
       (match r0 with
        | RLRead readers ->
          let readers0 =
            let r1 = RLRead readers in
            (match r1 with
             | RLRead rs -> set_insert me rs
             | RLWrite _ -> me :: [])
          in
          let e0 =
            upd_object e r (fun _ -> ORwLock { rw_lock = (Some (RLRead
              readers0)); rw_last = s.rw_last; rw_sync = s.rw_sync })
          in
          let e1 =
            set_caus e0 me (sync_load (caus_of e0 me) s.rw_sync Acquire)
          in
          ((map_others e1 me (pending_on_act r AWrite) set_blocked), true)
        | RLWrite _ -> (e, false))
     | None ->
       let readers = me :: [] in
       let e0 =
         upd_object e r (fun _ -> ORwLock { rw_lock = (Some (RLRead
           readers)); rw_last = s.rw_last; rw_sync = s.rw_sync })
       in
       let e1 = set_caus e0 me (sync_load (caus_of e0 me) s.rw_sync Acquire)
       in
       ((map_others e1 me (pending_on_act r AWrite) set_blocked), true))
  | None -> (e, false)

(** val post_acquire_write : exec -> nat -> nat -> exec * bool **)

let post_acquire_write e me r =
  match get_rw e r with
  | Some s ->
    (match s.rw_lock with
     | Some _ -> (e, false)
     | None ->
       let e0 =
         upd_object e r (fun _ -> ORwLock { rw_lock = (Some (RLWrite me));
           rw_last = s.rw_last; rw_sync = s.rw_sync })
       in
       let e1 = set_caus e0 me (sync_load (caus_of e0 me) s.rw_sync Acquire)
       in
       ((map_others e1 me (pending_on r) set_blocked), true))
  | None -> (e, false)

(** val release_read : exec -> nat -> nat -> mres **)

let release_read e me r =
  match get_rw e r with
  | Some s ->
    let sy = sync_store s.rw_sync (caus_of e me) (rel_of e me) Release in
    (match s.rw_lock with
     | Some r0 ->
       (match r0 with
        | RLRead rs ->
          let rs' = set_remove me rs in
          (match rs' with
           | [] ->
             let e0 =
               upd_object e r (fun _ -> ORwLock { rw_lock = None; rw_last =
                 s.rw_last; rw_sync = sy })
             in
             MOk (map_others e0 me (pending_on r) set_runnable)
           | _ :: _ ->
             MOk
               (upd_object e r (fun _ -> ORwLock { rw_lock = (Some (RLRead
                 rs')); rw_last = s.rw_last; rw_sync = sy })))
        | RLWrite _ -> MFail (e, PanicRwInvalid))
     | None -> MFail (e, PanicRwInvalid))
  | None ->
    MFail (e, (PanicModel (S (S (S (S (S (S (S (S (S (S (S O)))))))))))))

(** val release_write : exec -> nat -> nat -> mres **)

let release_write e me r =
  match get_rw e r with
  | Some s ->
    let sy = sync_store s.rw_sync (caus_of e me) (rel_of e me) Release in
    let e0 =
      upd_object e r (fun _ -> ORwLock { rw_lock = None; rw_last = s.rw_last;
        rw_sync = sy })
    in
    MOk (map_others e0 me (pending_on r) set_runnable)
  | None ->
    MFail (e, (PanicModel (S (S (S (S (S (S (S (S (S (S (S O)))))))))))))

(** val remove_last_guard :
    (gkind * nat) list -> gkind -> nat -> (gkind * nat) list option **)

let rec remove_last_guard g k m =
  match g with
  | [] -> None
  | p :: t ->
    let (k', m') = p in
    (match remove_last_guard t k m with
     | Some t' -> Some ((k', m') :: t')
     | None -> if (&&) (gkind_eqb k k') (Nat.eqb m m') then Some t else None)

(** val holds_guard : exec -> nat -> gkind -> nat -> bool **)

let holds_guard e me k m =
  match get_thread e me with
  | Some t ->
    existsb (fun g -> (&&) (gkind_eqb (fst g) k) (Nat.eqb (snd g) m))
      t.t_guards
  | None -> false

(** val push_guard : exec -> nat -> gkind -> nat -> exec **)

let push_guard e me k m =
  upd_thread e me (fun t -> th_set_guards t (app t.t_guards ((k, m) :: [])))

(** val drop_guard : exec -> nat -> gkind -> nat -> exec **)

let drop_guard e me k m =
  upd_thread e me (fun t ->
    match remove_last_guard t.t_guards k m with
    | Some g -> th_set_guards t g
    | None -> t)

(** val get_notify : exec -> nat -> notify_state option **)

let get_notify e n0 =
  match nth_error e.e_objects n0 with
  | Some o -> (match o with
               | ONotify s -> Some s
               | _ -> None)
  | None -> None

(** val nt_set : notify_state -> bool -> bool -> vv -> notify_state **)

let nt_set s did notified sy =
  { nt_spurious = s.nt_spurious; nt_did_spur = did; nt_seqcst = s.nt_seqcst;
    nt_notified = notified; nt_last = s.nt_last; nt_sync = sy }

(** val get_chan : exec -> nat -> chan_state option **)

let get_chan e h =
  match nth_error e.e_objects h with
  | Some o -> (match o with
               | OChannel s -> Some s
               | _ -> None)
  | None -> None

(** val get_arc : exec -> nat -> arc_state option **)

let get_arc e k =
  match nth_error e.e_objects k with
  | Some o -> (match o with
               | OArc s -> Some s
               | _ -> None)
  | None -> None

(** val arc_set : arc_state -> nat -> vv -> arc_state **)

let arc_set s cnt sy =
  { arc_cnt = cnt; arc_sync = sy; arc_last_inc = s.arc_last_inc;
    arc_last_dec = s.arc_last_dec; arc_last_inspect = s.arc_last_inspect;
    arc_last_mod = s.arc_last_mod }

(** val get_atomic : exec -> nat -> atomic_state option **)

let get_atomic e a =
  match nth_error e.e_objects a with
  | Some o -> (match o with
               | OAtomic s -> Some s
               | _ -> None)
  | None -> None

(** val get_cell : exec -> nat -> cell_state option **)

let get_cell e u =
  match nth_error e.e_objects u with
  | Some o -> (match o with
               | OCell s -> Some s
               | _ -> None)
  | None -> None

(** val slot_present : exec -> nat -> nat -> bool **)

let slot_present e k i =
  nth i (get_h e k).ho_slots false

(** val set_slot : exec -> nat -> nat -> bool -> exec **)

let set_slot e k i b =
  upd_hobj e k (fun h -> ho_set_slots h (list_set h.ho_slots i b))

(** val body_tid : exec -> nat -> nat option **)

let body_tid e b = match b with
| O -> Some O
| S _ ->
  (match nth b e.e_spawned None with
   | Some p -> let (tid, _) = p in Some tid
   | None -> None)

(** val rmw_fun : rmwkind -> n -> n option **)

let rmw_fun k x =
  match k with
  | KOp (f, v) -> Some (apply_rmw f x v)
  | KCas (ex, nw) -> if N.eqb x ex then Some nw else None
  | KFu (f, v, prev) ->
    if N.eqb x prev then Some (apply_rmw f prev v) else None

(** val choose_store : exec -> nat list option -> exec * (nat, panic) sum **)

let choose_store e seed =
  let r =
    if is_traversed e.e_path
    then (match seed with
          | Some sd ->
            (match push_load e.e_path sd with
             | POk p -> Inl p
             | PErr x -> Inr (PanicPath x))
          | None -> Inr PanicMoEq)
    else Inl e.e_path
  in
  (match r with
   | Inl p ->
     (match branch_load p with
      | POk a -> let (p', idx) = a in ((ex_set_path e p'), (Inl idx))
      | PErr x -> (e, (Inr (PanicPath x))))
   | Inr p -> (e, (Inr p)))

(** val exec_micro : exec -> nat -> micro -> mres **)

let exec_micro e me = function
| MBegin pc -> MOk (upd_thread e me (fun t -> th_set_pc t pc))
| MLog r -> MOk (log_op e me r)
| MSpawn b ->
  let nidx = length e.e_objects in
  let e0 =
    ex_set_objects e
      (app e.e_objects ((ONotify { nt_spurious = false; nt_did_spur = false;
        nt_seqcst = true; nt_notified = false; nt_last = None; nt_sync =
        vv_new }) :: []))
  in
  if negb (Nat.ltb (length e0.e_threads) e0.e_max_threads)
  then MFail (e0, PanicMaxThreads)
  else let tid = length e0.e_threads in
       let pc = caus_of e0 me in
       let pd =
         match get_thread e0 me with
         | Some t -> t.t_dpor
         | None -> vv_new
       in
       let body = nth b e0.e_bodies [] in
       let nt = thread_new b body in
       let nt0 =
         th_set_dpor (th_set_caus nt (vv_inc (vv_join nt.t_caus pc) tid))
           (vv_join nt.t_dpor pd)
       in
       let e1 = ex_set_threads e0 (app e0.e_threads (nt0 :: [])) in
       let e2 = causality_inc e1 me in
       let e3 = ex_set_spawned e2 (list_set e2.e_spawned b (Some (tid, nidx)))
       in
       MOk (log_op e3 me RUnit)
| MBranch (obj, act, blk) -> do_branch e me obj act blk
| MJoin b ->
  (match nth b e.e_spawned None with
   | Some p ->
     let (_, nidx) = p in
     if nth b e.e_joined true
     then MFail (e, (PanicModel (S (S (S (S (S (S (S (S (S (S (S (S
            O))))))))))))))
     else let e0 = ex_set_joined e (list_set e.e_joined b true) in
          MOk (push_cont e0 me ((MNotifyWait1 nidx) :: ((MLog RUnit) :: [])))
   | None ->
     MFail (e, (PanicModel (S (S (S (S (S (S (S (S (S (S (S (S O)))))))))))))))
| MNotifyWait1 n0 ->
  (match get_notify e n0 with
   | Some s ->
     let might = (&&) s.nt_spurious (negb s.nt_did_spur) in
     let r =
       if might
       then (match branch_spurious e.e_path with
             | POk a -> let (p, sp) = a in Inl ((ex_set_path e p), sp)
             | PErr x -> Inr (PanicPath x))
       else Inl (e, false)
     in
     (match r with
      | Inl p ->
        let (e0, spur) = p in
        let e1 =
          if spur
          then upd_object e0 n0 (fun _ -> ONotify
                 (nt_set s true s.nt_notified s.nt_sync))
          else e0
        in
        if spur
        then MOk (push_cont e1 me (MYield :: []))
        else MOk
               (push_cont e1 me ((MBranch (n0, AOpaque,
                 (if s.nt_notified then BNever else BAlways))) :: ((MNotifyWait2
                 n0) :: [])))
      | Inr p -> MFail (e, p))
   | None ->
     MFail (e, (PanicModel (S (S (S (S (S (S (S (S (S (S (S (S (S
       O))))))))))))))))
| MNotifyWait2 n0 ->
  (match get_notify e n0 with
   | Some s ->
     if negb s.nt_notified
     then MFail (e, PanicNotified)
     else let e0 = set_caus e me (sync_load (caus_of e me) s.nt_sync Acquire)
          in
          MOk
          (upd_object e0 n0 (fun _ -> ONotify
            (nt_set s s.nt_did_spur false s.nt_sync)))
   | None ->
     MFail (e, (PanicModel (S (S (S (S (S (S (S (S (S (S (S (S (S
       O))))))))))))))))
| MNotifyPost n0 ->
  (match get_notify e n0 with
   | Some s ->
     let sy = sync_store s.nt_sync (caus_of e me) (rel_of e me) Release in
     let e0 =
       upd_object e n0 (fun _ -> ONotify (nt_set s s.nt_did_spur true sy))
     in
     let c = caus_of e0 me in
     MOk (map_others e0 me (pending_on n0) (fun t -> thread_unpark t c))
   | None ->
     MFail (e, (PanicModel (S (S (S (S (S (S (S (S (S (S (S (S (S
       O))))))))))))))))
| MExitNotify ->
  (match get_thread e me with
   | Some t ->
     (match nth t.t_body e.e_spawned None with
      | Some p ->
        let (_, nidx) = p in
        MOk
        (push_cont e me ((MBranch (nidx, AOpaque, BNever)) :: ((MNotifyPost
          nidx) :: [])))
      | None ->
        MFail (e, (PanicModel (S (S (S (S (S (S (S (S (S (S (S (S (S (S (S
          O))))))))))))))))))
   | None ->
     MFail (e, (PanicModel (S (S (S (S (S (S (S (S (S (S (S (S (S (S
       O)))))))))))))))))
| MLoadPost (a, o, aw) ->
  let e0 = causality_inc e me in
  (match get_atomic e0 a with
   | Some s ->
     (match get_thread e0 me with
      | Some t ->
        let seed = match_load_to_stores s me t.t_caus t.t_last_yield o in
        let (e1, s0) = choose_store e0 seed in
        (match s0 with
         | Inl idx ->
           (match atomic_load s me t.t_caus idx o with
            | Inl p ->
              let (p0, v) = p in
              let (s', caus') = p0 in
              let e2 = upd_object e1 a (fun _ -> OAtomic s') in
              let e3 = set_caus e2 me caus' in
              let e4 = log_op e3 me (RVal v) in
              (match aw with
               | Some want ->
                 if N.eqb v want
                 then MOk e4
                 else MOk
                        (push_cont e4 me (MYield :: ((MBranch (a, ALoad,
                          BNever)) :: ((MLoadPost (a, o, aw)) :: []))))
               | None -> MOk e4)
            | Inr p -> MFail (e1, p))
         | Inr p -> MFail (e1, p))
      | None ->
        MFail (e0, (PanicModel (S (S (S (S (S (S (S (S (S (S (S (S (S (S (S
          (S O)))))))))))))))))))
   | None ->
     MFail (e0, (PanicModel (S (S (S (S (S (S (S (S (S (S (S (S (S (S (S (S
       O)))))))))))))))))))
| MFuLoadPost (a, f, v, so, fo) ->
  let e0 = causality_inc e me in
  (match get_atomic e0 a with
   | Some s ->
     (match get_thread e0 me with
      | Some t ->
        let seed = match_load_to_stores s me t.t_caus t.t_last_yield fo in
        let (e1, s0) = choose_store e0 seed in
        (match s0 with
         | Inl idx ->
           (match atomic_load s me t.t_caus idx fo with
            | Inl p ->
              let (p0, prev) = p in
              let (s', caus') = p0 in
              let e2 = upd_object e1 a (fun _ -> OAtomic s') in
              let e3 = set_caus e2 me caus' in
              MOk
              (push_cont e3 me ((MBranch (a, ARmw, BNever)) :: ((MRmwPost (a,
                (KFu (f, v, prev)), so, fo)) :: [])))
            | Inr p -> MFail (e1, p))
         | Inr p -> MFail (e1, p))
      | None ->
        MFail (e0, (PanicModel (S (S (S (S (S (S (S (S (S (S (S (S (S (S (S
          (S O)))))))))))))))))))
   | None ->
     MFail (e0, (PanicModel (S (S (S (S (S (S (S (S (S (S (S (S (S (S (S (S
       O)))))))))))))))))))
| MStorePost (a, v, o) ->
  let e0 = causality_inc e me in
  (match get_atomic e0 a with
   | Some s ->
     (match get_thread e0 me with
      | Some t ->
        (match track_store s t.t_caus with
         | Inl s1 ->
           let s2 = atomic_store s1 me t.t_caus t.t_rel vv_new v o in
           MOk (log_op (upd_object e0 a (fun _ -> OAtomic s2)) me RUnit)
         | Inr p -> MFail (e0, p))
      | None ->
        MFail (e0, (PanicModel (S (S (S (S (S (S (S (S (S (S (S (S (S (S (S
          (S O)))))))))))))))))))
   | None ->
     MFail (e0, (PanicModel (S (S (S (S (S (S (S (S (S (S (S (S (S (S (S (S
       O)))))))))))))))))))
| MRmwPost (a, k, so, fo) ->
  let e0 = causality_inc e me in
  (match get_atomic e0 a with
   | Some s ->
     (match get_thread e0 me with
      | Some t ->
        let (e1, s0) = choose_store e0 (match_rmw_to_stores s) in
        (match s0 with
         | Inl idx ->
           (match atomic_rmw s me t.t_caus t.t_rel idx so fo (rmw_fun k) with
            | Inl p ->
              let (p0, ok) = p in
              let (p1, prev) = p0 in
              let (s', caus') = p1 in
              let e2 = upd_object e1 a (fun _ -> OAtomic s') in
              let e3 = set_caus e2 me caus' in
              (match k with
               | KOp (_, _) -> MOk (log_op e3 me (RVal prev))
               | KCas (_, _) ->
                 MOk (log_op e3 me (if ok then ROk prev else RErr prev))
               | KFu (f, v, _) ->
                 if ok
                 then MOk (log_op e3 me (ROk prev))
                 else MOk
                        (push_cont e3 me ((MBranch (a, ARmw,
                          BNever)) :: ((MRmwPost (a, (KFu (f, v, prev)), so,
                          fo)) :: []))))
            | Inr p -> MFail (e1, p))
         | Inr p -> MFail (e1, p))
      | None ->
        MFail (e0, (PanicModel (S (S (S (S (S (S (S (S (S (S (S (S (S (S (S
          (S O)))))))))))))))))))
   | None ->
     MFail (e0, (PanicModel (S (S (S (S (S (S (S (S (S (S (S (S (S (S (S (S
       O)))))))))))))))))))
| MFence o ->
  (match o with
   | Relaxed -> MFail ((causality_inc e me), PanicRelaxedFence)
   | _ ->
     let e0 = causality_inc e me in
     let e1 =
       if ord_acq o
       then set_caus e0 me (fence_acq e0.e_objects (caus_of e0 me))
       else e0
     in
     let e2 =
       if ord_rel o
       then upd_thread e1 me (fun t -> th_set_rel t t.t_caus)
       else e1
     in
     let e3 =
       if is_seq_cst o
       then let c = vv_join (caus_of e2 me) e2.e_seqcst in
            let e3 = set_caus e2 me c in
            ex_set_seqcst e3 (vv_join e3.e_seqcst c)
       else e2
     in
     MOk (log_op e3 me RUnit))
| MLockPost (mx, mode) ->
  let (e0, ok) = post_acquire e me mx in
  (match mode with
   | LMLock ->
     if ok
     then MOk (log_op (push_guard e0 me GMutex mx) me RUnit)
     else MFail (e0, PanicExpectLock)
   | LMTry ->
     MOk
       (log_op (if ok then push_guard e0 me GMutex mx else e0) me (RBool ok))
   | LMReacquire ->
     if ok then MOk (log_op e0 me RUnit) else MFail (e0, PanicExpectLock))
| MUnlock mx ->
  if holds_guard e me GMutex mx
  then MOk (log_op (release_lock (drop_guard e me GMutex mx) me mx) me RUnit)
  else MOk (log_op e me RX)
| MReadPost (r, try0) ->
  let (e0, ok) = post_acquire_read e me r in
  if try0
  then MOk
         (log_op (if ok then push_guard e0 me GRead r else e0) me (RBool ok))
  else if ok
       then MOk (log_op (push_guard e0 me GRead r) me RUnit)
       else MFail (e0, PanicExpectRead)
| MWritePost (r, try0) ->
  let (e0, ok) = post_acquire_write e me r in
  if try0
  then MOk
         (log_op (if ok then push_guard e0 me GWrite r else e0) me (RBool ok))
  else if ok
       then MOk (log_op (push_guard e0 me GWrite r) me RUnit)
       else MFail (e0, PanicExpectWrite)
| MUnread r ->
  if holds_guard e me GRead r
  then mbind (release_read (drop_guard e me GRead r) me r) (fun e0 -> MOk
         (log_op e0 me RUnit))
  else MOk (log_op e me RX)
| MUnwrite r ->
  if holds_guard e me GWrite r
  then mbind (release_write (drop_guard e me GWrite r) me r) (fun e0 -> MOk
         (log_op e0 me RUnit))
  else MOk (log_op e me RX)
| MWait (c, mx) ->
  if holds_guard e me GMutex mx
  then MOk
         (push_cont e me ((MBranch (c, AOpaque, BNever)) :: ((MCvWait (c,
           mx)) :: (MPark :: ((MBranch (mx, AOpaque,
           BMutexLocked)) :: ((MLockPost (mx, LMReacquire)) :: []))))))
  else MOk (log_op e me RX)
| MCvWait (c, mx) ->
  (match nth_error e.e_objects c with
   | Some o ->
     (match o with
      | OCondvar s ->
        let e0 =
          upd_object e c (fun _ -> OCondvar { cv_last = s.cv_last;
            cv_waiters = (app s.cv_waiters (me :: [])) })
        in
        MOk (release_lock e0 me mx)
      | _ ->
        MFail (e, (PanicModel (S (S (S (S (S (S (S (S (S (S (S (S (S (S (S (S
          (S O))))))))))))))))))))
   | None ->
     MFail (e, (PanicModel (S (S (S (S (S (S (S (S (S (S (S (S (S (S (S (S (S
       O))))))))))))))))))))
| MPark -> do_park e me
| MCvNotify (c, all) ->
  (match nth_error e.e_objects c with
   | Some o ->
     (match o with
      | OCondvar s ->
        if all
        then let e0 =
               upd_object e c (fun _ -> OCondvar { cv_last = s.cv_last;
                 cv_waiters = [] })
             in
             MOk
             (log_op
               (fold_left (fun e1 t -> threads_unpark e1 me t) s.cv_waiters
                 e0) me RUnit)
        else (match s.cv_waiters with
              | [] -> MOk (log_op e me RUnit)
              | w :: rest ->
                let e0 =
                  upd_object e c (fun _ -> OCondvar { cv_last = s.cv_last;
                    cv_waiters = rest })
                in
                MOk (log_op (threads_unpark e0 me w) me RUnit))
      | _ ->
        MFail (e, (PanicModel (S (S (S (S (S (S (S (S (S (S (S (S (S (S (S (S
          (S O))))))))))))))))))))
   | None ->
     MFail (e, (PanicModel (S (S (S (S (S (S (S (S (S (S (S (S (S (S (S (S (S
       O))))))))))))))))))))
| MUnpark b ->
  (match body_tid e b with
   | Some tid -> MOk (log_op (threads_unpark e me tid) me RUnit)
   | None ->
     MFail (e, (PanicModel (S (S (S (S (S (S (S (S (S (S (S (S (S (S (S (S (S
       (S O)))))))))))))))))))))
| MSendPost (h, v) ->
  (match get_chan e h with
   | Some s ->
     let cnt = S s.ch_cnt in
     let ss = sync_store s.ch_sender_sync (caus_of e me) (rel_of e me) Release
     in
     let e0 =
       upd_object e h (fun _ -> OChannel { ch_cnt = cnt; ch_last_send =
         s.ch_last_send; ch_last_recv = s.ch_last_recv; ch_sender_sync = ss;
         ch_recv_sync = (app s.ch_recv_sync (ss :: [])) })
     in
     let e1 =
       if Nat.eqb cnt (S O)
       then map_others e0 me (pending_on h) set_runnable
       else e0
     in
     let rx = (get_h e1 h).ho_rx in
     let e2 =
       if rx
       then upd_hobj e1 h (fun ho -> ho_set_q ho (app ho.ho_q (v :: [])))
       else e1
     in
     MOk (log_op e2 me (if rx then RUnit else RDisc))
   | None ->
     MFail (e, (PanicModel (S (S (S (S (S (S (S (S (S (S (S (S (S (S (S (S (S
       (S (S O))))))))))))))))))))))
| MRecvPost (h, lg) ->
  (match get_chan e h with
   | Some s ->
     (match s.ch_cnt with
      | O -> MFail (e, PanicExpectMsg)
      | S cnt ->
        (match s.ch_recv_sync with
         | [] -> MFail (e, PanicExpectMsg)
         | sy :: rest ->
           let e0 =
             upd_object e h (fun _ -> OChannel { ch_cnt = cnt; ch_last_send =
               s.ch_last_send; ch_last_recv = s.ch_last_recv;
               ch_sender_sync = s.ch_sender_sync; ch_recv_sync = rest })
           in
           let e1 = set_caus e0 me (sync_load (caus_of e0 me) sy Acquire) in
           let e2 =
             if Nat.eqb cnt O
             then map_others e1 me (pending_on_act h ARecv) set_blocked
             else e1
           in
           (match (get_h e2 h).ho_q with
            | [] ->
              MFail (e2, (PanicModel (S (S (S (S (S (S (S (S (S (S (S (S (S
                (S (S (S (S (S (S (S O))))))))))))))))))))))
            | v :: q ->
              let e3 = upd_hobj e2 h (fun ho -> ho_set_q ho q) in
              MOk (if lg then log_op e3 me (RVal v) else e3))))
   | None ->
     MFail (e, (PanicModel (S (S (S (S (S (S (S (S (S (S (S (S (S (S (S (S (S
       (S (S O))))))))))))))))))))))
| MRecv h ->
  if (get_h e h).ho_rx
  then MOk
         (push_cont e me ((MBranch (h, ARecv, BChanEmpty)) :: ((MRecvPost (h,
           true)) :: [])))
  else MOk (log_op e me RX)
| MTryRecv h ->
  if negb (get_h e h).ho_rx
  then MOk (log_op e me RX)
  else (match get_chan e h with
        | Some s ->
          if Nat.eqb s.ch_cnt O
          then MOk (log_op e me REmpty)
          else MOk
                 (push_cont e me ((MBranch (h, ARecv,
                   BChanEmpty)) :: ((MRecvPost (h, true)) :: [])))
        | None ->
          MFail (e, (PanicModel (S (S (S (S (S (S (S (S (S (S (S (S (S (S (S
            (S (S (S (S O))))))))))))))))))))))
| MDropRx h ->
  if negb (get_h e h).ho_rx
  then MOk (log_op e me RX)
  else (match get_chan e h with
        | Some s ->
          if Nat.eqb s.ch_cnt O
          then MOk
                 (log_op
                   (upd_hobj e h (fun ho -> ho_set_q (ho_set_rx ho false) []))
                   me RUnit)
          else MOk
                 (push_cont e me ((MBranch (h, ARecv,
                   BChanEmpty)) :: ((MRecvPost (h, false)) :: ((MDropRx
                   h) :: []))))
        | None ->
          MFail (e, (PanicModel (S (S (S (S (S (S (S (S (S (S (S (S (S (S (S
            (S (S (S (S O))))))))))))))))))))))
| MCellRead u ->
  let e0 = causality_inc e me in
  (match get_cell e0 u with
   | Some s ->
     if s.ce_writing
     then MFail (e0, PanicCellWriting)
     else (match cell_track_read s (caus_of e0 me) with
           | Inl s1 ->
             (match cell_track_read s1 (caus_of e0 me) with
              | Inl s2 ->
                MOk
                  (log_op (upd_object e0 u (fun _ -> OCell s2)) me (RVal
                    (get_h e0 u).ho_cell))
              | Inr p -> MFail (e0, p))
           | Inr p -> MFail (e0, p))
   | None ->
     MFail (e0, (PanicModel (S (S (S (S (S (S (S (S (S (S (S (S (S (S (S (S
       (S (S (S (S (S O))))))))))))))))))))))))
| MCellWrite (u, v) ->
  let e0 = causality_inc e me in
  (match get_cell e0 u with
   | Some s ->
     if negb (Nat.eqb s.ce_reading O)
     then MFail (e0, PanicCellReading)
     else if s.ce_writing
          then MFail (e0, PanicCellWriting)
          else (match cell_track_write s (caus_of e0 me) with
                | Inl s1 ->
                  (match cell_track_write s1 (caus_of e0 me) with
                   | Inl s2 ->
                     let e1 = upd_object e0 u (fun _ -> OCell s2) in
                     MOk
                     (log_op (upd_hobj e1 u (fun ho -> ho_set_cell ho v)) me
                       RUnit)
                   | Inr p -> MFail (e0, p))
                | Inr p -> MFail (e0, p))
   | None ->
     MFail (e0, (PanicModel (S (S (S (S (S (S (S (S (S (S (S (S (S (S (S (S
       (S (S (S (S (S O))))))))))))))))))))))))
| MYield -> do_yield e me
| MUnsyncLoad a ->
  (match get_atomic e a with
   | Some s ->
     (match track_unsync_load s (caus_of e me) with
      | Inl s1 ->
        let v = (get_store s1 (aindex (sub s1.at_cnt (S O)))).st_value in
        MOk (log_op (upd_object e a (fun _ -> OAtomic s1)) me (RVal v))
      | Inr p -> MFail (e, p))
   | None ->
     MFail (e, (PanicModel (S (S (S (S (S (S (S (S (S (S (S (S (S (S (S (S
       O)))))))))))))))))))
| MWithMut (a, v) ->
  (match get_atomic e a with
   | Some s ->
     (match track_unsync_mut s (caus_of e me) with
      | Inl s1 ->
        let idx = aindex (sub s1.at_cnt (S O)) in
        let old = (get_store s1 idx).st_value in
        let s2 =
          at_set_stores s1
            (list_upd s1.at_stores idx (fun x -> st_set_value x v)) s1.at_cnt
        in
        (match track_unsync_mut s2 (caus_of e me) with
         | Inl s3 ->
           MOk (log_op (upd_object e a (fun _ -> OAtomic s3)) me (RVal old))
         | Inr p -> MFail (e, p))
      | Inr p -> MFail (e, p))
   | None ->
     MFail (e, (PanicModel (S (S (S (S (S (S (S (S (S (S (S (S (S (S (S (S
       O)))))))))))))))))))
| MArcClone (k, i, j) ->
  if slot_present e k i
  then MOk
         (push_cont e me ((MBranch (k, ARefInc, BNever)) :: ((MArcIncPost (k,
           j)) :: [])))
  else MOk (log_op e me RX)
| MArcIncPost (k, j) ->
  (match get_arc e k with
   | Some s ->
     let e0 =
       upd_object e k (fun _ -> OArc (arc_set s (S s.arc_cnt) s.arc_sync))
     in
     MOk (log_op (set_slot e0 k j true) me RUnit)
   | None ->
     MFail (e, (PanicModel (S (S (S (S (S (S (S (S (S (S (S (S (S (S (S (S (S
       (S (S (S (S (S O)))))))))))))))))))))))))
| MArcDrop (k, i) ->
  if slot_present e k i
  then MOk
         (push_cont (set_slot e k i false) me ((MBranch (k, ARefDec,
           BNever)) :: ((MArcDecPost (k, false)) :: [])))
  else MOk (log_op e me RX)
| MArcDecPost (k, unwrap) ->
  (match get_arc e k with
   | Some s ->
     (match s.arc_cnt with
      | O -> MFail (e, PanicArcReleased)
      | S cnt ->
        let sy = sync_store s.arc_sync (caus_of e me) (rel_of e me) Release in
        let e0 = upd_object e k (fun _ -> OArc (arc_set s cnt sy)) in
        let e1 =
          if Nat.eqb cnt O
          then set_caus e0 me (sync_load (caus_of e0 me) sy Acquire)
          else e0
        in
        let e2 =
          if Nat.eqb cnt O then ex_set_log e1 ((LDrop k) :: e1.e_log) else e1
        in
        MOk (log_op e2 me (if unwrap then RBool true else RUnit)))
   | None ->
     MFail (e, (PanicModel (S (S (S (S (S (S (S (S (S (S (S (S (S (S (S (S (S
       (S (S (S (S (S O)))))))))))))))))))))))))
| MArcCount (k, i) ->
  if slot_present e k i
  then MOk
         (push_cont e me ((MBranch (k, AInspect, BNever)) :: ((MArcCountPost
           k) :: [])))
  else MOk (log_op e me RX)
| MArcCountPost k ->
  (match get_arc e k with
   | Some s ->
     if Nat.eqb s.arc_cnt O
     then MFail (e, PanicArcReleased)
     else let e0 = set_caus e me (sync_load (caus_of e me) s.arc_sync SeqCst)
          in
          MOk (log_op e0 me (RVal (N.of_nat s.arc_cnt)))
   | None ->
     MFail (e, (PanicModel (S (S (S (S (S (S (S (S (S (S (S (S (S (S (S (S (S
       (S (S (S (S (S O)))))))))))))))))))))))))
| MArcGetMut (k, i, unwrap) ->
  if slot_present e k i
  then MOk
         (push_cont e me ((MBranch (k, ARefDec, BNever)) :: ((MArcGetMutPost
           (k, i, unwrap)) :: [])))
  else MOk (log_op e me RX)
| MArcGetMutPost (k, i, unwrap) ->
  (match get_arc e k with
   | Some s ->
     if Nat.eqb s.arc_cnt O
     then MFail (e, PanicArcReleased2)
     else let e0 = set_caus e me (sync_load (caus_of e me) s.arc_sync Acquire)
          in
          let only = Nat.eqb s.arc_cnt (S O) in
          if unwrap
          then if only
               then MOk
                      (push_cont (set_slot e0 k i false) me ((MBranch (k,
                        ARefDec, BNever)) :: ((MArcDecPost (k, true)) :: [])))
               else MOk (log_op e0 me (RBool false))
          else MOk (log_op e0 me (RBool only))
   | None ->
     MFail (e, (PanicModel (S (S (S (S (S (S (S (S (S (S (S (S (S (S (S (S (S
       (S (S (S (S (S O)))))))))))))))))))))))))
| MTrackDrop k ->
  if (get_h e k).ho_track
  then let e0 = upd_hobj e k (fun ho -> ho_set_track ho false) in
       MOk (log_op (upd_object e0 k (fun _ -> OAlloc true)) me RUnit)
  else MOk (log_op e me RX)
| MPanic -> MFail ((log_op e me RUnit), PanicUser)
| MExplore ->
  lift_path e (explore_state e.e_path) (fun p -> MOk
    (log_op (ex_set_path e p) me RUnit))
| MStop ->
  lift_path e (critical e.e_path) (fun p -> MOk
    (log_op (ex_set_path e p) me RUnit))
| MSkip -> MOk (log_op (ex_set_path e (skip_branch e.e_path)) me RUnit)
| MNWaitBegin n0 ->
  if (get_h e n0).ho_waiting
  then MFail (e, PanicNotifyWaiter)
  else MOk (upd_hobj e n0 (fun ho -> ho_set_waiting ho true))
| MNWaitEnd n0 ->
  MOk (log_op (upd_hobj e n0 (fun ho -> ho_set_waiting ho false)) me RUnit)
| MReleaseAll ->
  (match get_thread e me with
   | Some t ->
     (match rev t.t_guards with
      | [] -> MOk e
      | p :: _ ->
        let (g, r) = p in
        (match g with
         | GMutex ->
           MOk
             (push_cont (release_lock (drop_guard e me GMutex r) me r) me
               (MReleaseAll :: []))
         | GRead ->
           mbind (release_read (drop_guard e me GRead r) me r) (fun e0 -> MOk
             (push_cont e0 me (MReleaseAll :: [])))
         | GWrite ->
           mbind (release_write (drop_guard e me GWrite r) me r) (fun e0 ->
             MOk (push_cont e0 me (MReleaseAll :: [])))))
   | None ->
     MFail (e, (PanicModel (S (S (S (S (S (S (S (S (S (S (S (S (S (S (S (S (S
       (S (S (S (S (S (S O))))))))))))))))))))))))))
| MTerminate ->
  fst
    (schedule0
      (upd_thread e me (fun t -> th_set_op (th_set_state t Terminated) None)))
| _ -> MOk e

(** val expand : nat -> nat -> instr -> micro list **)

let expand body pc = function
| ISpawn b -> (MSpawn b) :: []
| IJoin b -> (MJoin b) :: []
| ILoad (a, o) ->
  (MBranch (a, ALoad, BNever)) :: ((MLoadPost (a, o, None)) :: [])
| IStore (a, v, o) ->
  (MBranch (a, AStore, BNever)) :: ((MStorePost (a, v, o)) :: [])
| IRmw (a, f, v, o) ->
  (MBranch (a, ARmw, BNever)) :: ((MRmwPost (a, (KOp (f, v)), o, o)) :: [])
| ICas (a, ex, nw, so, fo) ->
  (MBranch (a, ARmw, BNever)) :: ((MRmwPost (a, (KCas (ex, nw)), so,
    fo)) :: [])
| IFetchUpdate (a, f, v, so, fo) ->
  (MBranch (a, ALoad, BNever)) :: ((MFuLoadPost (a, f, v, so, fo)) :: [])
| IFence o -> (MFence o) :: []
| ILock m ->
  (MBranch (m, AOpaque, BMutexLocked)) :: ((MLockPost (m, LMLock)) :: [])
| ITryLock m ->
  (MBranch (m, AOpaque, BNever)) :: ((MLockPost (m, LMTry)) :: [])
| IUnlock m -> (MUnlock m) :: []
| IRead r -> (MBranch (r, ARead, BRwWrite)) :: ((MReadPost (r, false)) :: [])
| IWrite r -> (MBranch (r, AWrite, BRwAny)) :: ((MWritePost (r, false)) :: [])
| ITryRead r -> (MBranch (r, ARead, BNever)) :: ((MReadPost (r, true)) :: [])
| ITryWrite r ->
  (MBranch (r, AWrite, BNever)) :: ((MWritePost (r, true)) :: [])
| IUnread r -> (MUnread r) :: []
| IUnwrite r -> (MUnwrite r) :: []
| IWait (c, m) -> (MWait (c, m)) :: []
| INotifyOne c ->
  (MBranch (c, AOpaque, BNever)) :: ((MCvNotify (c, false)) :: [])
| INotifyAll c ->
  (MBranch (c, AOpaque, BNever)) :: ((MCvNotify (c, true)) :: [])
| INWait n0 ->
  (MNWaitBegin n0) :: ((MNotifyWait1 n0) :: ((MNWaitEnd n0) :: []))
| INNotify n0 ->
  (MBranch (n0, AOpaque, BNever)) :: ((MNotifyPost n0) :: ((MLog
    RUnit) :: []))
| IPark -> MPark :: ((MLog RUnit) :: [])
| IUnpark b -> (MUnpark b) :: []
| ISend (h, v) -> (MBranch (h, ASend, BNever)) :: ((MSendPost (h, v)) :: [])
| IRecv h -> (MRecv h) :: []
| ITryRecv h -> (MTryRecv h) :: []
| IDropRx h -> (MDropRx h) :: []
| ICellRead u -> (MCellRead u) :: []
| ICellWrite u ->
  (MCellWrite (u,
    (N.of_nat
      (add
        (add
          (mul body (S (S (S (S (S (S (S (S (S (S (S (S (S (S (S (S (S (S (S
            (S (S (S (S (S (S (S (S (S (S (S (S (S (S (S (S (S (S (S (S (S (S
            (S (S (S (S (S (S (S (S (S (S (S (S (S (S (S (S (S (S (S (S (S (S
            (S (S (S (S (S (S (S (S (S (S (S (S (S (S (S (S (S (S (S (S (S (S
            (S (S (S (S (S (S (S (S (S (S (S (S (S (S (S
            O)))))))))))))))))))))))))))))))))))))))))))))))))))))))))))))))))))))))))))))))))))))))))))))))))))))
          pc) (S O))))) :: []
| IYield -> MYield :: ((MLog RUnit) :: [])
| IAwait (a, v, o) ->
  (MBranch (a, ALoad, BNever)) :: ((MLoadPost (a, o, (Some v))) :: [])
| IUnsyncLoad a -> (MUnsyncLoad a) :: []
| IWithMut (a, v) -> (MWithMut (a, v)) :: []
| IArcClone (k, i0, j) -> (MArcClone (k, i0, j)) :: []
| IArcDrop (k, i0) -> (MArcDrop (k, i0)) :: []
| IArcCount (k, i0) -> (MArcCount (k, i0)) :: []
| IArcGetMut (k, i0) -> (MArcGetMut (k, i0, false)) :: []
| IArcTryUnwrap (k, i0) -> (MArcGetMut (k, i0, true)) :: []
| ITrackDrop k -> (MTrackDrop k) :: []
| IPanic -> MPanic :: []
| IExplore -> MExplore :: []
| IStopExploring -> MStop :: []
| ISkipBranch -> MSkip :: []

(** val expand_body_from : nat -> nat -> instr list -> micro list **)

let rec expand_body_from body pc = function
| [] -> []
| i :: t ->
  (MBegin pc) :: (app (expand body pc i) (expand_body_from body (S pc) t))

(** val exit_seq : nat -> micro list **)

let exit_seq = function
| O -> MReleaseAll :: (MLazyDrop :: (MDropLocals :: (MTerminate :: [])))
| S _ -> MReleaseAll :: (MExitNotify :: (MDropLocals :: (MTerminate :: [])))

(** val expand_prog : prog -> micro list list **)

let expand_prog p =
  mapi (fun b l -> app (expand_body_from b O l) (exit_seq b)) p.p_bodies

(** val create_object : decl -> vv -> vv -> (object0, panic) sum **)

let create_object d caus released =
  match d with
  | DAtomic v ->
    (match atomic_new O caus released v with
     | Inl s -> Inl (OAtomic s)
     | Inr p -> Inr p)
  | DMutex ->
    Inl (OMutex { mx_seqcst = true; mx_lock = None; mx_last = None; mx_sync =
      vv_new })
  | DRwLock ->
    Inl (ORwLock { rw_lock = None; rw_last = None; rw_sync = vv_new })
  | DCondvar -> Inl (OCondvar { cv_last = None; cv_waiters = [] })
  | DNotify ->
    Inl (ONotify { nt_spurious = true; nt_did_spur = false; nt_seqcst =
      false; nt_notified = false; nt_last = None; nt_sync = vv_new })
  | DChan ->
    Inl (OChannel { ch_cnt = O; ch_last_send = None; ch_last_recv = None;
      ch_sender_sync = vv_new; ch_recv_sync = [] })
  | DCell -> Inl (OCell (cell_new caus))
  | DArc ->
    Inl (OArc { arc_cnt = (S O); arc_sync = vv_new; arc_last_inc = None;
      arc_last_dec = None; arc_last_inspect = None; arc_last_mod = None })
  | DTrack -> Inl (OAlloc false)

(** val create_objects :
    decl list -> vv -> vv -> (object0 list, panic) sum **)

let rec create_objects ds caus released =
  match ds with
  | [] -> Inl []
  | d :: t ->
    (match create_object d caus released with
     | Inl o ->
       (match create_objects t caus released with
        | Inl os -> Inl (o :: os)
        | Inr p -> Inr p)
     | Inr p -> Inr p)

(** val init_exec : prog -> path -> exec **)

let init_exec p pa =
  let bodies = expand_prog p in
  let main = thread_new O (nth O bodies []) in
  let objs =
    match create_objects p.p_decls vv_new vv_new with
    | Inl os -> os
    | Inr _ -> []
  in
  { e_path = pa; e_threads = (main :: []); e_active = (Some O); e_seqcst =
  vv_new; e_objects = objs; e_max_threads = p.p_cfg.max_threads; e_h =
  (map hobj_of_decl p.p_decls); e_spawned =
  (repeat None (length p.p_bodies)); e_joined =
  (repeat false (length p.p_bodies)); e_log = []; e_bodies = bodies }

type iter_end =
| IterDone
| IterPanic of panic
| IterFuel

(** val run : nat -> exec -> exec * iter_end **)

let rec run fuel e =
  match fuel with
  | O -> (e, IterFuel)
  | S fuel' ->
    (match e.e_active with
     | Some me ->
       (match nth_error e.e_threads me with
        | Some t ->
          (match t.t_cont with
           | [] ->
             (e, (IterPanic (PanicModel (S (S (S (S (S (S (S (S (S (S (S (S
               (S (S (S (S (S (S (S (S (S (S (S (S (S (S (S (S (S (S (S
               O))))))))))))))))))))))))))))))))))
           | m :: rest ->
             let e1 = upd_thread e me (fun t0 -> th_set_cont t0 rest) in
             (match exec_micro e1 me m with
              | MOk e2 -> run fuel' e2
              | MFail (e2, p) -> (e2, (IterPanic p))))
        | None ->
          (e, (IterPanic (PanicModel (S (S (S (S (S (S (S (S (S (S (S (S (S
            (S (S (S (S (S (S (S (S (S (S (S (S (S (S (S (S (S
            O))))))))))))))))))))))))))))))))))
     | None -> (e, IterDone))

(** val iteration : nat -> prog -> path -> exec * iter_end **)

let iteration fuel p pa =
  let (e, r) = run fuel (init_exec p pa) in
  (match r with
   | IterDone ->
     (match check_for_leaks e.e_objects with
      | Some pn -> (e, (IterPanic pn))
      | None -> (e, IterDone))
   | _ -> (e, r))

type iter_record = { ir_begin : path; ir_end : path; ir_log : logline list;
                     ir_result : iter_end }

type run_end =
| RunOk
| RunPanic of panic
| RunFuel

(** val ci_of : config -> nat **)

let ci_of c =
  match c.checkpoint_interval with
  | Some n0 -> n0
  | None ->
    mul (S (S (S (S (S (S (S (S (S (S (S (S (S (S (S (S (S (S (S (S (S (S (S
      (S (S (S (S (S (S (S (S (S (S (S (S (S (S (S (S (S (S (S (S (S (S (S (S
      (S (S (S (S (S (S (S (S (S (S (S (S (S (S (S (S (S (S (S (S (S (S (S (S
      (S (S (S (S (S (S (S (S (S (S (S (S (S (S (S (S (S (S (S (S (S (S (S (S
      (S (S (S (S (S (S (S (S (S (S (S (S (S (S (S (S (S (S (S (S (S (S (S (S
      (S (S (S (S (S (S (S (S (S (S (S (S (S (S (S (S (S (S (S (S (S (S (S (S
      (S (S (S (S (S (S (S (S (S (S (S (S (S (S (S (S (S (S (S (S (S (S (S (S
      (S (S (S (S (S (S (S (S (S (S (S (S (S (S (S (S (S (S (S (S (S (S (S (S
      (S (S (S (S (S (S (S (S (S
      O))))))))))))))))))))))))))))))))))))))))))))))))))))))))))))))))))))))))))))))))))))))))))))))))))))))))))))))))))))))))))))))))))))))))))))))))))))))))))))))))))))))))))))))))))))))))))))))))))))))))
      (S (S (S (S (S (S (S (S (S (S (S (S (S (S (S (S (S (S (S (S (S (S (S (S
      (S (S (S (S (S (S (S (S (S (S (S (S (S (S (S (S (S (S (S (S (S (S (S (S
      (S (S (S (S (S (S (S (S (S (S (S (S (S (S (S (S (S (S (S (S (S (S (S (S
      (S (S (S (S (S (S (S (S (S (S (S (S (S (S (S (S (S (S (S (S (S (S (S (S
      (S (S (S (S
      O))))))))))))))))))))))))))))))))))))))))))))))))))))))))))))))))))))))))))))))))))))))))))))))))))))

(** val check_loop :
    nat -> nat -> prog -> nat -> path -> path option -> iter_record list ->
    (iter_record list * run_end) * path option **)

let rec check_loop ifuel fuel p i pa ck acc =
  match ifuel with
  | O -> (((rev acc), RunFuel), ck)
  | S ifuel' ->
    let at_boundary = Nat.eqb (Nat.modulo i (ci_of p.p_cfg)) O in
    let ck0 = if at_boundary then Some pa else ck in
    let stop =
      (&&) at_boundary
        (match p.p_cfg.max_permutations with
         | Some mp -> Nat.leb mp i
         | None -> false)
    in
    if stop
    then (((rev acc), RunOk), ck0)
    else let (e, r) = iteration fuel p pa in
         let rec0 = { ir_begin = pa; ir_end = e.e_path; ir_log =
           (rev e.e_log); ir_result = r }
         in
         (match r with
          | IterDone ->
            (match step e.e_path with
             | Some pa' ->
               check_loop ifuel' fuel p (S i) pa' ck0 (rec0 :: acc)
             | None -> (((rev (rec0 :: acc)), RunOk), ck0))
          | IterPanic pn -> (((rev (rec0 :: acc)), (RunPanic pn)), ck0)
          | IterFuel -> (((rev (rec0 :: acc)), RunFuel), ck0))

(** val initial_path : config -> path **)

let initial_path c =
  path_new c.max_branches c.preemption_bound (negb c.explicit_explore)

(** val check :
    nat -> nat -> prog -> (iter_record list * run_end) * path option **)

let check ifuel fuel p =
  check_loop ifuel fuel p (S O) (initial_path p.p_cfg) None []

(** val check_from :
    nat -> nat -> prog -> path -> (iter_record list * run_end) * path option **)

let check_from ifuel fuel p pa =
  check_loop ifuel fuel p (S O) pa (Some pa) []
