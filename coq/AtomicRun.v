(* Executions of Ops.v and the one-cell machine: the frame of every
   micro-operation, the semantic growth step, and the run-level invariant from
   init_exec.  (AtomicBridge.v is used as delivered, apart from the weaker
   i_key1 of AtomicCoRR.v.)

   HEADLINE.  [run_goodAt]: forall p pa a, if a is a declared atomic
   (get_atomic (init_exec p pa) a = Some _) and RunOK p pa a, then along every
   execution  steps (init_exec p pa) e  the atomic a still exists and
   GoodS (atomic a, pclocks e) -- the machine's full invariant of
   AtomicClosure.v -- holds ([GoodAt a e]).  Corollaries in every reachable
   state: [run_atomicity] (every live RMW store is strictly mo-after its live
   source, no live store strictly between), [run_never_none] (assert_ne!
   cannot fire), [run_atomic_exists].
   [RunOK p pa a]: at every access micro-operation on a executed in a state
   reachable from init_exec, [SideOK] holds:
     (i)   the index that choose_store answers for the candidate list of THIS
           access ([micro_seed]) is a candidate, if the list is not empty
           (exploration-level fact; AtomicRun3: automatic while the path is
           being extended.  The clause must not quantify over all candidate
           lists: a replayed entry answers its recorded index whatever the
           list, and a fresh entry for the empty list answers 0);
     (ii)  the ring of a is not full (at_cnt < MAX_ATOMIC_HISTORY);
     (iii) vle (t_rel t0) (t_caus t0) for the accessing thread -- an invariant
           of executions (t_rel is only ever set to a snapshot of t_caus), NOT
           proved here (it needs a thread-side pass over all micro-operations);
     (iv)  the accessing thread's index is < MAX_THREADS (the thread-count
           bound of spawn; not proved here either).

   PROVED (closed under the global context):
   1. The frame.  [acore s s']: same stores, count and mutating flag;
      [akeep a e e']; [exec_micro_akeep] / [exec_micro_akeep_ok]: EVERY
      micro-operation m with ~ acc_on a m (scheduling, every operation on other
      objects and other atomics, fences, spawn, termination ...) keeps the core
      of a (only the DPOR bookkeeping written by sched_note may change).  One
      tactic over all 77 micro-operations, cloned from NotifyFacts.nkeep.
      [acc_on a m]: MLoadPost / MFuLoadPost / MStorePost / MRmwPost /
      MUnsyncLoad / MWithMut / MBoLoad / MBsLoad on a.
   2. BGrowTo.  [growto_goodS]: GoodS survives ANY change of the clock list
      that grows pointwise and stays bounded; [acore_goodS]; [pclocks e] = the
      clocks padded to MAX_THREADS entries (spawn is an ordinary growth step);
      [exec_growto]: clock_wf of the target and SyncMono's clock monotonicity
      give exactly such a step; [frame_step_goodS].
   3. [bstep_reclock], [access_step_padded]: an access step only looks at the
      accessing thread's clock.
   4. [step_goodAt], [steps_goodAt] (abstract form with [AccSide]),
      [steps_atomicity], [steps_never_none].
   5. The start.  [init_goodAt]: every declared atomic satisfies the invariant
      in init_exec (Check.create_object creates it with the all-zero clock: the
      initial store is the bottom store allowed by the weakened i_key1);
      ClockFacts.init_clock_wf and SyncMono.init_exec_track_ok give the rest.
   6. The access micro-operations.  [load_call_is_step_nn],
      [MLoadPost_is_step_nn], [MFuLoadPost_is_step_nn], [load_post_is_step]
      (the polls of block_on); [acc_step_is_bstep]: all EIGHT access
      micro-operations are steps of the generalised machine under [SideOK].
   7. [steps_goodAt_from], [run_goodAt], [run_atomicity], [run_never_none],
      [run_atomic_exists].

   NOT DONE: (iii) and (iv) as invariants; the coherence statements over steps
   (an mo edge between live stores is never lost along an execution; a thread
   that knows store j never again reads a store that was mo-before j): they
   need steps-level versions of AtomicBridge.brun_stable / brun_knows, by the
   same induction as [steps_goodAt_from]. *)
Require Import LV.Base LV.VV LV.VVFacts LV.Path LV.PathSpec LV.PathApi LV.Prog LV.Objects
               LV.Exec LV.Atomic LV.Ops LV.Check LV.SyncFacts LV.ExecFacts LV.SyncMono LV.NotifyFacts
               LV.ClockFacts LV.AtomicFacts LV.AtomicCoherence LV.AtomicCoRR LV.AtomicClosure LV.AtomicBridge.
From Coq Require Import List Arith Lia Bool.
Import ListNotations.

(* ================================================================== *)
(* 1. The frame: what every micro-operation that is not an access to the
      atomic a does to a                                                *)
(* ================================================================== *)

(* the part of an atomic_state the machine's invariant talks about *)
Definition acore (s s' : atomic_state) : Prop :=
  at_stores s' = at_stores s /\ at_cnt s' = at_cnt s /\ at_mutating s' = at_mutating s.

Lemma acore_refl s : acore s s.
Proof. repeat split. Qed.
Lemma acore_trans s1 s2 s3 : acore s1 s2 -> acore s2 s3 -> acore s1 s3.
Proof. intros (A1 & B1 & C1) (A2 & B2 & C2). repeat split; congruence. Qed.

Definition okeepA (o o' : object) : Prop :=
  match o with
  | OAtomic s => exists s', o' = OAtomic s' /\ acore s s'
  | _ => True
  end.

Lemma okeepA_refl o : okeepA o o.
Proof. destruct o; cbn [okeepA]; auto. eexists; split; [reflexivity|apply acore_refl]. Qed.

Definition akeep (a : nat) (e e' : exec) : Prop :=
  forall s, get_atomic e a = Some s ->
    exists s', get_atomic e' a = Some s' /\ acore s s'.

Lemma akeep_refl a e : akeep a e e.
Proof. intros s Hs. exists s. split; [exact Hs|apply acore_refl]. Qed.

Lemma akeep_trans a e1 e2 e3 : akeep a e1 e2 -> akeep a e2 e3 -> akeep a e1 e3.
Proof.
  intros H12 H23 s Hs. destruct (H12 s Hs) as (s2 & Hs2 & Hle2).
  destruct (H23 s2 Hs2) as (s3 & Hs3 & Hle3). exists s3. split; [exact Hs3|].
  eapply acore_trans; eassumption.
Qed.

Lemma akeep_k a e0 e e' : akeep a e e' -> akeep a e0 e -> akeep a e0 e'.
Proof. intros H1 H0. eapply akeep_trans; eassumption. Qed.

Lemma akeep_same a e e' : e_objects e' = e_objects e -> akeep a e e'.
Proof.
  intros Ho s Hs. exists s. split; [|apply acore_refl].
  unfold get_atomic in *. rewrite Ho. exact Hs.
Qed.

Lemma akeep_same_k a e0 e e' : e_objects e' = e_objects e -> akeep a e0 e -> akeep a e0 e'.
Proof. intros Ho. apply akeep_k, akeep_same, Ho. Qed.

Lemma akeep_append a e l : akeep a e (ex_set_objects e (e_objects e ++ l)).
Proof.
  intros s Hs. exists s. split; [|apply acore_refl].
  apply get_atomic_nth in Hs. unfold get_atomic.
  change (e_objects (ex_set_objects e (e_objects e ++ l))) with (e_objects e ++ l).
  rewrite nth_error_app1; [rewrite Hs; reflexivity|]. apply nth_error_Some. congruence.
Qed.

Lemma akeep_append_k a e0 e l :
  akeep a e0 e -> akeep a e0 (ex_set_objects e (e_objects e ++ l)).
Proof. apply akeep_k, akeep_append. Qed.

Lemma akeep_upd_object a e i f :
  (forall o, nth_error (e_objects e) i = Some o -> okeepA o (f o)) ->
  akeep a e (upd_object e i f).
Proof.
  intros Hf s Hs. pose proof (get_atomic_nth _ _ _ Hs) as Hn.
  destruct (Nat.eq_dec i a) as [->|Hne].
  - specialize (Hf _ Hn). cbn [okeepA] in Hf. destruct Hf as (s' & Hfs & Hle).
    exists s'. split; [|exact Hle].
    unfold get_atomic. rewrite nth_error_objects_upd_same, Hn. cbn [option_map].
    rewrite Hfs. reflexivity.
  - exists s. split; [|apply acore_refl].
    unfold get_atomic. rewrite nth_error_objects_upd_other by exact Hne. rewrite Hn. reflexivity.
Qed.

Lemma akeep_upd_object_k a e0 e i o' :
  (forall o, nth_error (e_objects e) i = Some o -> okeepA o o') ->
  akeep a e0 e -> akeep a e0 (upd_object e i (fun _ => o')).
Proof. intros Hf. apply akeep_k, akeep_upd_object, Hf. Qed.

Lemma akeep_upd_other a e i f : i <> a -> akeep a e (upd_object e i f).
Proof.
  intros Hne s Hs. exists s. split; [|apply acore_refl].
  apply get_atomic_nth in Hs.
  unfold get_atomic. rewrite nth_error_objects_upd_other by exact Hne. rewrite Hs. reflexivity.
Qed.

Lemma akeep_upd_other_k a e0 e i f : i <> a -> akeep a e0 e -> akeep a e0 (upd_object e i f).
Proof. intros Hne. apply akeep_k, akeep_upd_other, Hne. Qed.

Lemma okeepA_set_last_access o act tid pid v : okeepA o (set_last_access o act tid pid v).
Proof.
  destruct o; cbn [okeepA]; auto. cbn [set_last_access].
  eexists; split; [reflexivity|]. repeat split.
Qed.

Lemma akeep_sched_note_k a e0 e nx pid th :
  akeep a e0 e -> akeep a e0 (sched_note e nx pid th).
Proof.
  apply akeep_k. unfold sched_note. destruct (t_op th) as [op|]; [|apply akeep_refl].
  destruct (nth_error (e_objects e) (op_obj op)) as [o|]; [|apply akeep_refl].
  cbv zeta.
  match goal with |- akeep _ _ (upd_object ?E _ _) => apply (akeep_trans a _ E) end.
  - apply akeep_same. reflexivity.
  - apply akeep_upd_object. intros o' _. apply okeepA_set_last_access.
Qed.

Lemma schedule_akeep a e : akeep a e (res_exec (fst (schedule e))).
Proof.
  destruct (schedule_cases e)
    as [(c & ->)|[(x & ->)|[(p1 & x & Hd & ->)|(curr & cur_th & p1 & p2 & next & Hp & ->)]]];
    cbn [fst res_exec]; try apply akeep_refl.
  - apply akeep_same. reflexivity.
  - assert (Hb : akeep a e (sched_base e p2 next)) by (apply akeep_same; reflexivity).
    revert Hb. generalize (sched_base e p2 next). intros e1 Hb.
    unfold sched_post. destruct next as [nx|].
    + destruct (nth_error (e_threads e1) nx) as [th|]; cbn [fst res_exec]; [|exact Hb].
      eapply akeep_same_k; [reflexivity|]. apply akeep_sched_note_k, Hb.
    + destruct (forallb is_terminated (e_threads e1)); cbn [fst res_exec]; exact Hb.
Qed.

Lemma schedule_akeep_k a e0 e : akeep a e0 e -> akeep a e0 (res_exec (fst (schedule e))).
Proof. apply akeep_k, schedule_akeep. Qed.

Lemma do_branch_akeep_k a e0 e me obj act blk :
  akeep a e0 e -> akeep a e0 (res_exec (do_branch e me obj act blk)).
Proof.
  intros H. unfold do_branch. apply schedule_akeep_k. eapply akeep_same_k; [reflexivity|exact H].
Qed.

Lemma do_park_akeep_k a e0 e me : akeep a e0 e -> akeep a e0 (res_exec (do_park e me)).
Proof.
  intros H. unfold do_park. destruct (get_thread e me) as [t|]; [|exact H].
  destruct (t_token t); cbn [res_exec].
  - eapply akeep_same_k; [reflexivity|exact H].
  - apply schedule_akeep_k. eapply akeep_same_k; [reflexivity|exact H].
Qed.

Lemma do_yield_akeep_k a e0 e me : akeep a e0 e -> akeep a e0 (res_exec (do_yield e me)).
Proof.
  intros H. unfold do_yield. apply schedule_akeep_k. eapply akeep_same_k; [reflexivity|exact H].
Qed.

Ltac okeepA_const Hg :=
  let o := fresh "o" in let Ho := fresh "Ho" in
  intros o Ho; rewrite Hg in Ho; injection Ho as <-; exact I.

Lemma release_lock_akeep_k a e0 e me m : akeep a e0 e -> akeep a e0 (release_lock e me m).
Proof.
  intros H. unfold release_lock. destruct (get_mutex e m) as [s|] eqn:Hg; [|exact H].
  apply get_mutex_nth in Hg. cbv zeta.
  match goal with |- akeep _ _ (match e_active ?E with _ => _ end) =>
    assert (H1 : akeep a e0 E) end.
  { apply akeep_upd_object_k; [okeepA_const Hg|exact H]. }
  destruct (e_active _); [|exact H1].
  eapply akeep_same_k; [reflexivity|]. apply akeep_upd_object_k; [|exact H1].
  intros o Ho. rewrite nth_error_objects_upd_same, Hg in Ho. cbn [option_map] in Ho.
  injection Ho as <-. exact I.
Qed.

Lemma post_acquire_akeep a e me m : akeep a e (fst (post_acquire e me m)).
Proof.
  unfold post_acquire. destruct (get_mutex e m) as [s|] eqn:Hg; [|apply akeep_refl].
  apply get_mutex_nth in Hg. destruct (is_some (mx_lock s)); cbn [fst]; [apply akeep_refl|].
  eapply akeep_same_k; [reflexivity|]. eapply akeep_same_k; [reflexivity|].
  apply akeep_upd_object_k; [okeepA_const Hg|apply akeep_refl].
Qed.

Lemma post_acquire_read_akeep a e me r : akeep a e (fst (post_acquire_read e me r)).
Proof.
  unfold post_acquire_read. destruct (get_rw e r) as [s|] eqn:Hg; [|apply akeep_refl].
  apply get_rw_nth in Hg.
  destruct (rw_lock s) as [[rs|x]|]; cbn [fst]; try apply akeep_refl.
  all: eapply akeep_same_k; [reflexivity|]; eapply akeep_same_k; [reflexivity|];
    apply akeep_upd_object_k; [okeepA_const Hg|apply akeep_refl].
Qed.

Lemma post_acquire_write_akeep a e me r : akeep a e (fst (post_acquire_write e me r)).
Proof.
  unfold post_acquire_write. destruct (get_rw e r) as [s|] eqn:Hg; [|apply akeep_refl].
  apply get_rw_nth in Hg.
  destruct (rw_lock s) as [lk|]; cbn [fst]; try apply akeep_refl.
  eapply akeep_same_k; [reflexivity|]; eapply akeep_same_k; [reflexivity|];
    apply akeep_upd_object_k; [okeepA_const Hg|apply akeep_refl].
Qed.

Lemma release_read_akeep a e me r : akeep a e (res_exec (release_read e me r)).
Proof.
  unfold release_read. destruct (get_rw e r) as [s|] eqn:Hg; [|apply akeep_refl].
  apply get_rw_nth in Hg. cbv zeta.
  destruct (rw_lock s) as [[rs|x]|]; cbn [res_exec]; try apply akeep_refl.
  destruct (set_remove me rs); cbn [res_exec].
  - eapply akeep_same_k; [reflexivity|]. apply akeep_upd_object_k; [okeepA_const Hg|apply akeep_refl].
  - apply akeep_upd_object_k; [okeepA_const Hg|apply akeep_refl].
Qed.

Lemma release_write_akeep a e me r : akeep a e (res_exec (release_write e me r)).
Proof.
  unfold release_write. destruct (get_rw e r) as [s|] eqn:Hg; [|apply akeep_refl].
  apply get_rw_nth in Hg. cbn [res_exec].
  eapply akeep_same_k; [reflexivity|]. apply akeep_upd_object_k; [okeepA_const Hg|apply akeep_refl].
Qed.

Lemma choose_store_akeep a e seed : akeep a e (fst (choose_store e seed)).
Proof. destruct (SyncMono.choose_store_frame e seed) as (_ & H2 & _). apply akeep_same. exact H2. Qed.

(* ================================================================== *)
(* 2. One micro-operation                                              *)
(* ================================================================== *)

Ltac aside_obj :=
  let o := fresh "o" in
  let Ho := fresh "Ho" in
  intros o Ho; conv_hyps; autorewrite with eobj in *;
  try match goal with
      | Hco : e_objects ?e1 = e_objects _ |- _ => rewrite Hco in Ho
      end;
  match goal with
  | Hg : nth_error ?l ?i = Some _, Ho' : nth_error ?l ?i = Some o |- _ =>
      rewrite Hg in Ho'; injection Ho' as Ho'; subst o
  end;
  cbn [okeepA];
  exact I.

Ltac aclose_step :=
  match goal with
  | |- akeep _ ?e ?e => apply akeep_refl
  | H : akeep ?a ?E ?x |- akeep ?a _ ?x => apply (akeep_trans a _ E x); [|exact H]
  | |- akeep _ _ (ex_set_objects ?e (e_objects ?e ++ _)) => apply akeep_append_k
  | |- akeep _ _ (release_lock _ _ _) => apply release_lock_akeep_k
  | Hne : ?b <> ?a |- akeep ?a _ (upd_object _ ?b _) => apply akeep_upd_other_k; [exact Hne|]
  | |- akeep _ _ (upd_object _ _ _) => apply akeep_upd_object_k; [aside_obj|]
  | |- akeep _ _ (log_op ?e _ _) => apply (akeep_same_k _ _ e); [eobj_tac|]
  | |- akeep _ _ (log_poll ?e _) => apply (akeep_same_k _ _ e); [eobj_tac|]
  | |- akeep _ _ (push_cont ?e _ _) => apply (akeep_same_k _ _ e); [eobj_tac|]
  | |- akeep _ _ (push_guard ?e _ _ _) => apply (akeep_same_k _ _ e); [eobj_tac|]
  | |- akeep _ _ (drop_guard ?e _ _ _) => apply (akeep_same_k _ _ e); [eobj_tac|]
  | |- akeep _ _ (causality_inc ?e _) => apply (akeep_same_k _ _ e); [eobj_tac|]
  | |- akeep _ _ (set_slot ?e _ _ _) => apply (akeep_same_k _ _ e); [eobj_tac|]
  | |- akeep _ _ (threads_unpark ?e _ _) => apply (akeep_same_k _ _ e); [eobj_tac|]
  | |- akeep _ _ (fold_left _ _ ?e) => apply (akeep_same_k _ _ e); [eobj_tac|]
  | |- akeep _ _ (ex_set_path ?e _) => apply (akeep_same_k _ _ e); [eobj_tac|]
  | |- akeep _ _ (ex_set_active ?e _) => apply (akeep_same_k _ _ e); [eobj_tac|]
  | |- akeep _ _ (ex_set_seqcst ?e _) => apply (akeep_same_k _ _ e); [eobj_tac|]
  | |- akeep _ _ (ex_set_spawned ?e _) => apply (akeep_same_k _ _ e); [eobj_tac|]
  | |- akeep _ _ (ex_set_joined ?e _) => apply (akeep_same_k _ _ e); [eobj_tac|]
  | |- akeep _ _ (ex_set_log ?e _) => apply (akeep_same_k _ _ e); [eobj_tac|]
  | |- akeep _ _ (ex_set_lazy ?e _) => apply (akeep_same_k _ _ e); [eobj_tac|]
  | |- akeep _ _ (ex_set_threads ?e _) => apply (akeep_same_k _ _ e); [eobj_tac|]
  | |- akeep _ _ (ex_set_h ?e _) => apply (akeep_same_k _ _ e); [eobj_tac|]
  | |- akeep _ _ (upd_thread ?e _ _) => apply (akeep_same_k _ _ e); [eobj_tac|]
  | |- akeep _ _ (upd_hobj ?e _ _) => apply (akeep_same_k _ _ e); [eobj_tac|]
  | |- akeep _ _ (set_caus ?e _ _) => apply (akeep_same_k _ _ e); [eobj_tac|]
  | |- akeep _ _ (map_others ?e _ _ _) => apply (akeep_same_k _ _ e); [eobj_tac|]
  end.

(* (the two rewrites: the dead first write of a disconnected MSendPost) *)
Ltac aclose :=
  cbn [res_exec lp_exec];
  rewrite ?upd_object_map_others_upd_object_const, ?upd_object_upd_object_const;
  repeat aclose_step.

Ltac astep :=
  match goal with
  | |- akeep _ _ (res_exec (fst (schedule _))) => apply schedule_akeep_k
  | |- akeep _ _ (res_exec (do_branch _ _ _ _ _)) => apply do_branch_akeep_k
  | |- akeep _ _ (res_exec (do_park _ _)) => apply do_park_akeep_k
  | |- akeep _ _ (res_exec (do_yield _ _)) => apply do_yield_akeep_k
  | |- akeep ?a _ ?G =>
      match G with
      | context [post_acquire ?e ?me ?m] =>
          let H := fresh "Hfr" in
          pose proof (post_acquire_akeep a e me m) as H;
          destruct (post_acquire e me m); cbn [fst] in H
      | context [post_acquire_read ?e ?me ?m] =>
          let H := fresh "Hfr" in
          pose proof (post_acquire_read_akeep a e me m) as H;
          destruct (post_acquire_read e me m); cbn [fst] in H
      | context [post_acquire_write ?e ?me ?m] =>
          let H := fresh "Hfr" in
          pose proof (post_acquire_write_akeep a e me m) as H;
          destruct (post_acquire_write e me m); cbn [fst] in H
      | context [release_read ?e ?me ?m] =>
          let H := fresh "Hfr" in
          pose proof (release_read_akeep a e me m) as H;
          destruct (release_read e me m); cbn [res_exec] in H
      | context [release_write ?e ?me ?m] =>
          let H := fresh "Hfr" in
          pose proof (release_write_akeep a e me m) as H;
          destruct (release_write e me m); cbn [res_exec] in H
      | context [choose_store ?e ?s] =>
          let H := fresh "Hfr" in
          let Hct := fresh "Hct" in
          let Hco := fresh "Hco" in
          pose proof (choose_store_akeep a e s) as H;
          destruct (SyncMono.choose_store_frame e s) as (Hct & Hco & _);
          destruct (choose_store e s) as [? [?|?]]; cbn [fst] in H, Hct, Hco
      end
  | |- context [match ?x with _ => _ end] =>
      lazymatch x with
      | context [match _ with _ => _ end] => fail
      | _ => destruct x eqn:?
      end
  end; cbv beta iota.

Lemma load_post_akeep a e me b o : b <> a -> akeep a e (lp_exec (load_post e me b o)).
Proof. intros Hne. unfold load_post. repeat astep. all: aclose. Qed.

Ltac astep' :=
  first [ match goal with
          | Hne : ?b <> ?a |- akeep ?a _ ?G =>
              match G with
              | context [load_post ?e ?me b ?o] =>
                  let H := fresh "Hfr" in
                  pose proof (load_post_akeep a e me b o Hne) as H;
                  destruct (load_post e me b o) as [[? ?]|[? ?]]; cbn [lp_exec] in H; cbv beta iota
              end
          end
        | astep ].

Ltac ak_tac :=
  cbn [exec_micro]; unfold lift_path, mbind; cbv beta iota;
  repeat astep'; aclose.

(* the micro-operations that access the atomic a *)
Definition acc_on (a : nat) (m : micro) : Prop :=
  match m with
  | MLoadPost b _ _ | MFuLoadPost b _ _ _ _ | MStorePost b _ _ | MRmwPost b _ _ _
  | MUnsyncLoad b | MWithMut b _ | MBoLoad b _ _ _ _ _ | MBsLoad b _ _ _ _ _ _ => b = a
  | _ => False
  end.

Lemma track_ok_not_atomic e k s :
  track_ok e -> ho_track (get_h e k) = true -> get_atomic e k = Some s -> False.
Proof.
  intros [_ Htr] Hk Hs. apply get_atomic_nth in Hs.
  destruct (Htr k _ Hk Hs) as [d Hd]. discriminate Hd.
Qed.

(* every other micro-operation (scheduling, other objects, other atomics,
   spawn, fences ...) keeps the stores, the count and the mutating flag of a *)
Lemma exec_micro_akeep a e me m :
  track_ok e -> ~ acc_on a m -> akeep a e (res_exec (exec_micro e me m)).
Proof.
  intros Htr Hm.
  destruct m;
    try match goal with
        | |- akeep _ _ (res_exec (exec_micro _ _ (MNotifyWait2 _))) => idtac
        | |- akeep _ _ (res_exec (exec_micro _ _ (MTrackDrop _))) => idtac
        | |- akeep _ _ (res_exec (exec_micro _ _ (MLoadPost _ _ _))) => idtac
        | |- akeep _ _ (res_exec (exec_micro _ _ (MFuLoadPost _ _ _ _ _))) => idtac
        | |- akeep _ _ (res_exec (exec_micro _ _ (MStorePost _ _ _))) => idtac
        | |- akeep _ _ (res_exec (exec_micro _ _ (MRmwPost _ _ _ _))) => idtac
        | |- akeep _ _ (res_exec (exec_micro _ _ (MUnsyncLoad _))) => idtac
        | |- akeep _ _ (res_exec (exec_micro _ _ (MWithMut _ _))) => idtac
        | |- akeep _ _ (res_exec (exec_micro _ _ (MBoLoad _ _ _ _ _ _))) => idtac
        | |- akeep _ _ (res_exec (exec_micro _ _ (MBsLoad _ _ _ _ _ _ _))) => idtac
        | |- _ => clear Htr Hm; ak_tac
        end.
  - (* MNotifyWait2 *)
    rewrite exec_micro_notify_wait2.
    destruct (get_notify e n) as [s0|] eqn:Hg; cbn [res_exec]; [|apply akeep_refl].
    destruct (negb (nt_notified s0)); cbn [res_exec]; [apply akeep_refl|].
    apply akeep_upd_object_k; [|apply akeep_same; reflexivity].
    intros o Ho. apply get_notify_nth in Hg. autorewrite with eobj in Ho.
    rewrite Hg in Ho. injection Ho as <-. exact I.
  - (* MLoadPost *) assert (Hne : a0 <> a) by (intros E; apply Hm; exact E). clear Htr Hm. ak_tac.
  - (* MFuLoadPost *) assert (Hne : a0 <> a) by (intros E; apply Hm; exact E). clear Htr Hm. ak_tac.
  - (* MStorePost *) assert (Hne : a0 <> a) by (intros E; apply Hm; exact E). clear Htr Hm. ak_tac.
  - (* MRmwPost *) assert (Hne : a0 <> a) by (intros E; apply Hm; exact E). clear Htr Hm. ak_tac.
  - (* MUnsyncLoad *) assert (Hne : a0 <> a) by (intros E; apply Hm; exact E). clear Htr Hm. ak_tac.
  - (* MWithMut *) assert (Hne : a0 <> a) by (intros E; apply Hm; exact E). clear Htr Hm. ak_tac.
  - (* MTrackDrop k *)
    cbn [exec_micro]. destruct (ho_track (get_h e k)) eqn:Hk; cbn [res_exec].
    + eapply akeep_same_k; [apply e_objects_log_op|].
      destruct (Nat.eq_dec k a) as [->|Hne].
      * intros s Hs. destruct (track_ok_not_atomic _ _ _ Htr Hk Hs).
      * eapply akeep_trans; [|apply akeep_upd_other; exact Hne]. apply akeep_same. reflexivity.
    + apply akeep_same. apply e_objects_log_op.
  - (* MBoLoad *) assert (Hne : a0 <> a) by (intros E; apply Hm; exact E). clear Htr Hm. ak_tac.
  - (* MBsLoad *) assert (Hne : a0 <> a) by (intros E; apply Hm; exact E). clear Htr Hm. ak_tac.
Qed.

Lemma exec_micro_akeep_ok a e me m e' :
  track_ok e -> ~ acc_on a m -> exec_micro e me m = MOk e' -> akeep a e e'.
Proof.
  intros Htr Hm H. pose proof (exec_micro_akeep a e me m Htr Hm) as Hk. rewrite H in Hk. exact Hk.
Qed.

(* ================================================================== *)
(* 2. BGrowTo: the clocks grow pointwise and stay bounded                *)
(* ================================================================== *)

Theorem growto_goodS : forall s cs cs',
  GoodS (s, cs) -> length cs' = length cs ->
  (forall u, vle (clk cs u) (clk cs' u)) ->
  (forall t, t < length cs' -> t < length (clk cs' t)) ->
  (forall u t, u < length cs' -> t < length cs' -> vv_get (clk cs' u) t <= vv_get (clk cs' t) t) ->
  GoodS (s, cs').
Proof.
  intros s cs cs' [[own [rk [HI [HL [HC HSy]]]]] HS] Hlen Hg Hcl Hb. cbn [fst snd] in *.
  split; [|apply (@stamp_clock s cs cs' HS Hg)].
  exists own, rk. cbn [fst snd]. split; [|split; [exact HL | split; [exact HC | exact HSy]]].
  destruct HI. constructor; try assumption.
  - rewrite Hlen. assumption.
  - intros a Ha. rewrite Hlen. apply i_own. exact Ha.
  - intros a t Ha Ht. rewrite Hlen in Ht. pose proof (i_bmo a t Ha Ht). pose proof (Hg t t). lia.
  - intros a t Ha Ht. rewrite Hlen in Ht. pose proof (i_bsync a t Ha Ht). pose proof (Hg t t). lia.
Qed.

Theorem acore_goodS : forall s s' cs, GoodS (s, cs) -> acore s s' -> GoodS (s', cs).
Proof.
  intros s s' cs [[own [rk HG]] HS] (A & B & C). cbn [fst snd] in *.
  pose proof (@EqSt_same_stores s s' B C A) as HE.
  split; [exists own, rk; apply (EqSt_GoodO HE HG) | apply (EqSt_StampO HE HS)].
Qed.

(* the clocks of an execution state, one entry per possible thread *)
Definition pclocks (e : exec) : list vv := map (caus_of e) (seq 0 MAX_THREADS).

Lemma pclocks_length e : length (pclocks e) = MAX_THREADS.
Proof. unfold pclocks. rewrite map_length, seq_length. reflexivity. Qed.

Lemma clk_pclocks e u : u < MAX_THREADS -> clk (pclocks e) u = caus_of e u.
Proof.
  intros Hu. unfold clk, pclocks.
  rewrite (nth_indep _ vv_new (caus_of e 0)) by (rewrite map_length, seq_length; exact Hu).
  rewrite (map_nth (caus_of e) (seq 0 MAX_THREADS) 0 u). rewrite seq_nth by exact Hu. reflexivity.
Qed.

Lemma clk_pclocks_over e u : MAX_THREADS <= u -> clk (pclocks e) u = vv_new.
Proof. intros Hu. unfold clk. apply nth_overflow. rewrite pclocks_length. exact Hu. Qed.

(* clock_wf of the target and monotonicity give exactly a BGrowTo step *)
Theorem exec_growto : forall e e' s,
  clock_wf e' -> cmono e e' -> GoodS (s, pclocks e) -> GoodS (s, pclocks e').
Proof.
  intros e e' s Hcw Hm HG. apply (growto_goodS s (pclocks e) (pclocks e') HG).
  - rewrite !pclocks_length. reflexivity.
  - intros u. destruct (Nat.lt_ge_cases u MAX_THREADS) as [Hu|Hu].
    + rewrite !clk_pclocks by exact Hu. apply Hm.
    + rewrite !clk_pclocks_over by exact Hu. apply vle_refl.
  - intros t Ht. rewrite pclocks_length in Ht. rewrite clk_pclocks by exact Ht.
    unfold caus_of. destruct (get_thread e' t) as [th|] eqn:Hth.
    + destruct (proj1 Hcw t th Hth) as (_ & _ & Hl). lia.
    + unfold vv_new. rewrite repeat_length. exact Ht.
  - intros u t Hu Ht. rewrite pclocks_length in Hu, Ht. rewrite !clk_pclocks by assumption.
    apply (CWw_caus_of _ _ u Hcw t).
Qed.

(* ================================================================== *)
(* 3. One step of an execution                                          *)
(* ================================================================== *)

(* a micro-operation that is not an access to a: BGrowTo + frame *)
Theorem frame_step_goodS : forall a e me m e' s,
  track_ok e -> clock_wf e -> ~ acc_on a m -> exec_micro e me m = MOk e' ->
  get_atomic e a = Some s -> GoodS (s, pclocks e) ->
  exists s', get_atomic e' a = Some s' /\ acore s s' /\ GoodS (s', pclocks e').
Proof.
  intros a e me m e' s Htr Hcw Hna Hx Hs HG.
  destruct (exec_micro_akeep_ok a e me m e' Htr Hna Hx s Hs) as (s' & Hs' & Hac).
  exists s'. split; [exact Hs'|]. split; [exact Hac|].
  apply (acore_goodS s s' (pclocks e')); [|exact Hac].
  apply (exec_growto e e' s); [apply (exec_micro_clock_wf_ok e me m e' Hcw Hx)| |exact HG].
  destruct (exec_micro_mono_ok _ _ _ _ Hx) as (_ & Hc & _). exact Hc.
Qed.

(* popping the continuation (what [steps] does before every micro-operation) *)
Lemma pop_cont_frame : forall e me rest,
  pclocks (upd_thread e me (fun t => th_set_cont t rest)) = pclocks e /\
  (forall a, get_atomic (upd_thread e me (fun t => th_set_cont t rest)) a = get_atomic e a).
Proof.
  intros e me rest. split; [|intros a; reflexivity].
  unfold pclocks. apply map_ext. intros j. apply caus_of_upd_thread_keep. intros t. reflexivity.
Qed.

(* ---- an access step only looks at the accessing thread's own clock ---- *)
Definition access_bop (b : bop) : Prop :=
  match b with
  | BOp (XLoad _ _) | BStoreR _ _ _ | BRmwR _ _ _ _ _ | BUnsyncLoad | BWithMut _ => True
  | _ => False
  end.

Lemma bstep_reclock : forall s cs1 cs2 t b s' cs1',
  access_bop b -> t < length cs2 -> clk cs2 t = clk cs1 t ->
  bstep (s, cs1) t b = Some (s', cs1') ->
  exists c', cs1' = list_set cs1 t c' /\ bstep (s, cs2) t b = Some (s', list_set cs2 t c').
Proof.
  intros s cs1 cs2 t b s' cs1' Hb Ht2 Hclk H.
  assert (Hl2 : Nat.ltb t (length cs2) = true) by (apply Nat.ltb_lt; exact Ht2).
  destruct b as [[idx o|v o|idx f so fo|u]|v|rel v o|rel idx f so fo| |v]; cbn [access_bop] in Hb; try contradiction;
    cbn [bstep] in *.
  - (* load *)
    unfold mstep in *. rewrite Hl2. cbn [negb]. rewrite Hclk.
    destruct (negb (Nat.ltb t (length cs1))); [discriminate|].
    destruct (match_load_to_stores s t (vv_inc (clk cs1 t) t) None o) as [l|]; [|discriminate].
    destruct (existsb (Nat.eqb idx) l); [|discriminate].
    destruct (atomic_load_g RModel s t (vv_inc (clk cs1 t) t) idx o) as [[[s1 c1] v1]|p]; [|discriminate].
    inversion H. subst. exists c1. split; reflexivity.
  - (* store *)
    unfold store_stepR in *. rewrite Hl2. cbn [negb]. rewrite Hclk.
    destruct (negb (Nat.ltb t (length cs1))); [discriminate|].
    destruct (Nat.leb MAX_ATOMIC_HISTORY (at_cnt s)); [discriminate|]. cbv zeta in *.
    destruct (negb (vv_le rel (vv_inc (clk cs1 t) t))); [discriminate|].
    destruct (track_store s (vv_inc (clk cs1 t) t)) as [s1|p]; [|discriminate].
    inversion H. subst. eexists. split; reflexivity.
  - (* rmw *)
    unfold rmw_stepR in *. rewrite Hl2. cbn [negb]. rewrite Hclk.
    destruct (negb (Nat.ltb t (length cs1))); [discriminate|].
    destruct (Nat.leb MAX_ATOMIC_HISTORY (at_cnt s)); [discriminate|]. cbv zeta in *.
    destruct (negb (vv_le rel (vv_inc (clk cs1 t) t))); [discriminate|].
    destruct (match_rmw_to_stores s) as [l|]; [|discriminate].
    destruct (existsb (Nat.eqb idx) l); [|discriminate].
    destruct (atomic_rmw s t (vv_inc (clk cs1 t) t) rel idx so fo f) as [[[[s1 c1] pv] ok]|p]; [|discriminate].
    inversion H. subst. exists c1. split; reflexivity.
  - (* unsync load *)
    unfold unsync_load_step in *. rewrite Hl2. cbn [negb]. rewrite Hclk.
    destruct (negb (Nat.ltb t (length cs1))); [discriminate|]. cbv zeta in *.
    destruct (track_unsync_load s (vv_inc (clk cs1 t) t)) as [s1|p]; [|discriminate].
    inversion H. subst. eexists. split; reflexivity.
  - (* with_mut *)
    unfold with_mut_step in *. rewrite Hl2. cbn [negb]. rewrite Hclk.
    destruct (negb (Nat.ltb t (length cs1))); [discriminate|]. cbv zeta in *.
    destruct (track_unsync_mut s (vv_inc (clk cs1 t) t)) as [s1|p]; [|discriminate].
    match type of H with match track_unsync_mut ?S2 _ with _ => _ end = _ =>
      destruct (track_unsync_mut S2 (vv_inc (clk cs1 t) t)) as [s3|p]; [|discriminate] end.
    inversion H. subst. eexists. split; reflexivity.
Qed.

Lemma clk_clocks_caus : forall e j, clk (clocks e) j = caus_of e j.
Proof.
  intros e j. unfold clk, clocks, caus_of, get_thread.
  revert j. induction (e_threads e) as [|h r IH]; intros j; [destruct j; reflexivity|].
  destruct j as [|j]; cbn; [reflexivity | apply IH].
Qed.

Lemma pclocks_as_clk : forall e, pclocks e = map (clk (clocks e)) (seq 0 MAX_THREADS).
Proof. intros e. unfold pclocks. apply map_ext. intros j. symmetry. apply clk_clocks_caus. Qed.

Lemma pclocks_list_set : forall e e' me c',
  me < length (clocks e) -> me < MAX_THREADS ->
  clocks e' = list_set (clocks e) me c' -> pclocks e' = list_set (pclocks e) me c'.
Proof.
  intros e e' me c' Hme HmeT Hc. rewrite !pclocks_as_clk, Hc.
  apply (nth_ext _ _ vv_new vv_new).
  - rewrite list_set_length, !map_length. reflexivity.
  - intros k Hk. rewrite map_length, seq_length in Hk.
    assert (Hset : nth k (list_set (map (clk (clocks e)) (seq 0 MAX_THREADS)) me c') vv_new =
                   if Nat.eqb k me then c' else nth k (map (clk (clocks e)) (seq 0 MAX_THREADS)) vv_new).
    { apply list_set_nth. rewrite map_length, seq_length. exact HmeT. }
    rewrite Hset.
    assert (Hn : forall g, nth k (map g (seq 0 MAX_THREADS)) vv_new = g k).
    { intros g. rewrite (nth_indep _ vv_new (g 0)) by (rewrite map_length, seq_length; exact Hk).
      rewrite (map_nth g (seq 0 MAX_THREADS) 0 k). rewrite seq_nth by exact Hk. reflexivity. }
    rewrite !Hn. rewrite (clk_set (clocks e) me c' k Hme). reflexivity.
Qed.

(* an access step on (a, clocks e) is the same step on the padded clocks *)
Theorem access_step_padded : forall e e' me b s s',
  access_bop b -> me < MAX_THREADS -> me < length (clocks e) ->
  bstep (s, clocks e) me b = Some (s', clocks e') ->
  bstep (s, pclocks e) me b = Some (s', pclocks e').
Proof.
  intros e e' me b s s' Hb HmeT Hme H.
  assert (Hclk : clk (pclocks e) me = clk (clocks e) me).
  { rewrite clk_pclocks by exact HmeT. symmetry. apply clk_clocks_caus. }
  destruct (bstep_reclock s (clocks e) (pclocks e) me b s' (clocks e') Hb
              ltac:(rewrite pclocks_length; exact HmeT) Hclk H) as (c' & Hc & Hs).
  rewrite Hs. rewrite (pclocks_list_set e e' me c' Hme HmeT Hc). reflexivity.
Qed.

(* ================================================================== *)
(* 4. Runs: SyncMono.steps                                              *)
(* ================================================================== *)

Lemma acc_on_dec : forall a m, {acc_on a m} + {~ acc_on a m}.
Proof.
  intros a m. destruct m; cbn [acc_on]; try (right; intros H; exact H); apply Nat.eq_dec.
Qed.

(* what is assumed about the access micro-operations on a: each of them is a
   step of the generalised machine on (atomic a, map t_caus threads).  The
   lemmas AtomicBridge.MLoadPost_is_step, MFuLoadPost_is_step,
   MStorePost_is_step, MRmwPost_is_step, MUnsyncLoad_is_step, MWithMut_is_step
   prove exactly this for the six plain access micro-operations from: "the
   index replayed by choose_store is a candidate", "t_rel <= t_caus", "the ring
   is not full"; the polls of block_on (MBoLoad / MBsLoad) are not covered. *)
Definition AccSide (a : nat) : Prop :=
  forall e me m e1 s,
    clock_wf e -> track_ok e -> acc_on a m -> exec_micro e me m = MOk e1 ->
    get_atomic e a = Some s -> GoodS (s, pclocks e) ->
    exists s1 b, access_bop b /\ me < length (clocks e) /\ me < MAX_THREADS /\
                 get_atomic e1 a = Some s1 /\
                 bstep (s, clocks e) me b = Some (s1, clocks e1).

(* the invariant of the atomic a in an execution state *)
Definition GoodAt (a : nat) (e : exec) : Prop :=
  exists s, get_atomic e a = Some s /\ GoodS (s, pclocks e).

Theorem step_goodAt : forall a e me m e1,
  AccSide a ->
  clock_wf e -> track_ok e -> exec_micro e me m = MOk e1 -> GoodAt a e -> GoodAt a e1.
Proof.
  intros a e me m e1 Hacc Hcw Htr Hx (s & Hs & HG).
  destruct (acc_on_dec a m) as [Ha|Hna].
  - destruct (Hacc e me m e1 s Hcw Htr Ha Hx Hs HG) as (s1 & b & Hb & Hme & HmeT & Hs1 & Hstep).
    exists s1. split; [exact Hs1|].
    pose proof (access_step_padded e e1 me b s s1 Hb HmeT Hme Hstep) as Hp.
    apply (@bstep_goodS (s, pclocks e) me b (s1, pclocks e1) HG Hp).
  - destruct (frame_step_goodS a e me m e1 s Htr Hcw Hna Hx Hs HG) as (s' & Hs' & _ & HG').
    exists s'. split; assumption.
Qed.

Lemma pop_cont_wf : forall e me rest,
  clock_wf e -> track_ok e ->
  clock_wf (upd_thread e me (fun t => th_set_cont t rest)) /\
  track_ok (upd_thread e me (fun t => th_set_cont t rest)).
Proof.
  intros e me rest Hcw Htr. split.
  - apply (ck_upd_thread_k e e me (fun t => th_set_cont t rest)); [|apply ck_refl|exact Hcw].
    intros t. apply tstep_keep; reflexivity.
  - apply (track_ok_same e); [reflexivity | reflexivity | exact Htr].
Qed.

(* along every execution the invariant of a is preserved *)
Theorem steps_goodAt : forall a,
  AccSide a ->
  forall e e', steps e e' -> clock_wf e -> track_ok e -> GoodAt a e ->
  GoodAt a e' /\ clock_wf e' /\ track_ok e'.
Proof.
  intros a Hacc e e' H. induction H as [e|e me t m rest e1 e2 Hact Ht Hc Hx Hs IH]; intros Hcw Htr HG.
  - split; [exact HG|]. split; assumption.
  - destruct (pop_cont_wf e me rest Hcw Htr) as [Hcw0 Htr0].
    destruct (pop_cont_frame e me rest) as [Hp0 Hg0].
    assert (HG0 : GoodAt a (upd_thread e me (fun t => th_set_cont t rest))).
    { destruct HG as (s & Hs0 & HGs). exists s. split; [rewrite Hg0; exact Hs0 | rewrite Hp0; exact HGs]. }
    apply IH.
    + apply (exec_micro_clock_wf_ok _ me m e1 Hcw0 Hx).
    + apply (exec_micro_track_ok _ me m e1 Htr0 Hx).
    + apply (step_goodAt a _ me m e1 Hacc Hcw0 Htr0 Hx HG0).
Qed.

(* consequences in every state of the execution *)
Theorem steps_atomicity : forall a e s r sl sid,
  GoodAt a e -> get_atomic e a = Some s -> r < at_cnt s ->
  st_rmw_src (get_store s r) = Some (sl, sid) ->
  sl < at_cnt s /\ vv_lt (mo s sl) (mo s r) = true /\
  forall x, x < at_cnt s -> vv_lt (mo s sl) (mo s x) && vv_lt (mo s x) (mo s r) = false.
Proof.
  intros a e s r sl sid (s0 & Hs0 & HG) Hs Hr Hsrc. rewrite Hs in Hs0. injection Hs0 as <-.
  apply (@Good_atomicity (s, pclocks e) r sl sid (GoodS_Good HG) Hr Hsrc).
Qed.

Theorem steps_never_none : forall a e s,
  GoodAt a e -> get_atomic e a = Some s ->
  (forall t c ly o, match_load_to_stores s t c ly o <> None) /\ match_rmw_to_stores s <> None.
Proof.
  intros a e s (s0 & Hs0 & HG) Hs. rewrite Hs in Hs0. injection Hs0 as <-.
  apply (@Good_never_none (s, pclocks e) (GoodS_Good HG)).
Qed.


(* ================================================================== *)
(* 5. The start: init_exec                                              *)
(* ================================================================== *)

Lemma caus_of_init : forall p pa j, caus_of (init_exec p pa) j = vv_new.
Proof.
  intros p pa j. unfold caus_of, get_thread, init_exec. cbn [e_threads].
  destruct j as [|j]; cbn [nth_error]; [reflexivity | destruct j; reflexivity].
Qed.

Lemma create_objects_atomic : forall ds c r os a s,
  create_objects ds c r = inl os -> nth_error os a = Some (OAtomic s) ->
  exists v, atomic_new 0 c r v = inl s.
Proof.
  induction ds as [|d ds IH]; intros c r os a s Hc Hn.
  - cbn in Hc. inversion Hc. subst os. destruct a; discriminate.
  - cbn [create_objects] in Hc.
    destruct (create_object d c r) as [o|p] eqn:Ho; [|discriminate].
    destruct (create_objects ds c r) as [os'|p] eqn:Hos; [|discriminate].
    inversion Hc. subst os. destruct a as [|a]; cbn [nth_error] in Hn.
    + inversion Hn. subst o. destruct d as [v0| | | | | | | | | ]; cbn [create_object] in Ho; try discriminate.
      destruct (atomic_new 0 c r v0) as [s0|p] eqn:Hn0; [|discriminate].
      inversion Ho. subst s0. exists v0. exact Hn0.
    + apply (IH c r os' a s Hos Hn).
Qed.

(* every declared atomic satisfies the invariant in the initial state *)
Theorem init_goodAt : forall p pa a s,
  get_atomic (init_exec p pa) a = Some s -> GoodAt a (init_exec p pa).
Proof.
  intros p pa a s Hs. exists s. split; [exact Hs|].
  apply get_atomic_nth in Hs. unfold init_exec in Hs. cbn [e_objects] in Hs.
  destruct (create_objects (p_decls p) vv_new vv_new) as [os|pn] eqn:Hc;
    [|destruct a; discriminate].
  destruct (create_objects_atomic _ _ _ _ _ _ Hc Hs) as (v & Hv).
  rewrite atomic_new_eq in Hv. inversion Hv. subst s.
  apply atomic_new_goodS.
  - rewrite pclocks_length. unfold MAX_THREADS. lia.
  - rewrite pclocks_length. apply le_n.
  - rewrite clk_pclocks by (unfold MAX_THREADS; lia). apply caus_of_init.
  - right. intros q. apply vv_new_get.
  - intros t Ht. rewrite pclocks_length in Ht. rewrite clk_pclocks by exact Ht.
    rewrite caus_of_init. unfold vv_new. rewrite repeat_length. exact Ht.
  - intros u t Hu Ht. rewrite pclocks_length in Hu, Ht. rewrite !clk_pclocks by assumption.
    rewrite !caus_of_init, !vv_new_get. apply le_n.
Qed.

(* ================================================================== *)
(* 6. The access micro-operations, from hypotheses about the run         *)
(* ================================================================== *)

(* variants of AtomicBridge's load lemmas that only need "assert_ne! does not
   fire" instead of the invariant on the unpadded clocks *)
Theorem load_call_is_step_nn : forall s cs t ly o l idx s' c' val,
  (forall t c ly o, match_load_to_stores s t c ly o <> None) -> t < length cs ->
  match_load_to_stores s t (vv_inc (clk cs t) t) ly o = Some l -> In idx l ->
  atomic_load s t (vv_inc (clk cs t) t) idx o = inl (s', c', val) ->
  mstep RModel (s, cs) t (XLoad idx o) = Some (s', list_set cs t c').
Proof.
  intros s cs t ly o l idx s' c' val HG Ht Hl Hin Hload.
  unfold mstep. destruct (Nat.ltb_spec t (length cs)) as [_|H]; [|lia]. cbn [negb].
  destruct (match_load_to_stores s t (vv_inc (clk cs t) t) None o) as [l0|] eqn:Hl0.
  - rewrite (@In_existsb_eqb idx l0 (@candidates_ly s t (vv_inc (clk cs t) t) ly o l l0 idx Hl Hl0 Hin)).
    rewrite atomic_load_g_model, Hload. reflexivity.
  - exfalso. apply (HG t (vv_inc (clk cs t) t) None o). exact Hl0.
Qed.

Theorem MLoadPost_is_step_nn : forall e me a o aw e' t0 s,
  get_thread e me = Some t0 -> get_atomic e a = Some s ->
  (forall t c ly o, match_load_to_stores s t c ly o <> None) ->
  (forall e2 idx l,
     choose_store (causality_inc e me)
       (match_load_to_stores s me (vv_inc (t_caus t0) me) (t_last_yield t0) o) = (e2, inl idx) ->
     match_load_to_stores s me (vv_inc (t_caus t0) me) (t_last_yield t0) o = Some l -> In idx l) ->
  exec_micro e me (MLoadPost a o aw) = MOk e' ->
  exists s' idx, get_atomic e' a = Some s' /\
                 bstep (s, clocks e) me (BOp (XLoad idx o)) = Some (s', clocks e').
Proof.
  intros e me a o aw e' t0 s Hth Hat HG Hcand Hex.
  cbn [exec_micro] in Hex. cbv zeta in Hex.
  rewrite (@mb_at1 e me a s Hat), (@mb_th1 e me t0 Hth) in Hex. cbn [t_caus th_set_caus t_last_yield] in Hex.
  set (c := vv_inc (t_caus t0) me) in *.
  set (seed := match_load_to_stores s me c (t_last_yield t0) o) in *.
  destruct (choose_store (causality_inc e me) seed) as [e2 [idx|p]] eqn:Hch; [|discriminate].
  destruct (@AtomicBridge.choose_store_frame _ _ _ _ Hch) as [Ht2 Ho2].
  destruct (atomic_load s me c idx o) as [[[s' c'] val]|p] eqn:Hld; [|discriminate].
  destruct (@mb_final e me a t0 s Hth Hat e2 seed s' c' (or_intror I) Ht2 Ho2) as [Hcl Hga].
  pose proof (@mb_me e me t0 Hth) as Hme. pose proof (@mb_clk e me t0 Hth) as Hck.
  assert (Hl : exists l, seed = Some l).
  { destruct seed as [l|] eqn:Hs; [exists l; reflexivity|].
    exfalso. apply (HG me c (t_last_yield t0) o). exact Hs. }
  destruct Hl as [l Hl].
  assert (Hin : In idx l) by (apply (Hcand e2 idx l eq_refl Hl)).
  assert (Hstep : mstep RModel (s, clocks e) me (XLoad idx o) = Some (s', list_set (clocks e) me c')).
  { apply (@load_call_is_step_nn s (clocks e) me (t_last_yield t0) o l idx s' c' val HG Hme).
    - rewrite Hck. exact Hl.
    - exact Hin.
    - rewrite Hck. exact Hld. }
  exists s', idx. cbn [bstep]. rewrite Hstep.
  set (e3 := set_caus (upd_object e2 a (fun _ => OAtomic s')) me c') in *.
  destruct aw as [want|].
  - destruct (N.eqb val want); inversion Hex as [He'].
    + rewrite ga_log_op, clocks_log_op. split; [exact Hga | rewrite Hcl; reflexivity].
    + rewrite ga_push_cont, clocks_push_cont, ga_log_op, clocks_log_op.
      split; [exact Hga | rewrite Hcl; reflexivity].
  - inversion Hex as [He']. rewrite ga_log_op, clocks_log_op. split; [exact Hga | rewrite Hcl; reflexivity].
Qed.

Theorem MFuLoadPost_is_step_nn : forall e me a f v so fo e' t0 s,
  get_thread e me = Some t0 -> get_atomic e a = Some s ->
  (forall t c ly o, match_load_to_stores s t c ly o <> None) ->
  (forall e2 idx l,
     choose_store (causality_inc e me)
       (match_load_to_stores s me (vv_inc (t_caus t0) me) (t_last_yield t0) fo) = (e2, inl idx) ->
     match_load_to_stores s me (vv_inc (t_caus t0) me) (t_last_yield t0) fo = Some l -> In idx l) ->
  exec_micro e me (MFuLoadPost a f v so fo) = MOk e' ->
  exists s' idx, get_atomic e' a = Some s' /\
                 bstep (s, clocks e) me (BOp (XLoad idx fo)) = Some (s', clocks e').
Proof.
  intros e me a f v so fo e' t0 s Hth Hat HG Hcand Hex.
  cbn [exec_micro] in Hex. cbv zeta in Hex.
  rewrite (@mb_at1 e me a s Hat), (@mb_th1 e me t0 Hth) in Hex. cbn [t_caus th_set_caus t_last_yield] in Hex.
  set (c := vv_inc (t_caus t0) me) in *.
  set (seed := match_load_to_stores s me c (t_last_yield t0) fo) in *.
  destruct (choose_store (causality_inc e me) seed) as [e2 [idx|p]] eqn:Hch; [|discriminate].
  destruct (@AtomicBridge.choose_store_frame _ _ _ _ Hch) as [Ht2 Ho2].
  destruct (atomic_load s me c idx fo) as [[[s' c'] val]|p] eqn:Hld; [|discriminate].
  destruct (@mb_final e me a t0 s Hth Hat e2 seed s' c' (or_intror I) Ht2 Ho2) as [Hcl Hga].
  pose proof (@mb_me e me t0 Hth) as Hme. pose proof (@mb_clk e me t0 Hth) as Hck.
  assert (Hl : exists l, seed = Some l).
  { destruct seed as [l|] eqn:Hs; [exists l; reflexivity|].
    exfalso. apply (HG me c (t_last_yield t0) fo). exact Hs. }
  destruct Hl as [l Hl].
  assert (Hin : In idx l) by (apply (Hcand e2 idx l eq_refl Hl)).
  assert (Hstep : mstep RModel (s, clocks e) me (XLoad idx fo) = Some (s', list_set (clocks e) me c')).
  { apply (@load_call_is_step_nn s (clocks e) me (t_last_yield t0) fo l idx s' c' val HG Hme).
    - rewrite Hck. exact Hl.
    - exact Hin.
    - rewrite Hck. exact Hld. }
  exists s', idx. cbn [bstep]. rewrite Hstep.
  inversion Hex as [He']. rewrite ga_push_cont, clocks_push_cont.
  split; [exact Hga | rewrite Hcl; reflexivity].
Qed.

(* load_post (the polls of block_on) *)
Theorem load_post_is_step : forall e me a o e' x t0 s,
  get_thread e me = Some t0 -> get_atomic e a = Some s ->
  (forall t c ly o, match_load_to_stores s t c ly o <> None) ->
  (forall e2 idx l,
     choose_store (causality_inc e me)
       (match_load_to_stores s me (vv_inc (t_caus t0) me) (t_last_yield t0) o) = (e2, inl idx) ->
     match_load_to_stores s me (vv_inc (t_caus t0) me) (t_last_yield t0) o = Some l -> In idx l) ->
  load_post e me a o = inl (e', x) ->
  exists s' idx, get_atomic e' a = Some s' /\
                 bstep (s, clocks e) me (BOp (XLoad idx o)) = Some (s', clocks e').
Proof.
  intros e me a o e' x t0 s Hth Hat HG Hcand Hex.
  unfold load_post in Hex. cbv zeta in Hex.
  rewrite (@mb_at1 e me a s Hat), (@mb_th1 e me t0 Hth) in Hex. cbn [t_caus th_set_caus t_last_yield] in Hex.
  set (c := vv_inc (t_caus t0) me) in *.
  set (seed := match_load_to_stores s me c (t_last_yield t0) o) in *.
  destruct (choose_store (causality_inc e me) seed) as [e2 [idx|p]] eqn:Hch; [|discriminate].
  destruct (@AtomicBridge.choose_store_frame _ _ _ _ Hch) as [Ht2 Ho2].
  destruct (atomic_load s me c idx o) as [[[s' c'] val]|p] eqn:Hld; [|discriminate].
  destruct (@mb_final e me a t0 s Hth Hat e2 seed s' c' (or_intror I) Ht2 Ho2) as [Hcl Hga].
  pose proof (@mb_me e me t0 Hth) as Hme. pose proof (@mb_clk e me t0 Hth) as Hck.
  assert (Hl : exists l, seed = Some l).
  { destruct seed as [l|] eqn:Hs; [exists l; reflexivity|].
    exfalso. apply (HG me c (t_last_yield t0) o). exact Hs. }
  destruct Hl as [l Hl].
  assert (Hin : In idx l) by (apply (Hcand e2 idx l eq_refl Hl)).
  assert (Hstep : mstep RModel (s, clocks e) me (XLoad idx o) = Some (s', list_set (clocks e) me c')).
  { apply (@load_call_is_step_nn s (clocks e) me (t_last_yield t0) o l idx s' c' val HG Hme).
    - rewrite Hck. exact Hl.
    - exact Hin.
    - rewrite Hck. exact Hld. }
  exists s', idx. cbn [bstep]. rewrite Hstep.
  inversion Hex as [[He' Hx]]. split; [exact Hga | rewrite Hcl; reflexivity].
Qed.

(* the candidate list that the access micro-operation m of thread me hands to
   choose_store (after its causality_inc), if it has a load half *)
Definition micro_seed (s : atomic_state) (me : nat) (t0 : thread) (m : micro)
  : option (option (list nat)) :=
  match m with
  | MLoadPost _ o _ =>
      Some (match_load_to_stores s me (vv_inc (t_caus t0) me) (t_last_yield t0) o)
  | MFuLoadPost _ _ _ _ fo =>
      Some (match_load_to_stores s me (vv_inc (t_caus t0) me) (t_last_yield t0) fo)
  | MRmwPost _ _ _ _ => Some (match_rmw_to_stores s)
  | MBoLoad _ _ _ _ _ _ | MBsLoad _ _ _ _ _ _ _ =>
      Some (match_load_to_stores s me (vv_inc (t_caus t0) me) (t_last_yield t0) Acquire)
  | _ => None
  end.

(* what is assumed, at the access micro-operation m of thread me on a in state e.
   The last clause is about the decision stack: the index that choose_store
   answers FOR THE CANDIDATE LIST OF THIS ACCESS is one of the candidates.
   (Quantifying over all candidate lists would be unsatisfiable: a replayed
   entry answers a recorded index whatever the list, and a fresh entry for the
   empty list answers 0.) *)
Definition SideOK (a : nat) (e : exec) (me : nat) (m : micro) : Prop :=
  me < MAX_THREADS /\
  (forall t0, get_thread e me = Some t0 -> vle (t_rel t0) (t_caus t0)) /\
  (forall s, get_atomic e a = Some s -> at_cnt s < MAX_ATOMIC_HISTORY) /\
  (forall s t0 seed e2 idx l,
     get_atomic e a = Some s -> get_thread e me = Some t0 -> micro_seed s me t0 m = Some seed ->
     choose_store (causality_inc e me) seed = (e2, inl idx) -> seed = Some l -> l <> [] -> In idx l).

(* all eight access micro-operations are steps of the generalised machine *)
Theorem acc_step_is_bstep : forall a e me m e1 s t0,
  acc_on a m -> get_thread e me = Some t0 -> get_atomic e a = Some s ->
  GoodS (s, pclocks e) -> SideOK a e me m -> exec_micro e me m = MOk e1 ->
  exists s1 b, access_bop b /\ me < length (clocks e) /\
               get_atomic e1 a = Some s1 /\
               bstep (s, clocks e) me b = Some (s1, clocks e1).
Proof.
  intros a e me m e1 s t0 Hacc Hth Hat HG (HmeT & Hrel & Hring & Hrep) Hx.
  destruct (@Good_never_none (s, pclocks e) (GoodS_Good HG)) as [Hnn Hnr]. cbn [fst] in Hnn, Hnr.
  pose proof (@mb_me e me t0 Hth) as Hme.
  pose proof (Hrel t0 Hth) as Hrel0. pose proof (Hring s Hat) as Hroom.
  assert (Hc1 : 1 <= at_cnt s).
  { destruct HG as [[own [rk [HI _]]] _]. cbn [fst] in HI. exact (i_cnt1 HI). }
  assert (HrepL : forall o e2 idx l,
            micro_seed s me t0 m = Some (match_load_to_stores s me (vv_inc (t_caus t0) me) (t_last_yield t0) o) ->
            choose_store (causality_inc e me)
              (match_load_to_stores s me (vv_inc (t_caus t0) me) (t_last_yield t0) o) = (e2, inl idx) ->
            match_load_to_stores s me (vv_inc (t_caus t0) me) (t_last_yield t0) o = Some l -> In idx l).
  { intros o e2 idx l H0 H1 H2. apply (Hrep s t0 _ e2 idx l Hat Hth H0 H1 H2).
    apply (candidates_nonempty _ _ _ _ _ _ H2 Hc1). }
  assert (HrepR : forall e2 idx l,
            micro_seed s me t0 m = Some (match_rmw_to_stores s) ->
            choose_store (causality_inc e me) (match_rmw_to_stores s) = (e2, inl idx) ->
            match_rmw_to_stores s = Some l -> In idx l).
  { intros e2 idx l H0 H1 H2. apply (Hrep s t0 _ e2 idx l Hat Hth H0 H1 H2).
    apply (rmw_candidates_nonempty _ _ H2 Hc1). }
  destruct m; cbn [acc_on] in Hacc; try contradiction; subst.
  - (* MLoadPost *)
    destruct (@MLoadPost_is_step_nn e me a o aw e1 t0 s Hth Hat Hnn
                (fun e2 idx l H1 H2 => HrepL _ e2 idx l eq_refl H1 H2) Hx) as (s1 & idx & H1 & H2).
    exists s1, (BOp (XLoad idx o)). repeat split; first [assumption | exact I].
  - (* MFuLoadPost *)
    destruct (@MFuLoadPost_is_step_nn e me a f v so fo e1 t0 s Hth Hat Hnn
                (fun e2 idx l H1 H2 => HrepL _ e2 idx l eq_refl H1 H2) Hx) as (s1 & idx & H1 & H2).
    exists s1, (BOp (XLoad idx fo)). repeat split; first [assumption | exact I].
  - (* MStorePost *)
    destruct (@MStorePost_is_step e me a v o e1 t0 s Hth Hat Hroom Hrel0 Hx) as (s1 & H1 & H2).
    exists s1, (BStoreR (t_rel t0) v o). repeat split; first [assumption | exact I].
  - (* MRmwPost *)
    destruct (@MRmwPost_is_step e me a k so fo e1 t0 s Hth Hat Hroom Hrel0
                (fun e2 idx l H1 H2 => HrepR e2 idx l eq_refl H1 H2) Hnr Hx) as (s1 & idx & H1 & H2).
    exists s1, (BRmwR (t_rel t0) idx (rmw_fun k) so fo). repeat split; first [assumption | exact I].
  - (* MUnsyncLoad *)
    destruct (@MUnsyncLoad_is_step e me a e1 t0 s Hth Hat Hx) as (s1 & H1 & H2).
    exists s1, BUnsyncLoad. repeat split; first [assumption | exact I].
  - (* MWithMut *)
    destruct (@MWithMut_is_step e me a v e1 t0 s Hth Hat Hx) as (s1 & H1 & H2).
    exists s1, (BWithMut v). repeat split; first [assumption | exact I].
  - (* MBoLoad *)
    cbn [exec_micro] in Hx.
    destruct (load_post e me a Acquire) as [[e2 x]|[e2 p]] eqn:Hlp; [|discriminate].
    destruct (@load_post_is_step e me a Acquire e2 x t0 s Hth Hat Hnn
                (fun e3 idx l H1 H2 => HrepL _ e3 idx l eq_refl H1 H2) Hlp) as (s1 & idx & H1 & H2).
    exists s1, (BOp (XLoad idx Acquire)).
    assert (He : get_atomic e1 a = get_atomic e2 a /\ clocks e1 = clocks e2).
    { destruct (N.eqb x v); [|destruct first]; inversion Hx; split;
        first [apply ga_push_cont | apply clocks_push_cont]. }
    destruct He as [He1 He2]. rewrite He1, He2. repeat split; first [assumption | exact I].
  - (* MBsLoad *)
    cbn [exec_micro] in Hx.
    destruct (load_post e me a Acquire) as [[e2 x]|[e2 p]] eqn:Hlp; [|discriminate].
    destruct (@load_post_is_step e me a Acquire e2 x t0 s Hth Hat Hnn
                (fun e3 idx l H1 H2 => HrepL _ e3 idx l eq_refl H1 H2) Hlp) as (s1 & idx & H1 & H2).
    exists s1, (BOp (XLoad idx Acquire)).
    assert (He : get_atomic e1 a = get_atomic e2 a /\ clocks e1 = clocks e2).
    { destruct (N.eqb x v); inversion Hx; split;
        first [apply ga_push_cont | apply clocks_push_cont]. }
    destruct He as [He1 He2]. rewrite He1, He2. repeat split; first [assumption | exact I].
Qed.

(* ================================================================== *)
(* 7. The headline: executions from init_exec                           *)
(* ================================================================== *)

(* the hypotheses about the run: at every access micro-operation on a,
   executed in a state reachable from init_exec, SideOK holds *)
Definition RunOK (p : prog) (pa : path) (a : nat) : Prop :=
  forall e me t m rest,
    steps (init_exec p pa) e -> e_active e = Some me ->
    nth_error (e_threads e) me = Some t -> t_cont t = m :: rest -> acc_on a m ->
    SideOK a (upd_thread e me (fun t => th_set_cont t rest)) me m.

Lemma steps_goodAt_from : forall p pa a, RunOK p pa a ->
  forall e e', steps e e' -> steps (init_exec p pa) e -> clock_wf e -> track_ok e ->
  GoodAt a e -> GoodAt a e' /\ clock_wf e' /\ track_ok e'.
Proof.
  intros p pa a Hok e e' H.
  induction H as [e|e me t m rest e1 e2 Hact Ht Hc Hx Hs IH]; intros Hreach Hcw Htr HG.
  - split; [exact HG|]. split; assumption.
  - destruct (pop_cont_wf e me rest Hcw Htr) as [Hcw0 Htr0].
    destruct (pop_cont_frame e me rest) as [Hp0 Hg0].
    set (e0 := upd_thread e me (fun t => th_set_cont t rest)) in *.
    assert (HG0 : GoodAt a e0).
    { destruct HG as (s & Hs0 & HGs). exists s. split; [rewrite Hg0; exact Hs0 | rewrite Hp0; exact HGs]. }
    assert (Hreach1 : steps (init_exec p pa) e1).
    { eapply steps_trans; [exact Hreach|]. eapply steps_step; [exact Hact|exact Ht|exact Hc|exact Hx|apply steps_refl]. }
    apply IH; [exact Hreach1 | apply (exec_micro_clock_wf_ok _ me m e1 Hcw0 Hx)
               | apply (exec_micro_track_ok _ me m e1 Htr0 Hx) |].
    destruct HG0 as (s & Hs0 & HGs).
    destruct (acc_on_dec a m) as [Ha|Hna].
    + assert (Hth0 : get_thread e0 me = Some (th_set_cont t rest)).
      { unfold e0. rewrite get_thread_upd_thread_same. unfold get_thread. rewrite Ht. reflexivity. }
      pose proof (Hok e me t m rest Hreach Hact Ht Hc Ha) as Hside. fold e0 in Hside.
      destruct (acc_step_is_bstep a e0 me m e1 s _ Ha Hth0 Hs0 HGs Hside Hx)
        as (s1 & b & Hb & Hme & Hs1 & Hstep).
      exists s1. split; [exact Hs1|].
      pose proof (access_step_padded e0 e1 me b s s1 Hb (proj1 Hside) Hme Hstep) as Hp.
      apply (@bstep_goodS (s, pclocks e0) me b (s1, pclocks e1) HGs Hp).
    + destruct (frame_step_goodS a e0 me m e1 s Htr0 Hcw0 Hna Hx Hs0 HGs) as (s' & Hs' & _ & HG').
      exists s'. split; assumption.
Qed.

(* HEADLINE: along every execution from init_exec, every declared atomic
   satisfies the machine's full invariant *)
Theorem run_goodAt : forall p pa a s0 e,
  get_atomic (init_exec p pa) a = Some s0 -> RunOK p pa a ->
  steps (init_exec p pa) e -> GoodAt a e.
Proof.
  intros p pa a s0 e Hs0 Hok H.
  apply (steps_goodAt_from p pa a Hok (init_exec p pa) e H (steps_refl _)
           (init_clock_wf p pa) (init_exec_track_ok p pa) (init_goodAt p pa a s0 Hs0)).
Qed.

Theorem run_atomicity : forall p pa a s0 e s r sl sid,
  get_atomic (init_exec p pa) a = Some s0 -> RunOK p pa a -> steps (init_exec p pa) e ->
  get_atomic e a = Some s -> r < at_cnt s -> st_rmw_src (get_store s r) = Some (sl, sid) ->
  sl < at_cnt s /\ vv_lt (mo s sl) (mo s r) = true /\
  forall x, x < at_cnt s -> vv_lt (mo s sl) (mo s x) && vv_lt (mo s x) (mo s r) = false.
Proof.
  intros p pa a s0 e s r sl sid Hs0 Hok H Hs Hr Hsrc.
  apply (steps_atomicity a e s r sl sid (run_goodAt p pa a s0 e Hs0 Hok H) Hs Hr Hsrc).
Qed.

Theorem run_never_none : forall p pa a s0 e s,
  get_atomic (init_exec p pa) a = Some s0 -> RunOK p pa a -> steps (init_exec p pa) e ->
  get_atomic e a = Some s ->
  (forall t c ly o, match_load_to_stores s t c ly o <> None) /\ match_rmw_to_stores s <> None.
Proof.
  intros p pa a s0 e s Hs0 Hok H Hs.
  apply (steps_never_none a e s (run_goodAt p pa a s0 e Hs0 Hok H) Hs).
Qed.

(* the declared atomic stays where it is *)
Theorem run_atomic_exists : forall p pa a s0 e,
  get_atomic (init_exec p pa) a = Some s0 -> RunOK p pa a -> steps (init_exec p pa) e ->
  exists s, get_atomic e a = Some s.
Proof.
  intros p pa a s0 e Hs0 Hok H. destruct (run_goodAt p pa a s0 e Hs0 Hok H) as (s & Hs & _).
  exists s. exact Hs.
Qed.

(* ================================================================== *)
(* 8. Coherence over executions                                         *)
(* ================================================================== *)

(* from e to e': the atomic a stays, live slots stay live, no mo edge between
   live stores is lost, and whatever a thread's clock has seen it still sees *)
Definition coh (a : nat) (e e' : exec) : Prop :=
  forall s, get_atomic e a = Some s ->
    exists s', get_atomic e' a = Some s' /\
      (forall x, x < at_cnt s -> x < at_cnt s') /\
      (forall x y, x < at_cnt s -> y < at_cnt s ->
         vv_lt (mo s x) (mo s y) = true -> vv_lt (mo s' x) (mo s' y) = true) /\
      (forall u i, u < MAX_THREADS -> i < at_cnt s ->
         is_seen_by_current (st_seen (get_store s i)) (caus_of e u) = true ->
         is_seen_by_current (st_seen (get_store s' i)) (caus_of e' u) = true).

Lemma coh_refl a e : coh a e e.
Proof. intros s Hs. exists s. split; [exact Hs|]. repeat split; auto. Qed.

Lemma coh_trans a e1 e2 e3 : coh a e1 e2 -> coh a e2 e3 -> coh a e1 e3.
Proof.
  intros H12 H23 s Hs. destruct (H12 s Hs) as (s2 & Hs2 & A2 & B2 & C2).
  destruct (H23 s2 Hs2) as (s3 & Hs3 & A3 & B3 & C3).
  exists s3. split; [exact Hs3|]. split; [auto|]. split.
  - intros x y Hx Hy H. apply B3; auto.
  - intros u i Hu Hi H. apply C3; auto.
Qed.

(* a step of the generalised machine on the padded clocks *)
Lemma bstep_coh : forall a e e1 me b s s1,
  get_atomic e a = Some s -> get_atomic e1 a = Some s1 -> GoodS (s, pclocks e) ->
  bstep (s, pclocks e) me b = Some (s1, pclocks e1) -> coh a e e1.
Proof.
  intros a e e1 me b s s1 Hs Hs1 HG Hstep s0 Hs0. rewrite Hs in Hs0. injection Hs0 as <-.
  exists s1. split; [exact Hs1|].
  assert (Hcnt : at_cnt s <= at_cnt s1).
  { destruct HG as [[own [rk HGO]] HS]. cbn [fst snd] in *.
    destruct (@bstep_out own rk s (pclocks e) me b s1 (pclocks e1) HGO HS Hstep)
      as [own' [rk' [_ [_ [[Hc _] _]]]]]. exact Hc. }
  split; [intros x Hx; lia|]. split.
  - intros x y Hx Hy Hlt.
    destruct (@bstep_stable (s, pclocks e) me b (s1, pclocks e1) x y HG Hstep Hx Hy Hlt) as (_ & _ & H).
    exact H.
  - intros u i Hu Hi Hk.
    assert (Hk0 : knows (s, pclocks e) u i).
    { unfold knows. cbn [fst snd]. rewrite clk_pclocks by exact Hu. exact Hk. }
    destruct (@bstep_knows (s, pclocks e) me b (s1, pclocks e1) u i HG Hstep Hi Hk0) as (_ & H).
    unfold knows in H. cbn [fst snd] in H. rewrite clk_pclocks in H by exact Hu. exact H.
Qed.

(* a micro-operation that is not an access to a *)
Lemma frame_coh : forall a e me m e1,
  track_ok e -> ~ acc_on a m -> exec_micro e me m = MOk e1 -> coh a e e1.
Proof.
  intros a e me m e1 Htr Hna Hx s Hs.
  destruct (exec_micro_akeep_ok a e me m e1 Htr Hna Hx s Hs) as (s' & Hs' & (A & B & C)).
  exists s'. split; [exact Hs'|].
  assert (Hget : forall k, get_store s' k = get_store s k) by (intros k; unfold get_store; rewrite A; reflexivity).
  split; [intros x Hx'; rewrite B; exact Hx'|]. split.
  - intros x y _ _ H. unfold mo. rewrite !Hget. exact H.
  - intros u i _ _ H. rewrite Hget.
    destruct (exec_micro_mono_ok _ _ _ _ Hx) as (_ & Hc & _).
    apply (seen_clock_mono _ _ _ (Hc u) H).
Qed.

Lemma pop_coh : forall a e me rest, coh a e (upd_thread e me (fun t => th_set_cont t rest)).
Proof.
  intros a e me rest s Hs. exists s. split; [exact Hs|]. split; [auto|]. split; [auto|].
  intros u i _ _ H. rewrite caus_of_upd_thread_keep by (intros t; reflexivity). exact H.
Qed.

Lemma steps_coh_from : forall p pa a, RunOK p pa a ->
  forall e e', steps e e' -> steps (init_exec p pa) e -> clock_wf e -> track_ok e ->
  GoodAt a e -> coh a e e'.
Proof.
  intros p pa a Hok e e' H.
  induction H as [e|e me t m rest e1 e2 Hact Ht Hc Hx Hs IH]; intros Hreach Hcw Htr HG.
  - apply coh_refl.
  - destruct (pop_cont_wf e me rest Hcw Htr) as [Hcw0 Htr0].
    destruct (pop_cont_frame e me rest) as [Hp0 Hg0].
    set (e0 := upd_thread e me (fun t => th_set_cont t rest)) in *.
    assert (HG0 : GoodAt a e0).
    { destruct HG as (s & Hs0 & HGs). exists s. split; [rewrite Hg0; exact Hs0 | rewrite Hp0; exact HGs]. }
    assert (Hreach1 : steps (init_exec p pa) e1).
    { eapply steps_trans; [exact Hreach|]. eapply steps_step; [exact Hact|exact Ht|exact Hc|exact Hx|apply steps_refl]. }
    assert (Hone : steps e e1).
    { eapply steps_step; [exact Hact|exact Ht|exact Hc|exact Hx|apply steps_refl]. }
    destruct (steps_goodAt_from p pa a Hok e e1 Hone Hreach Hcw Htr HG) as (HG1 & Hcw1 & Htr1).
    eapply coh_trans; [|apply (IH Hreach1 Hcw1 Htr1 HG1)].
    eapply coh_trans; [apply (pop_coh a e me rest)|]. fold e0.
    destruct HG0 as (s & Hs0 & HGs).
    destruct (acc_on_dec a m) as [Ha|Hna].
    + assert (Hth0 : get_thread e0 me = Some (th_set_cont t rest)).
      { unfold e0. rewrite get_thread_upd_thread_same. unfold get_thread. rewrite Ht. reflexivity. }
      pose proof (Hok e me t m rest Hreach Hact Ht Hc Ha) as Hside. fold e0 in Hside.
      destruct (acc_step_is_bstep a e0 me m e1 s _ Ha Hth0 Hs0 HGs Hside Hx)
        as (s1 & b & Hb & Hme & Hs1 & Hstep).
      pose proof (access_step_padded e0 e1 me b s s1 Hb (proj1 Hside) Hme Hstep) as Hp.
      apply (bstep_coh a e0 e1 me b s s1 Hs0 Hs1 HGs Hp).
    + apply (frame_coh a e0 me m e1 Htr0 Hna Hx).
Qed.

(* an mo edge between live stores of a is never lost along an execution *)
Theorem steps_stable : forall p pa a s0 e e' s x y,
  get_atomic (init_exec p pa) a = Some s0 -> RunOK p pa a ->
  steps (init_exec p pa) e -> steps e e' ->
  get_atomic e a = Some s -> x < at_cnt s -> y < at_cnt s -> vv_lt (mo s x) (mo s y) = true ->
  exists s', get_atomic e' a = Some s' /\ x < at_cnt s' /\ y < at_cnt s' /\
             vv_lt (mo s' x) (mo s' y) = true.
Proof.
  intros p pa a s0 e e' s x y Hs0 Hok Hr H Hs Hx Hy Hlt.
  destruct (steps_goodAt_from p pa a Hok _ e Hr (steps_refl _) (init_clock_wf p pa)
              (init_exec_track_ok p pa) (init_goodAt p pa a s0 Hs0)) as (HG & Hcw & Htr).
  destruct (steps_coh_from p pa a Hok e e' H Hr Hcw Htr HG s Hs) as (s' & Hs' & A & B & _).
  exists s'. split; [exact Hs'|]. split; [apply A; exact Hx|]. split; [apply A; exact Hy|].
  apply B; assumption.
Qed.

(* what a thread's clock has seen, it sees for ever *)
Theorem steps_knows : forall p pa a s0 e e' s u i,
  get_atomic (init_exec p pa) a = Some s0 -> RunOK p pa a ->
  steps (init_exec p pa) e -> steps e e' ->
  get_atomic e a = Some s -> u < MAX_THREADS -> i < at_cnt s ->
  is_seen_by_current (st_seen (get_store s i)) (caus_of e u) = true ->
  exists s', get_atomic e' a = Some s' /\ i < at_cnt s' /\
             is_seen_by_current (st_seen (get_store s' i)) (caus_of e' u) = true.
Proof.
  intros p pa a s0 e e' s u i Hs0 Hok Hr H Hs Hu Hi Hk.
  destruct (steps_goodAt_from p pa a Hok _ e Hr (steps_refl _) (init_clock_wf p pa)
              (init_exec_track_ok p pa) (init_goodAt p pa a s0 Hs0)) as (HG & Hcw & Htr).
  destruct (steps_coh_from p pa a Hok e e' H Hr Hcw Htr HG s Hs) as (s' & Hs' & A & _ & C).
  exists s'. split; [exact Hs'|]. split; [apply A; exact Hi | apply C; assumption].
Qed.

(* CoRR / CoWR over executions: once thread t's clock has seen store j of a and
   i is mo-before j, store i is never again a candidate of a load (or an RMW) of
   t -- whatever last_yield and ordering, after any further steps of any threads *)
Theorem CoRR_CoWR_steps : forall p pa a s0 e e' s t i j,
  get_atomic (init_exec p pa) a = Some s0 -> RunOK p pa a ->
  steps (init_exec p pa) e -> steps e e' ->
  get_atomic e a = Some s -> t < MAX_THREADS -> i < at_cnt s -> j < at_cnt s ->
  vv_lt (mo s i) (mo s j) = true ->
  is_seen_by_current (st_seen (get_store s j)) (caus_of e t) = true ->
  exists s', get_atomic e' a = Some s' /\
    (forall ly o l, match_load_to_stores s' t (vv_inc (caus_of e' t) t) ly o = Some l -> ~ In i l) /\
    (forall l, match_rmw_to_stores s' = Some l -> ~ In i l).
Proof.
  intros p pa a s0 e e' s t i j Hs0 Hok Hr H Hs Ht Hi Hj Hlt Hk.
  destruct (steps_goodAt_from p pa a Hok _ e Hr (steps_refl _) (init_clock_wf p pa)
              (init_exec_track_ok p pa) (init_goodAt p pa a s0 Hs0)) as (HG & Hcw & Htr).
  destruct (steps_coh_from p pa a Hok e e' H Hr Hcw Htr HG s Hs) as (s' & Hs' & A & B & C).
  exists s'. split; [exact Hs'|].
  pose proof (B i j Hi Hj Hlt) as Hlt'. pose proof (C t j Ht Hj Hk) as Hk'.
  pose proof (A j Hj) as Hj'.
  destruct (steps_goodAt_from p pa a Hok e e' H Hr Hcw Htr HG) as ((s2 & Hs2 & HG2) & _ & _).
  rewrite Hs' in Hs2. injection Hs2 as <-.
  assert (Hj7 : j < MAX_ATOMIC_HISTORY).
  { destruct HG2 as [[own [rk [HI _]]] _]. cbn [fst] in HI. pose proof (i_cnt7 HI). lia. }
  split.
  - intros ly o l Hm Hin.
    apply (coherence_write_read _ _ _ _ _ _ _ _ Hm Hj7 Hj' Hlt'); [|exact Hin].
    apply (seen_clock_mono _ _ _ (vle_inc (caus_of e' t) t) Hk').
  - intros l Hm Hin. apply (rmw_candidates_spec _ _ Hm i) in Hin. destruct Hin as (_ & _ & Hall).
    assert (Hne : j <> i) by (intros E; subst j; unfold mo in Hlt'; rewrite vv_lt_irrefl in Hlt'; discriminate).
    unfold mo in Hlt'. rewrite (Hall j Hj7 Hj' Hne) in Hlt'. discriminate.
Qed.

Print Assumptions exec_micro_akeep.
Print Assumptions growto_goodS.
Print Assumptions exec_growto.
Print Assumptions frame_step_goodS.
Print Assumptions access_step_padded.
Print Assumptions step_goodAt.
Print Assumptions steps_goodAt.
Print Assumptions steps_atomicity.
Print Assumptions steps_never_none.
Print Assumptions init_goodAt.
Print Assumptions load_post_is_step.
Print Assumptions acc_step_is_bstep.
Print Assumptions run_goodAt.
Print Assumptions run_atomicity.
Print Assumptions run_never_none.
Print Assumptions steps_coh_from.
Print Assumptions steps_stable.
Print Assumptions steps_knows.
Print Assumptions CoRR_CoWR_steps.
