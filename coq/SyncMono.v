(* SyncMono: the GLOBAL causality facts of the model.  Thread clocks and the
   synchronisation views of objects only grow along an execution; hence a
   release happens-before every LATER acquire of the same object, however many
   steps lie in between.  (SyncFacts.v has the local, one-step lemmas.)

   Contents
     0. view_le (requested), obj_le (= view_le, refined on channels by the
        FIFO of per-message views: chan_tail / chan_le), reflexivity,
        transitivity
     1. mono e e': the order on states.  Four components: the thread table
        does not shrink; every thread clock grows (for EVERY thread id: beyond
        the table caus_of is vv_new); e_h keeps its length and the harness
        track flags only go from true to false; every object keeps its index
        and either grows for obj_le or was a tracked slot and is now an OAlloc.
        mono_refl, mono_trans, the basic shapes (mono_same, mono_set_threads,
        mono_upd_thread, mono_set_caus, mono_upd_object, mono_append_*,
        mono_upd_hobj, mono_track_drop)
     2. framing lemmas in continuation style (mono e0 e -> mono e0 (F e)) for
        every helper of Ops.v, schedule_mono, do_branch/do_park/do_yield,
        release_lock, post_acquire*, release_read/write, choose_store,
        load_post, fence_acq_keeps, atomic_rmw_monotone
     3. exec_micro_mono: one tactic for all micro-operations ([destruct m;
        mono_tac], same structure as ExecFacts.exec_micro_path_ok: mstep
        destructs with framing lemmas, mclose peels the state constructors).
        It is proved for the state carried by MFail as well.  Corollaries:
        exec_micro_caus_mono, exec_micro_caus_mono_all,
        exec_micro_threads_length, exec_micro_view_mono (+ _weak),
        exec_micro_track_ok
     4. steps, steps_mono, steps_caus_mono, steps_threads_length,
        steps_view_mono, steps_track_ok, run_steps, run_mono
     5. the global hand-over theorems, each as X_handover_mono (hypothesis
        [mono e1 e2], usable on the popped state on which the runtime really
        executes the next micro-op, see mono_pre) and X_handover_global
        (hypothesis [steps e1 e2]):
          mutex_handover_global (+ _ok: the acquisition also succeeds),
          rwlock_write_handover_global, rwlock_read_handover_global,
          notify_handover_global, arc_drop_handover_global,
          channel_handover_global, channel_fifo_handover_global (+ _len)
     6. schedule_caus, init_exec_track_ok, run_view_mono,
        view_mono_counterexample

   DEVIATIONS from the requested statements

   D1  exec_micro_view_mono (and steps_view_mono) as requested are FALSE:
       objects do not always keep their kind.  MTrackDrop k overwrites slot k
       of the object store by OAlloc true whenever the HARNESS flag
       ho_track (get_h e k) is set; it never looks at the runtime object.  In a
       state whose e_h and e_objects are not aligned a mutex becomes an
       OAlloc.  Counterexample, proved below as view_mono_counterexample:
       e_objects = [a mutex], e_h = [hobj with ho_track = true],
       exec_micro e 0 (MTrackDrop 0) = MOk e' with e_objects e' = [OAlloc true],
       and view_le (OMutex _) (OAlloc true) = False.
       Proved instead, under the same names, with the extra hypothesis
         track_ok e :=  length (e_h e) <= length (e_objects e) /\
                        every slot whose track flag is set holds an OAlloc
       which holds initially (init_exec_track_ok) and is preserved
       (exec_micro_track_ok, steps_track_ok); run_view_mono is the requested
       statement, without side condition, for the runs of the model.
       exec_micro_view_mono_weak is the unconditional form ("the view grew, or
       the slot was tracked and now holds an OAlloc").
       No micro-op REPLACES a view: every write to mx_sync / rw_sync /
       nt_sync / arc_sync / ch_sender_sync keeps it or stores
       sync_store old ... (MWithMut only resets an atomic store's value;
       MSpawn/MBlockOn/MLazyGet append objects).
       The *_global theorems need NO track_ok: their hypotheses say that the
       object is still a mutex / rwlock / ... at the acquire, and no micro-op
       turns an OAlloc into anything else (mono_obj).
   D2  exec_micro_caus_mono, steps_caus_mono: as requested; the bound
       [j < length (e_threads e)] is not needed (exec_micro_caus_mono_all).
   D3  run_steps is stated for r = IterDone \/ r = IterFuel (on a panic run
       returns the state carried by MFail, which no successful step reaches).
       run_mono covers all three cases: that state is still above the start.
   D4  mutex_handover_global: as requested ([a < length (e_threads e)] is not
       used).  The other *_global theorems have no [get_X e _ = Some _]
       hypotheses: they follow from the micro-ops being MOk.
   D5  channel_handover_global has the hypothesis
       [Forall (vle (caus_of e a)) (ch_recv_sync s)] (e.g. the queue is empty
       when a sends).  Without it the statement is false: the next receive
       gets the OLDEST queued message, whose view need not contain a's clock.
       channel_fifo_handover_global is the general FIFO statement: with n
       messages ahead, the receive that follows at least n other receives
       acquires a's clock.
   D6  The relations between e1 and e2 in section 5 are on whole states; the
       runtime executes a micro-op on the state with the active thread's
       continuation popped (Check.run): use the _mono forms with mono_pre. *)
Require Import LV.Base LV.VV LV.VVFacts LV.Path LV.PathSpec LV.PathApi LV.Prog LV.Objects
               LV.Exec LV.Atomic LV.Ops LV.Check LV.SyncFacts LV.ExecFacts.
From Coq Require Import List Arith Lia Bool.
Import ListNotations.

(* ================================================================== *)
(* 0. The order on objects                                             *)
(* ================================================================== *)

Definition view_le (o o' : object) : Prop :=
  match o, o' with
  | OMutex s, OMutex s' => vle (mx_sync s) (mx_sync s')
  | ORwLock s, ORwLock s' => vle (rw_sync s) (rw_sync s')
  | ONotify s, ONotify s' => vle (nt_sync s) (nt_sync s')
  | OArc s, OArc s' => vle (arc_sync s) (arc_sync s')
  | OChannel s, OChannel s' => vle (ch_sender_sync s) (ch_sender_sync s')
  | OAtomic _, OAtomic _ | OCondvar _, OCondvar _ | OCell _, OCell _ | OAlloc _, OAlloc _ => True
  | _, _ => False
  end.

Lemma view_le_refl : forall o, view_le o o.
Proof. intros o. destruct o; cbn [view_le]; auto using vle_refl. Qed.

Lemma view_le_trans : forall o1 o2 o3, view_le o1 o2 -> view_le o2 o3 -> view_le o1 o3.
Proof.
  intros o1 o2 o3 H12 H23.
  destruct o1, o2; cbn [view_le] in H12; try contradiction;
    destruct o3; cbn [view_le] in H23 |- *; try contradiction; eauto using vle_trans.
Qed.

(* The per-message views of a channel form a FIFO (ch_recv_sync).
   [chan_tail c n s]: the sender view and every queue entry from position n on
   dominate c.  [chan_dom c s] is the case n = 0. *)
Definition chan_tail (c : vv) (n : nat) (s : chan_state) : Prop :=
  vle c (ch_sender_sync s) /\ Forall (vle c) (skipn n (ch_recv_sync s)).

Definition chan_dom (c : vv) (s : chan_state) : Prop := chan_tail c 0 s.

Definition chan_le (s s' : chan_state) : Prop :=
  vle (ch_sender_sync s) (ch_sender_sync s') /\
  forall c n, chan_tail c n s -> Forall (vle c) (skipn n (ch_recv_sync s')).

(* view_le, refined on channels by the FIFO of per-message views *)
Definition obj_le (o o' : object) : Prop :=
  match o, o' with
  | OChannel s, OChannel s' => chan_le s s'
  | _, _ => view_le o o'
  end.

Lemma Forall_skipn_S : forall (A : Type) (P : A -> Prop) k l,
  Forall P (skipn k l) -> Forall P (skipn (S k) l).
Proof.
  intros A P k. induction k as [|k IH]; intros l H.
  - destruct l as [|x l]; cbn [skipn] in *; [constructor|]. inversion H; assumption.
  - destruct l as [|x l]; [constructor|]. cbn [skipn] in H. apply IH in H. exact H.
Qed.

Lemma Forall_skipn_le : forall (A : Type) (P : A -> Prop) k k' l,
  k <= k' -> Forall P (skipn k l) -> Forall P (skipn k' l).
Proof.
  intros A P k k' l Hle H. induction Hle as [|k' _ IH]; [exact H|].
  apply Forall_skipn_S, IH.
Qed.

Lemma chan_tail_le : forall c n n' s, n <= n' -> chan_tail c n s -> chan_tail c n' s.
Proof. intros c n n' s Hle [Hc Hq]. split; [exact Hc|]. eapply Forall_skipn_le; eassumption. Qed.

Lemma chan_le_refl : forall s, chan_le s s.
Proof. intros s. split; [apply vle_refl|]. intros c n [_ Hq]. exact Hq. Qed.

Lemma chan_le_trans : forall s1 s2 s3, chan_le s1 s2 -> chan_le s2 s3 -> chan_le s1 s3.
Proof.
  intros s1 s2 s3 [Ha1 Ha2] [Hb1 Hb2]. split; [eauto using vle_trans|].
  intros c n Hd. apply Hb2. split; [|apply Ha2; exact Hd].
  destruct Hd as [Hc _]. eauto using vle_trans.
Qed.

Lemma obj_le_view_le : forall o o', obj_le o o' -> view_le o o'.
Proof.
  intros o o' H. destruct o; try exact H. destruct o'; try exact H.
  cbn [obj_le view_le] in *. exact (proj1 H).
Qed.

Lemma obj_le_refl : forall o, obj_le o o.
Proof. intros o. destruct o; try apply view_le_refl. apply chan_le_refl. Qed.

Lemma obj_le_trans : forall o1 o2 o3, obj_le o1 o2 -> obj_le o2 o3 -> obj_le o1 o3.
Proof.
  intros o1 o2 o3 H12 H23.
  destruct o1, o2; cbn [obj_le view_le] in H12; try contradiction;
    destruct o3; cbn [obj_le view_le] in H23 |- *; try contradiction;
    eauto using vle_trans, chan_le_trans.
Qed.

Lemma chan_le_send : forall s s' ss,
  ch_sender_sync s' = ss -> ch_recv_sync s' = ch_recv_sync s ++ [ss] ->
  vle (ch_sender_sync s) ss -> chan_le s s'.
Proof.
  intros s s' ss Hs Hq Hle. split; [rewrite Hs; exact Hle|].
  intros c n [Hc Hf]. rewrite Hq, skipn_app. apply Forall_app. split; [exact Hf|].
  apply (Forall_skipn_le _ (vle c) 0 _ [ss] (Nat.le_0_l (n - length (ch_recv_sync s)))).
  cbn [skipn]. constructor; [eauto using vle_trans|constructor].
Qed.

Lemma chan_le_recv : forall s s' sy rest,
  ch_recv_sync s = sy :: rest -> ch_sender_sync s' = ch_sender_sync s ->
  ch_recv_sync s' = rest -> chan_le s s'.
Proof.
  intros s s' sy rest Hq Hs Hq'. split; [rewrite Hs; apply vle_refl|].
  intros c n [_ Hf]. rewrite Hq in Hf. rewrite Hq'.
  apply Forall_skipn_S in Hf. exact Hf.
Qed.

Lemma chan_le_same : forall s s',
  ch_sender_sync s' = ch_sender_sync s -> ch_recv_sync s' = ch_recv_sync s -> chan_le s s'.
Proof.
  intros s s' Hs Hq. split; [rewrite Hs; apply vle_refl|].
  intros c n [_ Hf]. rewrite Hq. exact Hf.
Qed.

(* a disconnected send (MSendPost with the receiver gone) takes the view it
   appended back: dropping entries at the END of the FIFO keeps chan_le *)
Lemma chan_le_unsend : forall s s' l,
  ch_sender_sync s' = ch_sender_sync s -> ch_recv_sync s = ch_recv_sync s' ++ l -> chan_le s s'.
Proof.
  intros s s' l Hs Hq. split; [rewrite Hs; apply vle_refl|].
  intros c n [_ Hf]. rewrite Hq, skipn_app in Hf. apply Forall_app in Hf. exact (proj1 Hf).
Qed.

Definition is_alloc (o : object) : Prop := exists d, o = OAlloc d.

(* ================================================================== *)
(* 1. The order on states                                              *)
(* ================================================================== *)

Definition cmono (e e' : exec) : Prop := forall j, vle (caus_of e j) (caus_of e' j).

Definition hmono (e e' : exec) : Prop :=
  length (e_h e') = length (e_h e) /\
  forall k, ho_track (get_h e' k) = true -> ho_track (get_h e k) = true.

Definition omono (e e' : exec) : Prop :=
  forall i o, nth_error (e_objects e) i = Some o ->
    exists o', nth_error (e_objects e') i = Some o' /\
               (obj_le o o' \/ (ho_track (get_h e i) = true /\ is_alloc o')).

Definition mono (e e' : exec) : Prop :=
  length (e_threads e) <= length (e_threads e') /\ cmono e e' /\ hmono e e' /\ omono e e'.

Lemma mono_refl : forall e, mono e e.
Proof.
  intros e. split; [apply Nat.le_refl|]. split; [intros j; apply vle_refl|].
  split; [split; auto|]. intros i o Ho. exists o. split; [exact Ho|left; apply obj_le_refl].
Qed.

Lemma obj_le_alloc_l : forall o o', is_alloc o -> obj_le o o' -> is_alloc o'.
Proof.
  intros o o' [d ->] H. destruct o'; cbn [obj_le view_le] in H; try contradiction.
  eexists; reflexivity.
Qed.

Lemma mono_trans : forall e1 e2 e3, mono e1 e2 -> mono e2 e3 -> mono e1 e3.
Proof.
  intros e1 e2 e3 (Hl1 & Hc1 & [Hh1 Ht1] & Ho1) (Hl2 & Hc2 & [Hh2 Ht2] & Ho2).
  split; [eauto using Nat.le_trans|]. split; [intros j; eauto using vle_trans|].
  split; [split; [congruence|auto]|].
  intros i o Ho. destruct (Ho1 i o Ho) as (o' & Ho' & Hr1).
  destruct (Ho2 i o' Ho') as (o'' & Ho'' & Hr2). exists o''. split; [exact Ho''|].
  destruct Hr2 as [Hle2|[Htr Hal]]; [|right; auto].
  destruct Hr1 as [Hle1|[Htr Hal]]; [left; eauto using obj_le_trans|].
  right. split; [exact Htr|]. eauto using obj_le_alloc_l.
Qed.

(* ---- basic one-step shapes ---- *)

Lemma mono_same : forall e e',
  e_threads e' = e_threads e -> e_objects e' = e_objects e -> e_h e' = e_h e -> mono e e'.
Proof.
  intros e e' Ht Ho Hh. split; [rewrite Ht; apply Nat.le_refl|].
  split; [intros j; rewrite (caus_of_threads_eq e' e j Ht); apply vle_refl|].
  split; [split; [congruence|unfold get_h; rewrite Hh; auto]|].
  intros i o Hi. exists o. rewrite Ho. split; [exact Hi|left; apply obj_le_refl].
Qed.

Lemma caus_of_get_thread : forall e j t, get_thread e j = Some t -> caus_of e j = t_caus t.
Proof. intros e j t H. unfold caus_of. rewrite H. reflexivity. Qed.

Lemma mono_set_threads : forall e ths',
  (forall j t, nth_error (e_threads e) j = Some t ->
     exists t', nth_error ths' j = Some t' /\ vle (t_caus t) (t_caus t')) ->
  mono e (ex_set_threads e ths').
Proof.
  intros e ths' H. split.
  - rewrite e_threads_set_threads.
    destruct (Nat.le_gt_cases (length (e_threads e)) (length ths')) as [Hle|Hgt]; [exact Hle|].
    destruct (nth_error (e_threads e) (length ths')) as [t|] eqn:Hn.
    + destruct (H _ _ Hn) as (t' & Hn' & _).
      assert (Hlt : length ths' < length ths') by (apply nth_error_Some; congruence). lia.
    + apply nth_error_None in Hn. lia.
  - split.
    + intros j. unfold caus_of at 1. destruct (get_thread e j) as [t|] eqn:Hj; [|apply vle_new].
      destruct (H _ _ Hj) as (t' & Hn' & Hle).
      rewrite (caus_of_get_thread (ex_set_threads e ths') j t'); [exact Hle|].
      unfold get_thread. rewrite e_threads_set_threads. exact Hn'.
    + split; [split; auto|]. intros i o Hi. exists o. split; [exact Hi|left; apply obj_le_refl].
Qed.

Lemma mono_upd_thread : forall e i f,
  (forall t, vle (t_caus t) (t_caus (f t))) -> mono e (upd_thread e i f).
Proof.
  intros e i f Hf. apply mono_set_threads. intros j t Hj.
  destruct (Nat.eq_dec i j) as [->|Hne].
  - rewrite nth_error_list_upd_same, Hj. cbn [option_map]. eauto.
  - rewrite nth_error_list_upd_other by exact Hne. exists t. split; [exact Hj|apply vle_refl].
Qed.

Lemma mono_mapi : forall e g,
  (forall id t, vle (t_caus t) (t_caus (g id t))) ->
  mono e (ex_set_threads e (mapi g (e_threads e))).
Proof.
  intros e g Hg. apply mono_set_threads. intros j t Hj.
  rewrite nth_error_mapi, Hj. cbn [option_map]. eauto.
Qed.

Lemma mono_append_threads : forall e l, mono e (ex_set_threads e (e_threads e ++ l)).
Proof.
  intros e l. apply mono_set_threads. intros j t Hj. exists t. split; [|apply vle_refl].
  rewrite nth_error_app1; [exact Hj|]. apply nth_error_Some. congruence.
Qed.

Lemma mono_set_caus : forall e me v, vle (caus_of e me) v -> mono e (set_caus e me v).
Proof.
  intros e me v Hv. apply mono_set_threads. intros j t Hj.
  destruct (Nat.eq_dec me j) as [->|Hne].
  - rewrite nth_error_list_upd_same, Hj. cbn [option_map]. eexists. split; [reflexivity|].
    rewrite t_caus_th_set_caus. rewrite (caus_of_get_thread e j t Hj) in Hv. exact Hv.
  - rewrite nth_error_list_upd_other by exact Hne. exists t. split; [exact Hj|apply vle_refl].
Qed.

Lemma mono_upd_object : forall e i f,
  (forall o, nth_error (e_objects e) i = Some o -> obj_le o (f o)) -> mono e (upd_object e i f).
Proof.
  intros e i f Hf. split; [apply Nat.le_refl|]. split; [intros j; apply vle_refl|].
  split; [split; auto|]. intros k o Hk. rewrite e_objects_upd_object.
  destruct (Nat.eq_dec i k) as [->|Hne].
  - rewrite nth_error_list_upd_same, Hk. cbn [option_map]. eauto.
  - rewrite nth_error_list_upd_other by exact Hne. exists o. split; [exact Hk|left; apply obj_le_refl].
Qed.

Lemma mono_append_objects : forall e l, mono e (ex_set_objects e (e_objects e ++ l)).
Proof.
  intros e l. split; [apply Nat.le_refl|]. split; [intros j; apply vle_refl|].
  split; [split; auto|]. intros i o Hi. exists o. split; [|left; apply obj_le_refl].
  change (nth_error (e_objects e ++ l) i = Some o).
  rewrite nth_error_app1; [exact Hi|]. apply nth_error_Some. congruence.
Qed.

Lemma nth_list_upd_same_or : forall (A : Type) (l : list A) i f d k,
  nth k (list_upd l i f) d = nth k l d \/ (k = i /\ nth k (list_upd l i f) d = f (nth k l d)).
Proof.
  intros A l i f d k. destruct (Nat.eq_dec i k) as [->|Hne].
  - unfold list_upd. destruct (nth_error l k) as [x|] eqn:Hx; [|left; reflexivity].
    right. split; [reflexivity|].
    assert (Hlt : k < length l) by (apply nth_error_Some; congruence).
    rewrite list_set_nth_same by exact Hlt. f_equal.
    symmetry. apply nth_error_nth. exact Hx.
  - left. unfold list_upd. destruct (nth_error l i); [|reflexivity].
    apply list_set_nth_other. exact Hne.
Qed.

Lemma mono_upd_hobj : forall e i f,
  (forall h, ho_track (f h) = true -> ho_track h = true) -> mono e (upd_hobj e i f).
Proof.
  intros e i f Hf. split; [apply Nat.le_refl|]. split; [intros j; apply vle_refl|].
  split.
  - split; [apply list_upd_length|]. intros k. unfold get_h. cbn [upd_hobj ex_set_h e_h].
    change (e_h (ex_set_h e (list_upd (e_h e) i f))) with (list_upd (e_h e) i f).
    destruct (nth_list_upd_same_or _ (e_h e) i f hobj_default k) as [->|[_ ->]]; auto.
  - intros k o Hk. exists o. split; [exact Hk|left; apply obj_le_refl].
Qed.

(* MTrackDrop: the only place where an object is overwritten without looking
   at its kind; the harness flag [ho_track] is what licenses it *)
Lemma mono_track_drop : forall e k,
  ho_track (get_h e k) = true ->
  mono e (upd_object (upd_hobj e k (fun ho => ho_set_track ho false)) k (fun _ => OAlloc true)).
Proof.
  intros e k Htr. split; [apply Nat.le_refl|]. split; [intros j; apply vle_refl|].
  split.
  - split; [apply list_upd_length|]. intros j. unfold get_h.
    change (e_h (upd_object (upd_hobj e k (fun ho => ho_set_track ho false)) k (fun _ => OAlloc true)))
      with (list_upd (e_h e) k (fun ho => ho_set_track ho false)).
    destruct (nth_list_upd_same_or _ (e_h e) k (fun ho => ho_set_track ho false) hobj_default j)
      as [->|[_ ->]]; [auto|]. cbn. discriminate.
  - intros i o Hi. rewrite e_objects_upd_object, e_objects_upd_hobj.
    destruct (Nat.eq_dec k i) as [->|Hne].
    + rewrite nth_error_list_upd_same, Hi. cbn [option_map]. eexists. split; [reflexivity|].
      right. split; [exact Htr|]. eexists; reflexivity.
    + rewrite nth_error_list_upd_other by exact Hne. exists o.
      split; [exact Hi|left; apply obj_le_refl].
Qed.

(* ================================================================== *)
(* 2. Framing lemmas, continuation style: mono e0 e -> mono e0 (F e)   *)
(* ================================================================== *)

Lemma mono_k : forall e0 e e', mono e e' -> mono e0 e -> mono e0 e'.
Proof. intros e0 e e' H1 H0. eapply mono_trans; eassumption. Qed.

Ltac tcaus_tac :=
  intros; cbn;
  repeat match goal with
         | |- context [match ?x with _ => _ end] => destruct x; cbn
         end;
  rewrite ?t_caus_thread_unpark, ?t_caus_set_unparked;
  auto using vle_refl, vle_inc, vle_join_l.

Lemma mono_upd_thread_k e0 e i f :
  (forall t, vle (t_caus t) (t_caus (f t))) -> mono e0 e -> mono e0 (upd_thread e i f).
Proof. intros Hf. apply mono_k, mono_upd_thread, Hf. Qed.

Lemma mono_set_caus_k e0 e me v :
  vle (caus_of e me) v -> mono e0 e -> mono e0 (set_caus e me v).
Proof. intros Hv. apply mono_k, mono_set_caus, Hv. Qed.

Lemma mono_causality_inc_k e0 e me : mono e0 e -> mono e0 (causality_inc e me).
Proof. apply mono_k, mono_upd_thread. tcaus_tac. Qed.

Lemma mono_push_cont_k e0 e me ms : mono e0 e -> mono e0 (push_cont e me ms).
Proof. apply mono_k, mono_upd_thread. tcaus_tac. Qed.

Lemma mono_push_guard_k e0 e me k m : mono e0 e -> mono e0 (push_guard e me k m).
Proof. apply mono_k, mono_upd_thread. tcaus_tac. Qed.

Lemma mono_drop_guard_k e0 e me k m : mono e0 e -> mono e0 (drop_guard e me k m).
Proof. apply mono_k, mono_upd_thread. tcaus_tac. Qed.

Lemma mono_map_others_k e0 e me p f :
  (forall t, vle (t_caus t) (t_caus (f t))) -> mono e0 e -> mono e0 (map_others e me p f).
Proof.
  intros Hf. apply mono_k. unfold map_others. apply mono_mapi.
  intros id t. destruct (negb (Nat.eqb id me) && p t); [apply Hf|apply vle_refl].
Qed.

Lemma mono_upd_object_k e0 e i o' :
  (forall o, nth_error (e_objects e) i = Some o -> obj_le o o') ->
  mono e0 e -> mono e0 (upd_object e i (fun _ => o')).
Proof. intros Hf. apply mono_k, mono_upd_object, Hf. Qed.

Lemma mono_upd_hobj_k e0 e i f :
  (forall h, ho_track (f h) = true -> ho_track h = true) ->
  mono e0 e -> mono e0 (upd_hobj e i f).
Proof. intros Hf. apply mono_k, mono_upd_hobj, Hf. Qed.

Lemma mono_set_slot_k e0 e k i b : mono e0 e -> mono e0 (set_slot e k i b).
Proof. apply mono_k, mono_upd_hobj. intros h H. exact H. Qed.

Lemma mono_track_drop_k e0 e k :
  ho_track (get_h e k) = true -> mono e0 e ->
  mono e0 (upd_object (upd_hobj e k (fun ho => ho_set_track ho false)) k (fun _ => OAlloc true)).
Proof. intros H. apply mono_k, mono_track_drop, H. Qed.

Lemma mono_append_objects_k e0 e l :
  mono e0 e -> mono e0 (ex_set_objects e (e_objects e ++ l)).
Proof. apply mono_k, mono_append_objects. Qed.

Lemma mono_append_threads_k e0 e l :
  mono e0 e -> mono e0 (ex_set_threads e (e_threads e ++ l)).
Proof. apply mono_k, mono_append_threads. Qed.

Lemma mono_set_path_k e0 e x : mono e0 e -> mono e0 (ex_set_path e x).
Proof. apply mono_k, mono_same; reflexivity. Qed.
Lemma mono_set_active_k e0 e x : mono e0 e -> mono e0 (ex_set_active e x).
Proof. apply mono_k, mono_same; reflexivity. Qed.
Lemma mono_set_seqcst_k e0 e x : mono e0 e -> mono e0 (ex_set_seqcst e x).
Proof. apply mono_k, mono_same; reflexivity. Qed.
Lemma mono_set_spawned_k e0 e x : mono e0 e -> mono e0 (ex_set_spawned e x).
Proof. apply mono_k, mono_same; reflexivity. Qed.
Lemma mono_set_joined_k e0 e x : mono e0 e -> mono e0 (ex_set_joined e x).
Proof. apply mono_k, mono_same; reflexivity. Qed.
Lemma mono_set_log_k e0 e x : mono e0 e -> mono e0 (ex_set_log e x).
Proof. apply mono_k, mono_same; reflexivity. Qed.
Lemma mono_set_lazy_k e0 e x : mono e0 e -> mono e0 (ex_set_lazy e x).
Proof. apply mono_k, mono_same; reflexivity. Qed.
Lemma mono_log_op_k e0 e me r : mono e0 e -> mono e0 (log_op e me r).
Proof. apply mono_k. unfold log_op. destruct (get_thread e me); [apply mono_same; reflexivity|apply mono_refl]. Qed.
Lemma mono_log_poll_k e0 e me : mono e0 e -> mono e0 (log_poll e me).
Proof. apply mono_k. unfold log_poll. destruct (get_thread e me); [apply mono_same; reflexivity|apply mono_refl]. Qed.

Lemma mono_threads_unpark_k e0 e me id : mono e0 e -> mono e0 (threads_unpark e me id).
Proof.
  apply mono_k. unfold threads_unpark. destruct (Nat.eqb id me); apply mono_upd_thread; tcaus_tac.
Qed.

Lemma mono_fold_unpark_k me l : forall e0 e,
  mono e0 e -> mono e0 (fold_left (fun e t => threads_unpark e me t) l e).
Proof.
  induction l as [|w l IH]; intros e0 e H; cbn [fold_left]; [exact H|].
  apply IH, mono_threads_unpark_k, H.
Qed.

(* ---- objects: what set_last_access and the lock functions do ---- *)
Lemma obj_le_set_last_access o act tid pid v : obj_le o (set_last_access o act tid pid v).
Proof.
  destruct o; try apply obj_le_refl; cbn [set_last_access].
  - destruct act; cbn; apply vle_refl.
  - exact I.
  - cbn; apply vle_refl.
  - exact I.
  - cbn; apply vle_refl.
  - cbn; apply vle_refl.
  - destruct act; cbn [obj_le]; apply chan_le_same; reflexivity.
Qed.

Lemma mono_sched_note_k e0 e nx pid th : mono e0 e -> mono e0 (sched_note e nx pid th).
Proof.
  apply mono_k. unfold sched_note. destruct (t_op th) as [op|]; [|apply mono_refl].
  destruct (nth_error (e_objects e) (op_obj op)) as [o|]; [|apply mono_refl].
  cbv zeta.
  match goal with |- mono _ (upd_object ?E _ _) => apply (mono_trans _ E) end.
  - apply mono_upd_thread. tcaus_tac.
  - apply mono_upd_object. intros o' _. apply obj_le_set_last_access.
Qed.

Lemma schedule_mono e : mono e (res_exec (fst (schedule e))).
Proof.
  destruct (schedule_cases e)
    as [(c & ->)|[(x & ->)|[(p1 & x & Hd & ->)|(curr & cur_th & p1 & p2 & next & Hp & ->)]]];
    cbn [fst res_exec]; try apply mono_refl.
  - apply mono_set_path_k, mono_refl.
  - assert (Hb : mono e (sched_base e p2 next))
      by (unfold sched_base; apply mono_set_active_k, mono_set_path_k, mono_refl).
    revert Hb. generalize (sched_base e p2 next). intros e1 Hb.
    unfold sched_post. destruct next as [nx|].
    + destruct (nth_error (e_threads e1) nx) as [th|]; cbn [fst res_exec]; [|exact Hb].
      unfold reactivate.
      match goal with |- mono _ (ex_set_threads ?E _) => apply (mono_trans _ E) end.
      * apply mono_sched_note_k, Hb.
      * apply mono_mapi. tcaus_tac.
    + destruct (forallb is_terminated (e_threads e1)); cbn [fst res_exec]; exact Hb.
Qed.

Lemma schedule_mono_k e0 e : mono e0 e -> mono e0 (res_exec (fst (schedule e))).
Proof. apply mono_k, schedule_mono. Qed.

Lemma do_branch_mono_k e0 e me obj act blk :
  mono e0 e -> mono e0 (res_exec (do_branch e me obj act blk)).
Proof.
  intros H. unfold do_branch. apply schedule_mono_k, mono_upd_thread_k; [tcaus_tac|exact H].
Qed.

Lemma do_park_mono_k e0 e me : mono e0 e -> mono e0 (res_exec (do_park e me)).
Proof.
  intros H. unfold do_park. destruct (get_thread e me) as [t|]; [|exact H].
  repeat match goal with
         | |- context [match ?x with _ => _ end] => destruct x
         end; cbn [res_exec];
    first [apply schedule_mono_k|idtac]; (apply mono_upd_thread_k; [tcaus_tac|exact H]).
Qed.

Lemma do_yield_mono_k e0 e me : mono e0 e -> mono e0 (res_exec (do_yield e me)).
Proof.
  intros H. unfold do_yield. apply schedule_mono_k, mono_upd_thread_k; [tcaus_tac|exact H].
Qed.

Ltac view_cbn :=
  cbn [obj_le view_le mx_sync rw_sync nt_sync arc_sync ch_sender_sync ch_recv_sync nt_set arc_set].

(* ---- the lock functions ---- *)
Lemma upd_object_const_get : forall e i o o',
  nth_error (e_objects e) i = Some o -> obj_le o o' ->
  forall x, nth_error (e_objects e) i = Some x -> obj_le x o'.
Proof. intros e i o o' Hi Hle x Hx. congruence. Qed.

Lemma release_lock_mono_k e0 e me m : mono e0 e -> mono e0 (release_lock e me m).
Proof.
  intros H. unfold release_lock. destruct (get_mutex e m) as [s|] eqn:Hg; [|exact H].
  apply get_mutex_nth in Hg. cbv zeta.
  match goal with |- mono _ (match e_active ?E with _ => _ end) =>
    assert (H1 : mono e0 E) end.
  { apply mono_upd_object_k; [|exact H].
    (eapply upd_object_const_get; [exact Hg|]). view_cbn. apply vle_refl. }
  destruct (e_active _); [|exact H1].
  apply mono_map_others_k; [tcaus_tac|]. apply mono_upd_object_k; [|exact H1].
  intros o Ho. rewrite nth_error_objects_upd_same, Hg in Ho. cbn [option_map] in Ho.
  injection Ho as <-. view_cbn. apply sync_store_keeps.
Qed.

Lemma post_acquire_mono e me m : mono e (fst (post_acquire e me m)).
Proof.
  unfold post_acquire. destruct (get_mutex e m) as [s|] eqn:Hg; [|apply mono_refl].
  apply get_mutex_nth in Hg. destruct (is_some (mx_lock s)); cbn [fst]; [apply mono_refl|].
  apply mono_map_others_k; [tcaus_tac|]. apply mono_set_caus_k; [apply sync_load_keeps|].
  apply mono_upd_object_k; [|apply mono_refl].
  (eapply upd_object_const_get; [exact Hg|]). view_cbn. apply vle_refl.
Qed.

Lemma post_acquire_read_mono e me r : mono e (fst (post_acquire_read e me r)).
Proof.
  unfold post_acquire_read. destruct (get_rw e r) as [s|] eqn:Hg; [|apply mono_refl].
  apply get_rw_nth in Hg.
  destruct (rw_lock s) as [[rs|w]|]; cbn [fst]; try apply mono_refl.
  all: apply mono_map_others_k; [tcaus_tac|]; apply mono_set_caus_k; [apply sync_load_keeps|];
    apply mono_upd_object_k; [|apply mono_refl];
    (eapply upd_object_const_get; [exact Hg|]); view_cbn; apply vle_refl.
Qed.

Lemma post_acquire_write_mono e me r : mono e (fst (post_acquire_write e me r)).
Proof.
  unfold post_acquire_write. destruct (get_rw e r) as [s|] eqn:Hg; [|apply mono_refl].
  apply get_rw_nth in Hg.
  destruct (rw_lock s) as [lk|]; cbn [fst]; try apply mono_refl.
  apply mono_map_others_k; [tcaus_tac|]; apply mono_set_caus_k; [apply sync_load_keeps|];
    apply mono_upd_object_k; [|apply mono_refl];
    (eapply upd_object_const_get; [exact Hg|]); view_cbn; apply vle_refl.
Qed.

Lemma release_read_mono e me r : mono e (res_exec (release_read e me r)).
Proof.
  unfold release_read. destruct (get_rw e r) as [s|] eqn:Hg; [|apply mono_refl].
  apply get_rw_nth in Hg. cbv zeta.
  destruct (rw_lock s) as [[rs|w]|]; cbn [res_exec]; try apply mono_refl.
  destruct (set_remove me rs); cbn [res_exec].
  - apply mono_map_others_k; [tcaus_tac|]. apply mono_upd_object_k; [|apply mono_refl].
    (eapply upd_object_const_get; [exact Hg|]). view_cbn. apply sync_store_keeps.
  - apply mono_upd_object_k; [|apply mono_refl].
    (eapply upd_object_const_get; [exact Hg|]). view_cbn. apply sync_store_keeps.
Qed.

Lemma release_write_mono e me r : mono e (res_exec (release_write e me r)).
Proof.
  unfold release_write. destruct (get_rw e r) as [s|] eqn:Hg; [|apply mono_refl].
  apply get_rw_nth in Hg. cbn [res_exec].
  apply mono_map_others_k; [tcaus_tac|]. apply mono_upd_object_k; [|apply mono_refl].
  (eapply upd_object_const_get; [exact Hg|]). view_cbn. apply sync_store_keeps.
Qed.

(* ---- atomics ---- *)
Lemma choose_store_frame e seed :
  e_threads (fst (choose_store e seed)) = e_threads e /\
  e_objects (fst (choose_store e seed)) = e_objects e /\
  e_h (fst (choose_store e seed)) = e_h e.
Proof.
  unfold choose_store.
  repeat match goal with
         | |- context [match ?x with _ => _ end] =>
             lazymatch x with
             | context [match _ with _ => _ end] => fail
             | _ => destruct x
             end
         end; cbn [fst]; auto.
Qed.

Lemma choose_store_mono e seed : mono e (fst (choose_store e seed)).
Proof. destruct (choose_store_frame e seed) as (H1 & H2 & H3). apply mono_same; assumption. Qed.

Lemma atomic_rmw_monotone : forall s me caus rel idx so fo f s' caus' prev ok,
  atomic_rmw s me caus rel idx so fo f = inl (s', caus', prev, ok) -> vle caus caus'.
Proof.
  intros s me caus rel idx so fo f s' caus' prev ok H. rewrite atomic_rmw_eq in H.
  destruct (track_load s caus) as [s1|p]; [|discriminate]. cbv zeta in H.
  destruct (f _); [destruct (track_store _ _); [|discriminate]|];
    injection H as _ <- _ _; apply sync_load_keeps.
Qed.

Lemma fence_acq_atomic_keeps s me : forall c, vle c (fence_acq_atomic s me c).
Proof.
  unfold fence_acq_atomic. induction (stores_order (at_cnt s)) as [|i l IH]; intros c;
    cbn [fold_left]; [apply vle_refl|].
  eapply vle_trans; [|apply IH].
  destruct (is_read_by_current _ _); [apply vle_join_l|apply vle_refl].
Qed.

Lemma fence_acq_keeps objs me : forall c, vle c (fence_acq objs me c).
Proof.
  unfold fence_acq. induction objs as [|o l IH]; intros c; cbn [fold_left]; [apply vle_refl|].
  eapply vle_trans; [|apply IH]. destruct o; try apply vle_refl. apply fence_acq_atomic_keeps.
Qed.

Lemma get_atomic_nth : forall e a s,
  get_atomic e a = Some s -> nth_error (e_objects e) a = Some (OAtomic s).
Proof.
  intros e a s H. unfold get_atomic in H.
  destruct (nth_error (e_objects e) a) as [[]|]; congruence.
Qed.

Lemma get_cell_nth : forall e a s,
  get_cell e a = Some s -> nth_error (e_objects e) a = Some (OCell s).
Proof.
  intros e a s H. unfold get_cell in H.
  destruct (nth_error (e_objects e) a) as [[]|]; congruence.
Qed.

(* ---- rewriting e_objects / through the frame ---- *)
Lemma e_objects_causality_inc e me : e_objects (causality_inc e me) = e_objects e.
Proof. reflexivity. Qed.
Lemma e_objects_set_path e x : e_objects (ex_set_path e x) = e_objects e.
Proof. reflexivity. Qed.
Lemma e_objects_set_lazy e x : e_objects (ex_set_lazy e x) = e_objects e.
Proof. reflexivity. Qed.
Lemma e_objects_set_objects e x : e_objects (ex_set_objects e x) = x.
Proof. reflexivity. Qed.
Lemma e_objects_log_poll e me : e_objects (log_poll e me) = e_objects e.
Proof. unfold log_poll. destruct (get_thread e me); reflexivity. Qed.

Global Hint Rewrite e_objects_causality_inc e_objects_set_path e_objects_set_lazy
  e_objects_set_objects e_objects_log_poll e_objects_set_threads e_objects_upd_thread
  e_objects_set_caus e_objects_map_others e_objects_upd_hobj e_objects_push_cont
  e_objects_set_slot e_objects_set_log e_objects_log_op : eobj.

(* ================================================================== *)
(* 3. One micro-operation                                              *)
(* ================================================================== *)

Ltac conv_hyps :=
  repeat match goal with
         | H : get_mutex _ _ = Some _ |- _ => apply get_mutex_nth in H
         | H : get_rw _ _ = Some _ |- _ => apply get_rw_nth in H
         | H : get_notify _ _ = Some _ |- _ => apply get_notify_nth in H
         | H : get_chan _ _ = Some _ |- _ => apply get_chan_nth in H
         | H : get_arc _ _ = Some _ |- _ => apply get_arc_nth in H
         | H : get_atomic _ _ = Some _ |- _ => apply get_atomic_nth in H
         | H : get_cell _ _ = Some _ |- _ => apply get_cell_nth in H
         end.

Ltac side_caus :=
  first [ apply sync_load_keeps | apply vle_join_l | apply fence_acq_keeps
        | rewrite ?caus_of_upd_object;
          erewrite caus_of_threads_eq by eassumption;
          erewrite caus_of_get_thread by eassumption;
          eauto using atomic_load_monotone, atomic_rmw_monotone ].

Ltac side_obj :=
  let o := fresh "o" in
  let Ho := fresh "Ho" in
  intros o Ho; conv_hyps; autorewrite with eobj in *;
  try match goal with
      | Hco : e_objects ?e1 = e_objects _ |- _ => rewrite Hco in Ho
      end;
  match goal with
  | Hg : nth_error ?l ?i = Some _, Ho' : nth_error ?l ?i = Some o |- _ =>
      rewrite Hg in Ho'; injection Ho' as Ho'; subst o
  end;
  view_cbn;
  first [ exact I | apply vle_refl | apply sync_store_keeps
        | eapply chan_le_send; [reflexivity|reflexivity|view_cbn; apply sync_store_keeps]
        | eapply chan_le_recv; [eassumption|reflexivity|reflexivity] ].

Ltac side_h :=
  let h := fresh "h" in
  let Hh := fresh "Hh" in
  intros h Hh; first [exact Hh | cbn in Hh; discriminate Hh].

Ltac mclose_step :=
  match goal with
  | |- mono ?e ?e => apply mono_refl
  | H : mono ?E ?x |- mono _ ?x => apply (mono_trans _ E x); [|exact H]
  | |- mono _ (log_op _ _ _) => apply mono_log_op_k
  | |- mono _ (log_poll _ _) => apply mono_log_poll_k
  | |- mono _ (push_cont _ _ _) => apply mono_push_cont_k
  | |- mono _ (push_guard _ _ _ _) => apply mono_push_guard_k
  | |- mono _ (drop_guard _ _ _ _) => apply mono_drop_guard_k
  | |- mono _ (causality_inc _ _) => apply mono_causality_inc_k
  | |- mono _ (set_slot _ _ _ _) => apply mono_set_slot_k
  | |- mono _ (release_lock _ _ _) => apply release_lock_mono_k
  | |- mono _ (threads_unpark _ _ _) => apply mono_threads_unpark_k
  | |- mono _ (fold_left _ _ _) => apply mono_fold_unpark_k
  | |- mono _ (ex_set_path _ _) => apply mono_set_path_k
  | |- mono _ (ex_set_active _ _) => apply mono_set_active_k
  | |- mono _ (ex_set_seqcst _ _) => apply mono_set_seqcst_k
  | |- mono _ (ex_set_spawned _ _) => apply mono_set_spawned_k
  | |- mono _ (ex_set_joined _ _) => apply mono_set_joined_k
  | |- mono _ (ex_set_log _ _) => apply mono_set_log_k
  | |- mono _ (ex_set_lazy _ _) => apply mono_set_lazy_k
  | |- mono _ (ex_set_objects ?e (e_objects ?e ++ _)) => apply mono_append_objects_k
  | |- mono _ (ex_set_threads ?e (e_threads ?e ++ _)) => apply mono_append_threads_k
  | |- mono _ (upd_object (upd_hobj _ _ _) _ (fun _ => OAlloc true)) =>
      apply mono_track_drop_k; [assumption|]
  | |- mono _ (upd_object _ _ _) => apply mono_upd_object_k; [side_obj|]
  | |- mono _ (upd_thread _ _ _) => apply mono_upd_thread_k; [tcaus_tac|]
  | |- mono _ (upd_hobj _ _ _) => apply mono_upd_hobj_k; [side_h|]
  | |- mono _ (set_caus _ _ _) => apply mono_set_caus_k; [side_caus|]
  | |- mono _ (map_others _ _ _ _) => apply mono_map_others_k; [tcaus_tac|]
  end.

Ltac mclose := cbn [res_exec lp_exec]; repeat mclose_step.

Ltac mstep :=
  match goal with
  | |- mono _ (res_exec (fst (schedule _))) => apply schedule_mono_k
  | |- mono _ (res_exec (do_branch _ _ _ _ _)) => apply do_branch_mono_k
  | |- mono _ (res_exec (do_park _ _)) => apply do_park_mono_k
  | |- mono _ (res_exec (do_yield _ _)) => apply do_yield_mono_k
  | |- context [post_acquire ?e ?me ?m] =>
      let H := fresh "Hfr" in
      pose proof (post_acquire_mono e me m) as H;
      destruct (post_acquire e me m); cbn [fst] in H
  | |- context [post_acquire_read ?e ?me ?m] =>
      let H := fresh "Hfr" in
      pose proof (post_acquire_read_mono e me m) as H;
      destruct (post_acquire_read e me m); cbn [fst] in H
  | |- context [post_acquire_write ?e ?me ?m] =>
      let H := fresh "Hfr" in
      pose proof (post_acquire_write_mono e me m) as H;
      destruct (post_acquire_write e me m); cbn [fst] in H
  | |- context [release_read ?e ?me ?m] =>
      let H := fresh "Hfr" in
      pose proof (release_read_mono e me m) as H;
      destruct (release_read e me m); cbn [res_exec] in H
  | |- context [release_write ?e ?me ?m] =>
      let H := fresh "Hfr" in
      pose proof (release_write_mono e me m) as H;
      destruct (release_write e me m); cbn [res_exec] in H
  | |- context [choose_store ?e ?s] =>
      let H := fresh "Hfr" in
      let Hct := fresh "Hct" in
      let Hco := fresh "Hco" in
      pose proof (choose_store_mono e s) as H;
      destruct (choose_store_frame e s) as (Hct & Hco & _);
      destruct (choose_store e s) as [? [?|?]]; cbn [fst] in H, Hct, Hco
  | |- context [match ?x with _ => _ end] =>
      lazymatch x with
      | context [match _ with _ => _ end] => fail
      | _ => destruct x eqn:?
      end
  end; cbv beta iota.

Lemma load_post_mono e me a o : mono e (lp_exec (load_post e me a o)).
Proof. unfold load_post. repeat mstep. all: mclose. Qed.

Ltac mstep' :=
  first [ match goal with
          | |- context [load_post ?e ?me ?a ?o] =>
              let H := fresh "Hfr" in
              pose proof (load_post_mono e me a o) as H;
              destruct (load_post e me a o) as [[? ?]|[? ?]]; cbn [lp_exec] in H; cbv beta iota
          end
        | mstep ].

Ltac mono_tac :=
  cbn [exec_micro]; unfold lift_path, mbind; cbv beta iota;
  repeat mstep'; mclose.

(* every state produced by a micro-operation, successful or panicking, is
   above the state it started from *)
(* MSendPost writes the channel object twice when the receiver is gone (push,
   then Channel::undo_send): the second write is above the first (chan_le_unsend) *)
Lemma send_post_mono e me h v : mono e (res_exec (exec_micro e me (MSendPost h v))).
Proof.
  cbn [exec_micro]. destruct (get_chan e h) as [s|] eqn:Hget; [|mclose]. cbv zeta.
  match goal with |- context [ho_rx ?x] => destruct (ho_rx x) end; cbv iota.
  - repeat mstep. all: mclose.
  - cbn [res_exec]. apply mono_log_op_k. apply mono_upd_object_k.
    + intros o Ho. apply get_chan_nth in Hget.
      assert (Hmid : forall (c : bool) f p g,
                 nth_error (e_objects (if c then map_others (upd_object e h f) me p g
                                       else upd_object e h f)) h = Some (f (OChannel s))).
      { intros c f p g. destruct c; [rewrite e_objects_map_others|];
          rewrite e_objects_upd_object; rewrite nth_error_list_upd_same; rewrite Hget;
          reflexivity. }
      rewrite Hmid in Ho. injection Ho as Ho. subst o. cbn [obj_le].
      eapply chan_le_unsend; view_cbn; reflexivity.
    + repeat mstep. all: mclose.
Qed.

Lemma exec_micro_mono e me m : mono e (res_exec (exec_micro e me m)).
Proof. destruct m; try apply send_post_mono; mono_tac. Qed.

(* ---- the requested one-step statements ---- *)
Lemma exec_micro_mono_ok e me m e' : exec_micro e me m = MOk e' -> mono e e'.
Proof. intros H. pose proof (exec_micro_mono e me m) as Hm. rewrite H in Hm. exact Hm. Qed.

Lemma exec_micro_caus_mono : forall e me m e', exec_micro e me m = MOk e' ->
  forall j, j < length (e_threads e) -> vle (caus_of e j) (caus_of e' j).
Proof. intros e me m e' H j _. destruct (exec_micro_mono_ok _ _ _ _ H) as (_ & Hc & _). apply Hc. Qed.

(* the bound on j is not needed: beyond the thread table caus_of is vv_new *)
Lemma exec_micro_caus_mono_all : forall e me m e', exec_micro e me m = MOk e' ->
  forall j, vle (caus_of e j) (caus_of e' j).
Proof. intros e me m e' H. destruct (exec_micro_mono_ok _ _ _ _ H) as (_ & Hc & _). exact Hc. Qed.

Lemma exec_micro_threads_length : forall e me m e', exec_micro e me m = MOk e' ->
  length (e_threads e) <= length (e_threads e').
Proof. intros e me m e' H. destruct (exec_micro_mono_ok _ _ _ _ H) as (Hl & _). exact Hl. Qed.

(* the harness/runtime alignment that MTrackDrop relies on *)
Definition track_ok (e : exec) : Prop :=
  length (e_h e) <= length (e_objects e) /\
  forall k o, ho_track (get_h e k) = true -> nth_error (e_objects e) k = Some o -> is_alloc o.

Lemma omono_length e e' : omono e e' -> length (e_objects e) <= length (e_objects e').
Proof.
  intros H. destruct (Nat.le_gt_cases (length (e_objects e)) (length (e_objects e'))) as [Hle|Hgt];
    [exact Hle|].
  destruct (nth_error (e_objects e) (length (e_objects e'))) as [o|] eqn:Hn.
  - destruct (H _ _ Hn) as (o' & Hn' & _).
    assert (Hlt : length (e_objects e') < length (e_objects e')) by (apply nth_error_Some; congruence).
    lia.
  - apply nth_error_None in Hn. lia.
Qed.

Lemma get_h_track_lt e k : ho_track (get_h e k) = true -> k < length (e_h e).
Proof.
  intros H. destruct (Nat.lt_ge_cases k (length (e_h e))) as [Hlt|Hge]; [exact Hlt|].
  unfold get_h in H. rewrite nth_overflow in H by exact Hge. discriminate H.
Qed.

Lemma mono_track_ok e e' : mono e e' -> track_ok e -> track_ok e'.
Proof.
  intros (_ & _ & [Hhl Hht] & Ho) [Hlen Htr]. pose proof (omono_length _ _ Ho) as Hol. split; [lia|].
  intros k o' Hk Hn'. pose proof (Hht k Hk) as Hk0.
  pose proof (get_h_track_lt e k Hk0) as Hlt.
  destruct (nth_error (e_objects e) k) as [o|] eqn:Hn.
  - destruct (Ho k o Hn) as (o2 & Hn2 & Hr). assert (o2 = o') by congruence. subst o2.
    destruct Hr as [Hle|[_ Hal]]; [|exact Hal].
    eapply obj_le_alloc_l; [|exact Hle]. eapply Htr; eassumption.
  - apply nth_error_None in Hn. lia.
Qed.

Lemma omono_strict e e' : mono e e' -> track_ok e ->
  forall i o, nth_error (e_objects e) i = Some o ->
    exists o', nth_error (e_objects e') i = Some o' /\ obj_le o o'.
Proof.
  intros (_ & _ & _ & Ho) [_ Htr] i o Hi. destruct (Ho i o Hi) as (o' & Hi' & Hr).
  exists o'. split; [exact Hi'|]. destruct Hr as [Hle|[Hk [d ->]]]; [exact Hle|].
  destruct (Htr i o Hk Hi) as [d0 ->]. exact I.
Qed.

(* DEVIATION (see header): needs [track_ok e] *)
Lemma exec_micro_view_mono : forall e me m e', track_ok e -> exec_micro e me m = MOk e' ->
  forall i o, nth_error (e_objects e) i = Some o ->
    exists o', nth_error (e_objects e') i = Some o' /\ view_le o o'.
Proof.
  intros e me m e' Htr H i o Hi.
  destruct (omono_strict _ _ (exec_micro_mono_ok _ _ _ _ H) Htr i o Hi) as (o' & Hi' & Hle).
  eauto using obj_le_view_le.
Qed.

(* the unconditional form: either the view grew, or the object was a tracked
   allocation slot of the harness and is now a (dropped) OAlloc *)
Lemma exec_micro_view_mono_weak : forall e me m e', exec_micro e me m = MOk e' ->
  forall i o, nth_error (e_objects e) i = Some o ->
    exists o', nth_error (e_objects e') i = Some o' /\
               (view_le o o' \/ (ho_track (get_h e i) = true /\ is_alloc o')).
Proof.
  intros e me m e' H i o Hi. destruct (exec_micro_mono_ok _ _ _ _ H) as (_ & _ & _ & Ho).
  destruct (Ho i o Hi) as (o' & Hi' & Hr). exists o'. split; [exact Hi'|].
  destruct Hr as [Hle|Hr]; [left; apply obj_le_view_le, Hle|right; exact Hr].
Qed.

Lemma exec_micro_track_ok : forall e me m e', track_ok e -> exec_micro e me m = MOk e' -> track_ok e'.
Proof. intros e me m e' Htr H. eapply mono_track_ok; [eapply exec_micro_mono_ok; exact H|exact Htr]. Qed.

(* ================================================================== *)
(* 4. Executions                                                       *)
(* ================================================================== *)

Inductive steps : exec -> exec -> Prop :=
  | steps_refl e : steps e e
  | steps_step e me t m rest e1 e2 :
      e_active e = Some me -> nth_error (e_threads e) me = Some t -> t_cont t = m :: rest ->
      exec_micro (upd_thread e me (fun t => th_set_cont t rest)) me m = MOk e1 ->
      steps e1 e2 -> steps e e2.

Lemma steps_trans e1 e2 e3 : steps e1 e2 -> steps e2 e3 -> steps e1 e3.
Proof. intros H12 H23. induction H12; [exact H23|]. eapply steps_step; eauto. Qed.

Lemma steps_mono e e' : steps e e' -> mono e e'.
Proof.
  intros H. induction H as [e|e me t m rest e1 e2 Ha Ht Hc Hx Hs IH]; [apply mono_refl|].
  eapply mono_trans; [|exact IH]. eapply mono_trans; [|eapply exec_micro_mono_ok; exact Hx].
  apply mono_upd_thread. tcaus_tac.
Qed.

Lemma steps_caus_mono e e' : steps e e' ->
  forall j, j < length (e_threads e) -> vle (caus_of e j) (caus_of e' j).
Proof. intros H j _. destruct (steps_mono _ _ H) as (_ & Hc & _). apply Hc. Qed.

Lemma steps_threads_length e e' : steps e e' -> length (e_threads e) <= length (e_threads e').
Proof. intros H. destruct (steps_mono _ _ H) as (Hl & _). exact Hl. Qed.

Lemma steps_track_ok e e' : steps e e' -> track_ok e -> track_ok e'.
Proof. intros H. apply mono_track_ok, steps_mono, H. Qed.

Lemma steps_view_mono e e' : track_ok e -> steps e e' ->
  forall i o, nth_error (e_objects e) i = Some o ->
    exists o', nth_error (e_objects e') i = Some o' /\ view_le o o'.
Proof.
  intros Htr H i o Hi. destruct (omono_strict _ _ (steps_mono _ _ H) Htr i o Hi) as (o' & Hi' & Hle).
  eauto using obj_le_view_le.
Qed.

Lemma run_steps : forall fuel e e' r, run fuel e = (e', r) ->
  r = IterDone \/ r = IterFuel -> steps e e'.
Proof.
  induction fuel as [|fuel IH]; intros e e' r H Hr; cbn [run] in H.
  - injection H as <- _. apply steps_refl.
  - destruct (e_active e) as [me|] eqn:Ha; [|injection H as <- _; apply steps_refl].
    destruct (nth_error (e_threads e) me) as [t|] eqn:Ht;
      [|injection H as _ <-; destruct Hr; discriminate].
    destruct (t_cont t) as [|m rest] eqn:Hc; [injection H as _ <-; destruct Hr; discriminate|].
    destruct (exec_micro _ me m) as [e2|e2 pn] eqn:Hx;
      [|injection H as _ <-; destruct Hr; discriminate].
    eapply steps_step; eauto.
Qed.

(* the panicking run: the state carried by MFail is still above the start *)
Lemma run_mono : forall fuel e, mono e (fst (run fuel e)).
Proof.
  induction fuel as [|fuel IH]; intros e; cbn [run]; [apply mono_refl|].
  destruct (e_active e) as [me|]; [|apply mono_refl].
  destruct (nth_error (e_threads e) me) as [t|]; [|apply mono_refl].
  destruct (t_cont t) as [|m rest]; [apply mono_refl|].
  pose proof (exec_micro_mono (upd_thread e me (fun t => th_set_cont t rest)) me m) as Hm.
  assert (H0 : mono e (upd_thread e me (fun t => th_set_cont t rest)))
    by (apply mono_upd_thread; tcaus_tac).
  destruct (exec_micro _ me m) as [e2|e2 pn]; cbn [res_exec fst] in *.
  - eapply mono_trans; [|apply IH]. eapply mono_trans; eassumption.
  - eapply mono_trans; eassumption.
Qed.

(* ================================================================== *)
(* 5. The global hand-over theorems                                    *)
(* ================================================================== *)

(* an object that is not an OAlloc at the end was related by obj_le all along *)
Lemma mono_obj e e' i o o' :
  mono e e' -> nth_error (e_objects e) i = Some o -> nth_error (e_objects e') i = Some o' ->
  ~ is_alloc o' -> obj_le o o'.
Proof.
  intros (_ & _ & _ & Ho) Hi Hi' Hna. destruct (Ho i o Hi) as (o2 & Hi2 & Hr).
  assert (o2 = o') by congruence. subst o2. destruct Hr as [Hle|[_ Hal]]; [exact Hle|].
  destruct (Hna Hal).
Qed.

Ltac not_alloc := let d := fresh in let H := fresh in intros [d H]; discriminate H.

Lemma mono_get_mutex e e' m s s' :
  mono e e' -> get_mutex e m = Some s -> get_mutex e' m = Some s' -> vle (mx_sync s) (mx_sync s').
Proof.
  intros Hm Hg Hg'. apply get_mutex_nth in Hg, Hg'.
  apply (mono_obj _ _ _ _ _ Hm Hg Hg'). not_alloc.
Qed.

Lemma mono_get_rw e e' m s s' :
  mono e e' -> get_rw e m = Some s -> get_rw e' m = Some s' -> vle (rw_sync s) (rw_sync s').
Proof.
  intros Hm Hg Hg'. apply get_rw_nth in Hg, Hg'.
  apply (mono_obj _ _ _ _ _ Hm Hg Hg'). not_alloc.
Qed.

Lemma mono_get_notify e e' m s s' :
  mono e e' -> get_notify e m = Some s -> get_notify e' m = Some s' -> vle (nt_sync s) (nt_sync s').
Proof.
  intros Hm Hg Hg'. apply get_notify_nth in Hg, Hg'.
  apply (mono_obj _ _ _ _ _ Hm Hg Hg'). not_alloc.
Qed.

Lemma mono_get_arc e e' m s s' :
  mono e e' -> get_arc e m = Some s -> get_arc e' m = Some s' -> vle (arc_sync s) (arc_sync s').
Proof.
  intros Hm Hg Hg'. apply get_arc_nth in Hg, Hg'.
  apply (mono_obj _ _ _ _ _ Hm Hg Hg'). not_alloc.
Qed.

Lemma mono_get_chan e e' m s s' :
  mono e e' -> get_chan e m = Some s -> get_chan e' m = Some s' -> chan_le s s'.
Proof.
  intros Hm Hg Hg'. apply get_chan_nth in Hg, Hg'.
  apply (mono_obj _ _ _ _ _ Hm Hg Hg'). not_alloc.
Qed.

Lemma mono_chan_tail e e' h s s' c n :
  mono e e' -> get_chan e h = Some s -> get_chan e' h = Some s' ->
  chan_tail c n s -> chan_tail c n s'.
Proof.
  intros Hm Hg Hg' Ht. destruct (mono_get_chan _ _ _ _ _ Hm Hg Hg') as [Hs Hq].
  split; [destruct Ht as [Hc _]; eauto using vle_trans|]. apply Hq, Ht.
Qed.

(* All hand-over theorems are proved in two forms:
     X_handover_mono    between the release and the acquire the state only
                        "grows" ([mono e1 e2]): this covers executions
                        ([steps_mono]), the state on which the next micro-op
                        is actually executed, which is e2 with the active
                        thread's continuation popped ([mono_pre]), and states
                        carried by a panic ([run_mono]);
     X_handover_global  the requested form, with [steps e1 e2]. *)
Lemma mono_pre e1 e2 b rest :
  mono e1 e2 -> mono e1 (upd_thread e2 b (fun t => th_set_cont t rest)).
Proof. intros H. apply mono_upd_thread_k; [tcaus_tac|exact H]. Qed.

(* ---- Mutex ----
   Thread a releases mutex m in state e (e1 is the state after the release);
   the execution continues for any number of steps to e2, where the mutex is
   free; thread b acquires it.  Then everything a did before the release
   happens-before everything b does after the acquisition (and the acquisition
   succeeds).  Hypotheses as in SyncFacts.mutex_handover: [e_active e <> None]
   because Mutex::release_lock publishes nothing when no thread is active (D-a
   of SyncFacts), and [b < length (e_threads e2)] because set_caus is the
   identity on a thread id out of range (D-d).  [a < length (e_threads e)] of
   the requested statement is not needed (it is kept in
   mutex_handover_global, unused). *)
Theorem mutex_handover_mono : forall e a m s e2 b s2,
  get_mutex e m = Some s -> e_active e <> None ->
  mono (release_lock e a m) e2 ->
  get_mutex e2 m = Some s2 -> mx_lock s2 = None -> b < length (e_threads e2) ->
  snd (post_acquire e2 b m) = true /\
  vle (caus_of e a) (caus_of (fst (post_acquire e2 b m)) b).
Proof.
  intros e a m s e2 b s2 Hg Hact Hm Hg2 Hfree Hb.
  destruct (release_lock_publishes e a m s Hg Hact) as (s1 & Hg1 & _).
  pose proof (mono_get_mutex _ _ _ _ _ Hm Hg1 Hg2) as Hle.
  exact (mutex_handover e a m s s1 e2 b s2 Hg Hact Hg1 Hg2 Hle Hfree Hb).
Qed.

Theorem mutex_handover_global : forall e a m s e1 e2 b,
  get_mutex e m = Some s -> e_active e <> None -> a < length (e_threads e) ->
  e1 = release_lock e a m -> steps e1 e2 ->
  forall s2, get_mutex e2 m = Some s2 -> mx_lock s2 = None -> b < length (e_threads e2) ->
  vle (caus_of e a) (caus_of (fst (post_acquire e2 b m)) b).
Proof.
  intros e a m s e1 e2 b Hg Hact _ He1 Hst s2 Hg2 Hfree Hb. subst e1.
  exact (proj2 (mutex_handover_mono e a m s e2 b s2 Hg Hact (steps_mono _ _ Hst) Hg2 Hfree Hb)).
Qed.

(* the same, together with the fact that the acquisition succeeds *)
Theorem mutex_handover_global_ok : forall e a m s e2 b s2,
  get_mutex e m = Some s -> e_active e <> None ->
  steps (release_lock e a m) e2 ->
  get_mutex e2 m = Some s2 -> mx_lock s2 = None -> b < length (e_threads e2) ->
  snd (post_acquire e2 b m) = true /\
  vle (caus_of e a) (caus_of (fst (post_acquire e2 b m)) b).
Proof.
  intros e a m s e2 b s2 Hg Hact Hst. apply (mutex_handover_mono e a m s e2 b s2 Hg Hact).
  apply steps_mono, Hst.
Qed.

(* ---- RwLock ----
   a releases its write (resp. read) guard on r; after any number of steps,
   any successful write- or read-acquisition (resp. write-acquisition) by b
   acquires a's clock.  [release_write e a r = MOk e1] already says that r is
   an rwlock in e; a successful acquisition says that it still is one in e2.
   (read-release to read-acquire transfers as well, but SyncFacts only states
   the three cases below.) *)
Lemma release_write_get e a r e1 : release_write e a r = MOk e1 -> exists s, get_rw e r = Some s.
Proof. unfold release_write. destruct (get_rw e r) as [s|]; [eauto|discriminate]. Qed.

Lemma release_read_get e a r e1 : release_read e a r = MOk e1 -> exists s, get_rw e r = Some s.
Proof. unfold release_read. destruct (get_rw e r) as [s|]; [eauto|discriminate]. Qed.

Lemma post_acquire_write_get e b r e3 :
  post_acquire_write e b r = (e3, true) -> exists s, get_rw e r = Some s.
Proof. unfold post_acquire_write. destruct (get_rw e r) as [s|]; [eauto|discriminate]. Qed.

Lemma post_acquire_read_get e b r e3 :
  post_acquire_read e b r = (e3, true) -> exists s, get_rw e r = Some s.
Proof. unfold post_acquire_read. destruct (get_rw e r) as [s|]; [eauto|discriminate]. Qed.

Theorem rwlock_write_handover_mono : forall e a r e1 e2 b,
  release_write e a r = MOk e1 -> mono e1 e2 -> b < length (e_threads e2) ->
  (forall e3, post_acquire_write e2 b r = (e3, true) -> vle (caus_of e a) (caus_of e3 b)) /\
  (forall e3, post_acquire_read e2 b r = (e3, true) -> vle (caus_of e a) (caus_of e3 b)).
Proof.
  intros e a r e1 e2 b Hrel Hm Hb.
  destruct (release_write_get _ _ _ _ Hrel) as (s & Hg).
  destruct (release_write_publishes e a r s Hg) as (e1' & s1 & Hrel' & Hg1 & _).
  assert (e1' = e1) by congruence. subst e1'.
  split; intros e3 Hacq.
  - destruct (post_acquire_write_get _ _ _ _ Hacq) as (s2 & Hg2).
    pose proof (mono_get_rw _ _ _ _ _ Hm Hg1 Hg2) as Hle.
    exact (proj1 (rw_write_handover e a r s e1 s1 e2 b s2 Hg Hrel Hg1 Hg2 Hle Hb) e3 Hacq).
  - destruct (post_acquire_read_get _ _ _ _ Hacq) as (s2 & Hg2).
    pose proof (mono_get_rw _ _ _ _ _ Hm Hg1 Hg2) as Hle.
    exact (proj2 (rw_write_handover e a r s e1 s1 e2 b s2 Hg Hrel Hg1 Hg2 Hle Hb) e3 Hacq).
Qed.

Theorem rwlock_write_handover_global : forall e a r e1 e2 b,
  release_write e a r = MOk e1 -> steps e1 e2 -> b < length (e_threads e2) ->
  (forall e3, post_acquire_write e2 b r = (e3, true) -> vle (caus_of e a) (caus_of e3 b)) /\
  (forall e3, post_acquire_read e2 b r = (e3, true) -> vle (caus_of e a) (caus_of e3 b)).
Proof. intros e a r e1 e2 b Hrel Hst. eapply rwlock_write_handover_mono; eauto using steps_mono. Qed.

Theorem rwlock_read_handover_mono : forall e a r e1 e2 b e3,
  release_read e a r = MOk e1 -> mono e1 e2 -> b < length (e_threads e2) ->
  post_acquire_write e2 b r = (e3, true) -> vle (caus_of e a) (caus_of e3 b).
Proof.
  intros e a r e1 e2 b e3 Hrel Hm Hb Hacq.
  destruct (release_read_get _ _ _ _ Hrel) as (s & Hg).
  destruct (release_read_publishes e a r s e1 Hg Hrel) as (s1 & Hg1 & _).
  destruct (post_acquire_write_get _ _ _ _ Hacq) as (s2 & Hg2).
  pose proof (mono_get_rw _ _ _ _ _ Hm Hg1 Hg2) as Hle.
  exact (rw_read_handover e a r s e1 s1 e2 b s2 e3 Hg Hrel Hg1 Hg2 Hle Hb Hacq).
Qed.

Theorem rwlock_read_handover_global : forall e a r e1 e2 b e3,
  release_read e a r = MOk e1 -> steps e1 e2 -> b < length (e_threads e2) ->
  post_acquire_write e2 b r = (e3, true) -> vle (caus_of e a) (caus_of e3 b).
Proof. intros e a r e1 e2 b e3 Hrel Hst. eapply rwlock_read_handover_mono; eauto using steps_mono. Qed.

(* ---- Notify ----
   a executes the notify (MNotifyPost n); after any number of steps b returns
   from its wait (MNotifyWait2 n).  Both steps being MOk says that n is a
   Notify object in e and in e2.  (This is also thread join: MExitNotify /
   MJoin schedule exactly these two micro-ops, SyncFacts.exit_schedules_post,
   join_schedules_wait.) *)
Theorem notify_handover_mono : forall e a n e1 e2 b e3,
  exec_micro e a (MNotifyPost n) = MOk e1 -> mono e1 e2 ->
  b < length (e_threads e2) -> exec_micro e2 b (MNotifyWait2 n) = MOk e3 ->
  vle (caus_of e a) (caus_of e3 b).
Proof.
  intros e a n e1 e2 b e3 Hpost Hm Hb Hwait.
  assert (Hg : exists s, get_notify e n = Some s).
  { rewrite exec_micro_notify_post in Hpost. destruct (get_notify e n) as [s|]; [eauto|discriminate]. }
  destruct Hg as (s & Hg).
  destruct (notify_post_publishes e a n s e1 Hg Hpost) as (s1 & Hg1 & _).
  assert (Hg2 : exists s2, get_notify e2 n = Some s2).
  { rewrite exec_micro_notify_wait2 in Hwait. destruct (get_notify e2 n) as [s2|]; [eauto|discriminate]. }
  destruct Hg2 as (s2 & Hg2).
  pose proof (mono_get_notify _ _ _ _ _ Hm Hg1 Hg2) as Hle.
  exact (notify_handover e a n s e1 s1 e2 b s2 e3 Hg Hpost Hg1 Hg2 Hle Hb Hwait).
Qed.

Theorem notify_handover_global : forall e a n e1 e2 b e3,
  exec_micro e a (MNotifyPost n) = MOk e1 -> steps e1 e2 ->
  b < length (e_threads e2) -> exec_micro e2 b (MNotifyWait2 n) = MOk e3 ->
  vle (caus_of e a) (caus_of e3 b).
Proof. intros e a n e1 e2 b e3 Hpost Hst. eapply notify_handover_mono; eauto using steps_mono. Qed.

(* ---- Arc ----
   a drops a handle of Arc k (MArcDecPost); later b executes the drop that
   takes the count from 1 to 0 (and runs the destructor of the payload). *)
Theorem arc_drop_handover_mono : forall e a k u e1 e2 b u2 s2 e3,
  exec_micro e a (MArcDecPost k u) = MOk e1 -> mono e1 e2 ->
  get_arc e2 k = Some s2 -> arc_cnt s2 = 1 ->
  exec_micro e2 b (MArcDecPost k u2) = MOk e3 -> b < length (e_threads e2) ->
  vle (caus_of e a) (caus_of e3 b).
Proof.
  intros e a k u e1 e2 b u2 s2 e3 Hdrop Hm Hg2 Hcnt Hlast Hb.
  assert (Hg : exists s, get_arc e k = Some s).
  { rewrite exec_micro_arc_dec_post in Hdrop. destruct (get_arc e k) as [s|]; [eauto|discriminate]. }
  destruct Hg as (s & Hg).
  destruct (arc_dec_post_publishes e a k u s e1 Hg Hdrop) as (cnt & s1 & _ & Hg1 & _).
  pose proof (mono_get_arc _ _ _ _ _ Hm Hg1 Hg2) as Hle.
  exact (arc_drop_handover e a k u s e1 s1 e2 b u2 s2 e3 Hg Hdrop Hg1 Hg2 Hle Hcnt Hlast Hb).
Qed.

Theorem arc_drop_handover_global : forall e a k u e1 e2 b u2 s2 e3,
  exec_micro e a (MArcDecPost k u) = MOk e1 -> steps e1 e2 ->
  get_arc e2 k = Some s2 -> arc_cnt s2 = 1 ->
  exec_micro e2 b (MArcDecPost k u2) = MOk e3 -> b < length (e_threads e2) ->
  vle (caus_of e a) (caus_of e3 b).
Proof.
  intros e a k u e1 e2 b u2 s2 e3 Hdrop Hst. eapply arc_drop_handover_mono; eauto using steps_mono.
Qed.

(* ---- Channel ----
   The views attached to the queued messages are a FIFO.  a sends in state e,
   where every queue entry from position n on already dominates a's clock
   (always true for n = length of the queue, i.e. n messages are ahead of
   a's).  Then from the (n+1)-th later receive on, every receive on h acquires
   a's clock: later messages carry it because ch_sender_sync accumulates. *)
Lemma send_post_tail e a h v s e1 n :
  get_chan e h = Some s -> exec_micro e a (MSendPost h v) = MOk e1 ->
  Forall (vle (caus_of e a)) (skipn n (ch_recv_sync s)) ->
  exists s1, get_chan e1 h = Some s1 /\ chan_tail (caus_of e a) n s1.
Proof.
  intros Hg Hsend Hq. destruct (ho_rx (get_h e h)) eqn:Hrx.
  - (* receiver alive: the view is appended *)
    destruct (send_post_publishes e a h v s e1 Hg Hrx Hsend)
      as (s1 & Hg1 & _ & Hq1 & Hc & _).
    exists s1. split; [exact Hg1|]. split; [exact Hc|].
    rewrite Hq1, skipn_app. apply Forall_app. split; [exact Hq|].
    apply (Forall_skipn_le _ (vle (caus_of e a)) 0 _ [ch_sender_sync s1] (Nat.le_0_l _)).
    cbn [skipn]. constructor; [exact Hc|constructor].
  - (* receiver gone: the queue is untouched, the sender-side view still gets a's clock *)
    destruct (send_post_disconnected e a h v s e1 Hg Hrx Hsend) as (s1 & Hg1 & _ & Hq1 & _).
    exists s1. split; [exact Hg1|]. split.
    + exact (send_post_disconnected_sender_sync e a h v s e1 s1 Hg Hrx Hsend Hg1).
    + rewrite Hq1. exact Hq.
Qed.

Lemma recv_post_inv e b h lg e' s :
  get_chan e h = Some s -> exec_micro e b (MRecvPost h lg) = MOk e' -> b < length (e_threads e) ->
  exists sy rest s', ch_recv_sync s = sy :: rest /\ vle sy (caus_of e' b) /\
    get_chan e' h = Some s' /\ ch_recv_sync s' = rest /\ ch_sender_sync s' = ch_sender_sync s.
Proof.
  intros Hg Hrecv Hb. pose proof Hrecv as Hx. cbn [exec_micro] in Hx. rewrite Hg in Hx.
  destruct (ch_cnt s) as [|n] eqn:Hcnt; [discriminate|].
  destruct (ch_recv_sync s) as [|sy rest] eqn:Hq; [discriminate|]. clear Hx.
  destruct (recv_post_acquires e b h lg s n sy rest e' Hg Hcnt Hq Hrecv Hb)
    as (Hsy & _ & s' & Hg' & _ & Hq' & Hs').
  exists sy, rest, s'. auto.
Qed.

Lemma recv_post_get e b h lg e' :
  exec_micro e b (MRecvPost h lg) = MOk e' -> exists s, get_chan e h = Some s.
Proof. cbn [exec_micro]. destruct (get_chan e h) as [s|]; [eauto|discriminate]. Qed.

(* a receive consumes one position *)
Lemma recv_post_tail e b h lg e' s c n :
  get_chan e h = Some s -> exec_micro e b (MRecvPost h lg) = MOk e' -> b < length (e_threads e) ->
  chan_tail c (S n) s -> exists s', get_chan e' h = Some s' /\ chan_tail c n s'.
Proof.
  intros Hg Hrecv Hb [Hc Hq].
  destruct (recv_post_inv e b h lg e' s Hg Hrecv Hb) as (sy & rest & s' & Hs & _ & Hg' & Hq' & Hs').
  exists s'. split; [exact Hg'|]. split; [rewrite Hs'; exact Hc|].
  rewrite Hq'. rewrite Hs in Hq. exact Hq.
Qed.

(* a receive at position 0 acquires *)
Lemma recv_post_tail_0 e b h lg e' s c :
  get_chan e h = Some s -> exec_micro e b (MRecvPost h lg) = MOk e' -> b < length (e_threads e) ->
  chan_tail c 0 s -> vle c (caus_of e' b).
Proof.
  intros Hg Hrecv Hb [_ Hq].
  destruct (recv_post_inv e b h lg e' s Hg Hrecv Hb) as (sy & rest & s' & Hs & Hsy & _).
  rewrite Hs in Hq. cbn [skipn] in Hq. inversion Hq; subst. eauto using vle_trans.
Qed.

(* [recvs h n e e']: from e to e' the state only grows and at least n
   receives on h are executed *)
Inductive recvs (h : nat) : nat -> exec -> exec -> Prop :=
  | recvs_0 e e' : mono e e' -> recvs h 0 e e'
  | recvs_S n e e1 b lg e2 e' :
      mono e e1 -> b < length (e_threads e1) ->
      exec_micro e1 b (MRecvPost h lg) = MOk e2 ->
      recvs h n e2 e' -> recvs h (S n) e e'.

Lemma recvs_tail h n e e' :
  recvs h n e e' ->
  forall c s s', get_chan e h = Some s -> get_chan e' h = Some s' ->
                 chan_tail c n s -> chan_tail c 0 s'.
Proof.
  intros H. induction H as [e e' Hm|n e e1 b lg e2 e' Hm Hb Hrecv Hr IH]; intros c s s' Hg Hg' Ht.
  - eapply mono_chan_tail; eassumption.
  - destruct (recv_post_get _ _ _ _ _ Hrecv) as (s1 & Hg1).
    pose proof (mono_chan_tail _ _ _ _ _ _ _ Hm Hg Hg1 Ht) as Ht1.
    destruct (recv_post_tail _ _ _ _ _ _ _ _ Hg1 Hrecv Hb Ht1) as (s2 & Hg2 & Ht2).
    eapply IH; eassumption.
Qed.

Theorem channel_fifo_handover_global : forall e a h v s n e1 e2 b lg e3,
  get_chan e h = Some s -> Forall (vle (caus_of e a)) (skipn n (ch_recv_sync s)) ->
  exec_micro e a (MSendPost h v) = MOk e1 ->
  recvs h n e1 e2 ->
  b < length (e_threads e2) -> exec_micro e2 b (MRecvPost h lg) = MOk e3 ->
  vle (caus_of e a) (caus_of e3 b).
Proof.
  intros e a h v s n e1 e2 b lg e3 Hg Hq Hsend Hr Hb Hrecv.
  destruct (send_post_tail e a h v s e1 n Hg Hsend Hq) as (s1 & Hg1 & Ht1).
  destruct (recv_post_get _ _ _ _ _ Hrecv) as (s2 & Hg2).
  pose proof (recvs_tail _ _ _ _ Hr _ _ _ Hg1 Hg2 Ht1) as Ht2.
  eapply recv_post_tail_0; eassumption.
Qed.

(* n messages ahead: the (n+1)-th or any later receive gets a's clock *)
Corollary channel_fifo_handover_global_len : forall e a h v s n e1 e2 b lg e3,
  get_chan e h = Some s -> length (ch_recv_sync s) <= n ->
  exec_micro e a (MSendPost h v) = MOk e1 ->
  recvs h n e1 e2 ->
  b < length (e_threads e2) -> exec_micro e2 b (MRecvPost h lg) = MOk e3 ->
  vle (caus_of e a) (caus_of e3 b).
Proof.
  intros e a h v s n e1 e2 b lg e3 Hg Hlen.
  apply (channel_fifo_handover_global e a h v s n e1 e2 b lg e3 Hg).
  rewrite skipn_all2 by exact Hlen. constructor.
Qed.

(* the requested form: the queue is empty when a sends (or, more generally,
   all queued messages already carry a's clock); then EVERY later receive
   acquires a's clock, however many steps, sends and receives lie in between *)
Theorem channel_handover_mono : forall e a h v s e1 e2 b lg e3,
  get_chan e h = Some s -> Forall (vle (caus_of e a)) (ch_recv_sync s) ->
  exec_micro e a (MSendPost h v) = MOk e1 -> mono e1 e2 ->
  b < length (e_threads e2) -> exec_micro e2 b (MRecvPost h lg) = MOk e3 ->
  vle (caus_of e a) (caus_of e3 b).
Proof.
  intros e a h v s e1 e2 b lg e3 Hg Hq Hsend Hm.
  apply (channel_fifo_handover_global e a h v s 0 e1 e2 b lg e3 Hg Hq Hsend).
  apply recvs_0, Hm.
Qed.

Theorem channel_handover_global : forall e a h v s e1 e2 b lg e3,
  get_chan e h = Some s -> Forall (vle (caus_of e a)) (ch_recv_sync s) ->
  exec_micro e a (MSendPost h v) = MOk e1 -> steps e1 e2 ->
  b < length (e_threads e2) -> exec_micro e2 b (MRecvPost h lg) = MOk e3 ->
  vle (caus_of e a) (caus_of e3 b).
Proof.
  intros e a h v s e1 e2 b lg e3 Hg Hq Hsend Hst.
  apply (channel_handover_mono e a h v s e1 e2 b lg e3 Hg Hq Hsend). apply steps_mono, Hst.
Qed.

(* ================================================================== *)
(* 6. Complements                                                      *)
(* ================================================================== *)

(* ---- schedule leaves every thread clock unchanged ---- *)
Lemma caus_of_mapi_keep e g j :
  (forall id t, t_caus (g id t) = t_caus t) ->
  caus_of (ex_set_threads e (mapi g (e_threads e))) j = caus_of e j.
Proof.
  intros Hg. unfold caus_of, get_thread. rewrite e_threads_set_threads, nth_error_mapi.
  destruct (nth_error (e_threads e) j) as [t|]; cbn [option_map]; [apply Hg|reflexivity].
Qed.

Lemma sched_note_caus e nx pid th j : caus_of (sched_note e nx pid th) j = caus_of e j.
Proof.
  unfold sched_note. destruct (t_op th) as [op|]; [|reflexivity].
  destruct (nth_error (e_objects e) (op_obj op)) as [o|]; [|reflexivity].
  cbv zeta. rewrite caus_of_upd_object. apply caus_of_upd_thread_keep. reflexivity.
Qed.

Lemma schedule_caus : forall e e', fst (schedule e) = MOk e' -> forall j, caus_of e' j = caus_of e j.
Proof.
  intros e e' H j.
  destruct (schedule_cases e)
    as [(c & Hs)|[(x & Hs)|[(p1 & x & Hd & Hs)|(curr & cur_th & p1 & p2 & next & Hp & Hs)]]];
    rewrite Hs in H; cbn [fst] in H; try discriminate H.
  assert (Hb : caus_of (sched_base e p2 next) j = caus_of e j) by reflexivity.
  revert H Hb. generalize (sched_base e p2 next). intros e1 H Hb.
  unfold sched_post in H. destruct next as [nx|].
  - destruct (nth_error (e_threads e1) nx) as [th|]; cbn [fst] in H; [|discriminate H].
    injection H as <-. unfold reactivate. rewrite caus_of_mapi_keep.
    + rewrite sched_note_caus. exact Hb.
    + intros id t. destruct (is_yield t && negb (Nat.eqb id nx)); reflexivity.
  - destruct (forallb is_terminated (e_threads e1)); cbn [fst] in H; [|discriminate H].
    injection H as <-. exact Hb.
Qed.

(* ---- the initial state satisfies track_ok ---- *)
Lemma create_object_ok d :
  exists o, create_object d vv_new vv_new = inl o /\
            (ho_track (hobj_of_decl d) = true -> is_alloc o).
Proof.
  destruct d; cbn [create_object hobj_of_decl]; try (eexists; split; [reflexivity|]; cbn; discriminate).
  (* DAtomic: atomic_new on the initial clocks computes to inl; what is left is DTrack *)
  eexists; split; [reflexivity|]. intros _. eexists; reflexivity.
Qed.

Lemma create_objects_track ds :
  exists os, create_objects ds vv_new vv_new = inl os /\ length os = length ds /\
    forall k o, ho_track (nth k (map hobj_of_decl ds) hobj_default) = true ->
                nth_error os k = Some o -> is_alloc o.
Proof.
  induction ds as [|d ds IH].
  - exists []. repeat split. intros [|k] o _ H; discriminate H.
  - destruct (create_object_ok d) as (o & Ho & Hal). destruct IH as (os & Hos & Hlen & Hk).
    exists (o :: os). cbn [create_objects]. rewrite Ho, Hos. split; [reflexivity|].
    split; [cbn [length]; congruence|].
    intros [|k] o' Htr Hn; cbn [map nth nth_error] in Htr, Hn.
    + injection Hn as <-. auto.
    + eauto.
Qed.

Lemma init_exec_track_ok p pa : track_ok (init_exec p pa).
Proof.
  destruct (create_objects_track (p_decls p)) as (os & Hos & Hlen & Hk).
  unfold track_ok, get_h, init_exec. cbn [e_h e_objects]. rewrite Hos.
  split; [rewrite map_length, Hlen; apply Nat.le_refl|]. exact Hk.
Qed.

(* hence the strict view order holds along every run of the model *)
Corollary run_view_mono fuel p pa e' r :
  run fuel (init_exec p pa) = (e', r) ->
  forall i o, nth_error (e_objects (init_exec p pa)) i = Some o ->
    exists o', nth_error (e_objects e') i = Some o' /\ view_le o o'.
Proof.
  intros H i o Hi. pose proof (run_mono fuel (init_exec p pa)) as Hm. rewrite H in Hm. cbn [fst] in Hm.
  destruct (omono_strict _ _ Hm (init_exec_track_ok p pa) i o Hi) as (o' & Hi' & Hle).
  eauto using obj_le_view_le.
Qed.

(* ---- the counterexample behind the deviation: without track_ok an object
   can change kind.  Start from any initial state, put a mutex in slot 0 of the
   object store and a harness object whose track flag is set in slot 0 of e_h;
   MTrackDrop 0 then overwrites the mutex by OAlloc true. ---- *)
Definition cex_mutex : object :=
  match create_object DMutex vv_new vv_new with inl o => o | inr _ => OAlloc false end.
Definition cex_state (p : prog) (pa : path) : exec :=
  ex_set_h (ex_set_objects (init_exec p pa) [cex_mutex]) [ho_set_track hobj_default true].

Lemma view_mono_counterexample p pa :
  exists e', exec_micro (cex_state p pa) 0 (MTrackDrop 0) = MOk e' /\
             nth_error (e_objects (cex_state p pa)) 0 = Some cex_mutex /\
             nth_error (e_objects e') 0 = Some (OAlloc true) /\
             ~ view_le cex_mutex (OAlloc true).
Proof.
  eexists. split; [reflexivity|]. split; [reflexivity|]. split; [reflexivity|].
  intros H. exact H.
Qed.

Print Assumptions exec_micro_caus_mono.
Print Assumptions exec_micro_view_mono.
Print Assumptions exec_micro_view_mono_weak.
Print Assumptions steps_caus_mono.
Print Assumptions steps_view_mono.
Print Assumptions run_steps.
Print Assumptions schedule_caus.
Print Assumptions init_exec_track_ok.
Print Assumptions mutex_handover_global.
Print Assumptions mutex_handover_global_ok.
Print Assumptions rwlock_write_handover_global.
Print Assumptions rwlock_read_handover_global.
Print Assumptions notify_handover_global.
Print Assumptions arc_drop_handover_global.
Print Assumptions channel_handover_global.
Print Assumptions channel_fifo_handover_global.
