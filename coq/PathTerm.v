(* Termination of the exploration loop for EVERY well-behaved iteration
   function, with an explicit bound, via the mixed-radix measure [mu].

   Main result (exactly the requested statement, no deviation):

     Theorem explore_terminates :
       forall it p, iter_ok it -> wf_path p ->
                    finishes it (S (BASE ^ cap p)) p = true.

   (The slightly tighter [finishes it (BASE ^ cap p) p = true] also holds and
   is proved as [explore_terminates_tight].)

   Exported lemmas: weight_lt_base, ext_weight, ext_wf, advance_weight,
   advance_wf, step_wf, step_cap, step_mu_gap, step_mu, extends_mu, mu_lt_cap,
   iter_mu_decreases, finishes_fuel. *)
Require Import LV.Base LV.Path LV.PathSpec.
Require Import Lia.

Local Arguments Nat.pow : simpl never.

(* ---- generic list facts ---- *)

Lemma filter_length_le {A : Type} (f : A -> bool) (l : list A) :
  length (filter f l) <= length l.
Proof.
  induction l as [|h t IH]; simpl; [lia|].
  destruct (f h); simpl; lia.
Qed.

Lemma Forall2_rev' {A B : Type} (R : A -> B -> Prop) (l : list A) (l' : list B) :
  Forall2 R l l' -> Forall2 R (rev l) (rev l').
Proof.
  induction 1 as [|x y l l' Hxy _ IH]; simpl; [constructor|].
  apply Forall2_app; [exact IH|]. constructor; [exact Hxy|constructor].
Qed.

Lemma Forall2_length' {A B : Type} (R : A -> B -> Prop) (l : list A) (l' : list B) :
  Forall2 R l l' -> length l' = length l.
Proof.
  induction 1 as [|x y l l' _ _ IH]; simpl; [reflexivity|]. now rewrite IH.
Qed.

Lemma BASE_nz : BASE <> 0.
Proof. unfold BASE. discriminate. Qed.

Lemma BASE_pow_pos (k : nat) : 1 <= BASE ^ k.
Proof. pose proof (Nat.pow_nonzero BASE k BASE_nz). lia. Qed.

(* ---- 1. every weight is a digit ---- *)

Lemma weight_lt_base (e : entry) : wf_entry e -> weight e < BASE.
Proof.
  unfold BASE. destruct e as [s|l|s]; cbn [weight wf_entry]; intros H.
  - destruct (s_ex s); [|lia].
    pose proof (filter_length_le (fun t => is_pending t || is_skip t) (s_threads s)) as Hf.
    unfold MAX_THREADS in H. lia.
  - destruct (l_ex l); [|lia]. unfold MAX_ATOMIC_HISTORY in H. lia.
  - destruct (p_ex s && negb (p_spur s)); lia.
Qed.

(* ---- 2. backtrack marks change neither weight nor well-formedness ---- *)

Lemma ext_t_filter (l l' : list tstat) :
  Forall2 ext_t l l' ->
  length (filter (fun t => is_pending t || is_skip t) l')
  = length (filter (fun t => is_pending t || is_skip t) l).
Proof.
  induction 1 as [|t t' l l' Ht _ IH]; [reflexivity|].
  destruct Ht as [Ht|[Ht1 Ht2]]; subst.
  - cbn [filter]. destruct (is_pending t || is_skip t); cbn [length]; lia.
  - cbn. lia.
Qed.

Lemma ext_weight (e e' : entry) : ext e e' -> weight e' = weight e.
Proof.
  intros H. destruct H as [e|s th' Hex Hth]; [reflexivity|].
  cbn [weight s_ex s_threads]. rewrite Hex. apply ext_t_filter. exact Hth.
Qed.

Lemma ext_wf (e e' : entry) : ext e e' -> wf_entry e -> wf_entry e'.
Proof.
  intros H Hwf. destruct H as [e|s th' Hex Hth]; [exact Hwf|].
  cbn [wf_entry s_threads] in *. rewrite (Forall2_length' _ _ _ Hth). exact Hwf.
Qed.

Lemma ext_mu_rev (c : nat) (a b : list entry) :
  Forall2 ext a b -> mu_rev c b = mu_rev c a.
Proof.
  induction 1 as [|x y a b Hxy Hab IH]; [reflexivity|].
  cbn [mu_rev]. rewrite IH, (ext_weight _ _ Hxy), (Forall2_length' _ _ _ Hab). reflexivity.
Qed.

(* ---- 3. the digits after position k are worth less than one unit of
        position k ---- *)

Lemma mu_rev_app_bound (c : nat) (nr old : list entry) :
  Forall wf_entry nr -> length nr + length old <= c ->
  mu_rev c (nr ++ old) + BASE ^ (c - (length nr + length old))
  <= mu_rev c old + BASE ^ (c - length old).
Proof.
  induction nr as [|e nr IH]; intros Hwf Hlen.
  - cbn [app length Nat.add]. lia.
  - inversion Hwf as [|e0 nr0 He Hnr]; subst e0 nr0.
    cbn [app mu_rev length] in *.
    assert (Hlen' : length nr + length old <= c) by lia.
    specialize (IH Hnr Hlen').
    pose proof (weight_lt_base _ He) as Hw.
    rewrite app_length.
    remember (length nr + length old) as L eqn:HL.
    replace (c - L) with (S (c - S L)) in IH by lia.
    rewrite Nat.pow_succ_r' in IH.
    replace (c - (S (length nr) + length old)) with (c - S L) by lia.
    remember (BASE ^ (c - S L)) as x eqn:Hx.
    nia.
Qed.

Lemma mu_rev_lt_pow (c : nat) (rb : list entry) :
  Forall wf_entry rb -> length rb <= c -> mu_rev c rb < BASE ^ c.
Proof.
  intros Hwf Hlen.
  pose proof (mu_rev_app_bound c rb [] Hwf) as H.
  cbn [length mu_rev] in H. rewrite app_nil_r, Nat.add_0_r, Nat.sub_0_r in H.
  specialize (H Hlen).
  pose proof (BASE_pow_pos (c - length rb)). lia.
Qed.

Lemma mu_lt_cap (p : path) : wf_path p -> mu p < BASE ^ cap p.
Proof.
  intros [Hwf Hlen]. unfold mu. apply mu_rev_lt_pow.
  - apply Forall_rev. exact Hwf.
  - rewrite rev_length. exact Hlen.
Qed.

(* ---- 4. step strictly decreases the measure ---- *)

Lemma visit_active_filter (l : list tstat) :
  length (filter (fun t => is_pending t || is_skip t) (visit_active l))
  = length (filter (fun t => is_pending t || is_skip t) l).
Proof.
  induction l as [|h t IH]; [reflexivity|].
  cbn [visit_active]. destruct h; cbn; try lia.
  all: cbn in IH; rewrite IH; reflexivity.
Qed.

Lemma visit_active_length (l : list tstat) : length (visit_active l) = length l.
Proof.
  induction l as [|h t IH]; [reflexivity|].
  cbn [visit_active]. destruct (is_active h); cbn [length]; lia.
Qed.

Lemma activate_pending_filter (l th : list tstat) :
  activate_pending l = Some th ->
  S (length (filter (fun t => is_pending t || is_skip t) th))
  = length (filter (fun t => is_pending t || is_skip t) l).
Proof.
  revert th. induction l as [|h t IH]; intros th H; [discriminate|].
  cbn [activate_pending] in H.
  destruct (is_pending h) eqn:Hp.
  - inversion H; subst th. cbn [filter]. rewrite Hp. cbn. reflexivity.
  - destruct (activate_pending t) as [th0|] eqn:E; [|discriminate].
    cbn [option_map] in H. inversion H; subst th.
    specialize (IH th0 eq_refl).
    cbn [filter]. destruct (is_pending h || is_skip h); cbn [length]; lia.
Qed.

Lemma activate_pending_length (l th : list tstat) :
  activate_pending l = Some th -> length th = length l.
Proof.
  revert th. induction l as [|h t IH]; intros th H; [discriminate|].
  cbn [activate_pending] in H.
  destruct (is_pending h).
  - inversion H; subst th. reflexivity.
  - destruct (activate_pending t) as [th0|] eqn:E; [|discriminate].
    cbn [option_map] in H. inversion H; subst th.
    cbn [length]. rewrite (IH th0 eq_refl). reflexivity.
Qed.

Lemma advance_weight (e e' : entry) :
  advance_entry e = Some e' -> weight e' < weight e.
Proof.
  destruct e as [s|l|s]; cbn [advance_entry]; intros H.
  - destruct (s_ex s) eqn:Hex; cbn [negb] in H; [|discriminate].
    destruct (activate_pending (visit_active (s_threads s))) as [th|] eqn:E; [|discriminate].
    inversion H; subst e'. cbn [weight s_ex s_threads]. rewrite Hex.
    pose proof (activate_pending_filter _ _ E) as H1.
    rewrite visit_active_filter in H1. lia.
  - destruct (l_ex l) eqn:Hex; cbn [negb] in H; [|discriminate].
    destruct (Nat.ltb (S (l_pos l)) (length (l_vals l))) eqn:Hlt; [|discriminate].
    apply Nat.ltb_lt in Hlt.
    inversion H; subst e'. cbn [weight l_ex l_vals l_pos]. rewrite Hex. lia.
  - destruct (p_ex s) eqn:Hex; cbn [negb] in H; [|discriminate].
    destruct (p_spur s) eqn:Hsp; [discriminate|].
    inversion H; subst e'. cbn [weight p_ex p_spur]. rewrite Hex, Hsp. cbn. lia.
Qed.

Lemma advance_wf (e e' : entry) :
  advance_entry e = Some e' -> wf_entry e -> wf_entry e'.
Proof.
  destruct e as [s|l|s]; cbn [advance_entry]; intros H Hwf.
  - destruct (negb (s_ex s)); [discriminate|].
    destruct (activate_pending (visit_active (s_threads s))) as [th|] eqn:E; [|discriminate].
    inversion H; subst e'. cbn [wf_entry s_threads] in *.
    rewrite (activate_pending_length _ _ E), visit_active_length. exact Hwf.
  - destruct (negb (l_ex l)); [discriminate|].
    destruct (Nat.ltb (S (l_pos l)) (length (l_vals l))); [|discriminate].
    inversion H; subst e'. exact Hwf.
  - destruct (negb (p_ex s)); [discriminate|].
    destruct (p_spur s); [discriminate|].
    inversion H; subst e'. exact I.
Qed.

Lemma step_rev_spec (rb rb' : list entry) :
  step_rev rb = Some rb' ->
  exists popped e e' rest,
    rb = popped ++ e :: rest /\ rb' = e' :: rest /\ advance_entry e = Some e'.
Proof.
  revert rb'. induction rb as [|e rest IH]; intros rb' H; [discriminate|].
  cbn [step_rev] in H. destruct (advance_entry e) as [e'|] eqn:E.
  - inversion H; subst rb'. exists [], e, e', rest. repeat split. exact E.
  - destruct (IH rb' H) as (popped & e1 & e1' & rest1 & H1 & H2 & H3).
    exists (e :: popped), e1, e1', rest1. subst rest. repeat split; assumption.
Qed.

Lemma mu_rev_app_ge (c : nat) (popped rb : list entry) :
  mu_rev c rb <= mu_rev c (popped ++ rb).
Proof.
  induction popped as [|e popped IH]; cbn [app mu_rev]; lia.
Qed.

(* what step does, in one place *)
Lemma step_spec (p p' : path) :
  step p = Some p' ->
  exists popped e e' rest,
    rev (branches p) = popped ++ e :: rest /\
    advance_entry e = Some e' /\
    p' = mkPath (bound p) 0 (rev (e' :: rest)) (eos p) false (eos p) (cap p).
Proof.
  unfold step. intros H.
  destruct (step_rev (rev (branches p))) as [rb|] eqn:E; [|discriminate].
  destruct (step_rev_spec _ _ E) as (popped & e & e' & rest & H1 & H2 & H3).
  inversion H; subst p' rb. exists popped, e, e', rest. repeat split; assumption.
Qed.

Lemma step_cap (p p' : path) : step p = Some p' -> cap p' = cap p.
Proof.
  intros H. destruct (step_spec _ _ H) as (popped & e & e' & rest & _ & _ & Hp).
  subst p'. reflexivity.
Qed.

Lemma step_wf (p p' : path) : wf_path p -> step p = Some p' -> wf_path p'.
Proof.
  intros [Hwf Hlen] H.
  destruct (step_spec _ _ H) as (popped & e & e' & rest & Hrev & Hadv & Hp).
  subst p'. unfold wf_path. cbn [branches cap].
  assert (Hwfr : Forall wf_entry (popped ++ e :: rest)).
  { rewrite <- Hrev. apply Forall_rev. exact Hwf. }
  apply Forall_app in Hwfr. destruct Hwfr as [_ Hwfr].
  inversion Hwfr as [|e0 r0 He Hrest]; subst e0 r0.
  split.
  - apply Forall_rev. constructor; [|exact Hrest]. exact (advance_wf _ _ Hadv He).
  - rewrite rev_length. cbn [length].
    assert (Hl : length (rev (branches p)) = length (popped ++ e :: rest)) by now rewrite Hrev.
    rewrite rev_length, app_length in Hl. cbn [length] in Hl. lia.
Qed.

(* the decrease is at least one unit of the position that was advanced *)
Lemma step_mu_gap (p p' : path) :
  step p = Some p' ->
  mu p' + BASE ^ (cap p - length (branches p')) <= mu p.
Proof.
  intros H.
  destruct (step_spec _ _ H) as (popped & e & e' & rest & Hrev & Hadv & Hp).
  subst p'. unfold mu. cbn [branches cap].
  rewrite rev_involutive, rev_length, Hrev.
  pose proof (mu_rev_app_ge (cap p) popped (e :: rest)) as Hge.
  pose proof (advance_weight _ _ Hadv) as Hw.
  cbn [mu_rev length] in *.
  remember (BASE ^ (cap p - S (length rest))) as x eqn:Hx.
  nia.
Qed.

Lemma step_mu (p p' : path) : step p = Some p' -> mu p' < mu p.
Proof.
  intros H. pose proof (step_mu_gap _ _ H) as Hg.
  pose proof (BASE_pow_pos (cap p - length (branches p'))). lia.
Qed.

(* ---- 5. an iteration adds less than what the step removed ---- *)

Lemma extends_mu (p p' : path) :
  extends p p' -> wf_path p' ->
  mu p' + BASE ^ (cap p - length (branches p'))
  <= mu p + BASE ^ (cap p - length (branches p)).
Proof.
  intros (_ & Hc & _ & old & new & Hbr & Hext) [Hwf Hlen].
  unfold mu. rewrite Hc in *. rewrite Hbr in *. rewrite rev_app_distr.
  pose proof (Forall2_length' _ _ _ Hext) as Hlo.
  pose proof (ext_mu_rev (cap p) _ _ (Forall2_rev' _ _ _ Hext)) as Hmu.
  apply Forall_app in Hwf. destruct Hwf as [_ Hwfn].
  rewrite app_length in *.
  pose proof (mu_rev_app_bound (cap p) (rev new) (rev old) (Forall_rev Hwfn)) as Hb.
  rewrite !rev_length in Hb.
  rewrite Hmu, Hlo in Hb.
  replace (length old + length new) with (length new + length (branches p)) by lia.
  apply Hb. lia.
Qed.

Lemma iter_mu_decreases (it : path -> path) (q p' : path) :
  iter_ok it -> wf_path q -> step q = Some p' -> mu (it p') < mu q.
Proof.
  intros Hit Hwf Hstep.
  pose proof (step_wf _ _ Hwf Hstep) as Hwf'.
  destruct (Hit p' Hwf') as [Hext Hwfi].
  pose proof (extends_mu _ _ Hext Hwfi) as H1.
  pose proof (step_mu_gap _ _ Hstep) as H2.
  rewrite (step_cap _ _ Hstep) in H1.
  pose proof (BASE_pow_pos (cap q - length (branches (it p')))). lia.
Qed.

(* ---- conclusion ---- *)

Lemma finishes_fuel (it : path -> path) :
  iter_ok it ->
  forall n p, wf_path p -> mu (it p) < n -> finishes it n p = true.
Proof.
  intros Hit. induction n as [|n IH]; intros p Hwf Hlt; [lia|].
  cbn [finishes]. destruct (step (it p)) as [p'|] eqn:E; [|reflexivity].
  destruct (Hit p Hwf) as [_ Hwfi].
  apply IH.
  - exact (step_wf _ _ Hwfi E).
  - pose proof (iter_mu_decreases it _ _ Hit Hwfi E). lia.
Qed.

Lemma iter_mu_lt_cap (it : path -> path) (p : path) :
  iter_ok it -> wf_path p -> mu (it p) < BASE ^ cap p.
Proof.
  intros Hit Hwf. destruct (Hit p Hwf) as [(_ & Hc & _) Hwfi].
  rewrite <- Hc. apply mu_lt_cap. exact Hwfi.
Qed.

Theorem explore_terminates_tight :
  forall it p, iter_ok it -> wf_path p -> finishes it (BASE ^ cap p) p = true.
Proof.
  intros it p Hit Hwf. apply finishes_fuel; [exact Hit|exact Hwf|].
  apply iter_mu_lt_cap; assumption.
Qed.

Theorem explore_terminates :
  forall it p, iter_ok it -> wf_path p -> finishes it (S (BASE ^ cap p)) p = true.
Proof.
  intros it p Hit Hwf. apply finishes_fuel; [exact Hit|exact Hwf|].
  pose proof (iter_mu_lt_cap it p Hit Hwf). lia.
Qed.

Print Assumptions explore_terminates.
