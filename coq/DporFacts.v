(* DporFacts: the DPOR rule of Execution::schedule as a theorem -- every race
   that the dependence check detects is registered on the decision stack, so
   that (with PathExhaust.dfs_exhaustive) the reversed order gets explored.

   CONTENTS
   1. Schedule::backtrack
        at_bound s bd        the early return: the STORED count s_pre s equals the bound
        bt_threads, bt_sched what the call does to the thread array / the entry
        sched_backtrack_spec     sched_backtrack s tid bd = POk s' <->
                                 s_ex s = true /\ opt_le_bound (s_pre s) bd = true /\
                                 s' = bt_sched s tid bd             (exact)
        sched_backtrack_effect   the readable form (fields, active thread, preemptions
                                 unchanged; at the bound nothing changes; tid enabled:
                                 status explore_t, nothing else; tid Disabled: map explore_t;
                                 tid beyond the array: nothing)
        sched_backtrack_err, bt_sched_idem, sched_backtrack_again (idempotent)
   2. Path::backtrack
        find_backtrack_point_spec / _complete / _none / _total / _err
        find_backtrack_point_hit_ext, find_backtrack_point_stable
        backtrack_spec, backtrack_spec_unbounded, backtrack_err
   3. Monotonicity
        st_le, sched_le, entry_le, stack_le, path_le
        backtrack_mono, dpor_accesses_mono, dpor_loop_mono
        dpor_loop_keeps_status, find_backtrack_point_le
   4. The rule
        dpor_loop_registers (MAIN), dpor_loop_registers_status,
        dpor_loop_registers_unbounded, at_bound_preemptions, backtrack_at_bound_noop
   5. The bridge to the exploration
        registered_of_pending, registered_of_status, registered_extends, explore_bound
        race_reversal_explored, pending_explored,
        schedule_race_reversal_explored, run_race_reversal_explored,
        branch_race_reversal_explored
   6. Examples: dpor_two_stores, dpor_two_stores_registered,
        dpor_loop_registers_nonvacuous; what the rule does not cover:
        yield_race_not_registered, dpor_loop_yield_not_registered,
        yield_race_reversal_missed (END TO END, a missed outcome),
        bound_race_not_registered, early_return_uses_stored_count

   DEVIATIONS from the requested statements
   (1) The early return of Schedule::backtrack tests the stored field
       [s_pre s] (self.preemptions in path.rs), not the method
       [preemptions s] (= s_pre s, plus one when initial_active differs from
       the active thread).  All statements use [at_bound s bd]
       (bd = Some (s_pre s)).  [at_bound_preemptions]: preemptions s < b implies
       at_bound s (Some b) = false; [early_return_uses_stored_count] is an entry
       with preemptions() = bound that still registers.
   (2) "the status of tid is no longer Skip" is proved as: the status is
       [explore_t] of the old one.  For a thread whose status is Yield this
       means Yield again: such a thread is "enabled" (not Disabled), so the
       conservative fallback does not fire, and Thread::explore leaves Yield
       alone.  Hence a detected race of a thread that is Yield at the
       backtrack point is NOT registered although the bound allows it:
       [yield_race_not_registered] (one backtrack call),
       [dpor_loop_yield_not_registered] (all hypotheses of the main theorem),
       and END TO END [yield_race_reversal_missed]:
           main: spawn t1; r0 = x.fetch_add(1); join t1
           t1:   yield_now(); r1 = x.fetch_add(10)
       the exploration finishes normally after two iterations, both with
       r0 = 0, r1 = 1; the outcome r0 = 10, r1 = 0 (t1's RMW first), allowed by
       the reference semantics R, is never explored.  (Thread t1 is Yield at
       the entry at which main performed its RMW; the backtrack request for t1
       there is a no-op.)  The bridge theorems therefore assume
       [runnable_status t = true] (Skip / Pending / Active / Visited) for the
       status t of the racing thread at the backtrack point.
   (3) tid beyond the thread array (nth_error = None): nothing changes; the
       main theorem promises nothing in that case.  On a well formed path the
       arrays have length MAX_THREADS.
   (4) backtrack_spec: the second entry J changed by the conservative loop may
       coincide with i on an arbitrary stack (s_prev is not constrained here);
       Schedule::backtrack is idempotent, so entry i is then still exactly the
       Schedule::backtrack of the old entry i.
   (5) registered_of_pending needs [s_ex s = true] (it is part of the
       definition of [registered]); [registered_of_pending_needs_ex] is the
       counterexample without it.  At a backtrack point s_ex = true holds
       (find_backtrack_point_spec).
   (6) dpor_loop_registers needs no side condition on [ths] (a duplicated id
       is harmless: the first occurrence issues the request, everything after
       it is monotone) and the backtrack point is stable through the loop
       ([find_backtrack_point_le]: marks change neither entry kinds nor s_ex).
   (7) race_reversal_explored: the scheduling point is given as the pair
       (p, p') of the DPOR loop with [extends p' ek]; the concrete forms are
       schedule_race_reversal_explored (a call schedule es whose resulting
       path extends to ek), run_race_reversal_explored (a state reached by
       Scheduler::run inside iteration k whose next micro-operation calls
       schedule) and branch_race_reversal_explored (that micro-operation is an
       MBranch).  [bound p = None] is derived from preemption_bound c = None
       ([explore_bound]). *)
Require Import LV.Base LV.VV LV.Path LV.PathSpec LV.PathTerm LV.PathDistinct LV.PathApi
               LV.PathExhaust LV.PathPreempt LV.Prog LV.Objects LV.Exec LV.Atomic LV.Ops
               LV.Check LV.ExecFacts LV.ExecFacts2 LV.Ref LV.Outcome LV.Witness.
From Coq Require Import Lia.

(* ================================================================== *)
(* 0. small list facts                                                 *)
(* ================================================================== *)

Lemma nth_error_list_upd_eq (A : Type) (l : list A) (n : nat) (f : A -> A) (x : A) :
  nth_error l n = Some x -> nth_error (list_upd l n f) n = Some (f x).
Proof.
  intros Hn. unfold list_upd. rewrite Hn. apply nth_error_list_set_eq.
  apply nth_error_Some. congruence.
Qed.

Lemma nth_error_list_set (A : Type) (l : list A) (n i : nat) (x : A) :
  nth_error (list_set l n x) i =
  if Nat.eqb i n then (if Nat.ltb n (length l) then Some x else None) else nth_error l i.
Proof.
  destruct (Nat.eqb_spec i n) as [->|Hne].
  - destruct (Nat.ltb_spec n (length l)) as [Hlt|Hge].
    + apply nth_error_list_set_eq. exact Hlt.
    + apply nth_error_None. rewrite list_set_length. exact Hge.
  - apply nth_error_list_set_neq. exact Hne.
Qed.

Lemma schedule_eta (s : Path.schedule) : mkSched (s_pre s) (s_ia s) (s_threads s) (s_prev s) (s_ex s) = s.
Proof. destruct s; reflexivity. Qed.

(* ================================================================== *)
(* 1. Schedule::backtrack                                              *)
(* ================================================================== *)

(* the early return of Schedule::backtrack: the STORED count [s_pre] (the field
   [preemptions] of the Rust struct, not the method [preemptions()]) has
   reached the bound *)
Definition at_bound (s : Path.schedule) (bd : option nat) : bool :=
  match bd with Some b => Nat.eqb (s_pre s) b | None => false end.

(* what Schedule::backtrack does to the thread array when it gets that far *)
Definition bt_threads (l : list tstat) (tid : nat) : list tstat :=
  match nth_error l tid with
  | None => l
  | Some t => if is_enabled t then list_upd l tid explore_t else map explore_t l
  end.

(* the schedule after a backtrack request for [tid] *)
Definition bt_sched (s : Path.schedule) (tid : nat) (bd : option nat) : Path.schedule :=
  if at_bound s bd then s
  else mkSched (s_pre s) (s_ia s) (bt_threads (s_threads s) tid) (s_prev s) (s_ex s).

(* exact characterisation *)
Theorem sched_backtrack_spec s tid bd s' :
  sched_backtrack s tid bd = POk s' <->
  s_ex s = true /\ opt_le_bound (s_pre s) bd = true /\ s' = bt_sched s tid bd.
Proof.
  unfold sched_backtrack, bt_sched, bt_threads, at_bound.
  destruct (s_ex s) eqn:Hex; cbn [negb].
  2:{ split; [discriminate|]. intros (H & _). discriminate. }
  destruct (opt_le_bound (s_pre s) bd); cbn [negb].
  2:{ split; [discriminate|]. intros (_ & H & _). discriminate. }
  destruct (match bd with Some b => Nat.eqb (s_pre s) b | None => false end).
  - split.
    + intros H. injection H as <-. auto.
    + intros (_ & _ & ->). reflexivity.
  - destruct (nth_error (s_threads s) tid) as [t|].
    + split.
      * intros H. injection H as <-. auto.
      * intros (_ & _ & ->). reflexivity.
    + assert (E : mkSched (s_pre s) (s_ia s) (s_threads s) (s_prev s) true = s).
      { destruct s as [pre ia th prev ex]. cbn [s_ex] in Hex. subst ex. reflexivity. }
      rewrite E. split.
      * intros H. injection H as <-. auto.
      * intros (_ & _ & ->). reflexivity.
Qed.

(* when does it fail *)
Lemma sched_backtrack_err s tid bd x :
  sched_backtrack s tid bd = PErr x ->
  (s_ex s = false /\ x = PInternal 9) \/
  (s_ex s = true /\ opt_le_bound (s_pre s) bd = false /\ x = PInternal 10).
Proof.
  unfold sched_backtrack.
  destruct (s_ex s); cbn [negb]; [|intros H; injection H as <-; auto].
  destruct (opt_le_bound (s_pre s) bd); cbn [negb]; [|intros H; injection H as <-; auto].
  destruct (match bd with Some b => Nat.eqb (s_pre s) b | None => false end); [discriminate|].
  destruct (nth_error (s_threads s) tid); discriminate.
Qed.

(* ---- the thread array, pointwise ---- *)
Lemma bt_threads_length l tid : length (bt_threads l tid) = length l.
Proof.
  unfold bt_threads. destruct (nth_error l tid) as [t|]; [|reflexivity].
  destruct (is_enabled t); [apply list_upd_length|apply map_length].
Qed.

(* [tid] enabled in the entry: only its own status moves, Skip -> Pending *)
Lemma bt_threads_enabled l tid t :
  nth_error l tid = Some t -> is_enabled t = true ->
  nth_error (bt_threads l tid) tid = Some (explore_t t) /\
  forall u, u <> tid -> nth_error (bt_threads l tid) u = nth_error l u.
Proof.
  intros Hn He. unfold bt_threads. rewrite Hn, He. split.
  - apply nth_error_list_upd_eq. exact Hn.
  - intros u Hu. apply nth_error_list_upd_neq. exact Hu.
Qed.

(* [tid] Disabled in the entry: the conservative fallback, every Skip thread
   becomes Pending *)
Lemma bt_threads_disabled l tid :
  nth_error l tid = Some Disabled ->
  bt_threads l tid = map explore_t l.
Proof. intros Hn. unfold bt_threads. rewrite Hn. reflexivity. Qed.

(* [tid] beyond the array: nothing *)
Lemma bt_threads_absent l tid : nth_error l tid = None -> bt_threads l tid = l.
Proof. intros Hn. unfold bt_threads. rewrite Hn. reflexivity. Qed.

Lemma is_enabled_false t : is_enabled t = false -> t = Disabled.
Proof. destruct t; cbn; congruence. Qed.

Lemma explore_t_not_skip t : explore_t t <> Skip.
Proof. destruct t; discriminate. Qed.

Lemma explore_t_cases t :
  (t = Skip /\ explore_t t = Pending) \/ (t <> Skip /\ explore_t t = t).
Proof. destruct t; cbn; auto; right; split; congruence. Qed.

Lemma bt_threads_nth l tid u :
  nth_error (bt_threads l tid) u =
  match nth_error l tid with
  | None => nth_error l u
  | Some t =>
      if is_enabled t
      then (if Nat.eqb u tid then Some (explore_t t) else nth_error l u)
      else option_map explore_t (nth_error l u)
  end.
Proof.
  destruct (nth_error l tid) as [t|] eqn:Hn.
  - destruct (is_enabled t) eqn:He.
    + destruct (bt_threads_enabled _ _ _ Hn He) as [H1 H2].
      destruct (Nat.eqb_spec u tid) as [->|Hne]; auto.
    + apply is_enabled_false in He. subst t.
      rewrite (bt_threads_disabled _ _ Hn). apply nth_error_map.
  - rewrite (bt_threads_absent _ _ Hn). reflexivity.
Qed.

(* the readable form of the specification: fields, active thread, preemption
   count are untouched; the statuses as described *)
Theorem sched_backtrack_effect s tid bd s' :
  sched_backtrack s tid bd = POk s' ->
  s_ex s = true /\ opt_le_bound (s_pre s) bd = true /\
  s_pre s' = s_pre s /\ s_ia s' = s_ia s /\ s_prev s' = s_prev s /\ s_ex s' = s_ex s /\
  length (s_threads s') = length (s_threads s) /\
  active_thread_index s' = active_thread_index s /\
  preemptions s' = preemptions s /\
  (* the bound is reached: early return, nothing changes *)
  (at_bound s bd = true -> s' = s) /\
  (at_bound s bd = false ->
     (* tid enabled: its status is explored, nothing else moves *)
     (forall t, nth_error (s_threads s) tid = Some t -> is_enabled t = true ->
        nth_error (s_threads s') tid = Some (explore_t t) /\
        forall u, u <> tid -> nth_error (s_threads s') u = nth_error (s_threads s) u) /\
     (* tid Disabled: every thread is explored *)
     (nth_error (s_threads s) tid = Some Disabled ->
        s_threads s' = map explore_t (s_threads s)) /\
     (* tid beyond the array: nothing changes *)
     (nth_error (s_threads s) tid = None -> s' = s)).
Proof.
  intros H. pose proof (sched_backtrack_ext _ _ _ _ H) as Hext.
  apply sched_backtrack_spec in H. destruct H as (Hex & Hle & ->).
  split; [exact Hex|]. split; [exact Hle|].
  assert (Hfields :
    s_pre (bt_sched s tid bd) = s_pre s /\ s_ia (bt_sched s tid bd) = s_ia s /\
    s_prev (bt_sched s tid bd) = s_prev s /\ s_ex (bt_sched s tid bd) = s_ex s /\
    length (s_threads (bt_sched s tid bd)) = length (s_threads s)).
  { unfold bt_sched. destruct (at_bound s bd); cbn [s_pre s_ia s_prev s_ex s_threads]; auto.
    repeat split. apply bt_threads_length. }
  destruct Hfields as (F1 & F2 & F3 & F4 & F5).
  repeat (split; [assumption|]).
  assert (Hact : active_thread_index (bt_sched s tid bd) = active_thread_index s /\
                 preemptions (bt_sched s tid bd) = preemptions s).
  { destruct (ext_inv _ _ Hext) as [Heq|(s0 & th & Hs0 & Heq & _ & Hth)].
    - injection Heq as ->. auto.
    - injection Hs0 as <-. injection Heq as ->. split.
      + unfold active_thread_index. cbn [s_threads].
        symmetry. apply ext_t_active_index. exact Hth.
      + apply preemptions_ext_t. exact Hth. }
  destruct Hact as [A1 A2]. split; [exact A1|]. split; [exact A2|].
  unfold bt_sched. split.
  - intros ->. reflexivity.
  - intros ->. cbn [s_threads]. split; [|split].
    + intros t Hn He. apply bt_threads_enabled; assumption.
    + intros Hn. apply bt_threads_disabled. exact Hn.
    + intros Hn. rewrite (bt_threads_absent _ _ Hn). apply schedule_eta.
Qed.

(* after a backtrack request that passes the bound check, [tid] is no longer
   Skip if it is enabled, and no thread at all is Skip if [tid] is Disabled *)
Corollary sched_backtrack_not_skip s tid bd s' :
  sched_backtrack s tid bd = POk s' -> at_bound s bd = false ->
  match nth_error (s_threads s) tid with
  | Some t =>
      if is_enabled t
      then nth_error (s_threads s') tid = Some (explore_t t)
      else Forall (fun x => x <> Skip) (s_threads s')
  | None => s' = s
  end.
Proof.
  intros H Hb.
  destruct (sched_backtrack_effect _ _ _ _ H) as (_ & _ & _ & _ & _ & _ & _ & _ & _ & _ & Heff).
  destruct (Heff Hb) as (E1 & E2 & E3).
  destruct (nth_error (s_threads s) tid) as [t|] eqn:Hn; [|auto].
  destruct (is_enabled t) eqn:He.
  - apply (E1 t eq_refl He).
  - apply is_enabled_false in He. subst t. rewrite (E2 eq_refl).
    apply Forall_forall. intros x Hx. apply in_map_iff in Hx.
    destruct Hx as (y & <- & _). apply explore_t_not_skip.
Qed.

(* Schedule::backtrack is idempotent *)
Lemma nth_error_ext_eq (A : Type) (l l' : list A) :
  (forall u, nth_error l u = nth_error l' u) -> l = l'.
Proof.
  revert l'; induction l as [|h t IH]; intros [|h' t'] H.
  - reflexivity.
  - specialize (H 0). discriminate.
  - specialize (H 0). discriminate.
  - pose proof (H 0) as H0. cbn [nth_error] in H0. injection H0 as ->.
    f_equal. apply IH. intros u. exact (H (S u)).
Qed.

Lemma explore_t_idem t : explore_t (explore_t t) = explore_t t.
Proof. destruct t; reflexivity. Qed.

Lemma explore_t_enabled t : is_enabled (explore_t t) = is_enabled t.
Proof. destruct t; reflexivity. Qed.

Lemma bt_threads_idem l tid : bt_threads (bt_threads l tid) tid = bt_threads l tid.
Proof.
  apply nth_error_ext_eq. intros u.
  rewrite (bt_threads_nth (bt_threads l tid) tid u), !bt_threads_nth.
  destruct (nth_error l tid) as [t|] eqn:Hn; [|reflexivity].
  destruct (is_enabled t) eqn:He.
  - rewrite Nat.eqb_refl, explore_t_enabled, He, explore_t_idem.
    destruct (Nat.eqb u tid); reflexivity.
  - cbn [option_map]. rewrite explore_t_enabled, He.
    destruct (nth_error l u) as [x|]; cbn [option_map]; [|reflexivity].
    rewrite explore_t_idem. reflexivity.
Qed.

Lemma bt_sched_fields s tid bd :
  s_pre (bt_sched s tid bd) = s_pre s /\ s_ia (bt_sched s tid bd) = s_ia s /\
  s_prev (bt_sched s tid bd) = s_prev s /\ s_ex (bt_sched s tid bd) = s_ex s.
Proof. unfold bt_sched. destruct (at_bound s bd); cbn; auto. Qed.

Lemma bt_sched_idem s tid bd : bt_sched (bt_sched s tid bd) tid bd = bt_sched s tid bd.
Proof.
  unfold bt_sched at 1. unfold at_bound.
  destruct (bt_sched_fields s tid bd) as (F1 & _). rewrite F1.
  fold (at_bound s bd). unfold bt_sched.
  destruct (at_bound s bd) eqn:Hb; [reflexivity|].
  cbn [s_pre s_ia s_threads s_prev s_ex]. rewrite bt_threads_idem. reflexivity.
Qed.

Lemma sched_backtrack_again s tid bd s' :
  sched_backtrack s tid bd = POk s' -> sched_backtrack s' tid bd = POk s'.
Proof.
  intros H. apply sched_backtrack_spec in H. destruct H as (Hex & Hle & ->).
  apply sched_backtrack_spec. destruct (bt_sched_fields s tid bd) as (F1 & _ & _ & F4).
  rewrite F1, F4, bt_sched_idem. auto.
Qed.

(* ================================================================== *)
(* 2. Path::backtrack                                                  *)
(* ================================================================== *)

(* the first loop stops at an exploring Schedule entry *)
Definition bt_hit (e : entry) : bool := match e with ESched s => s_ex s | _ => false end.
Definition bt_hit_at (b : list entry) (k : nat) : bool :=
  match nth_error b k with Some e => bt_hit e | None => false end.

Lemma bt_hit_sched e : bt_hit e = true -> exists s, e = ESched s /\ s_ex s = true.
Proof. destruct e as [s|l|s]; cbn [bt_hit]; try discriminate. eauto. Qed.

(* the index returned is the largest j <= point whose entry is an exploring
   Schedule entry; None if there is none *)
Theorem find_backtrack_point_spec b point r :
  find_backtrack_point b point (S point) = POk r ->
  point < length b /\
  match r with
  | Some j => j <= point /\
              (exists s, nth_error b j = Some (ESched s) /\ s_ex s = true) /\
              forall k, j < k -> k <= point -> bt_hit_at b k = false
  | None => forall k, k <= point -> bt_hit_at b k = false
  end.
Proof.
  revert r; induction point as [|point IH]; intros r H;
    cbn [find_backtrack_point] in H;
    match type of H with context [nth_error b ?n] =>
      destruct (nth_error b n) as [e|] eqn:Hn; [|discriminate] end;
    (split; [apply nth_error_Some; congruence|]);
    change (match e with ESched s => s_ex s | _ => false end) with (bt_hit e) in H;
    destruct (bt_hit e) eqn:Hh.
  - injection H as <-. split; [lia|]. split.
    + destruct (bt_hit_sched _ Hh) as (s & -> & Hex). eauto.
    + intros k Hk1 Hk2. lia.
  - injection H as <-. intros k Hk. assert (k = 0) as -> by lia.
    unfold bt_hit_at. rewrite Hn. exact Hh.
  - injection H as <-. split; [lia|]. split.
    + destruct (bt_hit_sched _ Hh) as (s & -> & Hex). eauto.
    + intros k Hk1 Hk2. lia.
  - destruct (IH _ H) as [_ Hr].
    assert (Htop : bt_hit_at b (S point) = false).
    { unfold bt_hit_at. rewrite Hn. exact Hh. }
    destruct r as [j|].
    + destruct Hr as (Hj & Hs & Hbetween). split; [lia|]. split; [exact Hs|].
      intros k Hk1 Hk2. destruct (Nat.eq_dec k (S point)) as [->|Hne]; [exact Htop|].
      apply Hbetween; lia.
    + intros k Hk. destruct (Nat.eq_dec k (S point)) as [->|Hne]; [exact Htop|].
      apply Hr. lia.
Qed.

(* it fails exactly when [point] is beyond the stack *)
Lemma find_backtrack_point_total b point :
  point < length b -> exists r, find_backtrack_point b point (S point) = POk r.
Proof.
  induction point as [|point IH]; intros Hlt; cbn [find_backtrack_point];
    (destruct (nth_error b _) as [e|] eqn:Hn; [|apply nth_error_None in Hn; lia]);
    destruct (match e with ESched s => s_ex s | _ => false end); eauto.
  apply IH. lia.
Qed.

Lemma find_backtrack_point_err b point x :
  find_backtrack_point b point (S point) = PErr x -> length b <= point /\ x = PInternal 11.
Proof.
  intros H. destruct (Nat.lt_ge_cases point (length b)) as [Hlt|Hge].
  - destruct (find_backtrack_point_total _ _ Hlt) as [r Hr]. congruence.
  - split; [exact Hge|]. apply nth_error_None in Hge.
    destruct point; cbn [find_backtrack_point] in H; rewrite Hge in H; congruence.
Qed.

(* the specification determines the result *)
Lemma find_backtrack_point_complete b point j :
  j <= point -> point < length b -> bt_hit_at b j = true ->
  (forall k, j < k -> k <= point -> bt_hit_at b k = false) ->
  find_backtrack_point b point (S point) = POk (Some j).
Proof.
  intros Hj Hlt Hhit Hbetween.
  destruct (find_backtrack_point_total _ _ Hlt) as [r Hr]. rewrite Hr.
  destruct (find_backtrack_point_spec _ _ _ Hr) as [_ Hs].
  destruct r as [j'|].
  - destruct Hs as (Hj' & (s & Hn & Hex) & Hb').
    destruct (lt_eq_lt_dec j j') as [[Hlt'| ->]|Hgt]; [|reflexivity|].
    + specialize (Hbetween j' Hlt' Hj'). unfold bt_hit_at in Hbetween.
      rewrite Hn in Hbetween. cbn [bt_hit] in Hbetween. congruence.
    + specialize (Hb' j Hgt Hj). congruence.
  - specialize (Hs j Hj). congruence.
Qed.

Lemma find_backtrack_point_none b point :
  point < length b -> (forall k, k <= point -> bt_hit_at b k = false) ->
  find_backtrack_point b point (S point) = POk None.
Proof.
  intros Hlt Hall.
  destruct (find_backtrack_point_total _ _ Hlt) as [r Hr]. rewrite Hr.
  destruct (find_backtrack_point_spec _ _ _ Hr) as [_ Hs].
  destruct r as [j|]; [|reflexivity].
  destruct Hs as (Hj & (s & Hn & Hex) & _). specialize (Hall j Hj).
  unfold bt_hit_at in Hall. rewrite Hn in Hall. cbn [bt_hit] in Hall. congruence.
Qed.

(* the result only depends on which entries are exploring Schedule entries *)
Lemma find_backtrack_point_hit_ext b b' :
  map bt_hit b = map bt_hit b' ->
  forall fuel point, find_backtrack_point b point fuel = find_backtrack_point b' point fuel.
Proof.
  intros Hm. induction fuel as [|fuel IH]; intros point; [destruct point; reflexivity|].
  assert (Hn : option_map bt_hit (nth_error b point) = option_map bt_hit (nth_error b' point)).
  { rewrite <- !nth_error_map. rewrite Hm. reflexivity. }
  destruct point as [|point]; cbn [find_backtrack_point];
    (destruct (nth_error b _) as [e|], (nth_error b' _) as [e'|]; cbn [option_map] in Hn;
     try discriminate; [|reflexivity]);
    injection Hn as Hn;
    change (match e with ESched s => s_ex s | _ => false end) with (bt_hit e);
    change (match e' with ESched s => s_ex s | _ => false end) with (bt_hit e');
    rewrite Hn; (destruct (bt_hit e'); [reflexivity|]).
  - reflexivity.
  - apply IH.
Qed.

Lemma ext_bt_hit e e' : ext e e' -> bt_hit e' = bt_hit e.
Proof.
  intros H. destruct (ext_inv _ _ H) as [->|(s & th & -> & -> & _)]; reflexivity.
Qed.

Lemma Forall2_ext_bt_hit b b' : Forall2 ext b b' -> map bt_hit b = map bt_hit b'.
Proof.
  induction 1 as [|e e' b b' He _ IH]; [reflexivity|].
  cbn [map]. rewrite IH, (ext_bt_hit _ _ He). reflexivity.
Qed.

(* backtrack marks never move the backtrack point *)
Lemma find_backtrack_point_stable b b' point fuel :
  Forall2 ext b b' ->
  find_backtrack_point b' point fuel = find_backtrack_point b point fuel.
Proof.
  intros H. symmetry. apply find_backtrack_point_hit_ext, Forall2_ext_bt_hit, H.
Qed.

Lemma get_sched_iff b i s : get_sched b i = Some s <-> nth_error b i = Some (ESched s).
Proof.
  split; [apply get_sched_nth|]. unfold get_sched. intros ->. reflexivity.
Qed.

Lemma nth_error_upd_sched_eq b i s :
  i < length b -> nth_error (upd_sched b i s) i = Some (ESched s).
Proof. intros H. unfold upd_sched. apply nth_error_list_set_eq. exact H. Qed.

Lemma nth_error_upd_sched_neq b i s k :
  k <> i -> nth_error (upd_sched b i s) k = nth_error b k.
Proof. intros H. unfold upd_sched. apply nth_error_list_set_neq. exact H. Qed.

Lemma upd_sched_length b i s : length (upd_sched b i s) = length b.
Proof. apply list_set_length. Qed.

(* Path::backtrack.  [r] is the backtrack point.  With r = Some i:
     - entry i is replaced by its Schedule::backtrack;
     - at most one more entry J (only with a preemption bound: the
       "conservative" loop) is replaced by its Schedule::backtrack;
     - every other entry, the length of the stack and every other field of
       the path are unchanged. *)
Theorem backtrack_spec p point tid p' :
  backtrack p point tid = POk p' ->
  exists r, find_backtrack_point (branches p) point (S point) = POk r /\
  match r with
  | None => p' = p
  | Some i =>
      p' = set_branches p (branches p') /\
      length (branches p') = length (branches p) /\
      (exists s s', nth_error (branches p) i = Some (ESched s) /\
                    sched_backtrack s tid (bound p) = POk s' /\
                    nth_error (branches p') i = Some (ESched s')) /\
      exists J : option nat,
        (bound p = None -> J = None) /\
        (forall k, k <> i -> J <> Some k ->
                   nth_error (branches p') k = nth_error (branches p) k) /\
        (forall k, J = Some k ->
           exists t t', nth_error (branches p) k = Some (ESched t) /\
                        sched_backtrack t tid (bound p) = POk t' /\
                        nth_error (branches p') k = Some (ESched t'))
  end.
Proof.
  unfold backtrack. intros H.
  destruct (find_backtrack_point (branches p) point (S point)) as [[i|]|] eqn:Hf;
    try discriminate.
  2:{ exists None. split; [reflexivity|]. injection H as <-. reflexivity. }
  exists (Some i). split; [reflexivity|].
  destruct (get_sched (branches p) i) as [s|] eqn:Hg; [|discriminate].
  destruct (sched_backtrack s tid (bound p)) as [s'|] eqn:Hs; [|discriminate].
  pose proof (proj1 (get_sched_iff _ _ _) Hg) as Hn.
  assert (Hi : i < length (branches p)) by (apply nth_error_Some; congruence).
  set (b1 := upd_sched (branches p) i s') in *.
  assert (Hb1i : nth_error b1 i = Some (ESched s')) by (apply nth_error_upd_sched_eq; exact Hi).
  assert (Hb1k : forall k, k <> i -> nth_error b1 k = nth_error (branches p) k).
  { intros k Hk. apply nth_error_upd_sched_neq. exact Hk. }
  assert (Hb1len : length b1 = length (branches p)) by apply upd_sched_length.
  (* the result when the conservative loop does nothing *)
  assert (Hsimple : p' = set_branches p b1 ->
    p' = set_branches p (branches p') /\
    length (branches p') = length (branches p) /\
    (exists s0 s0', nth_error (branches p) i = Some (ESched s0) /\
                    sched_backtrack s0 tid (bound p) = POk s0' /\
                    nth_error (branches p') i = Some (ESched s0')) /\
    exists J : option nat,
      (bound p = None -> J = None) /\
      (forall k, k <> i -> J <> Some k ->
                 nth_error (branches p') k = nth_error (branches p) k) /\
      (forall k, J = Some k ->
         exists t t', nth_error (branches p) k = Some (ESched t) /\
                      sched_backtrack t tid (bound p) = POk t' /\
                      nth_error (branches p') k = Some (ESched t'))).
  { intros ->. cbn [branches set_branches]. split; [reflexivity|]. split; [exact Hb1len|].
    split; [exists s, s'; auto|]. exists None. split; [reflexivity|].
    split; [intros k Hk _; apply Hb1k; exact Hk|]. intros k Hk. discriminate. }
  destruct (s_prev s') as [curr|]; [|injection H as <-; apply Hsimple; reflexivity].
  destruct (bound p) as [bd|] eqn:Hbd; [|injection H as <-; apply Hsimple; reflexivity].
  destruct (conservative b1 curr tid (Some bd) (S (length b1))) as [b'|] eqn:Hc; [|discriminate].
  injection H as <-.
  destruct (conservative_cases _ _ _ _ _ _ Hc) as [->|(j & t & t' & Ht & Htt & ->)];
    [apply Hsimple; reflexivity|].
  clear Hsimple. cbn [branches set_branches].
  apply get_sched_iff in Ht.
  assert (Hj : j < length b1) by (apply nth_error_Some; congruence).
  split; [reflexivity|]. split; [rewrite upd_sched_length; exact Hb1len|].
  destruct (Nat.eq_dec j i) as [->|Hji].
  - (* the conservative loop came back to entry i: Schedule::backtrack again *)
    rewrite Hb1i in Ht. injection Ht as <-.
    rewrite (sched_backtrack_again _ _ _ _ Hs) in Htt. injection Htt as <-.
    split.
    + exists s, s'. split; [exact Hn|]. split; [exact Hs|].
      apply nth_error_upd_sched_eq. exact Hj.
    + exists (Some i). split; [discriminate|]. split.
      * intros k Hk _. rewrite nth_error_upd_sched_neq by exact Hk. apply Hb1k. exact Hk.
      * intros k Hk. injection Hk as <-. exists s, s'.
        split; [exact Hn|]. split; [exact Hs|]. apply nth_error_upd_sched_eq. exact Hj.
  - split.
    + exists s, s'. split; [exact Hn|]. split; [exact Hs|].
      rewrite nth_error_upd_sched_neq by (intros Heq; apply Hji; symmetry; exact Heq).
      exact Hb1i.
    + exists (Some j). split; [discriminate|]. split.
      * intros k Hk HJ. rewrite nth_error_upd_sched_neq by congruence. apply Hb1k. exact Hk.
      * intros k Hk. injection Hk as <-. exists t, t'.
        split; [rewrite <- (Hb1k j Hji); exact Ht|]. split; [exact Htt|].
        apply nth_error_upd_sched_eq. exact Hj.
Qed.

(* without a preemption bound exactly one entry changes *)
Corollary backtrack_spec_unbounded p point tid p' i :
  bound p = None ->
  backtrack p point tid = POk p' ->
  find_backtrack_point (branches p) point (S point) = POk (Some i) ->
  exists s, nth_error (branches p) i = Some (ESched s) /\ s_ex s = true /\
    p' = set_branches p (upd_sched (branches p) i (bt_sched s tid None)).
Proof.
  intros Hbd H Hf. unfold backtrack in H. rewrite Hf in H.
  destruct (get_sched (branches p) i) as [s|] eqn:Hg; [|discriminate].
  destruct (sched_backtrack s tid (bound p)) as [s'|] eqn:Hs; [|discriminate].
  rewrite Hbd in *. apply sched_backtrack_spec in Hs. destruct Hs as (Hex & _ & ->).
  exists s. split; [apply get_sched_iff; exact Hg|]. split; [exact Hex|].
  destruct (s_prev _); injection H as <-; reflexivity.
Qed.

(* when does Path::backtrack fail *)
Lemma backtrack_err p point tid x :
  backtrack p point tid = PErr x ->
  (length (branches p) <= point /\ x = PInternal 11) \/
  (exists bd, bound p = Some bd /\ (x = PInternal 9 \/ x = PInternal 10 \/ x = PInternal 12)) \/
  (exists i s, find_backtrack_point (branches p) point (S point) = POk (Some i) /\
               nth_error (branches p) i = Some (ESched s) /\
               opt_le_bound (s_pre s) (bound p) = false /\ x = PInternal 10).
Proof.
  unfold backtrack. intros H.
  destruct (find_backtrack_point (branches p) point (S point)) as [[i|]|y] eqn:Hf;
    try discriminate.
  2:{ injection H as <-. left. eapply find_backtrack_point_err; eassumption. }
  destruct (find_backtrack_point_spec _ _ _ Hf) as (_ & _ & (s & Hn & Hex) & _).
  rewrite (proj2 (get_sched_iff _ _ _) Hn) in H.
  destruct (sched_backtrack s tid (bound p)) as [s'|y] eqn:Hs.
  - destruct (s_prev s') as [curr0|]; [|discriminate].
    destruct (bound p) as [bd|] eqn:Hbd; [|discriminate].
    right; left. exists bd. split; [reflexivity|].
    destruct (conservative _ _ _ _ _) as [b'|y] eqn:Hc in H; [discriminate|].
    injection H as <-. clear - Hc.
    revert Hc. generalize (S (length (upd_sched (branches p) i s'))) as fuel.
    generalize (upd_sched (branches p) i s') as b.
    intros b fuel; revert curr0; induction fuel as [|fuel IH]; intros curr Hc;
      cbn [conservative] in Hc; [discriminate|].
    destruct (get_sched b curr) as [cs|]; [|injection Hc as <-; auto].
    destruct (s_prev cs) as [prev|].
    + destruct (get_sched b prev) as [ps|]; [|injection Hc as <-; auto].
      destruct (negb _ && s_ex cs).
      * destruct (sched_backtrack cs tid (Some bd)) as [cs'|z] eqn:Hz; [discriminate|].
        injection Hc as <-. destruct (sched_backtrack_err _ _ _ _ Hz) as [(_ & ->)|(_ & _ & ->)]; auto.
      * eapply IH; eassumption.
    + destruct (s_ex cs); [|discriminate].
      destruct (sched_backtrack cs tid (Some bd)) as [cs'|z] eqn:Hz; [discriminate|].
      injection Hc as <-. destruct (sched_backtrack_err _ _ _ _ Hz) as [(_ & ->)|(_ & _ & ->)]; auto.
  - injection H as <-.
    destruct (sched_backtrack_err _ _ _ _ Hs) as [(Hc & _)|(_ & Hle & ->)]; [congruence|].
    right; right. exists i, s. auto.
Qed.

(* ================================================================== *)
(* 3. monotonicity                                                     *)
(* ================================================================== *)

(* the order on statuses: Skip <= Pending, everything <= itself *)
Definition st_le (t t' : tstat) : Prop := t' = t \/ (t = Skip /\ t' = Pending).

Lemma st_le_is_ext_t : st_le = ext_t.
Proof. reflexivity. Qed.

Lemma st_le_refl t : st_le t t.
Proof. left; reflexivity. Qed.

Lemma st_le_trans a b c : st_le a b -> st_le b c -> st_le a c.
Proof. exact (@ext_t_trans a b c). Qed.

Lemma st_le_explore_t t : st_le t (explore_t t).
Proof. exact (ext_t_explore t). Qed.

(* a status that is not Skip never moves *)
Lemma st_le_not_skip t t' : st_le t t' -> t <> Skip -> t' = t.
Proof. intros [H|[H _]] Hn; [exact H|contradiction]. Qed.

Lemma st_le_keeps_not_skip t t' : st_le t t' -> t <> Skip -> t' <> Skip.
Proof. intros H Hn. rewrite (st_le_not_skip _ _ H Hn). exact Hn. Qed.

(* above t and not Skip: exactly explore_t t *)
Lemma st_le_explore t t' : st_le t t' -> t' <> Skip -> t' = explore_t t.
Proof.
  intros [->|[-> ->]] Hn; [|reflexivity]. destruct t; try reflexivity. contradiction.
Qed.

Lemma st_le_enabled t t' : st_le t t' -> is_enabled t' = is_enabled t.
Proof. intros [->|[-> ->]]; reflexivity. Qed.

Definition sched_le (s s' : Path.schedule) : Prop :=
  s_pre s' = s_pre s /\ s_ia s' = s_ia s /\ s_prev s' = s_prev s /\ s_ex s' = s_ex s /\
  Forall2 st_le (s_threads s) (s_threads s').

Definition entry_le (e e' : entry) : Prop :=
  match e, e' with
  | ESched s, ESched s' => sched_le s s'
  | _, _ => e' = e
  end.

Definition stack_le (b b' : list entry) : Prop := Forall2 entry_le b b'.

(* pointwise order on paths: same configuration, same position, same flags,
   same number of entries, every entry above the old one *)
Definition path_le (p p' : path) : Prop :=
  p' = set_branches p (branches p') /\ stack_le (branches p) (branches p').

Lemma sched_le_refl s : sched_le s s.
Proof. unfold sched_le. repeat split. apply Forall2_refl, st_le_refl. Qed.

Lemma sched_le_trans a b c : sched_le a b -> sched_le b c -> sched_le a c.
Proof.
  intros (A1 & A2 & A3 & A4 & A5) (B1 & B2 & B3 & B4 & B5).
  unfold sched_le. repeat split; try congruence.
  eapply Forall2_trans; [exact st_le_trans|exact A5|exact B5].
Qed.

Lemma entry_le_refl e : entry_le e e.
Proof. destruct e; cbn [entry_le]; auto using sched_le_refl. Qed.

Lemma entry_le_trans a b c : entry_le a b -> entry_le b c -> entry_le a c.
Proof.
  destruct a as [sa|la|pa], b as [sb|lb|pb]; cbn [entry_le]; intros H1; try discriminate;
    destruct c as [sc|lc|pc]; cbn [entry_le]; intros H2; try discriminate; try congruence.
  eapply sched_le_trans; eassumption.
Qed.

Lemma stack_le_refl b : stack_le b b.
Proof. apply Forall2_refl, entry_le_refl. Qed.

Lemma stack_le_trans a b c : stack_le a b -> stack_le b c -> stack_le a c.
Proof. apply Forall2_trans. exact entry_le_trans. Qed.

Lemma set_branches_self p : set_branches p (branches p) = p.
Proof. destruct p; reflexivity. Qed.

Lemma path_le_refl p : path_le p p.
Proof. split; [symmetry; apply set_branches_self|apply stack_le_refl]. Qed.

Lemma path_le_trans p q r : path_le p q -> path_le q r -> path_le p r.
Proof.
  intros [E1 L1] [E2 L2]. split; [|eapply stack_le_trans; eassumption].
  rewrite E2. rewrite E1. reflexivity.
Qed.

Lemma path_le_fields p p' :
  path_le p p' ->
  bound p' = bound p /\ pos p' = pos p /\ exploring p' = exploring p /\
  skipping p' = skipping p /\ eos p' = eos p /\ cap p' = cap p /\
  length (branches p') = length (branches p).
Proof.
  intros [E L].
  assert (Hl : length (branches p') = length (branches p))
    by (symmetry; eapply Forall2_len; exact L).
  destruct p as [b1 ps1 br1 ex1 sk1 eo1 cp1], p' as [b2 ps2 br2 ex2 sk2 eo2 cp2].
  cbn [branches set_branches bound pos exploring skipping eos cap] in *.
  inversion E; subst. repeat split; auto.
Qed.

(* backtrack marks are steps of the order *)
Lemma ext_entry_le e e' : ext e e' -> entry_le e e'.
Proof.
  intros H. destruct (ext_inv _ _ H) as [->|(s & th & -> & -> & _ & Hth)].
  - apply entry_le_refl.
  - cbn [entry_le]. unfold sched_le. cbn [s_pre s_ia s_prev s_ex s_threads]. auto.
Qed.

Lemma Forall2_ext_stack_le b b' : Forall2 ext b b' -> stack_le b b'.
Proof. induction 1; constructor; auto using ext_entry_le. Qed.

(* Path::backtrack only moves statuses up, pointwise in every entry *)
Theorem backtrack_mono p point tid p' : backtrack p point tid = POk p' -> path_le p p'.
Proof.
  intros H.
  destruct (backtrack_marks _ _ _ _ H) as (H1 & H2 & H3 & H4 & H5 & H6 & Hbr).
  split; [|apply Forall2_ext_stack_le; exact Hbr].
  destruct p as [b1 ps1 br1 ex1 sk1 eo1 cp1], p' as [b2 ps2 br2 ex2 sk2 eo2 cp2];
    cbn [branches set_branches bound pos exploring skipping eos cap] in *.
  subst. reflexivity.
Qed.

Theorem dpor_accesses_mono accs dv id p p' :
  dpor_accesses accs dv id p = POk p' -> path_le p p'.
Proof.
  revert p; induction accs as [|acc rest IH]; intros p H; cbn [dpor_accesses] in H.
  - injection H as <-. apply path_le_refl.
  - destruct (access_hb acc dv); [auto|].
    destruct (backtrack p (a_path_id acc) id) as [p1|x] eqn:Hb; [|discriminate].
    eapply path_le_trans; [eapply backtrack_mono; exact Hb|auto].
Qed.

Theorem dpor_loop_mono objs ths p p' : dpor_loop objs ths p = POk p' -> path_le p p'.
Proof.
  revert p; induction ths as [|[id th] rest IH]; intros p H; cbn [dpor_loop] in H.
  - injection H as <-. apply path_le_refl.
  - destruct (t_op th) as [op|]; [|auto].
    destruct (nth_error objs (op_obj op)) as [o|]; [|discriminate].
    destruct (last_dependent_accesses o (op_act op)) as [accs|]; [|discriminate].
    destruct (dpor_accesses accs (t_dpor th) id p) as [p1|x] eqn:Ha; [|discriminate].
    eapply path_le_trans; [eapply dpor_accesses_mono; exact Ha|auto].
Qed.

(* ---- reading the order ---- *)
Lemma Forall2_nth_l (A B : Type) (R : A -> B -> Prop) l l' n x :
  Forall2 R l l' -> nth_error l n = Some x -> exists y, nth_error l' n = Some y /\ R x y.
Proof.
  intros H; revert n. induction H as [|a b l l' Hab _ IH]; intros [|n] Hn;
    cbn [nth_error] in *; try discriminate.
  - injection Hn as <-. eauto.
  - auto.
Qed.
Arguments Forall2_nth_l {A B R l l' n x} _ _.

Lemma stack_le_nth b b' i s :
  stack_le b b' -> nth_error b i = Some (ESched s) ->
  exists s', nth_error b' i = Some (ESched s') /\ sched_le s s'.
Proof.
  intros H Hn. destruct (Forall2_nth_l H Hn) as (e' & Hn' & Hle).
  destruct e' as [s'|l|sp]; cbn [entry_le] in Hle; try discriminate. eauto.
Qed.

Lemma stack_le_nth_other b b' i e :
  stack_le b b' -> nth_error b i = Some e -> is_sched e = false -> nth_error b' i = Some e.
Proof.
  intros H Hn Hs. destruct (Forall2_nth_l H Hn) as (e' & Hn' & Hle).
  destruct e as [s|l|sp]; [discriminate| |]; cbn [entry_le] in Hle; congruence.
Qed.

Lemma sched_le_nth s s' u t :
  sched_le s s' -> nth_error (s_threads s) u = Some t ->
  exists t', nth_error (s_threads s') u = Some t' /\ st_le t t'.
Proof. intros (_ & _ & _ & _ & H) Hn. eapply Forall2_nth_l; eassumption. Qed.

Lemma sched_le_length s s' : sched_le s s' -> length (s_threads s') = length (s_threads s).
Proof. intros (_ & _ & _ & _ & H). symmetry. eapply Forall2_len. exact H. Qed.

Lemma sched_le_nth_none s s' u :
  sched_le s s' -> nth_error (s_threads s) u = None -> nth_error (s_threads s') u = None.
Proof.
  intros H Hn. apply nth_error_None. rewrite (sched_le_length _ _ H).
  apply nth_error_None. exact Hn.
Qed.

(* once a thread is Pending / Active / Visited (anything but Skip) in an entry,
   it keeps that very status *)
Lemma sched_le_keeps s s' u t :
  sched_le s s' -> nth_error (s_threads s) u = Some t -> t <> Skip ->
  nth_error (s_threads s') u = Some t.
Proof.
  intros H Hn Hne. destruct (sched_le_nth _ _ _ _ H Hn) as (t' & Hn' & Hle).
  rewrite Hn', (st_le_not_skip _ _ Hle Hne). reflexivity.
Qed.

Lemma Forall2_st_le_no_skip l l' :
  Forall2 st_le l l' -> Forall (fun x => x <> Skip) l -> Forall (fun x => x <> Skip) l'.
Proof.
  induction 1 as [|a b l l' Hab _ IH]; intros Hf; [constructor|].
  inversion Hf; subst. constructor; eauto using st_le_keeps_not_skip.
Qed.

Lemma Forall2_st_le_explore l l' :
  Forall2 st_le l l' -> Forall (fun x => x <> Skip) l' -> l' = map explore_t l.
Proof.
  induction 1 as [|a b l l' Hab _ IH]; intros Hf; [reflexivity|].
  inversion Hf; subst. cbn [map]. f_equal; auto using st_le_explore.
Qed.

Lemma sched_le_no_skip s s' :
  sched_le s s' -> Forall (fun x => x <> Skip) (s_threads s) ->
  Forall (fun x => x <> Skip) (s_threads s').
Proof. intros (_ & _ & _ & _ & H). apply Forall2_st_le_no_skip. exact H. Qed.

Theorem dpor_loop_keeps_status objs ths p p' i s u t :
  dpor_loop objs ths p = POk p' ->
  nth_error (branches p) i = Some (ESched s) ->
  nth_error (s_threads s) u = Some t -> t <> Skip ->
  exists s', nth_error (branches p') i = Some (ESched s') /\ sched_le s s' /\
             nth_error (s_threads s') u = Some t.
Proof.
  intros H Hn Hu Hne. destruct (dpor_loop_mono _ _ _ _ H) as [_ Hle].
  destruct (stack_le_nth _ _ _ _ Hle Hn) as (s' & Hn' & Hs).
  exists s'. split; [exact Hn'|]. split; [exact Hs|]. eapply sched_le_keeps; eassumption.
Qed.

(* the order does not move the backtrack point *)
Lemma entry_le_bt_hit e e' : entry_le e e' -> bt_hit e' = bt_hit e.
Proof.
  destruct e as [s|l|sp], e' as [s'|l'|sp']; cbn [entry_le bt_hit]; intros H;
    try discriminate; try reflexivity; try congruence.
  destruct H as (_ & _ & _ & H & _). exact H.
Qed.

Lemma stack_le_bt_hit b b' : stack_le b b' -> map bt_hit b = map bt_hit b'.
Proof.
  induction 1 as [|e e' b b' He _ IH]; [reflexivity|].
  cbn [map]. rewrite IH, (entry_le_bt_hit _ _ He). reflexivity.
Qed.

Theorem find_backtrack_point_le p p' point fuel :
  path_le p p' ->
  find_backtrack_point (branches p') point fuel = find_backtrack_point (branches p) point fuel.
Proof.
  intros [_ H]. symmetry. apply find_backtrack_point_hit_ext, stack_le_bt_hit, H.
Qed.

(* ================================================================== *)
(* 4. the DPOR rule                                                    *)
(* ================================================================== *)

(* where, in the loops, the backtrack request of a detected race is issued *)
Lemma dpor_accesses_split accs dv id p p' acc :
  dpor_accesses accs dv id p = POk p' -> In acc accs -> access_hb acc dv = false ->
  exists q q', path_le p q /\ backtrack q (a_path_id acc) id = POk q' /\ path_le q' p'.
Proof.
  revert p; induction accs as [|a rest IH]; intros p H Hin Hhb; [contradiction|].
  cbn [dpor_accesses] in H. destruct Hin as [->|Hin].
  - rewrite Hhb in H.
    destruct (backtrack p (a_path_id acc) id) as [p1|x] eqn:Hb; [|discriminate].
    exists p, p1. split; [apply path_le_refl|]. split; [exact Hb|].
    eapply dpor_accesses_mono; exact H.
  - destruct (access_hb a dv).
    + apply IH; assumption.
    + destruct (backtrack p (a_path_id a) id) as [p1|x] eqn:Hb; [|discriminate].
      destruct (IH _ H Hin Hhb) as (q & q' & H1 & H2 & H3).
      exists q, q'. split; [|auto].
      eapply path_le_trans; [eapply backtrack_mono; exact Hb|exact H1].
Qed.

Lemma dpor_loop_split objs ths p p' id th op o accs :
  dpor_loop objs ths p = POk p' -> In (id, th) ths -> t_op th = Some op ->
  nth_error objs (op_obj op) = Some o ->
  last_dependent_accesses o (op_act op) = Some accs ->
  exists p1 p2, path_le p p1 /\ dpor_accesses accs (t_dpor th) id p1 = POk p2 /\ path_le p2 p'.
Proof.
  intros H Hin Hop Ho Hacc.
  revert p H; induction ths as [|[id0 th0] rest IH]; intros p H; [contradiction|].
  destruct Hin as [Heq|Hin].
  - injection Heq as -> ->. cbn [dpor_loop] in H. rewrite Hop, Ho, Hacc in H.
    destruct (dpor_accesses accs (t_dpor th) id p) as [p1|x] eqn:Ha; [|discriminate].
    exists p, p1. split; [apply path_le_refl|]. split; [exact Ha|].
    eapply dpor_loop_mono; exact H.
  - cbn [dpor_loop] in H.
    destruct (t_op th0) as [op0|]; [|apply IH; assumption].
    destruct (nth_error objs (op_obj op0)) as [o0|]; [|discriminate].
    destruct (last_dependent_accesses o0 (op_act op0)) as [accs0|]; [|discriminate].
    destruct (dpor_accesses accs0 (t_dpor th0) id0 p) as [pa|x] eqn:Ha; [|discriminate].
    destruct (IH Hin _ H) as (p1 & p2 & H1 & H2 & H3).
    exists p1, p2. split; [|auto].
    eapply path_le_trans; [eapply dpor_accesses_mono; exact Ha|exact H1].
Qed.

(* one backtrack request, at its backtrack point *)
Lemma backtrack_at_point q point id q' i s :
  backtrack q point id = POk q' ->
  find_backtrack_point (branches q) point (S point) = POk (Some i) ->
  nth_error (branches q) i = Some (ESched s) ->
  nth_error (branches q') i = Some (ESched (bt_sched s id (bound q))).
Proof.
  intros H Hf Hn. destruct (backtrack_spec _ _ _ _ H) as (r & Hr & Hspec).
  rewrite Hf in Hr. injection Hr as <-.
  destruct Hspec as (_ & _ & (s0 & s0' & Hn0 & Hs0 & Hn0') & _).
  rewrite Hn in Hn0. injection Hn0 as <-.
  apply sched_backtrack_spec in Hs0. destruct Hs0 as (_ & _ & ->). exact Hn0'.
Qed.

Lemma at_bound_le s s' bd : sched_le s s' -> at_bound s' bd = at_bound s bd.
Proof. intros (H & _). unfold at_bound. rewrite H. reflexivity. Qed.

Lemma sched_le_bt_sched s id bd : sched_le s (bt_sched s id bd).
Proof.
  unfold bt_sched. destruct (at_bound s bd); [apply sched_le_refl|].
  unfold sched_le. cbn [s_pre s_ia s_prev s_ex s_threads]. repeat split.
  unfold bt_threads. destruct (nth_error (s_threads s) id) as [t|].
  - destruct (is_enabled t).
    + exact (ext_t_list_upd_explore (s_threads s) id).
    + exact (ext_t_map_explore (s_threads s)).
  - apply Forall2_refl, st_le_refl.
Qed.

(* MAIN THEOREM.  A race found by the dependence check of the DPOR loop is
   registered at its backtrack point [i], provided the stored preemption count
   of that entry has not reached the bound:
     - if the racing thread [id] is enabled at [i] (any status but Disabled),
       its status there is [explore_t] of what it was: Skip has become
       Pending, and Pending / Active / Visited / Yield are as they were;
     - if [id] is Disabled at [i], every thread of the entry has been
       explored: no thread is Skip;
     - (if [id] is beyond the thread array nothing is promised: this does not
       happen on a well formed path, whose arrays have length MAX_THREADS.)
   Nothing else of the entry changes ([sched_le]: counts, initial_active,
   s_prev, s_ex are the same, statuses only move Skip -> Pending).
   No hypothesis on [ths] is needed (duplicates are harmless), and the
   backtrack point is stable through the loop ([find_backtrack_point_le]). *)
Theorem dpor_loop_registers objs ths p p' id th op o accs acc i s :
  dpor_loop objs ths p = POk p' ->
  In (id, th) ths -> t_op th = Some op ->
  nth_error objs (op_obj op) = Some o ->
  last_dependent_accesses o (op_act op) = Some accs ->
  In acc accs -> access_hb acc (t_dpor th) = false ->
  find_backtrack_point (branches p) (a_path_id acc) (S (a_path_id acc)) = POk (Some i) ->
  nth_error (branches p) i = Some (ESched s) ->
  at_bound s (bound p) = false ->
  exists s', nth_error (branches p') i = Some (ESched s') /\ sched_le s s' /\
    match nth_error (s_threads s) id with
    | Some t =>
        if is_enabled t
        then nth_error (s_threads s') id = Some (explore_t t)
        else s_threads s' = map explore_t (s_threads s)
    | None => True
    end.
Proof.
  intros H Hin Hop Ho Hacc Hacc_in Hhb Hf Hn Hbd.
  destruct (dpor_loop_split _ _ _ _ _ _ _ _ _ H Hin Hop Ho Hacc) as (p1 & p2 & L1 & Ha & L2).
  destruct (dpor_accesses_split _ _ _ _ _ _ Ha Hacc_in Hhb) as (q & q' & L3 & Hb & L4).
  pose proof (path_le_trans _ _ _ L1 L3) as Lq.
  pose proof (path_le_trans _ _ _ L4 L2) as Lq'.
  (* the state in which the request is issued *)
  destruct (stack_le_nth _ _ _ _ (proj2 Lq) Hn) as (sq & Hnq & Hsq).
  assert (Hfq : find_backtrack_point (branches q) (a_path_id acc) (S (a_path_id acc))
                = POk (Some i)) by (rewrite (find_backtrack_point_le _ _ _ _ Lq); exact Hf).
  destruct (path_le_fields _ _ Lq) as (Hbq & _).
  pose proof (backtrack_at_point _ _ _ _ _ _ Hb Hfq Hnq) as Hnq'.
  rewrite Hbq in Hnq'.
  assert (Hbdq : at_bound sq (bound p) = false) by (rewrite (at_bound_le _ _ _ Hsq); exact Hbd).
  (* the end of the loop *)
  destruct (stack_le_nth _ _ _ _ (proj2 Lq') Hnq') as (s' & Hn' & Hs').
  exists s'. split; [exact Hn'|].
  assert (Hle : sched_le s s').
  { eapply sched_le_trans; [exact Hsq|].
    eapply sched_le_trans; [apply sched_le_bt_sched|exact Hs']. }
  split; [exact Hle|].
  destruct (nth_error (s_threads s) id) as [t|] eqn:Ht; [|exact I].
  destruct (sched_le_nth _ _ _ _ Hsq Ht) as (tq & Htq & Hletq).
  assert (Hthq : s_threads (bt_sched sq id (bound p)) = bt_threads (s_threads sq) id).
  { unfold bt_sched. rewrite Hbdq. reflexivity. }
  destruct (is_enabled t) eqn:He.
  - assert (Heq : is_enabled tq = true) by (rewrite (st_le_enabled _ _ Hletq); exact He).
    destruct (bt_threads_enabled _ _ _ Htq Heq) as [Hid _].
    rewrite <- Hthq in Hid.
    pose proof (sched_le_keeps _ _ _ _ Hs' Hid (explore_t_not_skip tq)) as Hid'.
    rewrite Hid'. f_equal.
    apply st_le_explore; [|apply explore_t_not_skip].
    eapply st_le_trans; [exact Hletq|apply st_le_explore_t].
  - apply is_enabled_false in He. subst t.
    assert (tq = Disabled) as -> by (destruct Hletq as [->|[Hc _]]; [reflexivity|discriminate]).
    rewrite (bt_threads_disabled _ _ Htq) in Hthq.
    destruct Hle as (_ & _ & _ & _ & Hth). apply (Forall2_st_le_explore _ _ Hth).
    eapply sched_le_no_skip; [exact Hs'|]. rewrite Hthq.
    apply Forall_forall. intros x Hx. apply in_map_iff in Hx.
    destruct Hx as (y & <- & _). apply explore_t_not_skip.
Qed.

(* the same, in words closer to the informal rule *)
Corollary dpor_loop_registers_status objs ths p p' id th op o accs acc i s :
  dpor_loop objs ths p = POk p' ->
  In (id, th) ths -> t_op th = Some op ->
  nth_error objs (op_obj op) = Some o ->
  last_dependent_accesses o (op_act op) = Some accs ->
  In acc accs -> access_hb acc (t_dpor th) = false ->
  find_backtrack_point (branches p) (a_path_id acc) (S (a_path_id acc)) = POk (Some i) ->
  nth_error (branches p) i = Some (ESched s) ->
  at_bound s (bound p) = false ->
  exists s', nth_error (branches p') i = Some (ESched s') /\
    s_ex s' = true /\ s_pre s' = s_pre s /\ s_ia s' = s_ia s /\ s_prev s' = s_prev s /\
    active_thread_index s' = active_thread_index s /\ preemptions s' = preemptions s /\
    (* [id] enabled at entry i: not Skip afterwards *)
    (forall t, nth_error (s_threads s) id = Some t -> t <> Disabled ->
       exists t', nth_error (s_threads s') id = Some t' /\ t' <> Skip /\ st_le t t') /\
    (* [id] a candidate of the entry (Skip / Pending / Active / Visited): a
       registered alternative afterwards *)
    (forall t, nth_error (s_threads s) id = Some t -> runnable_status t = true ->
       nth_error (s_threads s') id = Some Pending \/
       nth_error (s_threads s') id = Some Active \/
       nth_error (s_threads s') id = Some Visited) /\
    (* [id] Disabled at entry i: the conservative fallback *)
    (nth_error (s_threads s) id = Some Disabled ->
       Forall (fun x => x <> Skip) (s_threads s')).
Proof.
  intros H Hin Hop Ho Hacc Hacc_in Hhb Hf Hn Hbd.
  destruct (dpor_loop_registers _ _ _ _ _ _ _ _ _ _ _ _ H Hin Hop Ho Hacc Hacc_in Hhb Hf Hn Hbd)
    as (s' & Hn' & Hle & Hm).
  exists s'. split; [exact Hn'|].
  destruct (find_backtrack_point_spec _ _ _ Hf) as (_ & _ & (s0 & Hn0 & Hex0) & _).
  rewrite Hn in Hn0. injection Hn0 as <-.
  pose proof Hle as (F1 & F2 & F3 & F4 & Hth).
  split; [congruence|]. repeat (split; [assumption|]).
  assert (Hai : active_thread_index s' = active_thread_index s).
  { unfold active_thread_index. symmetry. apply ext_t_active_index. exact Hth. }
  split; [exact Hai|]. split; [unfold preemptions; rewrite Hai, F1, F2; reflexivity|].
  split; [|split].
  - intros t Ht Hd. rewrite Ht in Hm.
    assert (He : is_enabled t = true) by (destruct t; try reflexivity; contradiction).
    rewrite He in Hm. exists (explore_t t).
    split; [exact Hm|]. split; [apply explore_t_not_skip|apply st_le_explore_t].
  - intros t Ht Hr. rewrite Ht in Hm.
    destruct t; try discriminate; cbn [is_enabled is_disabled tstat_eqb negb explore_t] in Hm; auto.
  - intros Ht. rewrite Ht in Hm. cbn [is_enabled is_disabled tstat_eqb negb] in Hm.
    rewrite Hm. apply Forall_forall. intros x Hx. apply in_map_iff in Hx.
    destruct Hx as (y & <- & _). apply explore_t_not_skip.
Qed.

(* the bound condition in terms of loom's preemptions(): strictly below *)
Lemma at_bound_preemptions s b : preemptions s < b -> at_bound s (Some b) = false.
Proof.
  intros H. pose proof (preemptions_ge s) as Hge. unfold at_bound.
  apply Nat.eqb_neq. lia.
Qed.

(* no preemption bound *)
Corollary dpor_loop_registers_unbounded objs ths p p' id th op o accs acc i s :
  bound p = None ->
  dpor_loop objs ths p = POk p' ->
  In (id, th) ths -> t_op th = Some op ->
  nth_error objs (op_obj op) = Some o ->
  last_dependent_accesses o (op_act op) = Some accs ->
  In acc accs -> access_hb acc (t_dpor th) = false ->
  find_backtrack_point (branches p) (a_path_id acc) (S (a_path_id acc)) = POk (Some i) ->
  nth_error (branches p) i = Some (ESched s) ->
  exists s', nth_error (branches p') i = Some (ESched s') /\ sched_le s s' /\
    match nth_error (s_threads s) id with
    | Some t =>
        if is_enabled t
        then nth_error (s_threads s') id = Some (explore_t t)
        else s_threads s' = map explore_t (s_threads s)
    | None => True
    end.
Proof.
  intros Hb H Hin Hop Ho Hacc Hacc_in Hhb Hf Hn.
  eapply dpor_loop_registers; try eassumption. rewrite Hb. reflexivity.
Qed.

(* with a bound that the entry has reached, the race is detected and NOT
   registered: the early return of Schedule::backtrack *)
Lemma backtrack_at_bound_noop q point id q' i s :
  backtrack q point id = POk q' ->
  find_backtrack_point (branches q) point (S point) = POk (Some i) ->
  nth_error (branches q) i = Some (ESched s) ->
  at_bound s (bound q) = true ->
  nth_error (branches q') i = Some (ESched s).
Proof.
  intros H Hf Hn Hb. rewrite (backtrack_at_point _ _ _ _ _ _ H Hf Hn).
  unfold bt_sched. rewrite Hb. reflexivity.
Qed.

(* ================================================================== *)
(* 5. the bridge to the exploration                                    *)
(* ================================================================== *)

(* a Pending thread of an exploring Schedule entry is a registered alternative.
   [s_ex s = true] is part of the definition of [registered]; it holds at every
   backtrack point (find_backtrack_point_spec). *)
Lemma registered_of_pending ek q s c :
  nth_error (branches ek) q = Some (ESched s) -> s_ex s = true ->
  nth_error (s_threads s) c = Some Pending ->
  registered ek q (CThread (Some c)).
Proof.
  intros Hn Hex Hc. exists (ESched s). split; [exact Hn|]. split; [exact Hex|]. left. exact Hc.
Qed.

Lemma registered_of_status ek q s c :
  nth_error (branches ek) q = Some (ESched s) -> s_ex s = true ->
  (nth_error (s_threads s) c = Some Pending \/
   nth_error (s_threads s) c = Some Active \/
   nth_error (s_threads s) c = Some Visited) ->
  registered ek q (CThread (Some c)).
Proof.
  intros Hn Hex Hc. exists (ESched s). split; [exact Hn|]. split; [exact Hex|]. exact Hc.
Qed.

(* without [s_ex s = true] the statement is false *)
Lemma registered_of_pending_needs_ex :
  exists ek q s c,
    nth_error (branches ek) q = Some (ESched s) /\
    nth_error (s_threads s) c = Some Pending /\
    ~ registered ek q (CThread (Some c)).
Proof.
  exists (mkPath None 0 [ESched (mkSched 0 None [Pending] None false)] true false true 10),
         0, (mkSched 0 None [Pending] None false), 0.
  split; [reflexivity|]. split; [reflexivity|].
  intros (en & Hn & Hex & _). cbn in Hn. injection Hn as <-. discriminate.
Qed.

(* a registered alternative stays registered through the rest of the iteration *)
Lemma registered_extends p p' q c : extends p p' -> registered p q c -> registered p' q c.
Proof.
  intros Hext (en & Hn & Hex & Hreg).
  destruct (extends_nth_old _ _ _ _ Hext Hn) as (en' & Hn' & Hx).
  exists en'. split; [exact Hn'|]. split; [rewrite (ext_exploring _ _ Hx); exact Hex|].
  destruct (ext_inv _ _ Hx) as [->|(s & th & -> & -> & _ & Hth)]; [exact Hreg|].
  destruct c as [[t|]|k|b]; try contradiction. cbn [s_threads].
  destruct Hreg as [H|[H|H]];
    destruct (Forall2_nth_l Hth H) as (t' & Ht' & Hle);
    rewrite (st_le_not_skip _ _ Hle) in Ht' by discriminate; auto.
Qed.

(* the preemption bound is the same in every explored path *)
Lemma explore_bound it :
  iter_ok it ->
  forall n p k ek, wf_path p -> nth_error (explore it n p) k = Some ek -> bound ek = bound p.
Proof.
  intros Hit. induction n as [|n IH]; intros p k ek Hwf Hk; cbn [explore] in Hk.
  - destruct k; discriminate.
  - destruct (Hit p Hwf) as [(Hb & _) Hwfi].
    destruct k as [|k]; cbn [nth_error] in Hk.
    + injection Hk as <-. exact Hb.
    + destruct (step (it p)) as [p1|] eqn:Hs; [|destruct k; discriminate].
      destruct (step_cases _ _ Hs) as (_ & _ & _ & _ & _ & _ & _ & _ & Hb1 & _).
      rewrite (IH p1 k ek (PathTerm.step_wf _ _ Hwfi Hs) Hk). congruence.
Qed.

(* RACE REVERSAL.  The exploration of the model from [initial_path c], without
   preemption bound.  Iteration k ends with stack [ek].  At some scheduling
   point of that iteration the DPOR loop took the stack from [p] to [p']
   ([extends p' ek]: the rest of the iteration only uses the Path API, which
   is what every path inside iteration k satisfies, see
   [run_race_reversal_explored] below for a fully concrete scheduling point),
   and found a race between the pending operation of thread [id] and an access
   whose backtrack point is entry [i], where [id] was a candidate (Skip,
   Pending, Active or Visited: not Disabled, not Yield).  Then some iteration j
   of the same exploration makes the same decisions before entry i and
   schedules thread [id] at entry i. *)
Theorem race_reversal_explored fuel prog c k ek objs ths p p' id th op o accs acc i s t :
  let it := fun pa => e_path (fst (iteration fuel prog pa)) in
  let n := S (BASE ^ cap (initial_path c)) in
  preemption_bound c = None ->
  nth_error (explore it n (initial_path c)) k = Some ek ->
  dpor_loop objs ths p = POk p' -> extends p' ek ->
  In (id, th) ths -> t_op th = Some op ->
  nth_error objs (op_obj op) = Some o ->
  last_dependent_accesses o (op_act op) = Some accs ->
  In acc accs -> access_hb acc (t_dpor th) = false ->
  find_backtrack_point (branches p) (a_path_id acc) (S (a_path_id acc)) = POk (Some i) ->
  nth_error (branches p) i = Some (ESched s) ->
  nth_error (s_threads s) id = Some t -> runnable_status t = true ->
  exists j ej,
    nth_error (explore it n (initial_path c)) j = Some ej /\
    firstn i (choices ej) = firstn i (choices ek) /\
    nth_error (choices ej) i = Some (CThread (Some id)).
Proof.
  intros it n Hnb Hk Hd Hext Hin Hop Ho Hacc Hacc_in Hhb Hf Hn Ht Hr.
  assert (Hbek : bound ek = None).
  { rewrite (explore_bound it (L_iter_ok fuel prog) n (initial_path c) k ek
               (proj1 (initial_path_ok c)) Hk). exact Hnb. }
  assert (Hbp : bound p = None).
  { destruct (path_le_fields _ _ (dpor_loop_mono _ _ _ _ Hd)) as (Hb & _).
    destruct Hext as (Hb' & _). congruence. }
  assert (Hbd : at_bound s (bound p) = false) by (rewrite Hbp; reflexivity).
  destruct (dpor_loop_registers_status _ _ _ _ _ _ _ _ _ _ _ _
              Hd Hin Hop Ho Hacc Hacc_in Hhb Hf Hn Hbd)
    as (s' & Hn' & Hex' & _ & _ & _ & _ & _ & _ & Hreg & _).
  pose proof (registered_of_status p' i s' id Hn' Hex' (Hreg t Ht Hr)) as Hregp.
  pose proof (registered_extends _ _ _ _ Hext Hregp) as Hregk.
  exact (L_exhaustive_complete fuel prog c k ek i (CThread (Some id)) Hk Hregk).
Qed.

(* the acceptable weaker phrasing: the END stack has [id] Pending at entry i *)
Corollary pending_explored fuel prog c k ek i s id :
  let it := fun pa => e_path (fst (iteration fuel prog pa)) in
  let n := S (BASE ^ cap (initial_path c)) in
  nth_error (explore it n (initial_path c)) k = Some ek ->
  nth_error (branches ek) i = Some (ESched s) -> s_ex s = true ->
  nth_error (s_threads s) id = Some Pending ->
  exists j ej,
    nth_error (explore it n (initial_path c)) j = Some ej /\
    firstn i (choices ej) = firstn i (choices ek) /\
    nth_error (choices ej) i = Some (CThread (Some id)).
Proof.
  intros it n Hk Hn Hex Hp.
  exact (L_exhaustive_complete fuel prog c k ek i (CThread (Some id)) Hk
           (registered_of_pending ek i s id Hn Hex Hp)).
Qed.

(* ---- the scheduling point as a call of Execution::schedule ---- *)
Lemma In_index_list_from (A : Type) (l : list A) k i x :
  nth_error l i = Some x -> In (k + i, x) (index_list_from k l).
Proof.
  revert k i; induction l as [|h t IH]; intros k [|i] Hn; cbn [nth_error] in Hn;
    try discriminate; cbn [index_list_from In].
  - injection Hn as ->. left. rewrite Nat.add_0_r. reflexivity.
  - right. replace (k + S i) with (S k + i) by lia. apply IH. exact Hn.
Qed.

Lemma In_index_list (A : Type) (l : list A) i x :
  nth_error l i = Some x -> In (i, x) (index_list l).
Proof. intros H. exact (In_index_list_from A l 0 i x H). Qed.

(* once schedule has run its DPOR loop, its final path extends the result *)
Lemma schedule_after_dpor es curr cur_th p1 :
  e_active es = Some curr -> nth_error (e_threads es) curr = Some cur_th ->
  dpor_loop (e_objects es) (index_list (e_threads es)) (e_path es) = POk p1 ->
  extends p1 (e_path (res_exec (fst (schedule es)))).
Proof.
  intros Ha Hc Hd. rewrite schedule_unfold, Ha, Hc, Hd.
  destruct (branch_thread p1 (sched_seed (e_threads es) curr cur_th)) as [[p2 next]|x] eqn:Hb.
  - rewrite sched_post_path. cbn [e_path ex_set_active ex_set_path].
    exact (proj1 (branch_thread_extends _ _ _ _ Hb)).
  - cbn [fst res_exec e_path ex_set_path]. apply extends_refl.
Qed.

Theorem schedule_race_reversal_explored
        fuel prog c k ek es curr cur_th p1 id th op o accs acc i s t :
  let it := fun pa => e_path (fst (iteration fuel prog pa)) in
  let n := S (BASE ^ cap (initial_path c)) in
  preemption_bound c = None ->
  nth_error (explore it n (initial_path c)) k = Some ek ->
  (* Execution::schedule is called on state [es] during iteration k *)
  extends (e_path (res_exec (fst (schedule es)))) ek ->
  e_active es = Some curr -> nth_error (e_threads es) curr = Some cur_th ->
  dpor_loop (e_objects es) (index_list (e_threads es)) (e_path es) = POk p1 ->
  (* thread [id] has a pending operation that races with [acc] *)
  nth_error (e_threads es) id = Some th -> t_op th = Some op ->
  nth_error (e_objects es) (op_obj op) = Some o ->
  last_dependent_accesses o (op_act op) = Some accs ->
  In acc accs -> access_hb acc (t_dpor th) = false ->
  find_backtrack_point (branches (e_path es)) (a_path_id acc) (S (a_path_id acc))
    = POk (Some i) ->
  nth_error (branches (e_path es)) i = Some (ESched s) ->
  nth_error (s_threads s) id = Some t -> runnable_status t = true ->
  exists j ej,
    nth_error (explore it n (initial_path c)) j = Some ej /\
    firstn i (choices ej) = firstn i (choices ek) /\
    nth_error (choices ej) i = Some (CThread (Some id)).
Proof.
  intros it n Hnb Hk Hext Ha Hc Hd Hth Hop Ho Hacc Hacc_in Hhb Hf Hn Ht Hr.
  eapply (race_reversal_explored fuel prog c k ek) with (p := e_path es) (p' := p1);
    try eassumption.
  - eapply extends_trans; [eapply schedule_after_dpor; eassumption|exact Hext].
  - apply In_index_list. exact Hth.
Qed.

(* ---- the scheduling point as a point of Scheduler::run ---- *)

(* [run_reaches f e f' e']: Scheduler::run, started in state [e] with fuel [f],
   reaches the state [e'] (between two micro-operations) with fuel [f'] left *)
Inductive run_reaches : nat -> exec -> nat -> exec -> Prop :=
  | rr_here f e : run_reaches f e f e
  | rr_step f e me t m rest e2 f' e' :
      e_active e = Some me -> nth_error (e_threads e) me = Some t -> t_cont t = m :: rest ->
      exec_micro (upd_thread e me (fun t => th_set_cont t rest)) me m = MOk e2 ->
      run_reaches f e2 f' e' -> run_reaches (S f) e f' e'.

Lemma run_reaches_run f e f' e' : run_reaches f e f' e' -> run f e = run f' e'.
Proof.
  induction 1 as [|f e me t m rest e2 f' e' Ha Ht Hc Hm _ IH]; [reflexivity|].
  cbn [run]. rewrite Ha, Ht, Hc, Hm. exact IH.
Qed.

(* the START paths of the exploration: [explore] is [map it] of them *)
Fixpoint starts (it : path -> path) (n : nat) (p : path) : list path :=
  match n with
  | 0 => []
  | S n' => p :: match step (it p) with
                 | Some p' => starts it n' p'
                 | None => []
                 end
  end.

Lemma explore_starts it n p : explore it n p = map it (starts it n p).
Proof.
  revert p; induction n as [|n IH]; intros p; cbn [explore starts map]; [reflexivity|].
  destruct (step (it p)) as [p'|]; [rewrite IH|]; reflexivity.
Qed.

(* the micro-operation executed at a reached state leads to the END stack *)
Lemma run_next_extends f e me t m rest :
  e_active e = Some me -> nth_error (e_threads e) me = Some t -> t_cont t = m :: rest ->
  extends (e_path (res_exec (exec_micro (upd_thread e me (fun t => th_set_cont t rest)) me m)))
          (e_path (fst (run (S f) e))).
Proof.
  intros Ha Ht Hc. cbn [run]. rewrite Ha, Ht, Hc.
  destruct (exec_micro _ me m) as [e2|e2 pn]; cbn [res_exec fst].
  - exact (proj1 (run_path_ok f e2)).
  - apply extends_refl.
Qed.

(* RACE REVERSAL, fully concrete.  Iteration k of the exploration starts from
   the stack [pk].  Its run reaches the state [e1], where the active thread
   [me] executes a micro-operation [m] that calls Execution::schedule on the
   state [es] (for m = MBranch obj act blk this is the definition of do_branch,
   see the corollary).  The DPOR loop of that call finds that the pending
   operation of thread [id] races with the access [acc], whose backtrack point
   is entry [i], where [id] was a candidate.  Then some iteration j makes the
   same decisions before entry i and schedules [id] at entry i. *)
Theorem run_race_reversal_explored
        fuel prog c k pk f1 e1 me tme m rest es curr cur_th p1 id th op o accs acc i s t :
  let it := fun pa => e_path (fst (iteration fuel prog pa)) in
  let n := S (BASE ^ cap (initial_path c)) in
  preemption_bound c = None ->
  nth_error (starts it n (initial_path c)) k = Some pk ->
  run_reaches fuel (init_exec prog pk) (S f1) e1 ->
  e_active e1 = Some me -> nth_error (e_threads e1) me = Some tme -> t_cont tme = m :: rest ->
  exec_micro (upd_thread e1 me (fun t => th_set_cont t rest)) me m = fst (schedule es) ->
  e_active es = Some curr -> nth_error (e_threads es) curr = Some cur_th ->
  dpor_loop (e_objects es) (index_list (e_threads es)) (e_path es) = POk p1 ->
  nth_error (e_threads es) id = Some th -> t_op th = Some op ->
  nth_error (e_objects es) (op_obj op) = Some o ->
  last_dependent_accesses o (op_act op) = Some accs ->
  In acc accs -> access_hb acc (t_dpor th) = false ->
  find_backtrack_point (branches (e_path es)) (a_path_id acc) (S (a_path_id acc))
    = POk (Some i) ->
  nth_error (branches (e_path es)) i = Some (ESched s) ->
  nth_error (s_threads s) id = Some t -> runnable_status t = true ->
  exists j ej,
    nth_error (explore it n (initial_path c)) j = Some ej /\
    firstn i (choices ej) = firstn i (choices (it pk)) /\
    nth_error (choices ej) i = Some (CThread (Some id)).
Proof.
  intros it n Hnb Hk Hreach Ha Ht Hc Hm Hea Hec Hd Hth Hop Ho Hacc Hacc_in Hhb Hf Hn Hst Hr.
  assert (Hek : nth_error (explore it n (initial_path c)) k = Some (it pk)).
  { rewrite explore_starts. apply map_nth_error. exact Hk. }
  eapply (schedule_race_reversal_explored fuel prog c k (it pk) es); try eassumption.
  unfold it. rewrite iteration_fst, (run_reaches_run _ _ _ _ Hreach), <- Hm.
  exact (run_next_extends f1 e1 me tme m rest Ha Ht Hc).
Qed.

(* the instance for the scheduling point of a branch (every atomic access,
   lock, send, ... is preceded by one): [es] is explicit *)
Corollary branch_race_reversal_explored
        fuel prog c k pk f1 e1 me tme obj act blk rest curr cur_th p1 id th op o accs acc i s t :
  let it := fun pa => e_path (fst (iteration fuel prog pa)) in
  let n := S (BASE ^ cap (initial_path c)) in
  let e1' := upd_thread e1 me (fun t => th_set_cont t rest) in
  let es := upd_thread e1' me (fun t =>
              let t := th_set_op t (Some (mkOp obj act)) in
              if block_now e1' obj blk then set_blocked t else t) in
  preemption_bound c = None ->
  nth_error (starts it n (initial_path c)) k = Some pk ->
  run_reaches fuel (init_exec prog pk) (S f1) e1 ->
  e_active e1 = Some me -> nth_error (e_threads e1) me = Some tme ->
  t_cont tme = MBranch obj act blk :: rest ->
  e_active es = Some curr -> nth_error (e_threads es) curr = Some cur_th ->
  dpor_loop (e_objects es) (index_list (e_threads es)) (e_path es) = POk p1 ->
  nth_error (e_threads es) id = Some th -> t_op th = Some op ->
  nth_error (e_objects es) (op_obj op) = Some o ->
  last_dependent_accesses o (op_act op) = Some accs ->
  In acc accs -> access_hb acc (t_dpor th) = false ->
  find_backtrack_point (branches (e_path es)) (a_path_id acc) (S (a_path_id acc))
    = POk (Some i) ->
  nth_error (branches (e_path es)) i = Some (ESched s) ->
  nth_error (s_threads s) id = Some t -> runnable_status t = true ->
  exists j ej,
    nth_error (explore it n (initial_path c)) j = Some ej /\
    firstn i (choices ej) = firstn i (choices (it pk)) /\
    nth_error (choices ej) i = Some (CThread (Some id)).
Proof.
  intros it n e1' es Hnb Hk Hreach Ha Ht Hc.
  apply (run_race_reversal_explored fuel prog c k pk f1 e1 me tme (MBranch obj act blk) rest es);
    try assumption.
  reflexivity.
Qed.

(* ================================================================== *)
(* 6. non-vacuity, and the case the rule does not cover                *)
(* ================================================================== *)

(* two threads store to one atomic; no preemption bound *)
Definition cfg_nb : config := mkConfig 5 1000 None None None false.
Definition p_two_stores_nb : prog :=
  mkProg cfg_nb [DAtomic 0]
    [[ISpawn 1; IStore 0 1 SeqCst; IJoin 1]; [IStore 0 2 SeqCst]].

Definition FUELD : nat := 100 * 100.

Definition it_two_stores : path -> path :=
  fun pa => e_path (fst (iteration FUELD p_two_stores_nb pa)).
Definition explored_two_stores_nb : list path :=
  explore it_two_stores 100 (initial_path cfg_nb).

Definition status_at (p : path) (i u : nat) : option tstat :=
  match nth_error (branches p) i with
  | Some (ESched s) => if s_ex s then nth_error (s_threads s) u else None
  | _ => None
  end.

(* the first iteration ends with thread 1 Pending at entry 0, the entry at which
   thread 0 was scheduled to do its store; the second iteration makes thread 1
   run there; the exploration finishes by itself *)
Example dpor_two_stores :
  finishes it_two_stores 100 (initial_path cfg_nb) = true /\
  option_map (fun e => nth_error (choices e) 0) (nth_error explored_two_stores_nb 0)
    = Some (Some (CThread (Some 0))) /\
  option_map (fun e => status_at e 0 1) (nth_error explored_two_stores_nb 0)
    = Some (Some Pending) /\
  option_map (fun e => nth_error (choices e) 0) (nth_error explored_two_stores_nb 1)
    = Some (Some (CThread (Some 1))).
Proof. vm_compute. repeat split; reflexivity. Qed.

(* the same through the theorems: the Pending mark is a registered alternative,
   hence (pending_explored) decided by some iteration *)
Lemma status_at_registered p i u :
  status_at p i u = Some Pending -> registered p i (CThread (Some u)).
Proof.
  unfold status_at. intros H.
  destruct (nth_error (branches p) i) as [[s|l|sp]|] eqn:Hn; try discriminate.
  destruct (s_ex s) eqn:Hex; [|discriminate].
  eapply registered_of_pending; eassumption.
Qed.

Example dpor_two_stores_registered :
  exists e0, nth_error explored_two_stores_nb 0 = Some e0 /\
             registered e0 0 (CThread (Some 1)).
Proof.
  exists (it_two_stores (initial_path cfg_nb)). split; [vm_compute; reflexivity|].
  apply status_at_registered. vm_compute. reflexivity.
Qed.

(* the hypotheses of the main theorem are satisfiable: a DPOR loop in which
   thread 1 is about to store to an atomic last stored by thread 0 at entry 0 *)
Definition nv_access : access := mkAccess 0 [1; 0; 0; 0; 0].
Definition nv_atomic : object :=
  OAtomic (mkAtomic vv_new vv_new vv_new vv_new false (repeat None MAX_THREADS)
                    (Some nv_access) [] 0).
Definition nv_thread (op : option operation) : thread :=
  mkThread Runnable op vv_new vv_new vv_new None 0 [] 0 0 [] [] false.
Definition nv_sched : Path.schedule :=
  mkSched 0 (Some 0) [Active; Skip; Disabled; Disabled; Disabled] None true.
Definition nv_path : path := mkPath None 1 [ESched nv_sched] true false true 1000.

Example dpor_loop_registers_nonvacuous :
  exists p',
    dpor_loop [nv_atomic] [(0, nv_thread None); (1, nv_thread (Some (mkOp 0 AStore)))] nv_path
      = POk p' /\
    last_dependent_accesses nv_atomic AStore = Some [nv_access] /\
    access_hb nv_access (t_dpor (nv_thread (Some (mkOp 0 AStore)))) = false /\
    find_backtrack_point (branches nv_path) (a_path_id nv_access) (S (a_path_id nv_access))
      = POk (Some 0) /\
    nth_error (branches nv_path) 0 = Some (ESched nv_sched) /\
    at_bound nv_sched (bound nv_path) = false /\
    nth_error (s_threads nv_sched) 1 = Some Skip /\
    status_at p' 0 1 = Some Pending.
Proof. eexists. vm_compute. repeat split; reflexivity. Qed.

(* ---- what the rule does NOT register ---- *)

(* (a) a thread that is Yield at the backtrack point: it is "enabled", so the
   conservative fallback does not fire, and explore() leaves Yield alone.  The
   race is detected, the request is issued, nothing is registered. *)
Definition yl_sched : Path.schedule :=
  mkSched 0 None [TYield; Active; Disabled; Disabled; Disabled] None true.
Definition yl_path : path := mkPath None 1 [ESched yl_sched] true false true 1000.

Lemma yield_race_not_registered :
  backtrack yl_path 0 0 = POk yl_path /\
  find_backtrack_point (branches yl_path) 0 1 = POk (Some 0) /\
  at_bound yl_sched (bound yl_path) = false /\
  ~ registered yl_path 0 (CThread (Some 0)).
Proof.
  split; [vm_compute; reflexivity|]. split; [reflexivity|]. split; [reflexivity|].
  intros (en & Hn & _ & Hreg). cbn in Hn. injection Hn as <-. cbn in Hreg.
  destruct Hreg as [H|[H|H]]; discriminate.
Qed.

(* the same through the DPOR loop: all hypotheses of dpor_loop_registers hold
   for thread 0, and thread 0 is not a registered alternative afterwards *)
Example dpor_loop_yield_not_registered :
  exists p',
    dpor_loop [nv_atomic] [(0, nv_thread (Some (mkOp 0 AStore)))] yl_path = POk p' /\
    access_hb nv_access (t_dpor (nv_thread (Some (mkOp 0 AStore)))) = false /\
    find_backtrack_point (branches yl_path) (a_path_id nv_access) (S (a_path_id nv_access))
      = POk (Some 0) /\
    at_bound yl_sched (bound yl_path) = false /\
    status_at p' 0 0 = Some TYield.
Proof. eexists. vm_compute. repeat split; reflexivity. Qed.

(* END TO END: a race reversal that loom never explores.
     main: spawn t1; r0 = x.fetch_add(1); join t1
     t1:   yield_now(); r1 = x.fetch_add(10)
   Iteration 1 runs main's RMW first (r0 = 0, r1 = 1) and registers t1 at
   entry 0.  Iteration 2 runs t1 at entry 0; t1 yields at once (entry 1 =
   [main Active; t1 Yield]), main does its RMW at entry 1, then t1's RMW
   races with it: backtrack(1, t1) finds t1 Yield at entry 1 and does nothing.
   The exploration stops after these two iterations; the order "t1's RMW
   first" (r0 = 10, r1 = 0), which the reference semantics R allows (yield_now
   is only a hint), is never explored. *)
Definition p_yield_rmw : prog :=
  mkProg cfg0 [DAtomic 0]
    [[ISpawn 1; IRmw 0 RAdd 1 SeqCst; IJoin 1]; [IYield; IRmw 0 RAdd 10 SeqCst]].
Definition o_yield_rmw : outcome :=
  [[(0, RUnit); (1, RVal 10); (2, RUnit)]; [(0, RUnit); (1, RVal 0)]].

Lemma yield_race_reversal_missed :
  missing p_yield_rmw o_yield_rmw = true /\
  length (recs_of p_yield_rmw) = 2 /\
  (* the END stack of the last iteration: t1 is Yield at entry 1, where main
     was scheduled to do its RMW, and nothing is Pending anywhere *)
  option_map (fun r => status_at (ir_end r) 1 1) (nth_error (recs_of p_yield_rmw) 1)
    = Some (Some TYield) /\
  option_map (fun r => nth_error (choices (ir_end r)) 1) (nth_error (recs_of p_yield_rmw) 1)
    = Some (Some (CThread (Some 0))) /\
  forallb (fun r => forallb (fun e => match e with
                                      | ESched s => negb (existsb is_pending (s_threads s))
                                      | _ => true
                                      end) (branches (ir_end r)))
          (skipn 1 (recs_of p_yield_rmw)) = true.
Proof. vm_compute. repeat split; reflexivity. Qed.

(* (b) an entry whose stored count has reached the preemption bound *)
Definition bd_sched : Path.schedule :=
  mkSched 1 (Some 0) [Active; Skip; Disabled; Disabled; Disabled] None true.
Definition bd_path : path := mkPath (Some 1) 1 [ESched bd_sched] true false true 1000.

Lemma bound_race_not_registered :
  backtrack bd_path 0 1 = POk bd_path /\
  find_backtrack_point (branches bd_path) 0 1 = POk (Some 0) /\
  at_bound bd_sched (bound bd_path) = true /\
  ~ registered bd_path 0 (CThread (Some 1)).
Proof.
  split; [vm_compute; reflexivity|]. split; [reflexivity|]. split; [reflexivity|].
  intros (en & Hn & _ & Hreg). cbn in Hn. injection Hn as <-. cbn in Hreg.
  destruct Hreg as [H|[H|H]]; discriminate.
Qed.

(* the early return tests the stored field, not preemptions(): an entry with
   preemptions() = bound but s_pre < bound still registers *)
Definition bd2_sched : Path.schedule :=
  mkSched 0 (Some 1) [Active; Skip; Disabled; Disabled; Disabled] None true.
Definition bd2_path : path := mkPath (Some 1) 1 [ESched bd2_sched] true false true 1000.

Lemma early_return_uses_stored_count :
  preemptions bd2_sched = 1 /\ bound bd2_path = Some 1 /\
  at_bound bd2_sched (bound bd2_path) = false /\
  option_map (fun p => status_at p 0 1)
    (match backtrack bd2_path 0 1 with POk p => Some p | PErr _ => None end)
    = Some (Some Pending).
Proof. vm_compute. repeat split; reflexivity. Qed.

Print Assumptions sched_backtrack_spec.
Print Assumptions sched_backtrack_effect.
Print Assumptions find_backtrack_point_spec.
Print Assumptions find_backtrack_point_complete.
Print Assumptions backtrack_spec.
Print Assumptions backtrack_spec_unbounded.
Print Assumptions backtrack_mono.
Print Assumptions dpor_accesses_mono.
Print Assumptions dpor_loop_mono.
Print Assumptions dpor_loop_keeps_status.
Print Assumptions find_backtrack_point_le.
Print Assumptions dpor_loop_registers.
Print Assumptions dpor_loop_registers_status.
Print Assumptions dpor_loop_registers_unbounded.
Print Assumptions registered_of_pending.
Print Assumptions registered_of_pending_needs_ex.
Print Assumptions race_reversal_explored.
Print Assumptions pending_explored.
Print Assumptions schedule_race_reversal_explored.
Print Assumptions run_race_reversal_explored.
Print Assumptions branch_race_reversal_explored.
Print Assumptions dpor_two_stores.
Print Assumptions dpor_two_stores_registered.
Print Assumptions dpor_loop_registers_nonvacuous.
Print Assumptions yield_race_not_registered.
Print Assumptions dpor_loop_yield_not_registered.
Print Assumptions yield_race_reversal_missed.
Print Assumptions bound_race_not_registered.
Print Assumptions early_return_uses_stored_count.
