(* rt/vv.rs : VersionVec. A vector is a list of counters; components beyond the
   end of the list read as 0, so the functions are total on any two lists; the
   model only ever builds vectors of length MAX_THREADS. *)
Require Import LV.Base.

Definition vv := list nat.

Definition vv_new : vv := repeat 0 MAX_THREADS.

Definition vv_get (v : vv) (i : nat) : nat := nth i v 0.

(* versions[i] += 1 *)
Definition vv_inc (v : vv) (i : nat) : vv := list_upd v i S.

Fixpoint vv_join (a b : vv) : vv :=
  match a, b with
  | [], _ => b
  | _, [] => a
  | x :: a', y :: b' => Nat.max x y :: vv_join a' b'
  end.

(* VersionVec::ahead: the first index at which [other] is strictly larger *)
Fixpoint vv_ahead_from (i : nat) (self other : vv) : option nat :=
  match other with
  | [] => None
  | y :: other' =>
      let x := match self with [] => 0 | x :: _ => x end in
      if Nat.ltb x y then Some i
      else vv_ahead_from (S i) (match self with [] => [] | _ :: s => s end) other'
  end.
Definition vv_ahead (self other : vv) : option nat := vv_ahead_from 0 self other.

(* pairs of components, the shorter vector padded with zeros *)
Fixpoint vv_zip (a b : vv) {struct a} : list (nat * nat) :=
  match a with
  | [] => map (fun y => (0, y)) b
  | x :: a' =>
      match b with
      | [] => (x, 0) :: vv_zip a' []
      | y :: b' => (x, y) :: vv_zip a' b'
      end
  end.

(* PartialOrd::partial_cmp, transcribed: one pass with the accumulator [ret] *)
Fixpoint vv_pcmp_acc (ret : comparison) (l : list (nat * nat)) : option comparison :=
  match l with
  | [] => Some ret
  | (x, y) :: l' =>
      match Nat.compare x y, ret with
      | Eq, _ => vv_pcmp_acc ret l'
      | Lt, Gt => None
      | Gt, Lt => None
      | c, _ => vv_pcmp_acc c l'
      end
  end.

Definition vv_pcmp (a b : vv) : option comparison := vv_pcmp_acc Eq (vv_zip a b).

(* `a <= b` and `a < b` as Rust derives them from partial_cmp *)
Definition vv_le (a b : vv) : bool :=
  match vv_pcmp a b with Some Lt | Some Eq => true | _ => false end.
Definition vv_lt (a b : vv) : bool :=
  match vv_pcmp a b with Some Lt => true | _ => false end.
Definition vv_eqb (a b : vv) : bool :=
  forallb (fun p => Nat.eqb (fst p) (snd p)) (vv_zip a b).
