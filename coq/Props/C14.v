(* C14 -- Exploration terminates and never repeats an execution.
   Only statements pinned with Check, closed with exact, and their assumptions. *)
Require Import LV.Base LV.Path LV.PathSpec LV.PathTerm.

(* For every iteration function that uses the stack only through the Path API
   (iter_ok), whatever the program and the schedule-dependent behaviour of its
   iterations, the loop of Builder::check stops by itself after at most
   8^max_branches iterations. *)
Theorem C14_explore_terminates :
  forall it p, iter_ok it -> wf_path p -> finishes it (S (BASE ^ cap p)) p = true.
Proof. exact explore_terminates. Qed.
Check C14_explore_terminates :
  forall it p, iter_ok it -> wf_path p -> finishes it (S (BASE ^ cap p)) p = true.
Print Assumptions C14_explore_terminates.

(* each (step ; iteration) round strictly decreases the mixed-radix measure *)
Theorem C14_measure_decreases :
  forall it q p', iter_ok it -> wf_path q -> step q = Some p' -> mu (it p') < mu q.
Proof. exact iter_mu_decreases. Qed.
Print Assumptions C14_measure_decreases.

(* premises are satisfiable: the initial path is well formed *)
Example C14_initial_wf : wf_path (path_new 1000 None true).
Proof. split; [constructor | cbn; auto with arith]. Qed.

Require Import LV.PathDistinct LV.PathApi.

(* any two iterations of one exploration follow different decision sequences,
   and they part ways at a definite position (depth-first order) *)
Theorem C14_decisions_distinct :
  forall it n p i j pi pj,
    iter_ok it -> wf_path p ->
    nth_error (explore it n p) i = Some pi ->
    nth_error (explore it n p) j = Some pj ->
    i < j ->
    exists q, diverge_at (choices pi) (choices pj) q.
Proof. exact decisions_distinct. Qed.
Check C14_decisions_distinct :
  forall it n p i j pi pj,
    iter_ok it -> wf_path p ->
    nth_error (explore it n p) i = Some pi ->
    nth_error (explore it n p) j = Some pj ->
    i < j ->
    exists q, diverge_at (choices pi) (choices pj) q.
Print Assumptions C14_decisions_distinct.

(* hence the iteration count equals the number of distinct explored paths *)
Theorem C14_decisions_nodup :
  forall it n p, iter_ok it -> wf_path p -> NoDup (map choices (explore it n p)).
Proof. exact decisions_nodup. Qed.
Print Assumptions C14_decisions_nodup.

(* the depth-first shape of one step: a prefix of the stack is kept, the entry
   after it is advanced to its next alternative, everything deeper is dropped *)
Theorem C14_step_depth_first :
  forall p p', step p = Some p' ->
    exists k e', k < length (branches p) /\ branches p' = firstn k (branches p) ++ [e'] /\
                 exists e, nth_error (branches p) k = Some e /\ advance_entry e = Some e'.
Proof. exact step_prefix. Qed.
Print Assumptions C14_step_depth_first.

(* the Path API, the only way real iterations touch the stack, satisfies the
   iteration contract: it appends entries and adds backtrack marks *)
Theorem C14_api_extends_branch_thread :
  forall p seed p' t, branch_thread p seed = POk (p', t) -> extends p p' /\ (wf_path p -> wf_path p').
Proof. exact branch_thread_extends. Qed.
Theorem C14_api_extends_backtrack :
  forall p point tid p', backtrack p point tid = POk p' -> extends p p' /\ (wf_path p -> wf_path p').
Proof. exact backtrack_extends. Qed.
Theorem C14_api_extends_push_load :
  forall p seed p', push_load p seed = POk p' -> extends p p' /\ (wf_path p -> wf_path p').
Proof. exact push_load_extends. Qed.
Theorem C14_api_extends_branch_load :
  forall p p' v, branch_load p = POk (p', v) -> extends p p' /\ (wf_path p -> wf_path p').
Proof. exact branch_load_extends. Qed.
Theorem C14_api_extends_branch_spurious :
  forall p p' b, branch_spurious p = POk (p', b) -> extends p p' /\ (wf_path p -> wf_path p').
Proof. exact branch_spurious_extends. Qed.
Print Assumptions C14_api_extends_branch_thread.
Print Assumptions C14_api_extends_backtrack.
Print Assumptions C14_api_extends_push_load.
Print Assumptions C14_api_extends_branch_load.
Print Assumptions C14_api_extends_branch_spurious.

Require Import LV.PathExhaust.

(* exhaustiveness of the depth-first loop: when the exploration finishes, every
   alternative registered in an exploring entry of any executed iteration (a
   Pending / Active / Visited thread, any index of a load's candidate list, either
   value of a spurious branch) was the decision of some iteration with the same
   decision prefix. iter_ok2: iterations keep "at most one Active thread per
   entry" and append only fresh entries (true of the Path API: PathExhaust.*_wf2). *)
Theorem C14_dfs_exhaustive :
  forall it n p, iter_ok it -> iter_ok2 it -> wf_path p -> wf2_path p -> fresh_path p ->
    finishes it n p = true ->
    forall k ek q c, nth_error (explore it n p) k = Some ek -> registered ek q c ->
    exists j ej, nth_error (explore it n p) j = Some ej /\
                 firstn q (choices ej) = firstn q (choices ek) /\
                 nth_error (choices ej) q = Some c.
Proof. exact dfs_exhaustive. Qed.
Print Assumptions C14_dfs_exhaustive.

(* ==== appended by tools/mkprops.py (APPEND table) ==== *)

Require Import LV.Base LV.VV LV.VVFacts LV.Path LV.PathSpec LV.PathTerm LV.PathDistinct LV.PathApi LV.Prog LV.Objects LV.Exec LV.Atomic LV.Ops LV.Check LV.PathExhaust LV.ExecFacts LV.ExecFacts2.

(* The abstract theorems above instantiated on the concrete iteration of the execution model (Check.iteration): L satisfies both iteration contracts (ExecFacts.L_iter_ok, ExecFacts2.L_iter_ok2) *)
(* the exploration loop over the concrete iteration of the model L (every program, every fuel) stops by itself from the initial path *)
Theorem C14_L_explore_terminates :
  forall (fuel : nat) (p : prog) (c : config),
       finishes (fun pa : path => e_path (fst (iteration fuel p pa)))
         (S (BASE ^ cap (initial_path c))) (initial_path c) = true.
Proof. exact L_explore_terminates. Qed.
Print Assumptions C14_L_explore_terminates.

(* and no two of its iterations take the same decisions *)
Theorem C14_L_decisions_distinct :
  forall (fuel : nat) (p : prog) (c : config) (n i j : nat) (pi pj : path),
       nth_error (explore (fun pa : path => e_path (fst (iteration fuel p pa))) n (initial_path c))
         i = Some pi ->
       nth_error (explore (fun pa : path => e_path (fst (iteration fuel p pa))) n (initial_path c))
         j = Some pj -> i < j -> exists q : nat, diverge_at (choices pi) (choices pj) q.
Proof. exact L_decisions_distinct. Qed.
Print Assumptions C14_L_decisions_distinct.

