(* C06 -- A failure in any explored execution fails the model run, and only then (control flow of Builder::check; unwinding/abort behaviour is observed on the implementation only).
   Statements restated in full, closed with exact, assumptions printed. *)
Require Import LV.Base LV.Path LV.PathSpec LV.Prog LV.Objects LV.Exec LV.Check LV.CheckFacts.

(* if the run fails, its result is the failure of the last recorded iteration and every earlier iteration finished normally: nothing is swallowed, nothing runs after the failure *)
Theorem C06_first_failure_is_result :
  forall (ifuel fuel : nat) (p : prog) (i : nat) (pa : path) (ck : option path)
         (acc recs : list iter_record) (pn : panic) (ck' : option path),
       check_loop ifuel fuel p i pa ck acc = (recs, RunPanic pn, ck') ->
       exists (front : list iter_record) (r : iter_record),
         recs = rev acc ++ front ++ [r] /\
         ir_result r = IterPanic pn /\ Forall (fun x : iter_record => ir_result x = IterDone) front.
Proof. exact first_failure_is_result. Qed.
Print Assumptions C06_first_failure_is_result.

(* conversely an iteration that fails makes the run fail with that very failure and is the last one *)
Theorem C06_failing_record_fails_run :
  forall (ifuel fuel : nat) (p : prog) (i : nat) (pa : path) (ck : option path)
         (acc rest : list iter_record) (fin : run_end) (ck' : option path) 
         (r : iter_record) (pn : panic),
       check_loop ifuel fuel p i pa ck acc = (rev acc ++ rest, fin, ck') ->
       In r rest ->
       ir_result r = IterPanic pn ->
       fin = RunPanic pn /\ (exists front : list iter_record, rest = front ++ [r]).
Proof. exact failing_record_fails_run. Qed.
Print Assumptions C06_failing_record_fails_run.

(* a normal return means no iteration failed *)
Theorem C06_ok_means_no_failure :
  forall (ifuel fuel : nat) (p : prog) (i : nat) (pa : path) (ck : option path)
         (acc recs : list iter_record) (ck' : option path),
       check_loop ifuel fuel p i pa ck acc = (recs, RunOk, ck') ->
       exists rest : list iter_record,
         recs = rev acc ++ rest /\ Forall (fun x : iter_record => ir_result x = IterDone) rest.
Proof. exact ok_means_no_failure. Qed.
Print Assumptions C06_ok_means_no_failure.

(* and, without max_permutations, that the exploration was exhausted *)
Theorem C06_ok_means_exhausted :
  forall (ifuel fuel : nat) (p : prog) (i : nat) (pa : path) (ck : option path)
         (acc recs : list iter_record) (ck' : option path),
       check_loop ifuel fuel p i pa ck acc = (recs, RunOk, ck') ->
       max_permutations (p_cfg p) = None ->
       recs <> rev acc -> forall d : iter_record, step (ir_end (last recs d)) = None.
Proof. exact run_ok_complete. Qed.
Print Assumptions C06_ok_means_exhausted.

(* a later model run starts clean: the initial state depends on nothing but the program and the initial path *)
Theorem C06_fresh_start :
  forall (p : prog) (pa pa' : path), ex_set_path (init_exec p pa) pa' = init_exec p pa'.
Proof. exact init_exec_depends_on_path_only. Qed.
Print Assumptions C06_fresh_start.
