(* C02 -- Every C11-allowed weak-memory outcome without load buffering is explored. Full statement not proved (completeness of the view machine w.r.t. RC11); RC11.v is the executable oracle.
   Statements restated in full, closed with exact, assumptions printed. *)
Require Import LV.Base LV.VV LV.VVFacts LV.Path LV.Prog LV.Objects LV.Exec LV.Atomic LV.Ops LV.Check LV.Ref LV.Outcome LV.RC11 LV.Witness LV.SyncFacts.

(* the outcome hidden by the former fence_acq over-synchronisation is RC11-consistent and is explored by the model (computed witness) *)
Theorem C02_D2_repaired_outcome_explored :
  rc11_allows true false (fun _ : nat => 0%N) litmus_D2 (S (rc11_enough_fuel litmus_D2))
         [[0%N; 0%N]; [1%N; 0%N]; [1%N; 0%N; 0%N]] = true /\
       mem_outcome o_D2 (explored p_D2 (recs_of p_D2)) = true.
Proof. exact D2_allowed_and_explored. Qed.
Print Assumptions C02_D2_repaired_outcome_explored.

(* a Relaxed store publishes only the released view, never the storing thread's clock: no over-synchronisation at stores *)
Theorem C02_relaxed_store_does_not_publish :
  forall (s : atomic_state) (me : nat) (caus rel sync0 : vv) (v : N) (o : ord),
       Atomic.ord_rel o = false ->
       length (at_stores s) = MAX_ATOMIC_HISTORY ->
       forall i : nat,
       vv_get (st_sync (get_store (atomic_store s me caus rel sync0 v o) (aindex (at_cnt s)))) i =
       Nat.max (vv_get sync0 i) (vv_get rel i).
Proof. exact atomic_store_relaxed_sync. Qed.
Print Assumptions C02_relaxed_store_does_not_publish.

(* a Relaxed load leaves the loading thread's clock unchanged: no over-synchronisation at loads *)
Theorem C02_relaxed_load_does_not_acquire :
  forall (s : atomic_state) (me : nat) (caus : vv) (idx : nat) (o : ord) 
         (s' : atomic_state) (caus' : vv) (v : N),
       atomic_load s me caus idx o = inl (s', caus', v) ->
       Atomic.ord_acq o = false -> caus' = caus /\ v = st_value (get_store s idx).
Proof. exact atomic_load_relaxed. Qed.
Print Assumptions C02_relaxed_load_does_not_acquire.

(* a non-acquire ordering never joins the synchronisation point's view *)
Theorem C02_sync_load_rlx :
  forall (c s : vv) (o : ord), Atomic.ord_acq o = false -> sync_load c s o = c.
Proof. exact sync_load_rlx. Qed.
Print Assumptions C02_sync_load_rlx.

(* the clock comparison decides exactly the pointwise order *)
Theorem C02_vv_le_spec :
  forall a b : vv, vv_le a b = true <-> vle a b.
Proof. exact vv_le_spec. Qed.
Print Assumptions C02_vv_le_spec.

(* ==== appended by tools/mkprops.py (APPEND table) ==== *)

Require Import LV.Base LV.VV LV.VVFacts LV.Path LV.PathSpec LV.PathTerm LV.PathDistinct LV.PathApi LV.Prog LV.Objects LV.Exec LV.Atomic LV.Ops LV.Check LV.AtomicFacts LV.AtomicCoherence.

(* Nothing allowed is pruned without a reason: the candidate set is never empty and contains every mo-maximal store (AtomicCoherence.v) *)
(* a live store with no mo-later live store is always a candidate *)
Theorem C02_mo_maximal_is_candidate :
  forall (s : atomic_state) (me : nat) (caus : vv) (ly : option nat) 
         (o : ord) (l : list nat) (i : nat),
       match_load_to_stores s me caus ly o = Some l ->
       i < MAX_ATOMIC_HISTORY ->
       i < at_cnt s ->
       (forall j : nat,
        j < MAX_ATOMIC_HISTORY ->
        j < at_cnt s -> vv_lt (st_mo (get_store s i)) (st_mo (get_store s j)) = false) -> 
       In i l.
Proof. exact mo_maximal_is_candidate. Qed.
Print Assumptions C02_mo_maximal_is_candidate.

(* such a store exists as soon as one store was made *)
Theorem C02_mo_maximal_exists :
  forall s : atomic_state,
       1 <= at_cnt s ->
       exists i : nat,
         i < MAX_ATOMIC_HISTORY /\
         i < at_cnt s /\
         (forall j : nat,
          j < MAX_ATOMIC_HISTORY ->
          j < at_cnt s -> vv_lt (st_mo (get_store s i)) (st_mo (get_store s j)) = false).
Proof. exact mo_maximal_exists. Qed.
Print Assumptions C02_mo_maximal_exists.

(* hence a load always has a candidate *)
Theorem C02_candidates_nonempty :
  forall (s : atomic_state) (me : nat) (caus : vv) (ly : option nat) (o : ord) (l : list nat),
       match_load_to_stores s me caus ly o = Some l -> 1 <= at_cnt s -> l <> [].
Proof. exact candidates_nonempty. Qed.
Print Assumptions C02_candidates_nonempty.

(* and a slot is excluded only for one of the three stated reasons *)
Theorem C02_load_candidates_spec :
  forall (s : atomic_state) (me : nat) (caus : vv) (ly : option nat) (o : ord) (l : list nat),
       match_load_to_stores s me caus ly o = Some l ->
       forall i : nat,
       In i l <->
       i < MAX_ATOMIC_HISTORY /\
       i < at_cnt s /\
       (forall j : nat,
        j < MAX_ATOMIC_HISTORY ->
        j < at_cnt s ->
        j <> i ->
        vv_lt (st_mo (get_store s i)) (st_mo (get_store s j)) = true ->
        is_seen_by_current (st_seen (get_store s j)) caus = false /\
        is_seen_before_yield (st_seen (get_store s i)) me ly = false /\
        is_seq_cst o && st_seqcst (get_store s i) && st_seqcst (get_store s j) = false).
Proof. exact load_candidates_spec. Qed.
Print Assumptions C02_load_candidates_spec.

