(* C12 -- Loom atomics compute the same values as std atomics.
   All twelve types, all in-range operands, all single-thread operation sequences. *)
Require Import ZArith List.
Import ListNotations.
Require Import LV.Num LV.NumFacts.
Open Scope Z_scope.

Theorem C12_num_roundtrip :
  forall t x, in_range t x = true -> from_u64 t (into_u64 t x) = x.
Proof. exact num_roundtrip. Qed.
Print Assumptions C12_num_roundtrip.

Theorem C12_std_step_in_range :
  forall t c o, in_range t c = true -> op_ok t o = true -> in_range t (fst (std_step t c o)) = true.
Proof. exact std_step_in_range. Qed.
Print Assumptions C12_std_step_in_range.

Theorem C12_loom_step_matches_std :
  forall t c o, in_range t c = true -> op_ok t o = true ->
    let '(u', r) := loom_step t (into_u64 t c) o in
    let '(c', r') := std_step t c o in u' = into_u64 t c' /\ r = r'.
Proof. exact loom_step_matches_std. Qed.
Print Assumptions C12_loom_step_matches_std.

Theorem C12_atomic_matches_std :
  forall t init ops, in_range t init = true -> forallb (op_ok t) ops = true ->
    loom_run t init ops = std_run t init ops.
Proof. exact atomic_matches_std. Qed.
Print Assumptions C12_atomic_matches_std.

(* premises are satisfiable and the statement is not vacuous at a boundary *)
Example C12_i8_overflow :
  fst (loom_run I8 127 [NRmw FAdd 1; NLoad]) = [NRVal 127; NRVal (-128)].
Proof. vm_compute. reflexivity. Qed.

(* second half: through the model of the store ring (rt/atomic.rs). For every
   sequence of loads, stores and RMWs by ONE thread, the load / RMW candidate list
   is exactly the newest slot (also after the 7-slot ring wraps, any number of
   times), the modification-order assertion never fires, and every value read is
   the value of the most recent store. *)
Require Import LV.Base LV.VV LV.Prog LV.Objects LV.Atomic LV.AtomicFacts.
Close Scope Z_scope.
Open Scope nat_scope.

Theorem C12_single_thread_load_candidates :
  forall me s caus, Inv me s caus ->
    forall o, match_load_to_stores s me (vv_inc caus me) None o = Some [aindex (at_cnt s - 1)].
Proof. exact single_thread_load_candidates. Qed.
Print Assumptions C12_single_thread_load_candidates.

Theorem C12_single_thread_rmw_candidates :
  forall me s caus, Inv me s caus -> match_rmw_to_stores s = Some [aindex (at_cnt s - 1)].
Proof. exact single_thread_rmw_candidates. Qed.
Print Assumptions C12_single_thread_rmw_candidates.

Theorem C12_single_thread_reads_latest :
  forall me caus0 init ops, me < MAX_THREADS -> length caus0 = MAX_THREADS ->
    exists s0 sf cf,
      atomic_new me caus0 vv_new init = inl s0 /\
      srun me (s0, caus0) ops = Some (sf, cf, ref_run init ops) /\
      Inv me sf cf.
Proof. exact single_thread_reads_latest. Qed.
Print Assumptions C12_single_thread_reads_latest.
