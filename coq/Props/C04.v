(* C04 -- Data races on unsynchronised memory are reported exactly.
   Proved: (1) the clock functions decide the pointwise lattice order; (2) at every
   access the race test fires iff a recorded conflicting access is not below the
   accessing thread's clock, and otherwise records the access; (3) every
   synchronisation primitive hands the releaser's clock to the acquirer (SyncFacts,
   restated in C07-C11). The statement over whole executions ("iff not ordered by
   happens-before") is decided per execution by the independent oracle. *)
Require Import LV.Base LV.VV LV.VVFacts LV.Path LV.Prog LV.Objects LV.Exec LV.Atomic LV.Ops LV.SyncFacts.

Theorem C04_le_decides_order : forall a b, vv_le a b = true <-> vle a b.
Proof. exact vv_le_spec. Qed.
Print Assumptions C04_le_decides_order.

Theorem C04_join_is_lub : forall a b c, vle a c -> vle b c -> vle (vv_join a b) c.
Proof. exact vle_join_lub. Qed.
Print Assumptions C04_join_is_lub.

Theorem C04_ahead_none_iff : forall a b, vv_ahead a b = None <-> vle b a.
Proof. exact vv_ahead_none. Qed.
Print Assumptions C04_ahead_none_iff.

(* UnsafeCell::with : a race is reported iff the last writes are not all below the reader *)
Theorem C04_cell_read_reports_iff :
  forall s caus, (exists p, cell_track_read s caus = inr p) <-> ~ vle (ce_write s) caus.
Proof.
  intros s caus. unfold cell_track_read.
  destruct (vv_ahead caus (ce_write s)) as [i|] eqn:H.
  - split; [intros _ Hle | intros _; eexists; reflexivity].
    apply vv_ahead_none in Hle. congruence.
  - split; [intros [p Hp]; discriminate | intros Hn; exfalso; apply Hn; apply vv_ahead_none; exact H].
Qed.
Print Assumptions C04_cell_read_reports_iff.

Theorem C04_cell_read_records :
  forall s caus s', cell_track_read s caus = inl s' ->
    vle caus (ce_read s') /\ vle (ce_read s) (ce_read s') /\ ce_write s' = ce_write s.
Proof.
  intros s caus s'. unfold cell_track_read.
  destruct (vv_ahead caus (ce_write s)); [discriminate|].
  intros H; inversion H; subst; cbn. repeat split; [apply vle_join_r | apply vle_join_l].
Qed.
Print Assumptions C04_cell_read_records.

(* UnsafeCell::with_mut : a race is reported iff some earlier write or read is not below the writer *)
Theorem C04_cell_write_reports_iff :
  forall s caus, (exists p, cell_track_write s caus = inr p) <->
                 ~ (vle (ce_write s) caus /\ vle (ce_read s) caus).
Proof.
  intros s caus. unfold cell_track_write.
  destruct (vv_ahead caus (ce_write s)) as [i|] eqn:H1.
  - split; [intros _ [Hle _] | intros _; eexists; reflexivity].
    apply vv_ahead_none in Hle. congruence.
  - destruct (vv_ahead caus (ce_read s)) as [j|] eqn:H2.
    + split; [intros _ [_ Hle] | intros _; eexists; reflexivity].
      apply vv_ahead_none in Hle. congruence.
    + split; [intros [p Hp]; discriminate |].
      intros Hn; exfalso; apply Hn; split; apply vv_ahead_none; assumption.
Qed.
Print Assumptions C04_cell_write_reports_iff.

(* atomic accesses against unsynchronised ones (with_mut / unsync_load) *)
Theorem C04_atomic_load_reports_iff :
  forall s caus, at_mutating s = false ->
    ((exists p, track_load s caus = inr p) <-> ~ vle (at_unsync_mut s) caus).
Proof.
  intros s caus Hm. unfold track_load. rewrite Hm.
  destruct (vv_ahead caus (at_unsync_mut s)) as [i|] eqn:H.
  - split; [intros _ Hle | intros _; eexists; reflexivity].
    apply vv_ahead_none in Hle. congruence.
  - split; [intros [p Hp]; discriminate | intros Hn; exfalso; apply Hn; apply vv_ahead_none; exact H].
Qed.
Print Assumptions C04_atomic_load_reports_iff.

Theorem C04_atomic_store_reports_iff :
  forall s caus, at_mutating s = false ->
    ((exists p, track_store s caus = inr p) <->
     ~ (vle (at_unsync_mut s) caus /\ vle (at_unsync_loaded s) caus)).
Proof.
  intros s caus Hm. unfold track_store. rewrite Hm.
  destruct (vv_ahead caus (at_unsync_mut s)) as [i|] eqn:H1.
  - split; [intros _ [Hle _] | intros _; eexists; reflexivity].
    apply vv_ahead_none in Hle. congruence.
  - destruct (vv_ahead caus (at_unsync_loaded s)) as [j|] eqn:H2.
    + split; [intros _ [_ Hle] | intros _; eexists; reflexivity].
      apply vv_ahead_none in Hle. congruence.
    + split; [intros [p Hp]; discriminate |].
      intros Hn; exfalso; apply Hn; split; apply vv_ahead_none; assumption.
Qed.
Print Assumptions C04_atomic_store_reports_iff.

(* the edges happens-before is built from, one per primitive *)
Theorem C04_spawn_edge :
  forall e me b e', exec_micro e me (MSpawn b) = MOk e' ->
    let tid := length (e_threads e) in
    vle (caus_of e me) (caus_of e' tid) /\
    length (e_threads e') = S tid /\
    (forall j, j < tid -> j <> me -> caus_of e' j = caus_of e j) /\
    vle (caus_of e me) (caus_of e' me).
Proof. exact spawn_transfers. Qed.
Print Assumptions C04_spawn_edge.

Theorem C04_unpark_edge :
  forall e me id, id <> me -> id < length (e_threads e) ->
    let e' := threads_unpark e me id in
    vle (caus_of e me) (caus_of e' id) /\ vle (caus_of e id) (caus_of e' id) /\
    caus_of e' id = vv_join (caus_of e id) (caus_of e me) /\
    forall j, j <> id -> caus_of e' j = caus_of e j.
Proof. exact threads_unpark_transfers. Qed.
Print Assumptions C04_unpark_edge.

(* ==== appended by tools/mkprops.py (APPEND table) ==== *)

Require Import LV.Base LV.VV LV.VVFacts LV.Path LV.PathSpec LV.PathTerm LV.PathDistinct LV.PathApi LV.Prog LV.Objects LV.Exec LV.Atomic LV.Ops LV.Check LV.SyncFacts LV.ExecFacts LV.SyncMono LV.ClockFacts.

(* Well-formedness of the vector clocks over whole runs (ClockFacts.v) *)
(* in every state of every run nobody knows more about a thread than the thread itself: every thread clock, released view, object view, store view, access stamp and the SeqCst clock is bounded componentwise by the owners' own components *)
Theorem C04_run_clock_wf :
  forall (fuel : nat) (e : exec), clock_wf e -> clock_wf (fst (run fuel e)).
Proof. exact run_clock_wf. Qed.
Print Assumptions C04_run_clock_wf.

(* in particular for thread clocks *)
Theorem C04_clock_wf_caus :
  forall (e : exec) (t u : nat),
       clock_wf e -> vv_get (caus_of e t) u <= vv_get (caus_of e u) u.
Proof. exact clock_wf_caus. Qed.
Print Assumptions C04_clock_wf_caus.

(* every tracked access (cell read/write, atomic load/store/RMW, fence) strictly advances the accessing thread's own component first: two accesses of one thread never carry the same stamp *)
Theorem C04_own_component_increases :
  forall (e : exec) (me : nat) (m : micro) (e' : exec) (t : thread),
       is_tracked m = true ->
       exec_micro e me m = MOk e' ->
       get_thread e me = Some t ->
       me < length (t_caus t) -> vv_get (caus_of e me) me < vv_get (caus_of e' me) me.
Proof. exact own_component_increases. Qed.
Print Assumptions C04_own_component_increases.

(* the stamp a cell records for a write is the writer's own component at that moment *)
Theorem C04_cell_write_stamp :
  forall (e : exec) (me u : nat) (v : N) (e' : exec),
       clock_wf e ->
       exec_micro e me (MCellWrite u v) = MOk e' ->
       exists s' : cell_state,
         get_cell e' u = Some s' /\
         vv_get (ce_write s') me = vv_get (caus_of e' me) me /\
         caus_of e' me = caus_of (causality_inc e me) me.
Proof. exact cell_write_stamp. Qed.
Print Assumptions C04_cell_write_stamp.

(* a thread passes the race test against an access of thread t only if its clock has acquired t's component of that access *)
Theorem C04_seen_only_if_acquired :
  forall (e : exec) (b t n : nat),
       clock_wf e -> n <= vv_get (caus_of e b) t -> n <= vv_get (caus_of e t) t.
Proof. exact seen_only_if_acquired. Qed.
Print Assumptions C04_seen_only_if_acquired.

(* the write check in terms of stamps *)
Theorem C04_cell_write_allowed_iff :
  forall (s : cell_state) (c : vv),
       (exists s1 : cell_state, cell_track_write s c = inl s1) <->
       vle (ce_write s) c /\ vle (ce_read s) c.
Proof. exact cell_write_allowed_iff. Qed.
Print Assumptions C04_cell_write_allowed_iff.

