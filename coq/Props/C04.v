(* C04 -- Data races on unsynchronised memory are reported exactly.
   Proved: (1) the clock functions decide the pointwise lattice order; (2) at every
   access the race test fires iff a recorded conflicting access is not below the
   accessing thread's clock, and otherwise records the access; (3) every
   synchronisation primitive hands the releaser's clock to the acquirer (SyncFacts,
   restated in C07-C11). The statement over whole executions ("iff not ordered by
   happens-before") is decided per execution by the independent oracle. *)
Require Import LV.Base LV.VV LV.VVFacts LV.Path LV.Prog LV.Objects LV.Exec LV.Atomic LV.Ops LV.SyncFacts.

Theorem C04_le_decides_order : forall a b, vv_le a b = true <-> vle a b.
Proof. exact vv_le_spec. Qed.
Print Assumptions C04_le_decides_order.

Theorem C04_join_is_lub : forall a b c, vle a c -> vle b c -> vle (vv_join a b) c.
Proof. exact vle_join_lub. Qed.
Print Assumptions C04_join_is_lub.

Theorem C04_ahead_none_iff : forall a b, vv_ahead a b = None <-> vle b a.
Proof. exact vv_ahead_none. Qed.
Print Assumptions C04_ahead_none_iff.

(* UnsafeCell::with : a race is reported iff the last writes are not all below the reader *)
Theorem C04_cell_read_reports_iff :
  forall s caus, (exists p, cell_track_read s caus = inr p) <-> ~ vle (ce_write s) caus.
Proof.
  intros s caus. unfold cell_track_read.
  destruct (vv_ahead caus (ce_write s)) as [i|] eqn:H.
  - split; [intros _ Hle | intros _; eexists; reflexivity].
    apply vv_ahead_none in Hle. congruence.
  - split; [intros [p Hp]; discriminate | intros Hn; exfalso; apply Hn; apply vv_ahead_none; exact H].
Qed.
Print Assumptions C04_cell_read_reports_iff.

Theorem C04_cell_read_records :
  forall s caus s', cell_track_read s caus = inl s' ->
    vle caus (ce_read s') /\ vle (ce_read s) (ce_read s') /\ ce_write s' = ce_write s.
Proof.
  intros s caus s'. unfold cell_track_read.
  destruct (vv_ahead caus (ce_write s)); [discriminate|].
  intros H; inversion H; subst; cbn. repeat split; [apply vle_join_r | apply vle_join_l].
Qed.
Print Assumptions C04_cell_read_records.

(* UnsafeCell::with_mut : a race is reported iff some earlier write or read is not below the writer *)
Theorem C04_cell_write_reports_iff :
  forall s caus, (exists p, cell_track_write s caus = inr p) <->
                 ~ (vle (ce_write s) caus /\ vle (ce_read s) caus).
Proof.
  intros s caus. unfold cell_track_write.
  destruct (vv_ahead caus (ce_write s)) as [i|] eqn:H1.
  - split; [intros _ [Hle _] | intros _; eexists; reflexivity].
    apply vv_ahead_none in Hle. congruence.
  - destruct (vv_ahead caus (ce_read s)) as [j|] eqn:H2.
    + split; [intros _ [_ Hle] | intros _; eexists; reflexivity].
      apply vv_ahead_none in Hle. congruence.
    + split; [intros [p Hp]; discriminate |].
      intros Hn; exfalso; apply Hn; split; apply vv_ahead_none; assumption.
Qed.
Print Assumptions C04_cell_write_reports_iff.

(* atomic accesses against unsynchronised ones (with_mut / unsync_load) *)
Theorem C04_atomic_load_reports_iff :
  forall s caus, at_mutating s = false ->
    ((exists p, track_load s caus = inr p) <-> ~ vle (at_unsync_mut s) caus).
Proof.
  intros s caus Hm. unfold track_load. rewrite Hm.
  destruct (vv_ahead caus (at_unsync_mut s)) as [i|] eqn:H.
  - split; [intros _ Hle | intros _; eexists; reflexivity].
    apply vv_ahead_none in Hle. congruence.
  - split; [intros [p Hp]; discriminate | intros Hn; exfalso; apply Hn; apply vv_ahead_none; exact H].
Qed.
Print Assumptions C04_atomic_load_reports_iff.

Theorem C04_atomic_store_reports_iff :
  forall s caus, at_mutating s = false ->
    ((exists p, track_store s caus = inr p) <->
     ~ (vle (at_unsync_mut s) caus /\ vle (at_unsync_loaded s) caus)).
Proof.
  intros s caus Hm. unfold track_store. rewrite Hm.
  destruct (vv_ahead caus (at_unsync_mut s)) as [i|] eqn:H1.
  - split; [intros _ [Hle _] | intros _; eexists; reflexivity].
    apply vv_ahead_none in Hle. congruence.
  - destruct (vv_ahead caus (at_unsync_loaded s)) as [j|] eqn:H2.
    + split; [intros _ [_ Hle] | intros _; eexists; reflexivity].
      apply vv_ahead_none in Hle. congruence.
    + split; [intros [p Hp]; discriminate |].
      intros Hn; exfalso; apply Hn; split; apply vv_ahead_none; assumption.
Qed.
Print Assumptions C04_atomic_store_reports_iff.

(* the edges happens-before is built from, one per primitive *)
Theorem C04_spawn_edge :
  forall e me b e', exec_micro e me (MSpawn b) = MOk e' ->
    let tid := length (e_threads e) in
    vle (caus_of e me) (caus_of e' tid) /\
    length (e_threads e') = S tid /\
    (forall j, j < tid -> j <> me -> caus_of e' j = caus_of e j) /\
    vle (caus_of e me) (caus_of e' me).
Proof. exact spawn_transfers. Qed.
Print Assumptions C04_spawn_edge.

Theorem C04_unpark_edge :
  forall e me id, id <> me -> id < length (e_threads e) ->
    let e' := threads_unpark e me id in
    vle (caus_of e me) (caus_of e' id) /\ vle (caus_of e id) (caus_of e' id) /\
    caus_of e' id = vv_join (caus_of e id) (caus_of e me) /\
    forall j, j <> id -> caus_of e' j = caus_of e j.
Proof. exact threads_unpark_transfers. Qed.
Print Assumptions C04_unpark_edge.
