(* C07 -- Mutex and RwLock: exclusion, blocking, hand-over ordering (local lemmas; the global invariant is checked per execution).
   Statements restated in full, closed with exact, assumptions printed. *)
Require Import LV.Base LV.VV LV.VVFacts LV.Path LV.PathSpec LV.Prog LV.Objects LV.Exec LV.Atomic LV.Ops LV.Check LV.Ref LV.Outcome LV.Witness LV.SyncFacts LV.CheckFacts LV.ExecFacts LV.SyncMono.

(* try_lock (and the post-action of lock) succeeds exactly when the mutex is free at that step *)
Theorem C07_try_lock_exact :
  forall (e : exec) (me m : nat) (s : mutex_state),
       get_mutex e m = Some s -> snd (post_acquire e me m) = false <-> mx_lock s <> None.
Proof. exact post_acquire_fails_iff. Qed.
Print Assumptions C07_try_lock_exact.

(* try_read fails exactly when the lock is write-held *)
Theorem C07_try_read_exact :
  forall (e : exec) (me r : nat) (s : rwlock_state),
       get_rw e r = Some s ->
       snd (post_acquire_read e me r) = false <-> (exists w : nat, rw_lock s = Some (RLWrite w)).
Proof. exact post_acquire_read_fails_iff. Qed.
Print Assumptions C07_try_read_exact.

(* try_write fails exactly when the lock is held in any mode *)
Theorem C07_try_write_exact :
  forall (e : exec) (me r : nat) (s : rwlock_state),
       get_rw e r = Some s -> snd (post_acquire_write e me r) = false <-> rw_lock s <> None.
Proof. exact post_acquire_write_fails_iff. Qed.
Print Assumptions C07_try_write_exact.

(* a failed acquisition leaves the whole state unchanged *)
Theorem C07_failed_try_changes_nothing :
  forall (e : exec) (me m : nat) (e' : exec), post_acquire e me m = (e', false) -> e' = e.
Proof. exact post_acquire_fail_id. Qed.
Print Assumptions C07_failed_try_changes_nothing.

(* release publishes the releaser's clock in the mutex and frees it *)
Theorem C07_release_publishes :
  forall (e : exec) (me m : nat) (s : mutex_state),
       get_mutex e m = Some s ->
       e_active e <> None ->
       exists s' : mutex_state,
         get_mutex (release_lock e me m) m = Some s' /\
         vle (caus_of e me) (mx_sync s') /\ vle (mx_sync s) (mx_sync s') /\ mx_lock s' = None.
Proof. exact release_lock_publishes. Qed.
Print Assumptions C07_release_publishes.

(* a successful acquisition joins the mutex's view into the acquirer's clock and records the owner *)
Theorem C07_acquire_acquires :
  forall (e : exec) (me m : nat) (s : mutex_state) (e' : exec),
       get_mutex e m = Some s ->
       post_acquire e me m = (e', true) ->
       me < length (e_threads e) ->
       vle (mx_sync s) (caus_of e' me) /\
       vle (caus_of e me) (caus_of e' me) /\
       (exists s' : mutex_state,
          get_mutex e' m = Some s' /\ mx_lock s' = Some me /\ mx_sync s' = mx_sync s).
Proof. exact post_acquire_acquires. Qed.
Print Assumptions C07_acquire_acquires.

(* everything before a release happens-before everything after the next acquisition *)
Theorem C07_mutex_handover :
  forall (e : exec) (a m : nat) (s s1 : mutex_state) (e2 : exec) (b : nat) (s2 : mutex_state),
       get_mutex e m = Some s ->
       e_active e <> None ->
       get_mutex (release_lock e a m) m = Some s1 ->
       get_mutex e2 m = Some s2 ->
       vle (mx_sync s1) (mx_sync s2) ->
       mx_lock s2 = None ->
       b < length (e_threads e2) ->
       snd (post_acquire e2 b m) = true /\
       vle (caus_of e a) (caus_of (fst (post_acquire e2 b m)) b).
Proof. exact mutex_handover. Qed.
Print Assumptions C07_mutex_handover.

(* the same for an RwLock write guard *)
Theorem C07_rw_write_handover :
  forall (e : exec) (a r : nat) (s : rwlock_state) (e1 : exec) (s1 : rwlock_state) 
         (e2 : exec) (b : nat) (s2 : rwlock_state),
       get_rw e r = Some s ->
       release_write e a r = MOk e1 ->
       get_rw e1 r = Some s1 ->
       get_rw e2 r = Some s2 ->
       vle (rw_sync s1) (rw_sync s2) ->
       b < length (e_threads e2) ->
       (forall e3 : exec,
        post_acquire_write e2 b r = (e3, true) -> vle (caus_of e a) (caus_of e3 b)) /\
       (forall e3 : exec, post_acquire_read e2 b r = (e3, true) -> vle (caus_of e a) (caus_of e3 b)).
Proof. exact rw_write_handover. Qed.
Print Assumptions C07_rw_write_handover.

(* and for a read guard *)
Theorem C07_rw_read_handover :
  forall (e : exec) (a r : nat) (s : rwlock_state) (e1 : exec) (s1 : rwlock_state) 
         (e2 : exec) (b : nat) (s2 : rwlock_state) (e3 : exec),
       get_rw e r = Some s ->
       release_read e a r = MOk e1 ->
       get_rw e1 r = Some s1 ->
       get_rw e2 r = Some s2 ->
       vle (rw_sync s1) (rw_sync s2) ->
       b < length (e_threads e2) ->
       post_acquire_write e2 b r = (e3, true) -> vle (caus_of e a) (caus_of e3 b).
Proof. exact rw_read_handover. Qed.
Print Assumptions C07_rw_read_handover.

(* GLOBAL: after a release, over ANY number of micro-steps of any threads (steps), the next acquisition of the free mutex succeeds and sees everything before the release *)
Theorem C07_mutex_handover_global :
  forall (e : exec) (a m : nat) (s : mutex_state) (e2 : exec) (b : nat) (s2 : mutex_state),
       get_mutex e m = Some s ->
       e_active e <> None ->
       steps (release_lock e a m) e2 ->
       get_mutex e2 m = Some s2 ->
       mx_lock s2 = None ->
       b < length (e_threads e2) ->
       snd (post_acquire e2 b m) = true /\
       vle (caus_of e a) (caus_of (fst (post_acquire e2 b m)) b).
Proof. exact mutex_handover_global_ok. Qed.
Print Assumptions C07_mutex_handover_global.

(* GLOBAL: the same for an RwLock write guard, towards any later read or write acquisition *)
Theorem C07_rw_write_handover_global :
  forall (e : exec) (a r : nat) (e1 e2 : exec) (b : nat),
       release_write e a r = MOk e1 ->
       steps e1 e2 ->
       b < length (e_threads e2) ->
       (forall e3 : exec,
        post_acquire_write e2 b r = (e3, true) -> vle (caus_of e a) (caus_of e3 b)) /\
       (forall e3 : exec, post_acquire_read e2 b r = (e3, true) -> vle (caus_of e a) (caus_of e3 b)).
Proof. exact rwlock_write_handover_global. Qed.
Print Assumptions C07_rw_write_handover_global.

(* GLOBAL: a read release happens-before any later write acquisition *)
Theorem C07_rw_read_handover_global :
  forall (e : exec) (a r : nat) (e1 e2 : exec) (b : nat) (e3 : exec),
       release_read e a r = MOk e1 ->
       steps e1 e2 ->
       b < length (e_threads e2) ->
       post_acquire_write e2 b r = (e3, true) -> vle (caus_of e a) (caus_of e3 b).
Proof. exact rwlock_read_handover_global. Qed.
Print Assumptions C07_rw_read_handover_global.

(* every run of the model is monotone: thread clocks and object views only grow, objects keep their kind *)
Theorem C07_run_monotone :
  forall (fuel : nat) (e : exec), mono e (fst (run fuel e)).
Proof. exact run_mono. Qed.
Print Assumptions C07_run_monotone.

(* ==== appended by tools/mkprops.py (APPEND table) ==== *)

Require Import LV.Base LV.VV LV.VVFacts LV.Path LV.PathSpec LV.PathTerm LV.PathDistinct LV.PathApi LV.Prog LV.Objects LV.Exec LV.Atomic LV.Ops LV.Check LV.ExecFacts LV.SyncMono LV.ExclFacts.

(* MUTUAL EXCLUSION AS A GLOBAL INVARIANT of every run of every program (ExclFacts.v) *)
(* the exclusion invariant (lock word = the one thread inside; a write guard excludes every other guard; registered readers own guards) holds in the final state of every non-panicking run; every intermediate state is such a final state for smaller fuel *)
Theorem C07_run_excl_inv :
  forall (fuel : nat) (p : prog) (pa : path),
       not_panic (snd (run fuel (init_exec p pa))) -> excl_inv (fst (run fuel (init_exec p pa))).
Proof. exact run_excl_inv. Qed.
Print Assumptions C07_run_excl_inv.

(* if two distinct threads own a guard of one mutex, one of them is inside Condvar::wait and has given the mutex up (its next step is the re-acquisition) *)
Theorem C07_mutex_exclusion :
  forall (fuel : nat) (p : prog) (pa : path) (e : exec) (r : iter_end) 
         (m : nat) (s : mutex_state) (a b : nat) (ta tb : thread),
       run fuel (init_exec p pa) = (e, r) ->
       not_panic r ->
       get_mutex e m = Some s ->
       a <> b ->
       get_thread e a = Some ta ->
       get_thread e b = Some tb ->
       In (GMutex, m) (t_guards ta) ->
       In (GMutex, m) (t_guards tb) -> released (t_cont ta) m \/ released (t_cont tb) m.
Proof. exact mutex_exclusion. Qed.
Print Assumptions C07_mutex_exclusion.

(* the lock word names exactly the thread that is inside the mutex *)
Theorem C07_mutex_lock_owner :
  forall (e : exec) (m : nat) (s : mutex_state) (t : nat),
       excl_inv e ->
       get_mutex e m = Some s ->
       mx_lock s = Some t -> exists th : thread, get_thread e t = Some th /\ inside th m.
Proof. exact mutex_lock_owner. Qed.
Print Assumptions C07_mutex_lock_owner.

(* an acquisition that hands out a guard ran on a free mutex *)
Theorem C07_lock_acquire_only_when_free :
  forall (e : exec) (me m : nat) (mode : lockmode) (e' : exec) (th th' : thread),
       exec_micro e me (MLockPost m mode) = MOk e' ->
       get_thread e me = Some th ->
       get_thread e' me = Some th' ->
       t_guards th' <> t_guards th ->
       exists s : mutex_state, get_mutex e m = Some s /\ mx_lock s = None.
Proof. exact lock_acquire_only_when_free. Qed.
Print Assumptions C07_lock_acquire_only_when_free.

(* while a thread is inside, another thread's acquisition step can only be a failing try_lock *)
Theorem C07_lock_no_second_owner :
  forall (e : exec) (me m : nat) (mode : lockmode) (e' : exec) (s : mutex_state) 
         (b : nat) (tb : thread),
       excl_inv e ->
       get_mutex e m = Some s ->
       get_thread e b = Some tb ->
       inside tb m ->
       b <> me ->
       exec_micro e me (MLockPost m mode) = MOk e' ->
       mode = LMTry /\ e' = log_op e me (RBool false).
Proof. exact lock_no_second_owner. Qed.
Print Assumptions C07_lock_no_second_owner.

(* a write guard never coexists with another thread's read or write guard on the same RwLock *)
Theorem C07_rwlock_writer_excludes :
  forall (fuel : nat) (p : prog) (pa : path) (e : exec) (res : iter_end) 
         (r a b : nat) (ta tb : thread),
       run fuel (init_exec p pa) = (e, res) ->
       not_panic res ->
       a <> b ->
       get_thread e a = Some ta ->
       get_thread e b = Some tb ->
       In (GWrite, r) (t_guards ta) ->
       ~ In (GRead, r) (t_guards tb) /\ ~ In (GWrite, r) (t_guards tb).
Proof. exact rwlock_writer_excludes. Qed.
Print Assumptions C07_rwlock_writer_excludes.

(* a thread never owns two guards of one mutex (recursive lock deadlocks, recursive try_lock fails) *)
Theorem C07_mutex_guard_once :
  forall (e : exec) (t : nat) (th : thread) (m : nat),
       excl_inv e -> get_thread e t = Some th -> gcount GMutex m (t_guards th) <= 1.
Proof. exact mutex_guard_once. Qed.
Print Assumptions C07_mutex_guard_once.

(* witness (computed): after a recursive read the runtime's reader SET and the std lock's guard COUNT disagree and the wrapper's `RwLock state corrupt` panic is what the run ends with *)
Theorem C07_recursive_read_corrupt :
  snd (xstate p_rr 17) = IterPanic PanicRwCorrupt /\
       snd (xstate p_rr 1000) = IterPanic PanicRwCorrupt.
Proof. exact recursive_read_corrupt. Qed.
Print Assumptions C07_recursive_read_corrupt.

