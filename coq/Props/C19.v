(* C19 -- Exploration controls and limits behave as documented (frozen non-exploring entries, flag logic, limit arithmetic).
   Statements restated in full, closed with exact, assumptions printed. *)
Require Import LV.Base LV.Path LV.PathSpec LV.PathApi LV.Prog LV.Objects LV.Exec LV.Check LV.CheckFacts LV.ExecFacts.

(* an entry created with exploration disabled that is still on the stack after step is unchanged: step never advances it *)
Theorem C19_step_never_advances_frozen_entry :
  forall (p p' : path) (i : nat) (e : entry),
       step p = Some p' ->
       nth_error (branches p') i = Some e ->
       entry_exploring e = false -> nth_error (branches p) i = Some e.
Proof. exact step_frozen. Qed.
Print Assumptions C19_step_never_advances_frozen_entry.

(* the entry that step advances is an exploring one *)
Theorem C19_step_advances_exploring_entry :
  forall p p' : path,
       step p = Some p' ->
       exists e : entry, last_error (branches p') = Some e /\ entry_exploring e = true.
Proof. exact step_last_exploring. Qed.
Print Assumptions C19_step_advances_exploring_entry.

(* whatever an iteration does to the stack (extends), a non-exploring entry stays identical: backtrack never marks it *)
Theorem C19_backtrack_never_marks_frozen_entry :
  forall e e' : entry, ext e e' -> entry_exploring e = false -> e' = e.
Proof. exact ext_nonexploring. Qed.
Print Assumptions C19_backtrack_never_marks_frozen_entry.

(* a new branch entry carries the exploring flag in force when it is created *)
Theorem C19_new_entries_inherit_flag :
  forall (p p' : path) (e : entry),
       (exists seed : list nat, push_load p seed = POk p') \/
       (exists b : bool, branch_spurious p = POk (p', b)) \/
       (exists (seed : list tstat) (t : option nat), branch_thread p seed = POk (p', t)) ->
       branches p' = branches p ++ [e] -> entry_exploring e = exploring p.
Proof. exact new_entries_inherit_exploring. Qed.
Print Assumptions C19_new_entries_inherit_flag.

(* stop_exploring turns exploration off (unless the branch is being skipped) *)
Theorem C19_stop_exploring_clears :
  forall p p' : path, critical p = POk p' -> skipping p = false -> exploring p' = false.
Proof. exact critical_sets. Qed.
Print Assumptions C19_stop_exploring_clears.

(* explore turns it on again *)
Theorem C19_explore_sets :
  forall p p' : path, explore_state p = POk p' -> skipping p = false -> exploring p' = true.
Proof. exact explore_sets. Qed.
Print Assumptions C19_explore_sets.

(* skip_branch turns exploration off for good *)
Theorem C19_skip_branch :
  forall p : path, exploring (skip_branch p) = false /\ skipping (skip_branch p) = true.
Proof. exact skip_sets. Qed.
Print Assumptions C19_skip_branch.

(* after skip_branch, explore and stop_exploring are no-ops *)
Theorem C19_skip_is_sticky :
  forall p : path, skipping p = true -> explore_state p = POk p /\ critical p = POk p.
Proof. exact skipping_sticky. Qed.
Print Assumptions C19_skip_is_sticky.

(* every iteration of the model only appends entries and adds backtrack marks: restricted runs execute a subset of the decisions *)
Theorem C19_every_iteration_only_extends :
  forall (fuel : nat) (p : prog) (pa : path), path_ok pa (e_path (fst (iteration fuel p pa))).
Proof. exact iteration_path_ok. Qed.
Print Assumptions C19_every_iteration_only_extends.

(* with max_permutations = mp no iteration starts beyond the first checkpoint boundary >= mp *)
Theorem C19_max_permutations_stops :
  forall (fuel : nat) (p : prog) (mp : nat),
       max_permutations (p_cfg p) = Some mp ->
       forall (ifuel i : nat) (pa : path) (ck : option path) (acc recs : list iter_record)
         (fin : run_end) (ck' : option path),
       check_loop ifuel fuel p i pa ck acc = (recs, fin, ck') ->
       forall b : nat,
       i <= b -> b mod ci_of (p_cfg p) = 0 -> mp <= b -> length recs <= length acc + (b - i).
Proof. exact max_permutations_stops. Qed.
Print Assumptions C19_max_permutations_stops.

(* stopping at the limit is a normal return (no failure) that has stored the current path *)
Theorem C19_limit_stop_is_normal_return :
  forall (n fuel : nat) (p : prog) (i : nat) (pa : path) (ck : option path)
         (acc : list iter_record) (mp : nat),
       max_permutations (p_cfg p) = Some mp ->
       i mod ci_of (p_cfg p) = 0 ->
       mp <= i -> check_loop (S n) fuel p i pa ck acc = (rev acc, RunOk, Some pa).
Proof. exact limit_stop_is_ok. Qed.
Print Assumptions C19_limit_stop_is_normal_return.

(* the documented panics of the control calls *)
Theorem C19_explore_while_exploring_panics :
  forall p, skipping p = false -> exploring p = true -> explore_state p = PErr PNotCritical.
Proof. intros p Hs He. unfold explore_state. rewrite Hs, He. reflexivity. Qed.
Print Assumptions C19_explore_while_exploring_panics.

Theorem C19_stop_while_stopped_panics :
  forall p, skipping p = false -> exploring p = false -> critical p = PErr PNotExploring.
Proof. intros p Hs He. unfold critical. rewrite Hs, He. reflexivity. Qed.
Print Assumptions C19_stop_while_stopped_panics.

(* exceeding max_branches is reported at the first branch beyond the limit *)
Theorem C19_branch_limit :
  forall p seed, is_traversed p = true -> cap p <= length (branches p) ->
    branch_thread p seed = PErr PBranchLimit.
Proof.
  intros p seed Ht Hc. unfold branch_thread. rewrite Ht.
  unfold path_len_ok. apply Nat.ltb_ge in Hc. rewrite Hc. reflexivity.
Qed.
Print Assumptions C19_branch_limit.
