(* C01 -- Every interleaving outcome of a concurrent program is explored.
   The full statement is a Definition (not asserted): it is FALSE of the
   faithful model on the current tree (refutation theorems below, each a
   listed known finding); DPOR completeness for the remaining programs is
   validated by the outcome oracle, not proved. What is proved: the
   refutations, and the depth-first exhaustion of registered alternatives. *)
Require Import LV.Base LV.Path LV.PathSpec LV.Prog LV.Objects LV.Exec LV.Check LV.Ref
               LV.Outcome LV.Witness LV.PathTerm LV.PathApi.

(* every finished outcome of the interleaving semantics is the outcome of some
   explored iteration, whenever the exploration runs to completion *)
Definition C01_statement : Prop :=
  forall (p : prog) (fuel : nat) (o : outcome),
    In o (ref_finished (ref_outcomes false fuel p)) ->
    forall recs ck, check fuel fuel p = (recs, RunOk, ck) ->
    mem_outcome o (explored p recs) = true.

Lemma missing_refutes (p : prog) (o : outcome) :
  Witness.missing p o = true -> ~ C01_statement.
Proof.
  unfold Witness.missing, C01_statement; intros Hm Hs.
  apply andb_prop in Hm; destruct Hm as [Hm Hno].
  apply andb_prop in Hm; destruct Hm as [Hin Hfin].
  unfold Witness.fin_of, Witness.recs_of, Witness.run_of in *.
  destruct (check FUEL FUEL p) as [[recs fin] ck] eqn:Hc; cbn [fst snd] in *.
  destruct fin; try discriminate.
  assert (Hin' : In o (ref_finished (ref_outcomes false FUEL p))).
  { unfold mem_outcome in Hin. apply existsb_exists in Hin. destruct Hin as [x [Hx Heq]].
    assert (x = o).
    { clear - Heq. revert x Heq. unfold outcome_eqb.
      induction o as [|a o IH]; destruct x as [|b x]; cbn; intros H; try discriminate; auto.
      apply andb_prop in H; destruct H as [H1 H2]. f_equal; [|apply IH; exact H2].
      clear - H1. revert b H1. induction a as [|[pc r] a IH]; destruct b as [|[pc' r'] b]; cbn; intros H; try discriminate; auto.
      apply andb_prop in H; destruct H as [H1 H2]. unfold pcres_eqb in H1; cbn in H1.
      apply andb_prop in H1; destruct H1 as [Hp Hr]. apply Nat.eqb_eq in Hp; subst pc'.
      assert (r' = r).
      { destruct r, r'; cbn in Hr; try discriminate; auto;
          try (apply N.eqb_eq in Hr; subst; reflexivity).
        apply Bool.eqb_prop in Hr; subst; reflexivity. }
      subst. f_equal. apply IH; exact H2. }
    subst; exact Hx. }
  specialize (Hs p FUEL o Hin' recs ck Hc).
  rewrite Hs in Hno. discriminate.
Qed.

(* D13: a guard drop is invisible to the scheduler *)
Theorem C01_refuted_D13 : ~ C01_statement.
Proof. exact (missing_refutes p_D13 o_D13 D13_missing). Qed.
Print Assumptions C01_refuted_D13.

(* D14: a deadlock that needs an early unpark is never reached *)
Theorem C01_refuted_D14_deadlock_missed :
  ref_can_deadlock (ref_outcomes false FUEL p_D14) = true /\
  run_reports_deadlock (fin_of p_D14) = false /\ fin_of p_D14 = RunOk.
Proof. exact D14_deadlock_missed. Qed.
Print Assumptions C01_refuted_D14_deadlock_missed.

(* partial, proved for every program: once an alternative is registered in the
   stack (a Pending thread, a further load candidate, the spurious branch),
   the depth-first loop reaches it: step advances exactly the deepest entry that
   still has one, and the loop cannot stop before the stack is exhausted *)
Theorem C01_partial_step_advances_deepest :
  forall p p', step p = Some p' ->
    exists k e', k < length (branches p) /\ branches p' = firstn k (branches p) ++ [e'] /\
                 exists e, nth_error (branches p) k = Some e /\ advance_entry e = Some e'.
Proof. exact step_prefix. Qed.
Print Assumptions C01_partial_step_advances_deepest.

Theorem C01_partial_exploration_terminates :
  forall it p, iter_ok it -> wf_path p -> finishes it (S (BASE ^ cap p)) p = true.
Proof. exact explore_terminates. Qed.
Print Assumptions C01_partial_exploration_terminates.

Require Import LV.PathExhaust.

(* partial, proved for every program: every registered alternative is explored *)
Theorem C01_partial_dfs_exhaustive :
  forall it n p, iter_ok it -> iter_ok2 it -> wf_path p -> wf2_path p -> fresh_path p ->
    finishes it n p = true ->
    forall k ek q c, nth_error (explore it n p) k = Some ek -> registered ek q c ->
    exists j ej, nth_error (explore it n p) j = Some ej /\
                 firstn q (choices ej) = firstn q (choices ek) /\
                 nth_error (choices ej) q = Some c.
Proof. exact dfs_exhaustive. Qed.
Print Assumptions C01_partial_dfs_exhaustive.

(* ==== appended by tools/mkprops.py (APPEND table) ==== *)

Require Import LV.Base LV.VV LV.VVFacts LV.Path LV.PathSpec LV.PathTerm LV.PathDistinct LV.PathApi LV.Prog LV.Objects LV.Exec LV.Atomic LV.Ops LV.Check LV.PathExhaust LV.ExecFacts LV.ExecFacts2.

(* the same on the concrete execution model *)
(* the concrete iteration of the model L satisfies the second contract of dfs_exhaustive (one Active thread per entry, appended entries are fresh) *)
Theorem C01_partial_L_iter_ok2 :
  forall (fuel : nat) (p : prog),
       iter_ok2 (fun pa : path => e_path (fst (iteration fuel p pa))).
Proof. exact L_iter_ok2. Qed.
Print Assumptions C01_partial_L_iter_ok2.

(* for every program: the exploration of L from the initial path stops by itself and every alternative registered by any of its iterations (Pending thread, further load candidate, spurious branch) is decided by some iteration with the same decisions before it *)
Theorem C01_partial_L_exhaustive_complete :
  forall (fuel : nat) (p : prog) (c : config) (k : nat) (ek : path) (q : nat) (ch : choice),
       let it := fun pa : path => e_path (fst (iteration fuel p pa)) in
       let n := S (BASE ^ cap (initial_path c)) in
       nth_error (explore it n (initial_path c)) k = Some ek ->
       registered ek q ch ->
       exists (j : nat) (ej : path),
         nth_error (explore it n (initial_path c)) j = Some ej /\
         firstn q (choices ej) = firstn q (choices ek) /\ nth_error (choices ej) q = Some ch.
Proof. exact L_exhaustive_complete. Qed.
Print Assumptions C01_partial_L_exhaustive_complete.

