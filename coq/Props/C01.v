(* C01 -- Every interleaving outcome of a concurrent program is explored.
   The full statement is a Definition (not asserted): it is FALSE of the
   faithful model on the current tree (refutation theorems below, each a
   listed known finding); DPOR completeness for the remaining programs is
   validated by the outcome oracle, not proved. What is proved: the
   refutations, and the depth-first exhaustion of registered alternatives. *)
Require Import LV.Base LV.Path LV.PathSpec LV.Prog LV.Objects LV.Exec LV.Check LV.Ref
               LV.Outcome LV.Witness LV.PathTerm LV.PathApi.

(* every finished outcome of the interleaving semantics is the outcome of some
   explored iteration, whenever the exploration runs to completion *)
Definition C01_statement : Prop :=
  forall (p : prog) (fuel : nat) (o : outcome),
    In o (ref_finished (ref_outcomes false fuel p)) ->
    forall recs ck, check fuel fuel p = (recs, RunOk, ck) ->
    mem_outcome o (explored p recs) = true.

Lemma missing_refutes (p : prog) (o : outcome) :
  Witness.missing p o = true -> ~ C01_statement.
Proof.
  unfold Witness.missing, C01_statement; intros Hm Hs.
  apply andb_prop in Hm; destruct Hm as [Hm Hno].
  apply andb_prop in Hm; destruct Hm as [Hin Hfin].
  unfold Witness.fin_of, Witness.recs_of, Witness.run_of in *.
  destruct (check FUEL FUEL p) as [[recs fin] ck] eqn:Hc; cbn [fst snd] in *.
  destruct fin; try discriminate.
  assert (Hin' : In o (ref_finished (ref_outcomes false FUEL p))).
  { unfold mem_outcome in Hin. apply existsb_exists in Hin. destruct Hin as [x [Hx Heq]].
    assert (x = o).
    { clear - Heq. revert x Heq. unfold outcome_eqb.
      induction o as [|a o IH]; destruct x as [|b x]; cbn; intros H; try discriminate; auto.
      apply andb_prop in H; destruct H as [H1 H2]. f_equal; [|apply IH; exact H2].
      clear - H1. revert b H1. induction a as [|[pc r] a IH]; destruct b as [|[pc' r'] b]; cbn; intros H; try discriminate; auto.
      apply andb_prop in H; destruct H as [H1 H2]. unfold pcres_eqb in H1; cbn in H1.
      apply andb_prop in H1; destruct H1 as [Hp Hr]. apply Nat.eqb_eq in Hp; subst pc'.
      assert (r' = r).
      { destruct r, r'; cbn in Hr; try discriminate; auto;
          try (apply N.eqb_eq in Hr; subst; reflexivity).
        apply Bool.eqb_prop in Hr; subst; reflexivity. }
      subst. f_equal. apply IH; exact H2. }
    subst; exact Hx. }
  specialize (Hs p FUEL o Hin' recs ck Hc).
  rewrite Hs in Hno. discriminate.
Qed.

(* D13: a guard drop is invisible to the scheduler *)
Theorem C01_refuted_D13 : ~ C01_statement.
Proof. exact (missing_refutes p_D13 o_D13 D13_missing). Qed.
Print Assumptions C01_refuted_D13.

(* D14: a deadlock that needs an early unpark is never reached *)
Theorem C01_refuted_D14_deadlock_missed :
  ref_can_deadlock (ref_outcomes false FUEL p_D14) = true /\
  run_reports_deadlock (fin_of p_D14) = false /\ fin_of p_D14 = RunOk.
Proof. exact D14_deadlock_missed. Qed.
Print Assumptions C01_refuted_D14_deadlock_missed.

(* partial, proved for every program: once an alternative is registered in the
   stack (a Pending thread, a further load candidate, the spurious branch),
   the depth-first loop reaches it: step advances exactly the deepest entry that
   still has one, and the loop cannot stop before the stack is exhausted *)
Theorem C01_partial_step_advances_deepest :
  forall p p', step p = Some p' ->
    exists k e', k < length (branches p) /\ branches p' = firstn k (branches p) ++ [e'] /\
                 exists e, nth_error (branches p) k = Some e /\ advance_entry e = Some e'.
Proof. exact step_prefix. Qed.
Print Assumptions C01_partial_step_advances_deepest.

Theorem C01_partial_exploration_terminates :
  forall it p, iter_ok it -> wf_path p -> finishes it (S (BASE ^ cap p)) p = true.
Proof. exact explore_terminates. Qed.
Print Assumptions C01_partial_exploration_terminates.

Require Import LV.PathExhaust.

(* partial, proved for every program: every registered alternative is explored *)
Theorem C01_partial_dfs_exhaustive :
  forall it n p, iter_ok it -> iter_ok2 it -> wf_path p -> wf2_path p -> fresh_path p ->
    finishes it n p = true ->
    forall k ek q c, nth_error (explore it n p) k = Some ek -> registered ek q c ->
    exists j ej, nth_error (explore it n p) j = Some ej /\
                 firstn q (choices ej) = firstn q (choices ek) /\
                 nth_error (choices ej) q = Some c.
Proof. exact dfs_exhaustive. Qed.
Print Assumptions C01_partial_dfs_exhaustive.

(* ==== appended by tools/mkprops.py (APPEND table) ==== *)

Require Import LV.Base LV.VV LV.VVFacts LV.Path LV.PathSpec LV.PathTerm LV.PathDistinct LV.PathApi LV.Prog LV.Objects LV.Exec LV.Atomic LV.Ops LV.Check LV.PathExhaust LV.ExecFacts LV.ExecFacts2.

(* the same on the concrete execution model *)
(* the concrete iteration of the model L satisfies the second contract of dfs_exhaustive (one Active thread per entry, appended entries are fresh) *)
Theorem C01_partial_L_iter_ok2 :
  forall (fuel : nat) (p : prog),
       iter_ok2 (fun pa : path => e_path (fst (iteration fuel p pa))).
Proof. exact L_iter_ok2. Qed.
Print Assumptions C01_partial_L_iter_ok2.

(* for every program: the exploration of L from the initial path stops by itself and every alternative registered by any of its iterations (Pending thread, further load candidate, spurious branch) is decided by some iteration with the same decisions before it *)
Theorem C01_partial_L_exhaustive_complete :
  forall (fuel : nat) (p : prog) (c : config) (k : nat) (ek : path) (q : nat) (ch : choice),
       let it := fun pa : path => e_path (fst (iteration fuel p pa)) in
       let n := S (BASE ^ cap (initial_path c)) in
       nth_error (explore it n (initial_path c)) k = Some ek ->
       registered ek q ch ->
       exists (j : nat) (ej : path),
         nth_error (explore it n (initial_path c)) j = Some ej /\
         firstn q (choices ej) = firstn q (choices ek) /\ nth_error (choices ej) q = Some ch.
Proof. exact L_exhaustive_complete. Qed.
Print Assumptions C01_partial_L_exhaustive_complete.


Require Import LV.Base LV.VV LV.VVFacts LV.Path LV.PathSpec LV.PathTerm LV.PathDistinct LV.PathApi LV.Prog LV.Objects LV.Exec LV.Atomic LV.Ops LV.Check LV.PathExhaust LV.ExecFacts LV.ExecFacts2 LV.Ref LV.Outcome LV.Witness LV.DporFacts.

(* The DPOR rule as a theorem (DporFacts.v): every race the dependence check detects is registered on the stack, hence its reversal is explored *)
(* EXACT: what Schedule::backtrack does to an entry *)
Theorem C01_partial_sched_backtrack_spec :
  forall (s : Path.schedule) (tid : nat) (bd : option nat) (s' : Path.schedule),
       sched_backtrack s tid bd = POk s' <->
       s_ex s = true /\ opt_le_bound (s_pre s) bd = true /\ s' = bt_sched s tid bd.
Proof. exact sched_backtrack_spec. Qed.
Print Assumptions C01_partial_sched_backtrack_spec.

(* EXACT: what Path::backtrack changes: only the nearest exploring Schedule entry at or below the point (and, with a bound, one conservative entry), only by Schedule::backtrack *)
Theorem C01_partial_backtrack_spec :
  forall (p : path) (point tid : nat) (p' : path),
       backtrack p point tid = POk p' ->
       exists r : option nat,
         find_backtrack_point (branches p) point (S point) = POk r /\
         match r with
         | Some i =>
             p' = set_branches p (branches p') /\
             length (branches p') = length (branches p) /\
             (exists s s' : Path.schedule,
                nth_error (branches p) i = Some (ESched s) /\
                sched_backtrack s tid (bound p) = POk s' /\
                nth_error (branches p') i = Some (ESched s')) /\
             (exists J : option nat,
                (bound p = None -> J = None) /\
                (forall k : nat,
                 k <> i -> J <> Some k -> nth_error (branches p') k = nth_error (branches p) k) /\
                (forall k : nat,
                 J = Some k ->
                 exists t t' : Path.schedule,
                   nth_error (branches p) k = Some (ESched t) /\
                   sched_backtrack t tid (bound p) = POk t' /\
                   nth_error (branches p') k = Some (ESched t')))
         | None => p' = p
         end.
Proof. exact backtrack_spec. Qed.
Print Assumptions C01_partial_backtrack_spec.

(* for every thread with a pending operation and every last dependent access that does not happen-before it: after the DPOR loop the thread is marked for exploration at the backtrack point (or, if it is disabled there, every thread is) *)
Theorem C01_partial_dpor_loop_registers :
  forall (objs : list object) (ths : list (nat * thread)) (p p' : path) 
         (id : nat) (th : thread) (op : operation) (o : object) (accs : list access) 
         (acc : access) (i : nat) (s : Path.schedule),
       dpor_loop objs ths p = POk p' ->
       In (id, th) ths ->
       t_op th = Some op ->
       nth_error objs (op_obj op) = Some o ->
       last_dependent_accesses o (op_act op) = Some accs ->
       In acc accs ->
       access_hb acc (t_dpor th) = false ->
       find_backtrack_point (branches p) (a_path_id acc) (S (a_path_id acc)) = POk (Some i) ->
       nth_error (branches p) i = Some (ESched s) ->
       at_bound s (bound p) = false ->
       exists s' : Path.schedule,
         nth_error (branches p') i = Some (ESched s') /\
         sched_le s s' /\
         match nth_error (s_threads s) id with
         | Some t =>
             if is_enabled t
             then nth_error (s_threads s') id = Some (explore_t t)
             else s_threads s' = map explore_t (s_threads s)
         | None => True
         end.
Proof. exact dpor_loop_registers. Qed.
Print Assumptions C01_partial_dpor_loop_registers.

(* marks are never taken back within the loop *)
Theorem C01_partial_dpor_loop_mono :
  forall (objs : list object) (ths : list (nat * thread)) (p p' : path),
       dpor_loop objs ths p = POk p' -> path_le p p'.
Proof. exact dpor_loop_mono. Qed.
Print Assumptions C01_partial_dpor_loop_mono.

(* for the exploration of the concrete model without a bound: a race detected at any scheduling point of any iteration, with the racing thread runnable at the backtrack point, is followed by an iteration with the same decisions up to that point that schedules the racing thread there *)
Theorem C01_partial_race_reversal_explored :
  forall (fuel : nat) (prog : prog) (c : config) (k : nat) (ek : path) 
         (objs : list object) (ths : list (nat * thread)) (p p' : path) 
         (id : nat) (th : thread) (op : operation) (o : object) (accs : list access) 
         (acc : access) (i : nat) (s : Path.schedule) (t : tstat),
       let it := fun pa : path => e_path (fst (iteration fuel prog pa)) in
       let n := S (BASE ^ cap (initial_path c)) in
       preemption_bound c = None ->
       nth_error (explore it n (initial_path c)) k = Some ek ->
       dpor_loop objs ths p = POk p' ->
       extends p' ek ->
       In (id, th) ths ->
       t_op th = Some op ->
       nth_error objs (op_obj op) = Some o ->
       last_dependent_accesses o (op_act op) = Some accs ->
       In acc accs ->
       access_hb acc (t_dpor th) = false ->
       find_backtrack_point (branches p) (a_path_id acc) (S (a_path_id acc)) = POk (Some i) ->
       nth_error (branches p) i = Some (ESched s) ->
       nth_error (s_threads s) id = Some t ->
       PathPreempt.runnable_status t = true ->
       exists (j : nat) (ej : path),
         nth_error (explore it n (initial_path c)) j = Some ej /\
         firstn i (choices ej) = firstn i (choices ek) /\
         nth_error (choices ej) i = Some (CThread (Some id)).
Proof. exact race_reversal_explored. Qed.
Print Assumptions C01_partial_race_reversal_explored.

(* the same phrased on a state reached inside iteration k *)
Theorem C01_partial_run_race_reversal_explored :
  forall (fuel : nat) (prog : prog) (c : config) (k : nat) (pk : path) 
         (f1 : nat) (e1 : exec) (me : nat) (tme : thread) (m : micro) (rest : list micro)
         (es : exec) (curr : nat) (cur_th : thread) (p1 : path) (id : nat) 
         (th : thread) (op : operation) (o : object) (accs : list access) 
         (acc : access) (i : nat) (s : Path.schedule) (t : tstat),
       let it := fun pa : path => e_path (fst (iteration fuel prog pa)) in
       let n := S (BASE ^ cap (initial_path c)) in
       preemption_bound c = None ->
       nth_error (starts it n (initial_path c)) k = Some pk ->
       run_reaches fuel (init_exec prog pk) (S f1) e1 ->
       e_active e1 = Some me ->
       nth_error (e_threads e1) me = Some tme ->
       t_cont tme = m :: rest ->
       exec_micro (upd_thread e1 me (fun t0 : thread => th_set_cont t0 rest)) me m =
       fst (schedule es) ->
       e_active es = Some curr ->
       nth_error (e_threads es) curr = Some cur_th ->
       dpor_loop (e_objects es) (index_list (e_threads es)) (e_path es) = POk p1 ->
       nth_error (e_threads es) id = Some th ->
       t_op th = Some op ->
       nth_error (e_objects es) (op_obj op) = Some o ->
       last_dependent_accesses o (op_act op) = Some accs ->
       In acc accs ->
       access_hb acc (t_dpor th) = false ->
       find_backtrack_point (branches (e_path es)) (a_path_id acc) (S (a_path_id acc)) =
       POk (Some i) ->
       nth_error (branches (e_path es)) i = Some (ESched s) ->
       nth_error (s_threads s) id = Some t ->
       PathPreempt.runnable_status t = true ->
       exists (j : nat) (ej : path),
         nth_error (explore it n (initial_path c)) j = Some ej /\
         firstn i (choices ej) = firstn i (choices (it pk)) /\
         nth_error (choices ej) i = Some (CThread (Some id)).
Proof. exact run_race_reversal_explored. Qed.
Print Assumptions C01_partial_run_race_reversal_explored.

(* D24 (listed finding, computed): yield_now is invisible to DPOR; main `fetch_add; store`, t1 `yield_now; load`: R lets t1 read the fetch_add's value, the unbounded exploration of L finishes without ever producing it *)
Theorem C01_refuted_D24_missing :
  missing p_D24 o_D24 = true.
Proof. exact D24_missing. Qed.
Print Assumptions C01_refuted_D24_missing.

(* observed (computed): when the racing thread is in state Yield at the backtrack point nothing is registered and the reversed order is never run: yield_now means `not before another thread has run` (loom's documented pruning; outside C01's primitives) *)
Theorem C01_observed_yield_race_reversal_missed :
  missing p_yield_rmw o_yield_rmw = true /\
       length (recs_of p_yield_rmw) = 2 /\
       option_map (fun r : iter_record => status_at (ir_end r) 1 1)
         (nth_error (recs_of p_yield_rmw) 1) = Some (Some TYield) /\
       option_map (fun r : iter_record => nth_error (choices (ir_end r)) 1)
         (nth_error (recs_of p_yield_rmw) 1) = Some (Some (CThread (Some 0))) /\
       forallb
         (fun r : iter_record =>
          forallb
            (fun e : entry =>
             match e with
             | ESched s => negb (existsb is_pending (s_threads s))
             | _ => true
             end) (branches (ir_end r))) (skipn 1 (recs_of p_yield_rmw)) = true.
Proof. exact yield_race_reversal_missed. Qed.
Print Assumptions C01_observed_yield_race_reversal_missed.

