(* C20 -- block_on and AtomicWaker never lose a wake-up (model = derived program over Notify, Arc, Mutex; lemmas on the Notify that block_on waits on).
   Statements restated in full, closed with exact, assumptions printed. *)
Require Import LV.Base LV.VV LV.VVFacts LV.Path LV.Prog LV.Objects LV.Exec LV.Atomic LV.Ops LV.Check LV.CheckFacts LV.SyncFacts LV.Witness.

(* block_on's wait completes only when the Notify flag is set (a wake-up arrived), consumes it and acquires the waker's clock *)
Theorem C20_wait_completes_only_with_flag :
  forall (e : exec) (me n : nat) (s : notify_state) (e' : exec),
       get_notify e n = Some s ->
       exec_micro e me (MNotifyWait2 n) = MOk e' ->
       me < length (e_threads e) ->
       nt_notified s = true /\
       vle (nt_sync s) (caus_of e' me) /\
       vle (caus_of e me) (caus_of e' me) /\
       (exists s' : notify_state,
          get_notify e' n = Some s' /\ nt_notified s' = false /\ nt_sync s' = nt_sync s).
Proof. exact notify_wait2_acquires. Qed.
Print Assumptions C20_wait_completes_only_with_flag.

(* completing the wait without the flag is impossible short of loom's internal assertion *)
Theorem C20_wait_without_flag_is_internal_failure :
  forall (e : exec) (me n : nat) (s : notify_state),
       get_notify e n = Some s ->
       (exists e' : exec, exec_micro e me (MNotifyWait2 n) = MFail e' PanicNotified) <->
       nt_notified s = false.
Proof. exact notify_wait2_fails_iff. Qed.
Print Assumptions C20_wait_without_flag_is_internal_failure.

(* a wake sets the flag: a wake-up issued after the last wait is not lost *)
Theorem C20_wake_sets_flag :
  forall (e : exec) (me n : nat) (s : notify_state) (e' : exec),
       get_notify e n = Some s ->
       exec_micro e me (MNotifyPost n) = MOk e' ->
       exists s' : notify_state,
         get_notify e' n = Some s' /\
         vle (caus_of e me) (nt_sync s') /\ vle (nt_sync s) (nt_sync s') /\ nt_notified s' = true.
Proof. exact notify_post_publishes. Qed.
Print Assumptions C20_wake_sets_flag.

(* everything before the wake happens-before the re-poll *)
Theorem C20_wake_happens_before_repoll :
  forall (e : exec) (a n : nat) (s : notify_state) (e1 : exec) (s1 : notify_state) 
         (e2 : exec) (b : nat) (s2 : notify_state) (e3 : exec),
       get_notify e n = Some s ->
       exec_micro e a (MNotifyPost n) = MOk e1 ->
       get_notify e1 n = Some s1 ->
       get_notify e2 n = Some s2 ->
       vle (nt_sync s1) (nt_sync s2) ->
       b < length (e_threads e2) ->
       exec_micro e2 b (MNotifyWait2 n) = MOk e3 -> vle (caus_of e a) (caus_of e3 b).
Proof. exact notify_handover. Qed.
Print Assumptions C20_wake_happens_before_repoll.

(* cloning the waker is a plain reference count increment *)
Theorem C20_waker_clone_is_refcount :
  forall (e : exec) (me k j0 : nat) (s : arc_state) (e' : exec),
       get_arc e k = Some s ->
       exec_micro e me (MArcIncPost k j0) = MOk e' ->
       (forall j : nat, caus_of e' j = caus_of e j) /\
       (exists s' : arc_state,
          get_arc e' k = Some s' /\ arc_sync s' = arc_sync s /\ arc_cnt s' = S (arc_cnt s)).
Proof. exact arc_inc_post_no_transfer. Qed.
Print Assumptions C20_waker_clone_is_refcount.

(* dropping a waker decrements and publishes; the last drop acquires *)
Theorem C20_waker_drop_publishes :
  forall (e : exec) (me k : nat) (u : bool) (s : arc_state) (e' : exec),
       get_arc e k = Some s ->
       exec_micro e me (MArcDecPost k u) = MOk e' ->
       exists (cnt : nat) (s' : arc_state),
         arc_cnt s = S cnt /\
         get_arc e' k = Some s' /\
         arc_cnt s' = cnt /\
         vle (caus_of e me) (arc_sync s') /\
         vle (arc_sync s) (arc_sync s') /\
         vle (caus_of e me) (caus_of e' me) /\
         (cnt = 0 -> me < length (e_threads e) -> vle (arc_sync s') (caus_of e' me)) /\
         (cnt <> 0 -> caus_of e' me = caus_of e me).
Proof. exact arc_dec_post_publishes. Qed.
Print Assumptions C20_waker_drop_publishes.

(* AtomicWaker::register observes contention exactly when the waker slot is locked (then it wakes itself) *)
Theorem C20_register_try_lock_exact :
  forall (e : exec) (me m : nat) (s : mutex_state),
       get_mutex e m = Some s -> snd (post_acquire e me m) = false <-> mx_lock s <> None.
Proof. exact post_acquire_fails_iff. Qed.
Print Assumptions C20_register_try_lock_exact.


(* computed instances on the model (not the general claim): a future that nobody wakes
   deadlocks; a future woken after its value was stored completes *)
Definition p_fut_dead : prog :=
  mkProg cfg0 [DAtomic 0; DWaker] [[IBlockOn 0 1 1]].
Example C20_no_wake_is_a_deadlock :
  match fin_of p_fut_dead with RunPanic (PanicDeadlock _) => true | _ => false end = true.
Proof. vm_compute. reflexivity. Qed.

Definition p_fut_ok : prog :=
  mkProg cfg0 [DAtomic 0; DWaker]
    [[ISpawn 1; IBlockOn 0 1 1; IJoin 1; ITakeWaker 1]; [IStore 0 1 Release; IWake 1]].
Example C20_woken_future_completes : fin_of p_fut_ok = RunOk.
Proof. vm_compute. reflexivity. Qed.

(* ==== appended by tools/mkprops.py (APPEND table) ==== *)

Require Import LV.Base LV.VV LV.VVFacts LV.Path LV.PathSpec LV.PathTerm LV.PathDistinct LV.PathApi LV.Prog LV.Objects LV.Exec LV.Atomic LV.Ops LV.Check LV.SyncFacts LV.ExecFacts LV.SyncMono LV.NotifyFacts.

(* No lost wake-up at the level of rt::Notify, which backs block_on's waker (NotifyFacts.v) *)
(* a pending notification survives every micro-step of every thread except the waiter's consuming step *)
Theorem C20_notified_persists :
  forall (e : exec) (me : nat) (m : micro) (e' : exec) (n : nat) (s : notify_state),
       track_ok e ->
       get_notify e n = Some s ->
       nt_notified s = true ->
       exec_micro e me m = MOk e' ->
       m <> MNotifyWait2 n ->
       exists s' : notify_state,
         get_notify e' n = Some s' /\ nt_notified s' = true /\ vle (nt_sync s) (nt_sync s').
Proof. exact notified_persists. Qed.
Print Assumptions C20_notified_persists.

(* GLOBAL: after a wake, whatever happens in between, the waiter's wait does not block, its consuming step succeeds, and its clock then dominates the waker's clock at the wake *)
Theorem C20_no_lost_wakeup :
  forall (e : exec) (a n : nat) (e1 e2 : exec) (b : nat) (e3 e4 : exec),
       track_ok e ->
       exec_micro e a (MNotifyPost n) = MOk e1 ->
       steps_without_wait2 n e1 e2 ->
       exec_micro e2 b (MNotifyWait1 n) = MOk e3 ->
       steps_without_wait2 n e3 e4 ->
       exists e5 : exec,
         exec_micro e4 b (MNotifyWait2 n) = MOk e5 /\
         (forall (e' : exec) (pn : panic), exec_micro e4 b (MNotifyWait2 n) <> MFail e' pn) /\
         (b < length (e_threads e4) -> vle (caus_of e a) (caus_of e5 b)).
Proof. exact no_lost_wakeup. Qed.
Print Assumptions C20_no_lost_wakeup.

(* all outcomes of entering the wait after a wake: proceed, or the one spurious return *)
Theorem C20_wake_wait1_not_blocking :
  forall (e : exec) (a n : nat) (e1 e2 : exec) (b : nat),
       track_ok e ->
       exec_micro e a (MNotifyPost n) = MOk e1 ->
       steps_without_wait2 n e1 e2 ->
       exists s2 : notify_state,
         get_notify e2 n = Some s2 /\
         nt_notified s2 = true /\
         (nt_spurious s2 && negb (nt_did_spur s2) = false /\
          exec_micro e2 b (MNotifyWait1 n) =
          MOk (push_cont e2 b [MBranch n AOpaque BNever; MNotifyWait2 n]) \/
          nt_spurious s2 && negb (nt_did_spur s2) = true /\
          ((exists p : path,
              branch_spurious (e_path e2) = POk (p, false) /\
              exec_micro e2 b (MNotifyWait1 n) =
              MOk (push_cont (ex_set_path e2 p) b [MBranch n AOpaque BNever; MNotifyWait2 n])) \/
           (exists p : path,
              branch_spurious (e_path e2) = POk (p, true) /\
              exec_micro e2 b (MNotifyWait1 n) =
              MOk
                (push_cont
                   (upd_object (ex_set_path e2 p) n
                      (fun _ : object => ONotify (nt_set s2 true true (nt_sync s2)))) b [MYield])) \/
           (exists x : ppanic,
              branch_spurious (e_path e2) = PErr x /\
              exec_micro e2 b (MNotifyWait1 n) = MFail e2 (PanicPath x)))).
Proof. exact wake_wait1_not_blocking. Qed.
Print Assumptions C20_wake_wait1_not_blocking.

(* without a notification the waiter blocks (or takes the single spurious return) *)
Theorem C20_wait1_unnotified_blocks :
  forall (e : exec) (b n : nat) (s : notify_state) (e3 : exec),
       get_notify e n = Some s ->
       nt_notified s = false ->
       exec_micro e b (MNotifyWait1 n) = MOk e3 ->
       (exists p : path,
          (p = e_path e \/ branch_spurious (e_path e) = POk (p, false)) /\
          e_path e3 = p /\
          e_objects e3 = e_objects e /\
          get_thread e3 b =
          option_map
            (fun t : thread =>
             th_set_cont t ([MBranch n AOpaque BAlways; MNotifyWait2 n] ++ t_cont t))
            (get_thread e b)) \/
       nt_spurious s = true /\
       nt_did_spur s = false /\
       (exists p : path,
          branch_spurious (e_path e) = POk (p, true) /\
          e3 =
          push_cont
            (upd_object (ex_set_path e p) n
               (fun _ : object => ONotify (nt_set s true false (nt_sync s)))) b [MYield]).
Proof. exact wait1_unnotified_blocks. Qed.
Print Assumptions C20_wait1_unnotified_blocks.

(* and stays blocked until a notify on that object: re-polls happen only after a wake *)
Theorem C20_unnotified_waiter_blocked_until_post :
  forall (b n : nat) (e e1 e2 : exec) (s : notify_state),
       track_ok e ->
       get_notify e n = Some s ->
       b < length (e_threads e) ->
       exec_micro e b (MBranch n AOpaque BAlways) = MOk e1 ->
       steps_without_post b n e1 e2 ->
       exists t2 : thread,
         get_thread e2 b = Some t2 /\ t_state t2 = Blocked /\ pending_on n t2 = true.
Proof. exact unnotified_waiter_blocked_until_post. Qed.
Print Assumptions C20_unnotified_waiter_blocked_until_post.

(* the modelled spurious return happens at most once per Notify *)
Theorem C20_spurious_at_most_once :
  forall (e : exec) (b n : nat) (s : notify_state) (p : path) (e3 e4 : exec) (b' : nat),
       track_ok e ->
       get_notify e n = Some s ->
       nt_spurious s && negb (nt_did_spur s) = true ->
       branch_spurious (e_path e) = POk (p, true) ->
       exec_micro e b (MNotifyWait1 n) = MOk e3 ->
       any_steps e3 e4 ->
       exists s4 : notify_state,
         get_notify e4 n = Some s4 /\
         nt_did_spur s4 = true /\
         exec_micro e4 b' (MNotifyWait1 n) = MOk (push_cont e4 b' (wait1_cont n s4)).
Proof. exact spurious_at_most_once. Qed.
Print Assumptions C20_spurious_at_most_once.


Require Import LV.Base LV.VV LV.VVFacts LV.Path LV.PathSpec LV.PathTerm LV.PathDistinct LV.PathApi LV.Prog LV.Objects LV.Exec LV.Atomic LV.Ops LV.Check LV.SyncFacts LV.ExecFacts LV.SyncMono LV.NotifyFacts LV.CountFacts LV.ExclFacts LV.WakerFacts.

(* The AtomicWaker protocol over all interleavings (WakerFacts.v) *)
(* EXACT, for every micro-operation: the waker slot changes only by a successful register (to the registering task's own waker) and by a take (to empty) *)
Theorem C20_slot_step :
  forall (e : exec) (me : nat) (m : micro) (w : nat),
       slot (res_exec (exec_micro e me m)) w = slot_after e me m w.
Proof. exact slot_step. Qed.
Print Assumptions C20_slot_step.

(* the slot always holds the waker of the most recent successful registration since the last take: wake() notifies that task or nobody *)
Theorem C20_wake_wakes_latest :
  forall (w : nat) (e : exec) (evs : list wev) (e' : exec),
       wsteps w e evs e' ->
       w < length (e_h e) -> slot e' w = replay evs (slot e w) /\ length (e_h e') = length (e_h e).
Proof. exact wake_wakes_latest. Qed.
Print Assumptions C20_wake_wakes_latest.

(* a successful register stores the task's waker under the lock and drops the one it replaces *)
Theorem C20_register_success_effect :
  forall (e : exec) (me a : nat) (v : N) (w n k : nat) (e1 : exec),
       post_acquire e me w = (e1, true) ->
       exists e2 : exec,
         exec_micro e me (MBoRegister a v w n k) = MOk e2 /\
         e2 =
         push_cont (upd_hobj e1 w (fun h : hobj => ho_set_waker h (Some (n, k)))) me
           (reg_cont (slot e w) a v w n k) /\
         (w < length (e_h e) -> slot e2 w = Some (n, k)) /\
         (forall w' : nat, w' <> w -> slot e2 w' = slot e w') /\
         (exists s s2 : mutex_state,
            get_mutex e w = Some s /\
            mx_lock s = None /\ get_mutex e2 w = Some s2 /\ mx_lock s2 = Some me) /\
         (me < length (e_threads e) ->
          cont_at e2 me = reg_cont (slot e w) a v w n k ++ cont_at e me) /\
         (forall b : nat, b <> me -> cont_at e2 b = cont_at e b).
Proof. exact register_success_effect. Qed.
Print Assumptions C20_register_success_effect.

(* a contended register makes the task notify ITSELF, so its next wait does not block *)
Theorem C20_register_contended_effect :
  forall (e : exec) (me a : nat) (v : N) (w n k : nat),
       snd (post_acquire e me w) = false ->
       exec_micro e me (MBoRegister a v w n k) = MOk (push_cont e me (contended_cont a v w n k)) /\
       e_h (push_cont e me (contended_cont a v w n k)) = e_h e /\
       e_objects (push_cont e me (contended_cont a v w n k)) = e_objects e /\
       (me < length (e_threads e) ->
        cont_at (push_cont e me (contended_cont a v w n k)) me =
        MBranch n AOpaque BNever
        :: MNotifyPost n :: drop_waker k ++ MYield :: again a v w n k ++ cont_at e me) /\
       (forall b : nat,
        b <> me -> cont_at (push_cont e me (contended_cont a v w n k)) b = cont_at e b).
Proof. exact register_contended_effect. Qed.
Print Assumptions C20_register_contended_effect.

(* wake(): take the stored waker, release the lock, then notify its task and drop it *)
Theorem C20_wake_take_effect :
  forall (e : exec) (me w : nat) (e' : exec),
       exec_micro e me (MWakeTake w true) = MOk e' ->
       (exists s s' : mutex_state,
          get_mutex e w = Some s /\
          mx_lock s = None /\ get_mutex e' w = Some s' /\ mx_lock s' = None) /\
       slot e' w = None /\
       (forall w' : nat, w' <> w -> slot e' w' = slot e w') /\
       (forall n : nat, get_notify e' n = get_notify e n) /\
       (forall b : nat, b <> me -> cont_at e' b = cont_at e b) /\
       match slot e w with
       | Some (n, k) =>
           me < length (e_threads e) ->
           cont_at e' me =
           MBranch n AOpaque BNever :: MNotifyPost n :: drop_waker k ++ MLog RUnit :: cont_at e me
       | None => cont_at e' me = cont_at e me
       end.
Proof. exact wake_take_effect. Qed.
Print Assumptions C20_wake_take_effect.

(* GLOBAL: a registered waker that is later taken by a wake() -- any steps of any threads in between -- is notified: the wake is in the waking thread's continuation or the task's flag is set, the task's wait then does not block and its consuming step succeeds *)
Theorem C20_registered_then_woken_not_lost :
  forall (w n k : nat) (e0 e : exec) (a : nat) (t : thread) (rest : list micro) (e1 e2 : exec),
       track_ok e0 ->
       w < length (e_h e0) ->
       slot e0 w = Some (n, k) ->
       rsteps (quiet w) e0 e ->
       e_active e = Some a ->
       nth_error (e_threads e) a = Some t ->
       t_cont t = MWakeTake w true :: rest ->
       exec_micro (popc e a rest) a (MWakeTake w true) = MOk e1 ->
       rsteps (no_wait2 n) e1 e2 ->
       slot e1 w = None /\
       cont_at e1 a =
       MBranch n AOpaque BNever :: MNotifyPost n :: drop_waker k ++ MLog RUnit :: rest /\
       (wake_pending e2 a n \/ delivered e2 n) /\
       (delivered e2 n ->
        (forall (b : nat) (e3 : exec),
         b < length (e_threads e2) ->
         exec_micro e2 b (MNotifyWait1 n) = MOk e3 ->
         cont_at e3 b = MBranch n AOpaque BNever :: MNotifyWait2 n :: cont_at e2 b \/
         cont_at e3 b = MYield :: cont_at e2 b) /\
        (forall (e4 : exec) (b : nat),
         steps_without_wait2 n e2 e4 -> exists e5 : exec, exec_micro e4 b (MNotifyWait2 n) = MOk e5)) /\
       (forall (ep e3 e4 : exec) (b : nat) (e5 e6 : exec),
        track_ok ep ->
        exec_micro ep a (MNotifyPost n) = MOk e3 ->
        steps_without_wait2 n e3 e4 ->
        exec_micro e4 b (MNotifyWait1 n) = MOk e5 ->
        steps_without_wait2 n e5 e6 ->
        exists e7 : exec,
          exec_micro e6 b (MNotifyWait2 n) = MOk e7 /\
          (forall (e' : exec) (pn : panic), exec_micro e6 b (MNotifyWait2 n) <> MFail e' pn) /\
          (b < length (e_threads e6) -> vle (caus_of ep a) (caus_of e7 b))).
Proof. exact registered_then_woken_not_lost. Qed.
Print Assumptions C20_registered_then_woken_not_lost.

(* a wake that arrives while a registration holds the lock is blocked until the release and then takes the freshly stored waker (exclusion from ExclFacts) *)
Theorem C20_wake_during_registration_b :
  forall (e : exec) (b : nat) (t : thread) (a0 : nat) (v : N) (w n k : nat)
         (rest : list micro) (e1 e2 : exec),
       excl_inv e ->
       w < length (e_h e) ->
       e_active e = Some b ->
       nth_error (e_threads e) b = Some t ->
       t_cont t = MBoRegister a0 v w n k :: rest ->
       snd (post_acquire (popc e b rest) b w) = true ->
       exec_micro (popc e b rest) b (MBoRegister a0 v w n k) = MOk e1 ->
       rsteps (not_release b w) e1 e2 ->
       slot e2 w = Some (n, k) /\
       in_cs e2 b w /\
       excl_inv e2 /\
       (forall (me : nat) (wake : bool),
        exec_micro e2 me (MWakeTake w wake) = MFail e2 PanicExpectLock) /\
       (forall (me a' : nat) (v' : N) (n' k' : nat),
        exec_micro e2 me (MBoRegister a' v' w n' k') =
        MOk (push_cont e2 me (contended_cont a' v' w n' k'))) /\
       (forall (s2 : mutex_state) (a : nat),
        get_mutex e2 w = Some s2 ->
        mx_lock s2 = Some b /\
        exec_micro e2 a (MBranch w AOpaque BMutexLocked) =
        fst
          (schedule
             (upd_thread e2 a
                (fun t0 : thread =>
                 set_blocked (th_set_op t0 (Some {| op_obj := w; op_act := AOpaque |})))))) /\
       (forall (t2 : thread) (rest2 : list micro) (e3 : exec),
        e_active e2 = Some b ->
        nth_error (e_threads e2) b = Some t2 ->
        t_cont t2 = MWakerRelease w :: rest2 ->
        exec_micro (popc e2 b rest2) b (MWakerRelease w) = MOk e3 ->
        slot e3 w = Some (n, k) /\
        (forall s2 : mutex_state,
         get_mutex e2 w = Some s2 ->
         exists s3 : mutex_state, get_mutex e3 w = Some s3 /\ mx_lock s3 = None) /\
        (forall (s2 : mutex_state) (a : nat) (ta : thread),
         get_mutex e2 w = Some s2 ->
         a <> b ->
         nth_error (e_threads e2) a = Some ta ->
         pending_on w ta = true -> nth_error (e_threads e3) a = Some (set_runnable ta))).
Proof. exact wake_during_registration_b. Qed.
Print Assumptions C20_wake_during_registration_b.

(* a registration that follows a take succeeds on the free lock and acquires the waking thread's clock through it: it observes the wake *)
Theorem C20_wake_during_registration_a :
  forall (e : exec) (a : nat) (ta : thread) (w : nat) (resta : list micro) 
         (e1 e2 : exec) (b : nat) (tb : thread) (a0 : nat) (v : N) (n k : nat) 
         (restb : list micro),
       track_ok e ->
       w < length (e_h e) ->
       e_active e = Some a ->
       nth_error (e_threads e) a = Some ta ->
       t_cont ta = MWakeTake w true :: resta ->
       exec_micro (popc e a resta) a (MWakeTake w true) = MOk e1 ->
       steps e1 e2 ->
       nth_error (e_threads e2) b = Some tb ->
       t_cont tb = MBoRegister a0 v w n k :: restb ->
       (forall s2 : mutex_state, get_mutex e2 w = Some s2 -> mx_lock s2 = None) ->
       slot e1 w = None /\
       (exists s1 : mutex_state, get_mutex e1 w = Some s1 /\ mx_lock s1 = None) /\
       (exists e3 : exec,
          exec_micro (popc e2 b restb) b (MBoRegister a0 v w n k) = MOk e3 /\
          slot e3 w = Some (n, k) /\
          cont_at e3 b = reg_cont (slot e2 w) a0 v w n k ++ restb /\
          vle (caus_of e a) (caus_of e3 b)).
Proof. exact wake_during_registration_a. Qed.
Print Assumptions C20_wake_during_registration_a.

(* after a Pending poll the task's continuation is exactly [Notify::wait; poll]: it re-polls only after a wake or the single spurious return *)
Theorem C20_repoll_only_after_wake :
  forall (e : exec) (b a : nat) (v : N) (w n k : nat) (e1 : exec) (x : N),
       load_post e b a Acquire = inl (e1, x) ->
       (x =? v)%N = false ->
       b < length (e_threads e) ->
       exec_micro e b (MBoLoad a v w n k false) =
       MOk (push_cont e1 b [MNotifyWait1 n; MBoPoll a v w n k]) /\
       cont_at (push_cont e1 b [MNotifyWait1 n; MBoPoll a v w n k]) b =
       MNotifyWait1 n :: MBoPoll a v w n k :: cont_at e b /\
       exec_micro e b (MBoLoad a v w n k true) = MOk (push_cont e1 b (register_seq a v w n k)) /\
       (forall (e2 : exec) (s : notify_state) (e3 : exec),
        get_notify e2 n = Some s ->
        b < length (e_threads e2) ->
        exec_micro e2 b (MNotifyWait1 n) = MOk e3 ->
        nt_notified s = true /\
        cont_at e3 b = MBranch n AOpaque BNever :: MNotifyWait2 n :: cont_at e2 b \/
        nt_spurious s = true /\
        nt_did_spur s = false /\
        cont_at e3 b = MYield :: cont_at e2 b /\
        (exists s3 : notify_state,
           get_notify e3 n = Some s3 /\ nt_did_spur s3 = true /\ nt_notified s3 = nt_notified s) \/
        nt_notified s = false /\
        cont_at e3 b = MBranch n AOpaque BAlways :: MNotifyWait2 n :: cont_at e2 b).
Proof. exact repoll_only_after_wake. Qed.
Print Assumptions C20_repoll_only_after_wake.

(* computed: all 205 schedules of the canonical one-task / one-waker program for three store orderings: never a deadlock *)
Theorem C20_wake_never_lost_exhaustive :
  kinds (p_wake SeqCst) = (205, [192; 13; 0; 0; 0]) /\
       kinds (p_wake Release) = (205, [192; 13; 0; 0; 0]) /\
       kinds (p_wake Relaxed) = (205, [192; 13; 0; 0; 0]).
Proof. exact wake_never_lost_exhaustive. Qed.
Print Assumptions C20_wake_never_lost_exhaustive.

