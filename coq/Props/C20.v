(* C20 -- block_on and AtomicWaker never lose a wake-up (model = derived program over Notify, Arc, Mutex; lemmas on the Notify that block_on waits on).
   Statements restated in full, closed with exact, assumptions printed. *)
Require Import LV.Base LV.VV LV.VVFacts LV.Path LV.Prog LV.Objects LV.Exec LV.Atomic LV.Ops LV.Check LV.CheckFacts LV.SyncFacts LV.Witness.

(* block_on's wait completes only when the Notify flag is set (a wake-up arrived), consumes it and acquires the waker's clock *)
Theorem C20_wait_completes_only_with_flag :
  forall (e : exec) (me n : nat) (s : notify_state) (e' : exec),
       get_notify e n = Some s ->
       exec_micro e me (MNotifyWait2 n) = MOk e' ->
       me < length (e_threads e) ->
       nt_notified s = true /\
       vle (nt_sync s) (caus_of e' me) /\
       vle (caus_of e me) (caus_of e' me) /\
       (exists s' : notify_state,
          get_notify e' n = Some s' /\ nt_notified s' = false /\ nt_sync s' = nt_sync s).
Proof. exact notify_wait2_acquires. Qed.
Print Assumptions C20_wait_completes_only_with_flag.

(* completing the wait without the flag is impossible short of loom's internal assertion *)
Theorem C20_wait_without_flag_is_internal_failure :
  forall (e : exec) (me n : nat) (s : notify_state),
       get_notify e n = Some s ->
       (exists e' : exec, exec_micro e me (MNotifyWait2 n) = MFail e' PanicNotified) <->
       nt_notified s = false.
Proof. exact notify_wait2_fails_iff. Qed.
Print Assumptions C20_wait_without_flag_is_internal_failure.

(* a wake sets the flag: a wake-up issued after the last wait is not lost *)
Theorem C20_wake_sets_flag :
  forall (e : exec) (me n : nat) (s : notify_state) (e' : exec),
       get_notify e n = Some s ->
       exec_micro e me (MNotifyPost n) = MOk e' ->
       exists s' : notify_state,
         get_notify e' n = Some s' /\
         vle (caus_of e me) (nt_sync s') /\ vle (nt_sync s) (nt_sync s') /\ nt_notified s' = true.
Proof. exact notify_post_publishes. Qed.
Print Assumptions C20_wake_sets_flag.

(* everything before the wake happens-before the re-poll *)
Theorem C20_wake_happens_before_repoll :
  forall (e : exec) (a n : nat) (s : notify_state) (e1 : exec) (s1 : notify_state) 
         (e2 : exec) (b : nat) (s2 : notify_state) (e3 : exec),
       get_notify e n = Some s ->
       exec_micro e a (MNotifyPost n) = MOk e1 ->
       get_notify e1 n = Some s1 ->
       get_notify e2 n = Some s2 ->
       vle (nt_sync s1) (nt_sync s2) ->
       b < length (e_threads e2) ->
       exec_micro e2 b (MNotifyWait2 n) = MOk e3 -> vle (caus_of e a) (caus_of e3 b).
Proof. exact notify_handover. Qed.
Print Assumptions C20_wake_happens_before_repoll.

(* cloning the waker is a plain reference count increment *)
Theorem C20_waker_clone_is_refcount :
  forall (e : exec) (me k j0 : nat) (s : arc_state) (e' : exec),
       get_arc e k = Some s ->
       exec_micro e me (MArcIncPost k j0) = MOk e' ->
       (forall j : nat, caus_of e' j = caus_of e j) /\
       (exists s' : arc_state,
          get_arc e' k = Some s' /\ arc_sync s' = arc_sync s /\ arc_cnt s' = S (arc_cnt s)).
Proof. exact arc_inc_post_no_transfer. Qed.
Print Assumptions C20_waker_clone_is_refcount.

(* dropping a waker decrements and publishes; the last drop acquires *)
Theorem C20_waker_drop_publishes :
  forall (e : exec) (me k : nat) (u : bool) (s : arc_state) (e' : exec),
       get_arc e k = Some s ->
       exec_micro e me (MArcDecPost k u) = MOk e' ->
       exists (cnt : nat) (s' : arc_state),
         arc_cnt s = S cnt /\
         get_arc e' k = Some s' /\
         arc_cnt s' = cnt /\
         vle (caus_of e me) (arc_sync s') /\
         vle (arc_sync s) (arc_sync s') /\
         vle (caus_of e me) (caus_of e' me) /\
         (cnt = 0 -> me < length (e_threads e) -> vle (arc_sync s') (caus_of e' me)) /\
         (cnt <> 0 -> caus_of e' me = caus_of e me).
Proof. exact arc_dec_post_publishes. Qed.
Print Assumptions C20_waker_drop_publishes.

(* AtomicWaker::register observes contention exactly when the waker slot is locked (then it wakes itself) *)
Theorem C20_register_try_lock_exact :
  forall (e : exec) (me m : nat) (s : mutex_state),
       get_mutex e m = Some s -> snd (post_acquire e me m) = false <-> mx_lock s <> None.
Proof. exact post_acquire_fails_iff. Qed.
Print Assumptions C20_register_try_lock_exact.


(* computed instances on the model (not the general claim): a future that nobody wakes
   deadlocks; a future woken after its value was stored completes *)
Definition p_fut_dead : prog :=
  mkProg cfg0 [DAtomic 0; DWaker] [[IBlockOn 0 1 1]].
Example C20_no_wake_is_a_deadlock :
  match fin_of p_fut_dead with RunPanic (PanicDeadlock _) => true | _ => false end = true.
Proof. vm_compute. reflexivity. Qed.

Definition p_fut_ok : prog :=
  mkProg cfg0 [DAtomic 0; DWaker]
    [[ISpawn 1; IBlockOn 0 1 1; IJoin 1; ITakeWaker 1]; [IStore 0 1 Release; IWake 1]].
Example C20_woken_future_completes : fin_of p_fut_ok = RunOk.
Proof. vm_compute. reflexivity. Qed.

(* ==== appended by tools/mkprops.py (APPEND table) ==== *)

Require Import LV.Base LV.VV LV.VVFacts LV.Path LV.PathSpec LV.PathTerm LV.PathDistinct LV.PathApi LV.Prog LV.Objects LV.Exec LV.Atomic LV.Ops LV.Check LV.SyncFacts LV.ExecFacts LV.SyncMono LV.NotifyFacts.

(* No lost wake-up at the level of rt::Notify, which backs block_on's waker (NotifyFacts.v) *)
(* a pending notification survives every micro-step of every thread except the waiter's consuming step *)
Theorem C20_notified_persists :
  forall (e : exec) (me : nat) (m : micro) (e' : exec) (n : nat) (s : notify_state),
       track_ok e ->
       get_notify e n = Some s ->
       nt_notified s = true ->
       exec_micro e me m = MOk e' ->
       m <> MNotifyWait2 n ->
       exists s' : notify_state,
         get_notify e' n = Some s' /\ nt_notified s' = true /\ vle (nt_sync s) (nt_sync s').
Proof. exact notified_persists. Qed.
Print Assumptions C20_notified_persists.

(* GLOBAL: after a wake, whatever happens in between, the waiter's wait does not block, its consuming step succeeds, and its clock then dominates the waker's clock at the wake *)
Theorem C20_no_lost_wakeup :
  forall (e : exec) (a n : nat) (e1 e2 : exec) (b : nat) (e3 e4 : exec),
       track_ok e ->
       exec_micro e a (MNotifyPost n) = MOk e1 ->
       steps_without_wait2 n e1 e2 ->
       exec_micro e2 b (MNotifyWait1 n) = MOk e3 ->
       steps_without_wait2 n e3 e4 ->
       exists e5 : exec,
         exec_micro e4 b (MNotifyWait2 n) = MOk e5 /\
         (forall (e' : exec) (pn : panic), exec_micro e4 b (MNotifyWait2 n) <> MFail e' pn) /\
         (b < length (e_threads e4) -> vle (caus_of e a) (caus_of e5 b)).
Proof. exact no_lost_wakeup. Qed.
Print Assumptions C20_no_lost_wakeup.

(* all outcomes of entering the wait after a wake: proceed, or the one spurious return *)
Theorem C20_wake_wait1_not_blocking :
  forall (e : exec) (a n : nat) (e1 e2 : exec) (b : nat),
       track_ok e ->
       exec_micro e a (MNotifyPost n) = MOk e1 ->
       steps_without_wait2 n e1 e2 ->
       exists s2 : notify_state,
         get_notify e2 n = Some s2 /\
         nt_notified s2 = true /\
         (nt_spurious s2 && negb (nt_did_spur s2) = false /\
          exec_micro e2 b (MNotifyWait1 n) =
          MOk (push_cont e2 b [MBranch n AOpaque BNever; MNotifyWait2 n]) \/
          nt_spurious s2 && negb (nt_did_spur s2) = true /\
          ((exists p : path,
              branch_spurious (e_path e2) = POk (p, false) /\
              exec_micro e2 b (MNotifyWait1 n) =
              MOk (push_cont (ex_set_path e2 p) b [MBranch n AOpaque BNever; MNotifyWait2 n])) \/
           (exists p : path,
              branch_spurious (e_path e2) = POk (p, true) /\
              exec_micro e2 b (MNotifyWait1 n) =
              MOk
                (push_cont
                   (upd_object (ex_set_path e2 p) n
                      (fun _ : object => ONotify (nt_set s2 true true (nt_sync s2)))) b [MYield])) \/
           (exists x : ppanic,
              branch_spurious (e_path e2) = PErr x /\
              exec_micro e2 b (MNotifyWait1 n) = MFail e2 (PanicPath x)))).
Proof. exact wake_wait1_not_blocking. Qed.
Print Assumptions C20_wake_wait1_not_blocking.

(* without a notification the waiter blocks (or takes the single spurious return) *)
Theorem C20_wait1_unnotified_blocks :
  forall (e : exec) (b n : nat) (s : notify_state) (e3 : exec),
       get_notify e n = Some s ->
       nt_notified s = false ->
       exec_micro e b (MNotifyWait1 n) = MOk e3 ->
       (exists p : path,
          (p = e_path e \/ branch_spurious (e_path e) = POk (p, false)) /\
          e_path e3 = p /\
          e_objects e3 = e_objects e /\
          get_thread e3 b =
          option_map
            (fun t : thread =>
             th_set_cont t ([MBranch n AOpaque BAlways; MNotifyWait2 n] ++ t_cont t))
            (get_thread e b)) \/
       nt_spurious s = true /\
       nt_did_spur s = false /\
       (exists p : path,
          branch_spurious (e_path e) = POk (p, true) /\
          e3 =
          push_cont
            (upd_object (ex_set_path e p) n
               (fun _ : object => ONotify (nt_set s true false (nt_sync s)))) b [MYield]).
Proof. exact wait1_unnotified_blocks. Qed.
Print Assumptions C20_wait1_unnotified_blocks.

(* and stays blocked until a notify on that object: re-polls happen only after a wake *)
Theorem C20_unnotified_waiter_blocked_until_post :
  forall (b n : nat) (e e1 e2 : exec) (s : notify_state),
       track_ok e ->
       get_notify e n = Some s ->
       b < length (e_threads e) ->
       exec_micro e b (MBranch n AOpaque BAlways) = MOk e1 ->
       steps_without_post b n e1 e2 ->
       exists t2 : thread,
         get_thread e2 b = Some t2 /\ t_state t2 = Blocked /\ pending_on n t2 = true.
Proof. exact unnotified_waiter_blocked_until_post. Qed.
Print Assumptions C20_unnotified_waiter_blocked_until_post.

(* the modelled spurious return happens at most once per Notify *)
Theorem C20_spurious_at_most_once :
  forall (e : exec) (b n : nat) (s : notify_state) (p : path) (e3 e4 : exec) (b' : nat),
       track_ok e ->
       get_notify e n = Some s ->
       nt_spurious s && negb (nt_did_spur s) = true ->
       branch_spurious (e_path e) = POk (p, true) ->
       exec_micro e b (MNotifyWait1 n) = MOk e3 ->
       any_steps e3 e4 ->
       exists s4 : notify_state,
         get_notify e4 n = Some s4 /\
         nt_did_spur s4 = true /\
         exec_micro e4 b' (MNotifyWait1 n) = MOk (push_cont e4 b' (wait1_cont n s4)).
Proof. exact spurious_at_most_once. Qed.
Print Assumptions C20_spurious_at_most_once.

