(* C13 -- Exploration is deterministic and resumable from a checkpoint.
   Statements restated in full, closed with exact, assumptions printed. *)
Require Import LV.Base LV.Path LV.PathSpec LV.Prog LV.Objects LV.Exec LV.Check LV.CheckFacts.

(* every iteration record of a run is a function of the path it starts from (and of the program): exploration is deterministic *)
Theorem C13_record_is_function_of_begin_path :
  forall (ifuel fuel : nat) (p : prog) (i : nat) (pa : path) (ck : option path)
         (acc rest : list iter_record) (fin : run_end) (ck' : option path) 
         (r : iter_record),
       check_loop ifuel fuel p i pa ck acc = (rev acc ++ rest, fin, ck') ->
       In r rest ->
       r =
       (let
        '(e, res) := iteration fuel p (ir_begin r) in
         {|
           ir_begin := ir_begin r; ir_end := e_path e; ir_log := rev (e_log e); ir_result := res
         |}).
Proof. exact record_determined. Qed.
Print Assumptions C13_record_is_function_of_begin_path.

(* two runs, whatever their counters, fuel and checkpoint contents, agree on every iteration that starts from the same path *)
Theorem C13_runs_agree :
  forall (fuel : nat) (p : prog) (ifuel1 i1 : nat) (pa1 : path) (ck1 : option path)
         (acc1 rest1 : list iter_record) (fin1 : run_end) (ck1' : option path) 
         (ifuel2 i2 : nat) (pa2 : path) (ck2 : option path) (acc2 rest2 : list iter_record)
         (fin2 : run_end) (ck2' : option path) (r1 r2 : iter_record),
       check_loop ifuel1 fuel p i1 pa1 ck1 acc1 = (rev acc1 ++ rest1, fin1, ck1') ->
       check_loop ifuel2 fuel p i2 pa2 ck2 acc2 = (rev acc2 ++ rest2, fin2, ck2') ->
       In r1 rest1 ->
       In r2 rest2 ->
       ir_begin r1 = ir_begin r2 ->
       ir_end r1 = ir_end r2 /\ ir_log r1 = ir_log r2 /\ ir_result r1 = ir_result r2.
Proof. exact records_agree. Qed.
Print Assumptions C13_runs_agree.

(* consecutive iterations are linked by Path::step: the order of visited executions is determined *)
Theorem C13_records_chain :
  forall (ifuel fuel : nat) (p : prog) (i : nat) (pa : path) (ck : option path)
         (acc rest : list iter_record) (fin : run_end) (ck' : option path),
       check_loop ifuel fuel p i pa ck acc = (rev acc ++ rest, fin, ck') ->
       (forall r : iter_record, nth_error rest 0 = Some r -> ir_begin r = pa) /\
       (forall (k : nat) (r1 r2 : iter_record),
        nth_error rest k = Some r1 ->
        nth_error rest (S k) = Some r2 ->
        ir_result r1 = IterDone /\ step (ir_end r1) = Some (ir_begin r2)).
Proof. exact records_chain. Qed.
Print Assumptions C13_records_chain.

(* resuming from the begin path of iteration k visits exactly the iterations k.. of the uninterrupted run, in the same order, with the same outcome *)
Theorem C13_resume_is_suffix :
  forall (fuel : nat) (p : prog),
       max_permutations (p_cfg p) = None ->
       forall (ifuel i : nat) (pa : path) (ck : option path) (recs : list iter_record)
         (fin : run_end) (ck' : option path) (k : nat) (r : iter_record),
       check_loop ifuel fuel p i pa ck [] = (recs, fin, ck') ->
       fin <> RunFuel ->
       nth_error recs k = Some r ->
       forall (i2 : nat) (ck2 : option path),
       exists ck3 : option path,
         check_loop (ifuel - k) fuel p i2 (ir_begin r) ck2 [] = (skipn k recs, fin, ck3).
Proof. exact resume_is_suffix. Qed.
Print Assumptions C13_resume_is_suffix.

(* the same through check_from (loading a stored checkpoint) *)
Theorem C13_resume_through_checkpoint :
  forall (fuel : nat) (p : prog),
       max_permutations (p_cfg p) = None ->
       forall (ifuel : nat) (recs : list iter_record) (fin : run_end) (ck' : option path) 
         (k : nat) (r : iter_record),
       check ifuel fuel p = (recs, fin, ck') ->
       nth_error recs k = Some r ->
       exists ck3 : option path,
         check_from (ifuel - k) fuel p (ir_begin r) = (skipn k recs, fin, ck3).
Proof. exact check_from_is_suffix. Qed.
Print Assumptions C13_resume_through_checkpoint.

(* with interval 1 the stored checkpoint is the begin path of the last iteration that started *)
Theorem C13_checkpoint_is_last_begin :
  forall (fuel : nat) (p : prog),
       checkpoint_interval (p_cfg p) = Some 1 ->
       forall (ifuel : nat) (recs : list iter_record) (fin : run_end) (c : path) (d : iter_record),
       check ifuel fuel p = (recs, fin, Some c) ->
       recs <> [] ->
       (fin = RunOk -> step (ir_end (last recs d)) = None) -> c = ir_begin (last recs d).
Proof. exact check_checkpoint_is_begin. Qed.
Print Assumptions C13_checkpoint_is_last_begin.

(* a stored checkpoint of a failing iteration reproduces that failure as the first iteration after loading *)
Theorem C13_failing_checkpoint_first :
  forall (fuel : nat) (p : prog),
       checkpoint_interval (p_cfg p) = Some 1 ->
       forall (ifuel : nat) (recs : list iter_record) (pn : panic) (c : path),
       check ifuel fuel p = (recs, RunPanic pn, Some c) ->
       forall n : nat,
       exists r : iter_record,
         check_from (S n) fuel p c = ([r], RunPanic pn, Some c) /\
         ir_result r = IterPanic pn /\ (forall d : iter_record, r = last recs d).
Proof. exact failing_checkpoint_first_check. Qed.
Print Assumptions C13_failing_checkpoint_first.
