(* C15 -- A preemption bound restricts exploration soundly and monotonically.
   Proved: the bound is an invariant of the stack under every Path API call,
   under step, and under every iteration of the model L. Monotonicity of the
   result sets in n is compared by the oracle (it needs DPOR completeness). *)
Require Import LV.Base LV.Path LV.PathSpec LV.PathApi LV.Prog LV.Exec LV.Check LV.ExecFacts.

Theorem C15_step_keeps_bound : forall p p', c15_inv p -> step p = Some p' -> c15_inv p'.
Proof. exact step_c15. Qed.
Print Assumptions C15_step_keeps_bound.

Theorem C15_backtrack_keeps_bound :
  forall p point tid p', backtrack p point tid = POk p' -> c15_inv p -> c15_inv p'.
Proof. intros p point tid p' H Hi. eapply backtrack_c15; eauto. Qed.
Print Assumptions C15_backtrack_keeps_bound.

Theorem C15_preemptions_le_bound :
  forall p bd, c15_inv p -> bound p = Some bd ->
    forall s, In (ESched s) (branches p) -> preemptions s <= bd.
Proof. exact preemptions_le_bound. Qed.
Print Assumptions C15_preemptions_le_bound.

(* every execution of the model, for every program and every starting stack *)
Theorem C15_every_iteration_respects_bound :
  forall fuel p pa bd, wf_path pa -> c15_inv pa -> bound pa = Some bd ->
    forall s, In (ESched s) (branches (e_path (fst (iteration fuel p pa)))) -> preemptions s <= bd.
Proof. exact L_preemptions_le_bound. Qed.
Print Assumptions C15_every_iteration_respects_bound.

Theorem C15_initial_path_ok : forall c, wf_path (initial_path c) /\ c15_inv (initial_path c).
Proof. exact initial_path_ok. Qed.
Print Assumptions C15_initial_path_ok.
