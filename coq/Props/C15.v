(* C15 -- A preemption bound restricts exploration soundly and monotonically.
   Proved: the bound is an invariant of the stack under every Path API call,
   under step, and under every iteration of the model L. Monotonicity of the
   result sets in n is compared by the oracle (it needs DPOR completeness). *)
Require Import LV.Base LV.Path LV.PathSpec LV.PathApi LV.Prog LV.Exec LV.Check LV.ExecFacts.

Theorem C15_step_keeps_bound : forall p p', c15_inv p -> step p = Some p' -> c15_inv p'.
Proof. exact step_c15. Qed.
Print Assumptions C15_step_keeps_bound.

Theorem C15_backtrack_keeps_bound :
  forall p point tid p', backtrack p point tid = POk p' -> c15_inv p -> c15_inv p'.
Proof. intros p point tid p' H Hi. eapply backtrack_c15; eauto. Qed.
Print Assumptions C15_backtrack_keeps_bound.

Theorem C15_preemptions_le_bound :
  forall p bd, c15_inv p -> bound p = Some bd ->
    forall s, In (ESched s) (branches p) -> preemptions s <= bd.
Proof. exact preemptions_le_bound. Qed.
Print Assumptions C15_preemptions_le_bound.

(* every execution of the model, for every program and every starting stack *)
Theorem C15_every_iteration_respects_bound :
  forall fuel p pa bd, wf_path pa -> c15_inv pa -> bound pa = Some bd ->
    forall s, In (ESched s) (branches (e_path (fst (iteration fuel p pa)))) -> preemptions s <= bd.
Proof. exact L_preemptions_le_bound. Qed.
Print Assumptions C15_every_iteration_respects_bound.

Theorem C15_initial_path_ok : forall c, wf_path (initial_path c) /\ c15_inv (initial_path c).
Proof. exact initial_path_ok. Qed.
Print Assumptions C15_initial_path_ok.

(* ==== appended by tools/mkprops.py (APPEND table) ==== *)

Require Import LV.Base LV.VV LV.VVFacts LV.Path LV.PathSpec LV.PathTerm LV.PathDistinct LV.PathApi LV.Prog LV.Objects LV.Exec LV.Atomic LV.Ops LV.Check LV.PathPreempt LV.Witness.

(* Preemptions counted independently of the stored counter (PathPreempt.v) *)
(* D24 (listed finding, computed): for that program the run with preemption_bound = 2 explores an outcome that the unbounded run does not: clause `every result found is also found by the unbounded run` fails (the bounded run is right: the outcome is legal; the unbounded run is incomplete) *)
Theorem C15_refuted_D24_bounded_not_subset :
  fin_of p_D24_b2 = RunOk /\
       fin_of p_D24 = RunOk /\
       Outcome.mem_outcome o_D24 (Outcome.explored p_D24_b2 (recs_of p_D24_b2)) = true /\
       Outcome.mem_outcome o_D24 (Outcome.explored p_D24 (recs_of p_D24)) = false.
Proof. exact D24_bounded_not_subset. Qed.
Print Assumptions C15_refuted_D24_bounded_not_subset.

(* INDEPENDENT READING: the number of context switches away from a still-runnable thread, counted from the recorded schedule entries alone, never exceeds the stored preemption counter *)
Theorem C15_switches_le_preemptions :
  forall b : list entry,
       pre_inv b -> forall s : Path.schedule, last_sched b = Some s -> switches b <= preemptions s.
Proof. exact switches_le_preemptions. Qed.
Print Assumptions C15_switches_le_preemptions.

(* hence never exceeds the bound *)
Theorem C15_switches_le_bound :
  forall (p : path) (bd : nat),
       pre_inv (branches p) -> c15_inv p -> bound p = Some bd -> switches (branches p) <= bd.
Proof. exact switches_le_bound. Qed.
Print Assumptions C15_switches_le_bound.

(* branch_thread keeps the linking invariant for every seed in which a switch away from the running thread happens only when that thread is Disabled or Yield *)
Theorem C15_branch_thread_keeps_link :
  forall (p : path) (seed : list tstat) (p' : path) (t : option nat),
       pre_inv (branches p) ->
       seed_ok (prev_active (branches p)) seed ->
       branch_thread p seed = POk (p', t) -> pre_inv (branches p').
Proof. exact branch_thread_pre_inv. Qed.
Print Assumptions C15_branch_thread_keeps_link.

(* step keeps it *)
Theorem C15_step_keeps_link :
  forall p p' : path, step p = Some p' -> pre_inv (branches p) -> pre_inv (branches p').
Proof. exact step_pre_inv. Qed.
Print Assumptions C15_step_keeps_link.

(* every stack reachable through the Path API with such seeds has at most n counted switches *)
Theorem C15_reachable_switches_le_bound :
  forall (mb n : nat) (ex : bool) (p : path),
       reach mb (Some n) ex p -> switches (branches p) <= n.
Proof. exact reach_switches_le_bound. Qed.
Print Assumptions C15_reachable_switches_le_bound.


Require Import LV.Base LV.VV LV.VVFacts LV.Path LV.PathSpec LV.PathTerm LV.PathDistinct LV.PathApi LV.Prog LV.Objects LV.Exec LV.Atomic LV.Ops LV.Check LV.PathPreempt LV.ExecFacts LV.ExecFacts2 LV.ExecPreempt.

(* The seeds that Execution::schedule really passes satisfy the hypothesis, so the bound holds for the whole model (ExecPreempt.v) *)
(* the seed built by schedule keeps the running thread Active unless it is blocked or yielded, and contains no Pending / Visited *)
Theorem C15_schedule_seed_ok :
  forall (l : list thread) (curr : nat) (cur_th : thread),
       nth_error l curr = Some cur_th -> seed_ok (Some curr) (sched_seed l curr cur_th).
Proof. exact sched_seed_ok. Qed.
Print Assumptions C15_schedule_seed_ok.

(* every iteration of the model L from a stack at position 0: independently counted switches <= bound *)
Theorem C15_L_iteration_switches_le_bound :
  forall (fuel : nat) (p : prog) (pa : path) (bd : nat),
       pos pa = 0 ->
       pre_inv (branches pa) ->
       c15_inv pa ->
       bound pa = Some bd -> switches (branches (e_path (fst (iteration fuel p pa)))) <= bd.
Proof. exact L_iteration_switches_le_bound. Qed.
Print Assumptions C15_L_iteration_switches_le_bound.

(* EVERY path of the exploration of EVERY program from the initial path has at most preemption_bound independently counted preemptions *)
Theorem C15_L_explore_switches_le_bound :
  forall (fuel : nat) (p : prog) (c : config) (n k : nat) (pk : path) (bd : nat),
       preemption_bound c = Some bd ->
       nth_error (explore (fun pa : path => e_path (fst (iteration fuel p pa))) n (initial_path c))
         k = Some pk -> switches (branches pk) <= bd.
Proof. exact L_explore_switches_le_bound. Qed.
Print Assumptions C15_L_explore_switches_le_bound.

(* non-vacuity: a two-thread program with bound 1 explores a path with exactly one counted switch *)
Theorem C15_L_switches_nonvacuous :
  finishes (fun pa : path => e_path (fst (iteration FUELP p_two_stores pa))) 100
         (initial_path cfg_b1) = true /\
       existsb (fun pk : path => switches (branches pk) =? 1) explored_two_stores = true /\
       forallb (fun pk : path => switches (branches pk) <=? 1) explored_two_stores = true /\
       1 < length explored_two_stores.
Proof. exact L_switches_nonvacuous. Qed.
Print Assumptions C15_L_switches_nonvacuous.

