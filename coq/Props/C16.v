(* C16 -- Iterations are isolated from one another (model level: an iteration is a function of the path only; everything else is rebuilt).
   Statements restated in full, closed with exact, assumptions printed. *)
Require Import LV.Base LV.Path LV.PathSpec LV.Prog LV.Objects LV.Exec LV.Check LV.CheckFacts.

(* the state an iteration starts from is a constant of the program except for the path: no thread, object, clock, channel content, TLS or lazy static survives *)
Theorem C16_fresh_state_depends_on_path_only :
  forall (p : prog) (pa pa' : path), ex_set_path (init_exec p pa) pa' = init_exec p pa'.
Proof. exact init_exec_depends_on_path_only. Qed.
Print Assumptions C16_fresh_state_depends_on_path_only.

(* an iteration is a function of (program, path) *)
Theorem C16_iteration_is_function_of_path :
  forall (fuel : nat) (p : prog) (pa1 pa2 : path),
       pa1 = pa2 -> iteration fuel p pa1 = iteration fuel p pa2.
Proof. exact iteration_is_function_of_path. Qed.
Print Assumptions C16_iteration_is_function_of_path.

(* hence each record of a run is determined by its begin path, whatever ran before *)
Theorem C16_record_determined :
  forall (ifuel fuel : nat) (p : prog) (i : nat) (pa : path) (ck : option path)
         (acc rest : list iter_record) (fin : run_end) (ck' : option path) 
         (r : iter_record),
       check_loop ifuel fuel p i pa ck acc = (rev acc ++ rest, fin, ck') ->
       In r rest ->
       r =
       (let
        '(e, res) := iteration fuel p (ir_begin r) in
         {|
           ir_begin := ir_begin r; ir_end := e_path e; ir_log := rev (e_log e); ir_result := res
         |}).
Proof. exact record_determined. Qed.
Print Assumptions C16_record_determined.

(* and two runs agree wherever they start an iteration from the same path *)
Theorem C16_runs_agree :
  forall (fuel : nat) (p : prog) (ifuel1 i1 : nat) (pa1 : path) (ck1 : option path)
         (acc1 rest1 : list iter_record) (fin1 : run_end) (ck1' : option path) 
         (ifuel2 i2 : nat) (pa2 : path) (ck2 : option path) (acc2 rest2 : list iter_record)
         (fin2 : run_end) (ck2' : option path) (r1 r2 : iter_record),
       check_loop ifuel1 fuel p i1 pa1 ck1 acc1 = (rev acc1 ++ rest1, fin1, ck1') ->
       check_loop ifuel2 fuel p i2 pa2 ck2 acc2 = (rev acc2 ++ rest2, fin2, ck2') ->
       In r1 rest1 ->
       In r2 rest2 ->
       ir_begin r1 = ir_begin r2 ->
       ir_end r1 = ir_end r2 /\ ir_log r1 = ir_log r2 /\ ir_result r1 = ir_result r2.
Proof. exact records_agree. Qed.
Print Assumptions C16_runs_agree.
