(* C17 -- thread_local! and lazy_static! keep per-thread / per-execution semantics.
   Model-level theorems: a thread-local is initialised at most once per thread (a
   second `with` changes nothing but the log); a lazy static that is already
   registered is not initialised again and is read through an acquire of its
   synchronisation point; after the main thread dropped the statics every access
   fails; an iteration starts with no thread-local and no lazy static. The rest
   (destruction at thread exit, instance sharing, re-initialisation) is compared
   with the implementation line by line. *)
Require Import LV.Base LV.VV LV.Path LV.Prog LV.Objects LV.Exec LV.Atomic LV.Ops LV.Check LV.CheckFacts.

Theorem C17_tls_initialised_once :
  forall e me t k, get_thread e me = Some t -> existsb (Nat.eqb k) (t_tls t) = true ->
    exec_micro e me (MTlsWith k) = MOk (log_op e me RUnit).
Proof. intros e me t k Ht Hin. cbn [exec_micro]. rewrite Ht, Hin. reflexivity. Qed.
Print Assumptions C17_tls_initialised_once.

Theorem C17_tls_first_use_initialises :
  forall e me t k, get_thread e me = Some t -> existsb (Nat.eqb k) (t_tls t) = false ->
    exists e', exec_micro e me (MTlsWith k) = MOk e' /\
               e_log e' = LOp (t_body t) (t_pc t) RUnit :: LInitTls k (t_body t) :: e_log e.
Proof.
  intros e me t k Ht Hin. cbn [exec_micro]. rewrite Ht, Hin. eexists; split; [reflexivity|].
  unfold log_op, get_thread, upd_thread, ex_set_threads, ex_set_log, list_upd in *; cbn.
  rewrite Ht. cbn.
  assert (Hn : nth_error (list_set (e_threads e) me (th_set_tls t (t_tls t ++ [k]))) me
               = Some (th_set_tls t (t_tls t ++ [k]))).
  { clear - Ht. revert me Ht. induction (e_threads e) as [|x l IH]; intros [|me] H; cbn in *; try discriminate; auto. }
  rewrite Hn. reflexivity.
Qed.
Print Assumptions C17_tls_first_use_initialises.

Theorem C17_lazy_after_shutdown_fails :
  forall e me k, e_lazy e = None -> exec_micro e me (MLazyGet k) = MFail e PanicLazyShutdown.
Proof. intros e me k H. cbn [exec_micro]. rewrite H. reflexivity. Qed.
Print Assumptions C17_lazy_after_shutdown_fails.

(* main's exit destroys the registry: it is gone for the rest of the iteration *)
Theorem C17_lazy_dropped_at_main_exit :
  forall e me, exists e', exec_micro e me MLazyDrop = MOk e' /\ e_lazy e' = None.
Proof.
  intros e me. cbn [exec_micro]. destruct (e_lazy e) as [lz|] eqn:H.
  - eexists; split; [reflexivity|reflexivity].
  - exists e; split; [reflexivity|exact H].
Qed.
Print Assumptions C17_lazy_dropped_at_main_exit.

(* every iteration starts with an empty registry and a main thread without locals *)
Theorem C17_fresh_every_iteration :
  forall p pa, e_lazy (init_exec p pa) = Some [] /\
               forall t, In t (e_threads (init_exec p pa)) -> t_tls t = [].
Proof.
  intros p pa. split; [reflexivity|].
  intros t [Ht|[]]. subst t. reflexivity.
Qed.
Print Assumptions C17_fresh_every_iteration.

Theorem C17_iteration_state_depends_on_path_only :
  forall p pa pa', ex_set_path (init_exec p pa) pa' = init_exec p pa'.
Proof. exact init_exec_depends_on_path_only. Qed.
Print Assumptions C17_iteration_state_depends_on_path_only.

(* ==== appended by tools/mkprops.py (APPEND table) ==== *)

Require Import LV.Base LV.VV LV.VVFacts LV.Path LV.PathSpec LV.PathTerm LV.PathDistinct LV.PathApi LV.Prog LV.Objects LV.Exec LV.Atomic LV.Ops LV.Check LV.SyncFacts LV.ExecFacts LV.SyncMono LV.TlsFacts.

(* Global bookkeeping invariants over whole runs of the model (TlsFacts.v) *)
(* EXACT: in every run, the number of initialisations of key k logged for body b equals the number of threads of body b that have k initialised *)
Theorem C17_run_tls_count :
  forall (fuel : nat) (p : prog) (pa : path) (k b : nat),
       cnt_tls k b (e_log (fst (run fuel (init_exec p pa)))) =
       length
         (filter (fun t : thread => (t_body t =? b) && existsb (Nat.eqb k) (t_tls t))
            (e_threads (fst (run fuel (init_exec p pa))))).
Proof. exact run_tls_count. Qed.
Print Assumptions C17_run_tls_count.

(* hence at most one initialisation per thread and key (threads identified by body: the side condition says no body is spawned twice) *)
Theorem C17_tls_init_once :
  forall (fuel : nat) (p : prog) (pa : path) (k b : nat),
       let e := fst (run fuel (init_exec p pa)) in
       NoDup (map t_body (e_threads e)) -> cnt_tls k b (e_log e) <= 1.
Proof. exact tls_init_once. Qed.
Print Assumptions C17_tls_init_once.

(* a thread's set of initialised keys has no duplicates *)
Theorem C17_run_tls_nodup :
  forall (fuel : nat) (p : prog) (pa : path) (t : thread),
       In t (e_threads (fst (run fuel (init_exec p pa)))) -> NoDup (t_tls t).
Proof. exact run_tls_nodup. Qed.
Print Assumptions C17_run_tls_nodup.

(* a lazy static is REGISTERED at most once per execution, in every run of every program: all threads get the same instance *)
Theorem C17_lazy_registered_once :
  forall (fuel : nat) (p : prog) (pa : path) (lz : list (nat * (nat * vv))),
       e_lazy (fst (run fuel (init_exec p pa))) = Some lz -> NoDup (map fst lz).
Proof. exact lazy_registered_once. Qed.
Print Assumptions C17_lazy_registered_once.

(* its initialiser runs at most once per execution -- for the statics whose initialiser has no scheduling point (every key but 2) *)
Theorem C17_lazy_init_once :
  forall (fuel : nat) (p : prog) (pa : path) (k : nat),
       k <> 2 -> cnt_lazy k (e_log (fst (run fuel (init_exec p pa)))) <= 1.
Proof. exact lazy_init_once. Qed.
Print Assumptions C17_lazy_init_once.

(* for every key: initialiser runs = [registered] + values dropped at once + initialisations in flight *)
Theorem C17_run_lazy_balance :
  forall (fuel : nat) (p : prog) (pa : path) (lz : list (nat * (nat * vv))) (k : nat),
       let e := fst (run fuel (init_exec p pa)) in
       e_lazy e = Some lz ->
       cnt_lazy k (e_log e) = reg k lz + cnt_ldrop k (e_log e) + pendf k (tsig e).
Proof. exact run_lazy_balance. Qed.
Print Assumptions C17_run_lazy_balance.

(* at the end of a finished iteration every value an initialiser built has been dropped *)
Theorem C17_run_lazy_all_dropped :
  forall (fuel : nat) (p : prog) (pa : path) (k : nat),
       let e := fst (run fuel (init_exec p pa)) in
       e_lazy e = None ->
       k < 8 ->
       Forall (fun t : thread => t_cont t = []) (e_threads e) ->
       cnt_lazy k (e_log e) = cnt_ldrop k (e_log e).
Proof. exact run_lazy_all_dropped. Qed.
Print Assumptions C17_run_lazy_all_dropped.

(* the winner's registration happens-before every later read, also the loser's *)
Theorem C17_lazyY_handover_global :
  forall (e : exec) (a k ci : nat) (lz : list (nat * (nat * vv))) 
         (e1 e2 e2' : exec) (b : nat) (e3 : exec),
       e_lazy e = Some lz ->
       ~ In k (map fst lz) ->
       exec_micro e a (MLazyFinishY k ci) = MOk e1 ->
       tl_inv e1 ->
       steps e1 e2 ->
       e_lazy e2' = e_lazy e2 ->
       b < length (e_threads e2') ->
       exec_micro e2' b (MLazyGet k) = MOk e3 -> vle (caus_of e a) (caus_of e3 b).
Proof. exact lazyY_handover_global. Qed.
Print Assumptions C17_lazyY_handover_global.

(* computed (listed finding D22): with a yielding initialiser both racing threads run it; one value is registered, the other dropped at once, both threads read the same value *)
Theorem C17_lazy_yielding_init_runs_twice :
  map (fun it : iter_record => (lazy_lines (ir_log it), ir_result it))
         (fst (fst (check 100 1000 p_lazy_y))) =
       [([LInitLazy 2; LInitLazy 2; LOp 0 1 (RVal 43); LDropLazy 2; LOp 1 0 (RVal 43); LDropLazy 2],
         IterDone)] /\
       snd (fst (check 100 1000 p_lazy_y)) = RunOk /\
       (let r := run 1000 (init_exec p_lazy_y (initial_path (p_cfg p_lazy_y))) in
        cnt_lazy 2 (e_log (fst r)) = 2 /\
        cnt_ldrop 2 (e_log (fst r)) = 2 /\
        snd r = IterDone /\
        e_lazy (fst r) = None /\
        forallb (fun t : thread => match t_cont t with
                                   | [] => true
                                   | _ :: _ => false
                                   end) (e_threads (fst r)) = true).
Proof. exact lazy_yielding_init_runs_twice. Qed.
Print Assumptions C17_lazy_yielding_init_runs_twice.

(* after the shutdown at main's exit the registry stays shut under every micro-step *)
Theorem C17_lazy_none_stays :
  forall (e : exec) (me : nat) (m : micro),
       e_lazy e = None -> e_lazy (res_exec (exec_micro e me m)) = None.
Proof. exact lazy_none_stays. Qed.
Print Assumptions C17_lazy_none_stays.

(* and every later access fails with loom's shutdown panic *)
Theorem C17_lazy_get_after_shutdown :
  forall (e e' : exec) (b k : nat),
       steps e e' ->
       e_lazy e = None ->
       (forall m : micro,
        m = MLazyGet k \/ m = MLazyGetY k ->
        exec_micro e' b m = MFail e' PanicLazyShutdown /\
        (forall rest : list micro,
         exec_micro (upd_thread e' b (fun t : thread => th_set_cont t rest)) b m =
         MFail (upd_thread e' b (fun t : thread => th_set_cont t rest)) PanicLazyShutdown)) /\
       (forall ci : nat,
        exec_micro e' b (MLazyFinishY k ci) =
        MFail (ex_set_log e' (LDropLazy k :: e_log e')) PanicLazyShutdown /\
        (forall rest : list micro,
         let e1 := upd_thread e' b (fun t : thread => th_set_cont t rest) in
         exec_micro e1 b (MLazyFinishY k ci) =
         MFail (ex_set_log e1 (LDropLazy k :: e_log e1)) PanicLazyShutdown)).
Proof. exact lazy_get_after_shutdown. Qed.
Print Assumptions C17_lazy_get_after_shutdown.

(* an access to a registered lazy static acquires the view registered by its initialiser *)
Theorem C17_lazy_get_acquires :
  forall (e : exec) (me k : nat) (lz : list (nat * (nat * vv))) (ci : nat) 
         (sy : vv) (e' : exec),
       e_lazy e = Some lz ->
       NoDup (map fst lz) ->
       In (k, (ci, sy)) lz ->
       me < length (e_threads e) -> exec_micro e me (MLazyGet k) = MOk e' -> vle sy (caus_of e' me).
Proof. exact lazy_get_acquires. Qed.
Print Assumptions C17_lazy_get_acquires.

(* GLOBAL: initialisation happens-before every later successful access, whatever happens in between *)
Theorem C17_lazy_handover_global :
  forall (e : exec) (a k : nat) (lz : list (nat * (nat * vv))) (e1 e2 e2' : exec) 
         (b : nat) (e3 : exec),
       tl_inv e ->
       e_lazy e = Some lz ->
       ~ In k (map fst lz) ->
       exec_micro e a (MLazyGet k) = MOk e1 ->
       steps e1 e2 ->
       e_lazy e2' = e_lazy e2 ->
       b < length (e_threads e2') ->
       exec_micro e2' b (MLazyGet k) = MOk e3 -> vle (caus_of e a) (caus_of e3 b).
Proof. exact lazy_handover_global. Qed.
Print Assumptions C17_lazy_handover_global.

