(* C17 -- thread_local! and lazy_static! keep per-thread / per-execution semantics.
   Model-level theorems: a thread-local is initialised at most once per thread (a
   second `with` changes nothing but the log); a lazy static that is already
   registered is not initialised again and is read through an acquire of its
   synchronisation point; after the main thread dropped the statics every access
   fails; an iteration starts with no thread-local and no lazy static. The rest
   (destruction at thread exit, instance sharing, re-initialisation) is compared
   with the implementation line by line. *)
Require Import LV.Base LV.VV LV.Path LV.Prog LV.Objects LV.Exec LV.Atomic LV.Ops LV.Check LV.CheckFacts.

Theorem C17_tls_initialised_once :
  forall e me t k, get_thread e me = Some t -> existsb (Nat.eqb k) (t_tls t) = true ->
    exec_micro e me (MTlsWith k) = MOk (log_op e me RUnit).
Proof. intros e me t k Ht Hin. cbn [exec_micro]. rewrite Ht, Hin. reflexivity. Qed.
Print Assumptions C17_tls_initialised_once.

Theorem C17_tls_first_use_initialises :
  forall e me t k, get_thread e me = Some t -> existsb (Nat.eqb k) (t_tls t) = false ->
    exists e', exec_micro e me (MTlsWith k) = MOk e' /\
               e_log e' = LOp (t_body t) (t_pc t) RUnit :: LInitTls k (t_body t) :: e_log e.
Proof.
  intros e me t k Ht Hin. cbn [exec_micro]. rewrite Ht, Hin. eexists; split; [reflexivity|].
  unfold log_op, get_thread, upd_thread, ex_set_threads, ex_set_log, list_upd in *; cbn.
  rewrite Ht. cbn.
  assert (Hn : nth_error (list_set (e_threads e) me (th_set_tls t (t_tls t ++ [k]))) me
               = Some (th_set_tls t (t_tls t ++ [k]))).
  { clear - Ht. revert me Ht. induction (e_threads e) as [|x l IH]; intros [|me] H; cbn in *; try discriminate; auto. }
  rewrite Hn. reflexivity.
Qed.
Print Assumptions C17_tls_first_use_initialises.

Theorem C17_lazy_after_shutdown_fails :
  forall e me k, e_lazy e = None -> exec_micro e me (MLazyGet k) = MFail e PanicLazyShutdown.
Proof. intros e me k H. cbn [exec_micro]. rewrite H. reflexivity. Qed.
Print Assumptions C17_lazy_after_shutdown_fails.

(* main's exit destroys the registry: it is gone for the rest of the iteration *)
Theorem C17_lazy_dropped_at_main_exit :
  forall e me, exists e', exec_micro e me MLazyDrop = MOk e' /\ e_lazy e' = None.
Proof.
  intros e me. cbn [exec_micro]. destruct (e_lazy e) as [lz|] eqn:H.
  - eexists; split; [reflexivity|reflexivity].
  - exists e; split; [reflexivity|exact H].
Qed.
Print Assumptions C17_lazy_dropped_at_main_exit.

(* every iteration starts with an empty registry and a main thread without locals *)
Theorem C17_fresh_every_iteration :
  forall p pa, e_lazy (init_exec p pa) = Some [] /\
               forall t, In t (e_threads (init_exec p pa)) -> t_tls t = [].
Proof.
  intros p pa. split; [reflexivity|].
  intros t [Ht|[]]. subst t. reflexivity.
Qed.
Print Assumptions C17_fresh_every_iteration.

Theorem C17_iteration_state_depends_on_path_only :
  forall p pa pa', ex_set_path (init_exec p pa) pa' = init_exec p pa'.
Proof. exact init_exec_depends_on_path_only. Qed.
Print Assumptions C17_iteration_state_depends_on_path_only.
