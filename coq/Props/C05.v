(* C05 -- Deadlocks are reported exactly. Full statement: Definition C05_statement (not proved: needs DPOR completeness); refuted on this tree by the listed findings.
   Statements restated in full, closed with exact, assumptions printed. *)
Require Import LV.Base LV.VV LV.VVFacts LV.Path LV.PathSpec LV.Prog LV.Objects LV.Exec LV.Atomic LV.Ops LV.Check LV.Ref LV.Outcome LV.Witness LV.SyncFacts LV.CheckFacts.

(* D5 (repaired): unparking a thread blocked in join no longer wakes it; the program finishes as R says (computed witness) *)
Theorem C05_D5_repaired_unpark_of_joiner :
  fin_of p_D5 = RunOk /\
       ref_can_deadlock (ref_outcomes false FUEL p_D5) = false /\
       existsb (fun o : routcome => match o with
                                    | OPanic => true
                                    | _ => false
                                    end) (ref_outcomes false FUEL p_D5) = false.
Proof. exact D5_repaired. Qed.
Print Assumptions C05_D5_repaired_unpark_of_joiner.

(* D11 (repaired): a park token delivered before the thread blocks on a mutex is still there when it parks *)
Theorem C05_D11_repaired_token_survives_blocking :
  fin_of p_D11 = RunOk /\ ref_can_deadlock (ref_outcomes false FUEL p_D11) = false.
Proof. exact D11_repaired. Qed.
Print Assumptions C05_D11_repaired_token_survives_blocking.

(* D14: a deadlock that needs two unparks to coalesce before the first park is never reached *)
Theorem C05_refuted_D14_deadlock_missed :
  ref_can_deadlock (ref_outcomes false FUEL p_D14) = true /\
       run_reports_deadlock (fin_of p_D14) = false /\ fin_of p_D14 = RunOk.
Proof. exact D14_deadlock_missed. Qed.
Print Assumptions C05_refuted_D14_deadlock_missed.

(* the first iteration that fails (e.g. with a deadlock) is the result of the run, and all iterations before it finished *)
Theorem C05_first_failure_is_result :
  forall (ifuel fuel : nat) (p : prog) (i : nat) (pa : path) (ck : option path)
         (acc recs : list iter_record) (pn : panic) (ck' : option path),
       check_loop ifuel fuel p i pa ck acc = (recs, RunPanic pn, ck') ->
       exists (front : list iter_record) (r : iter_record),
         recs = rev acc ++ front ++ [r] /\
         ir_result r = IterPanic pn /\ Forall (fun x : iter_record => ir_result x = IterDone) front.
Proof. exact first_failure_is_result. Qed.
Print Assumptions C05_first_failure_is_result.

(* a try_lock observes the lock state at its own step: it fails iff the lock is held then (it does not wait) *)
Theorem C05_try_lock_never_blocks :
  forall (e : exec) (me m : nat) (s : mutex_state),
       get_mutex e m = Some s -> snd (post_acquire e me m) = false <-> mx_lock s <> None.
Proof. exact post_acquire_fails_iff. Qed.
Print Assumptions C05_try_lock_never_blocks.
