(* C05 -- Deadlocks are reported exactly. Full statement: Definition C05_statement (not proved: needs DPOR completeness); refuted on this tree by the listed findings.
   Statements restated in full, closed with exact, assumptions printed. *)
Require Import LV.Base LV.VV LV.VVFacts LV.Path LV.PathSpec LV.Prog LV.Objects LV.Exec LV.Atomic LV.Ops LV.Check LV.Ref LV.Outcome LV.Witness LV.SyncFacts LV.CheckFacts LV.ExecFacts LV.SyncMono.

(* D5 (repaired): unparking a thread blocked in join no longer wakes it; the program finishes as R says (computed witness) *)
Theorem C05_D5_repaired_unpark_of_joiner :
  fin_of p_D5 = RunOk /\
       ref_can_deadlock (ref_outcomes false FUEL p_D5) = false /\
       existsb (fun o : routcome => match o with
                                    | OPanic => true
                                    | _ => false
                                    end) (ref_outcomes false FUEL p_D5) = false.
Proof. exact D5_repaired. Qed.
Print Assumptions C05_D5_repaired_unpark_of_joiner.

(* D11 (repaired): a park token delivered before the thread blocks on a mutex is still there when it parks *)
Theorem C05_D11_repaired_token_survives_blocking :
  fin_of p_D11 = RunOk /\ ref_can_deadlock (ref_outcomes false FUEL p_D11) = false.
Proof. exact D11_repaired. Qed.
Print Assumptions C05_D11_repaired_token_survives_blocking.

(* D14: a deadlock that needs two unparks to coalesce before the first park is never reached *)
Theorem C05_refuted_D14_deadlock_missed :
  ref_can_deadlock (ref_outcomes false FUEL p_D14) = true /\
       run_reports_deadlock (fin_of p_D14) = false /\ fin_of p_D14 = RunOk.
Proof. exact D14_deadlock_missed. Qed.
Print Assumptions C05_refuted_D14_deadlock_missed.

(* the first iteration that fails (e.g. with a deadlock) is the result of the run, and all iterations before it finished *)
Theorem C05_first_failure_is_result :
  forall (ifuel fuel : nat) (p : prog) (i : nat) (pa : path) (ck : option path)
         (acc recs : list iter_record) (pn : panic) (ck' : option path),
       check_loop ifuel fuel p i pa ck acc = (recs, RunPanic pn, ck') ->
       exists (front : list iter_record) (r : iter_record),
         recs = rev acc ++ front ++ [r] /\
         ir_result r = IterPanic pn /\ Forall (fun x : iter_record => ir_result x = IterDone) front.
Proof. exact first_failure_is_result. Qed.
Print Assumptions C05_first_failure_is_result.

(* a try_lock observes the lock state at its own step: it fails iff the lock is held then (it does not wait) *)
Theorem C05_try_lock_never_blocks :
  forall (e : exec) (me m : nat) (s : mutex_state),
       get_mutex e m = Some s -> snd (post_acquire e me m) = false <-> mx_lock s <> None.
Proof. exact post_acquire_fails_iff. Qed.
Print Assumptions C05_try_lock_never_blocks.

(* ==== appended by tools/mkprops.py (APPEND table) ==== *)

Require Import LV.Base LV.VV LV.VVFacts LV.Path LV.PathSpec LV.PathTerm LV.PathDistinct LV.PathApi LV.Prog LV.Objects LV.Exec LV.Atomic LV.Ops LV.Check LV.ExecFacts LV.SyncMono LV.DeadlockFacts.

(* Run-level statements (DeadlockFacts.v) *)
(* the deadlock panic is raised by Execution::schedule and nowhere else *)
Theorem C05_deadlock_only_from_schedule :
  forall (e : exec) (me : nat) (m : micro) (e2 : exec) (st : list tstate),
       exec_micro e me m = MFail e2 (PanicDeadlock st) ->
       exists e1 : exec, sched_call e e1 /\ fst (schedule e1) = MFail e2 (PanicDeadlock st).
Proof. exact exec_micro_deadlock_only_from_schedule. Qed.
Print Assumptions C05_deadlock_only_from_schedule.

(* SOUND: when a run (not replaying a stored prefix) ends with the deadlock panic, every thread is Blocked or Terminated, one is Blocked, and the reported states are the thread states *)
Theorem C05_run_deadlock_no_runnable :
  forall (fuel : nat) (e e' : exec) (sts : list tstate),
       run fuel e = (e', IterPanic (PanicDeadlock sts)) ->
       is_traversed (e_path e) = true ->
       Forall stuck_thread (e_threads e') /\
       (exists t : thread, In t (e_threads e') /\ t_state t = Blocked) /\
       sts = map t_state (e_threads e').
Proof. exact run_deadlock_no_runnable. Qed.
Print Assumptions C05_run_deadlock_no_runnable.

(* the same for whole iterations *)
Theorem C05_iteration_deadlock_exact :
  forall (fuel : nat) (p : prog) (pa : path) (e' : exec) (sts : list tstate),
       iteration fuel p pa = (e', IterPanic (PanicDeadlock sts)) ->
       is_traversed pa = true ->
       Forall stuck_thread (e_threads e') /\
       (exists t : thread, In t (e_threads e') /\ t_state t = Blocked) /\
       sts = map t_state (e_threads e').
Proof. exact iteration_deadlock_exact. Qed.
Print Assumptions C05_iteration_deadlock_exact.

(* a run that finishes has terminated every thread: nothing is silently left blocked *)
Theorem C05_run_done_all_terminated :
  forall (fuel : nat) (e e' : exec),
       run fuel e = (e', IterDone) ->
       e_active e <> None ->
       Forall (fun t : thread => t_state t = Terminated) (e_threads e') /\ e_active e' = None.
Proof. exact run_done_all_terminated. Qed.
Print Assumptions C05_run_done_all_terminated.

(* COMPLETE per state: a scheduling call in a state where everything is Blocked/Terminated and something is Blocked never returns normally *)
Theorem C05_blocked_forever_is_reported :
  forall e : exec,
       Forall stuck_thread (e_threads e) ->
       (exists t : thread, In t (e_threads e) /\ t_state t = Blocked) ->
       is_traversed (e_path e) = true ->
       exists (e' : exec) (pn : panic),
         fst (schedule e) = MFail e' pn /\
         (pn = PanicDeadlock (map t_state (e_threads e)) /\ e_threads e' = e_threads e \/
          (exists c : nat, pn = PanicModel c) \/ (exists x : ppanic, pn = PanicPath x)).
Proof. exact blocked_forever_is_reported. Qed.
Print Assumptions C05_blocked_forever_is_reported.

