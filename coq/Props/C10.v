(* C10 -- Leaks are reported exactly at the end of every execution.
   The leak check of the model is exactly "the first store entry that still has
   a positive Arc count, an undropped allocation, or queued messages". *)
Require Import LV.Base LV.Objects LV.Exec LV.Check LV.CheckFacts.

Lemma cfl_from_none (l : list object) (i : nat) :
  check_for_leaks_from i l = None <-> Forall (fun o => leak_of o = None) l.
Proof.
  revert i; induction l as [|o l IH]; intros i; cbn [check_for_leaks_from].
  - split; [constructor | reflexivity].
  - destruct (leak_of o) as [k|] eqn:Hk.
    + split; [discriminate | intros H; inversion H as [|? ? H1 H2]; congruence].
    + rewrite IH. split; [intros H; constructor; assumption | intros H; inversion H; assumption].
Qed.

(* no leak panic iff no entry leaks *)
Theorem C10_no_leak_iff :
  forall l, check_for_leaks l = None <-> Forall (fun o => leak_of o = None) l.
Proof. intros l; apply cfl_from_none. Qed.
Print Assumptions C10_no_leak_iff.

Lemma cfl_from_some (l : list object) (i : nat) (pn : panic) :
  check_for_leaks_from i l = Some pn ->
  exists j o k, pn = PanicLeak k (i + j) /\ nth_error l j = Some o /\ leak_of o = Some k /\
                forall j' o', j' < j -> nth_error l j' = Some o' -> leak_of o' = None.
Proof.
  revert i; induction l as [|o l IH]; intros i; cbn [check_for_leaks_from]; [discriminate|].
  destruct (leak_of o) as [k|] eqn:Hk.
  - intros H; inversion H; subst. exists 0, o, k. rewrite Nat.add_0_r.
    repeat split; auto. intros j' o' Hlt; inversion Hlt.
  - intros H. destruct (IH (S i) H) as [j [o1 [k [Hp [Hn [Hl Hb]]]]]].
    exists (S j), o1, k. rewrite Nat.add_succ_r. repeat split; auto.
    intros j' o' Hlt Hn'. destruct j' as [|j']; cbn in Hn'.
    + inversion Hn'; subst; exact Hk.
    + apply (Hb j' o'); [auto with arith | exact Hn'].
Qed.

(* the reported leak is the first leaking entry, with its index and kind *)
Theorem C10_leak_is_first_leaking_entry :
  forall l pn, check_for_leaks l = Some pn ->
  exists j o k, pn = PanicLeak k j /\ nth_error l j = Some o /\ leak_of o = Some k /\
                forall j' o', j' < j -> nth_error l j' = Some o' -> leak_of o' = None.
Proof. intros l pn H. exact (cfl_from_some l 0 pn H). Qed.
Print Assumptions C10_leak_is_first_leaking_entry.

(* what "leaking" means for each kind of entry *)
Theorem C10_leak_of_spec :
  forall o, leak_of o = None <->
    match o with
    | OAlloc d => d = true
    | OArc s => arc_cnt s = 0
    | OChannel s => ch_cnt s = 0
    | _ => True
    end.
Proof.
  intros o; destruct o; cbn; try tauto.
  - destruct dropped; split; congruence.
  - destruct (Nat.eqb (arc_cnt s) 0) eqn:H; [apply Nat.eqb_eq in H | apply Nat.eqb_neq in H]; split; congruence.
  - destruct (Nat.eqb (ch_cnt s) 0) eqn:H; [apply Nat.eqb_eq in H | apply Nat.eqb_neq in H]; split; congruence.
Qed.
Print Assumptions C10_leak_of_spec.

(* a leak found in an iteration is the result of the run (it is not swallowed) *)
Theorem C10_leak_fails_the_run :
  forall ifuel fuel p i pa ck acc recs pn ck',
    check_loop ifuel fuel p i pa ck acc = (recs, RunPanic pn, ck') ->
    exists front r, recs = rev acc ++ front ++ [r] /\ ir_result r = IterPanic pn /\
                    Forall (fun x => ir_result x = IterDone) front.
Proof. exact first_failure_is_result. Qed.
Print Assumptions C10_leak_fails_the_run.

(* ==== appended by tools/mkprops.py (APPEND table) ==== *)

Require Import LV.Base LV.VV LV.VVFacts LV.Path LV.PathSpec LV.PathTerm LV.PathDistinct LV.PathApi LV.Prog LV.Objects LV.Exec LV.Atomic LV.Ops LV.Check LV.CheckFacts LV.SyncFacts LV.ExecFacts LV.SyncMono LV.CountFacts LV.DeadlockFacts LV.LeakFacts.

(* The leak check against the harness-level truth, for whole iterations (LeakFacts.v) *)
(* EXACT: an iteration ends with a leak panic iff its run finished and the leak scan of the final objects finds that entry first; no micro-step and no run ever raises it *)
Theorem C10_iteration_leak_iff :
  forall (fuel : nat) (p : prog) (pa : path) (e : exec) (k : leak_kind) (i : nat),
       iteration fuel p pa = (e, IterPanic (PanicLeak k i)) <->
       run fuel (init_exec p pa) = (e, IterDone) /\
       check_for_leaks (e_objects e) = Some (PanicLeak k i).
Proof. exact iteration_leak_iff. Qed.
Print Assumptions C10_iteration_leak_iff.

(* after a failure the leak check is not run *)
Theorem C10_iteration_after_panic :
  forall (fuel : nat) (p : prog) (pa : path) (e : exec) (pn : panic),
       run fuel (init_exec p pa) = (e, IterPanic pn) -> iteration fuel p pa = (e, IterPanic pn).
Proof. exact iteration_after_panic. Qed.
Print Assumptions C10_iteration_after_panic.

(* finished disciplined iteration: Arc k is reported iff one of its handles is still alive (no drop is in flight at the end: proved) *)
Theorem C10_arc_leak_iff :
  forall (fuel : nat) (p : prog) (pa : path) (e : exec),
       run fuel (init_exec p pa) = (e, IterDone) ->
       forall k : nat,
       run_disc fuel (init_exec p pa) = true ->
       nth_error (p_decls p) k = Some DArc ->
       exists s : arc_state,
         nth_error (e_objects e) k = Some (OArc s) /\
         arc_cnt s = live e k /\
         pend e k = 0 /\ leak_at e k = (if live e k =? 0 then None else Some LArc).
Proof. exact arc_leak_iff. Qed.
Print Assumptions C10_arc_leak_iff.

(* a channel is reported iff its runtime message count is positive, which is the length of the std queue while the receiver lives *)
Theorem C10_chan_leak_iff :
  forall (fuel : nat) (p : prog) (pa : path) (e : exec),
       run fuel (init_exec p pa) = (e, IterDone) ->
       forall h : nat,
       nth_error (p_decls p) h = Some DChan ->
       exists s : chan_state,
         nth_error (e_objects e) h = Some (OChannel s) /\
         msgs e h = ch_cnt s /\
         leak_at e h = (if msgs e h =? 0 then None else Some LMsgs) /\
         msgs e h = length (ho_q (get_h e h)) /\ (ho_rx (get_h e h) = false -> msgs e h = 0).
Proof. exact chan_leak_iff. Qed.
Print Assumptions C10_chan_leak_iff.

(* a tracked allocation is reported iff it was never dropped *)
Theorem C10_track_leak_iff :
  forall (fuel : nat) (p : prog) (pa : path) (e : exec),
       run fuel (init_exec p pa) = (e, IterDone) ->
       forall k : nat,
       nth_error (p_decls p) k = Some DTrack ->
       nth_error (e_objects e) k = Some (OAlloc (negb (ho_track (get_h e k)))) /\
       leak_at e k = (if ho_track (get_h e k) then Some LAlloc else None).
Proof. exact track_leak_iff. Qed.
Print Assumptions C10_track_leak_iff.

(* an iteration finishes normally iff nothing declared leaks (and no block_on waker clone is left registered) *)
Theorem C10_iteration_done_iff :
  forall (fuel : nat) (p : prog) (pa : path) (e : exec),
       run fuel (init_exec p pa) = (e, IterDone) ->
       run_disc fuel (init_exec p pa) = true ->
       iteration fuel p pa = (e, IterDone) <->
       (forall k : nat, k < length (p_decls p) -> hleak p e k = None) /\ dyn_arcs_released p e.
Proof. exact iteration_done_iff. Qed.
Print Assumptions C10_iteration_done_iff.

(* every true leak is reported (at that entry or an earlier leaking one) *)
Theorem C10_true_leak_is_reported :
  forall (fuel : nat) (p : prog) (pa : path) (e : exec),
       run fuel (init_exec p pa) = (e, IterDone) ->
       forall (k : nat) (kd : leak_kind),
       run_disc fuel (init_exec p pa) = true ->
       k < length (p_decls p) ->
       hleak p e k = Some kd ->
       exists (kd' : leak_kind) (i : nat),
         i <= k /\ iteration fuel p pa = (e, IterPanic (PanicLeak kd' i)).
Proof. exact true_leak_is_reported. Qed.
Print Assumptions C10_true_leak_is_reported.

(* every reported leak is true and is the first one in object order *)
Theorem C10_leak_reported_is_true :
  forall (fuel : nat) (p : prog) (pa : path) (e : exec),
       run fuel (init_exec p pa) = (e, IterDone) ->
       forall (kd : leak_kind) (i : nat),
       run_disc fuel (init_exec p pa) = true ->
       iteration fuel p pa = (e, IterPanic (PanicLeak kd i)) ->
       (forall j : nat, j < i -> j < length (p_decls p) -> hleak p e j = None) /\
       (forall (j : nat) (s : arc_state),
        j < i ->
        length (p_decls p) <= j -> nth_error (e_objects e) j = Some (OArc s) -> arc_cnt s = 0) /\
       (i < length (p_decls p) /\ hleak p e i = Some kd \/
        length (p_decls p) <= i /\
        kd = LArc /\
        (exists s : arc_state, nth_error (e_objects e) i = Some (OArc s) /\ arc_cnt s <> 0)).
Proof. exact leak_reported_is_true. Qed.
Print Assumptions C10_leak_reported_is_true.

(* a channel is reported iff messages are still queued, whether or not the receiver is alive *)
Theorem C10_chan_leak_queue :
  forall (fuel : nat) (p : prog) (pa : path) (e : exec),
       run fuel (init_exec p pa) = (e, IterDone) ->
       forall h : nat,
       nth_error (p_decls p) h = Some DChan ->
       leak_at e h = match ho_q (get_h e h) with
                     | [] => None
                     | _ :: _ => Some LMsgs
                     end.
Proof. exact chan_leak_queue. Qed.
Print Assumptions C10_chan_leak_queue.

(* witness (computed): after fix 4a05908 a message handed back by send() to a dropped receiver is not reported as leaked *)
Theorem C10_send_after_drop_not_reported :
  snd (iteration 1000 p_send_after_drop (initial_path cfgK)) = IterDone /\
       rev (e_log e_sad) = [LOp 0 0 RUnit; LOp 0 1 RDisc] /\
       ho_rx (get_h e_sad 0) = false /\
       ho_q (get_h e_sad 0) = [] /\ msgs e_sad 0 = 0 /\ hleak p_send_after_drop e_sad 0 = None.
Proof. exact send_after_drop_not_reported. Qed.
Print Assumptions C10_send_after_drop_not_reported.

