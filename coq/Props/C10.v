(* C10 -- Leaks are reported exactly at the end of every execution.
   The leak check of the model is exactly "the first store entry that still has
   a positive Arc count, an undropped allocation, or queued messages". *)
Require Import LV.Base LV.Objects LV.Exec LV.Check LV.CheckFacts.

Lemma cfl_from_none (l : list object) (i : nat) :
  check_for_leaks_from i l = None <-> Forall (fun o => leak_of o = None) l.
Proof.
  revert i; induction l as [|o l IH]; intros i; cbn [check_for_leaks_from].
  - split; [constructor | reflexivity].
  - destruct (leak_of o) as [k|] eqn:Hk.
    + split; [discriminate | intros H; inversion H as [|? ? H1 H2]; congruence].
    + rewrite IH. split; [intros H; constructor; assumption | intros H; inversion H; assumption].
Qed.

(* no leak panic iff no entry leaks *)
Theorem C10_no_leak_iff :
  forall l, check_for_leaks l = None <-> Forall (fun o => leak_of o = None) l.
Proof. intros l; apply cfl_from_none. Qed.
Print Assumptions C10_no_leak_iff.

Lemma cfl_from_some (l : list object) (i : nat) (pn : panic) :
  check_for_leaks_from i l = Some pn ->
  exists j o k, pn = PanicLeak k (i + j) /\ nth_error l j = Some o /\ leak_of o = Some k /\
                forall j' o', j' < j -> nth_error l j' = Some o' -> leak_of o' = None.
Proof.
  revert i; induction l as [|o l IH]; intros i; cbn [check_for_leaks_from]; [discriminate|].
  destruct (leak_of o) as [k|] eqn:Hk.
  - intros H; inversion H; subst. exists 0, o, k. rewrite Nat.add_0_r.
    repeat split; auto. intros j' o' Hlt; inversion Hlt.
  - intros H. destruct (IH (S i) H) as [j [o1 [k [Hp [Hn [Hl Hb]]]]]].
    exists (S j), o1, k. rewrite Nat.add_succ_r. repeat split; auto.
    intros j' o' Hlt Hn'. destruct j' as [|j']; cbn in Hn'.
    + inversion Hn'; subst; exact Hk.
    + apply (Hb j' o'); [auto with arith | exact Hn'].
Qed.

(* the reported leak is the first leaking entry, with its index and kind *)
Theorem C10_leak_is_first_leaking_entry :
  forall l pn, check_for_leaks l = Some pn ->
  exists j o k, pn = PanicLeak k j /\ nth_error l j = Some o /\ leak_of o = Some k /\
                forall j' o', j' < j -> nth_error l j' = Some o' -> leak_of o' = None.
Proof. intros l pn H. exact (cfl_from_some l 0 pn H). Qed.
Print Assumptions C10_leak_is_first_leaking_entry.

(* what "leaking" means for each kind of entry *)
Theorem C10_leak_of_spec :
  forall o, leak_of o = None <->
    match o with
    | OAlloc d => d = true
    | OArc s => arc_cnt s = 0
    | OChannel s => ch_cnt s = 0
    | _ => True
    end.
Proof.
  intros o; destruct o; cbn; try tauto.
  - destruct dropped; split; congruence.
  - destruct (Nat.eqb (arc_cnt s) 0) eqn:H; [apply Nat.eqb_eq in H | apply Nat.eqb_neq in H]; split; congruence.
  - destruct (Nat.eqb (ch_cnt s) 0) eqn:H; [apply Nat.eqb_eq in H | apply Nat.eqb_neq in H]; split; congruence.
Qed.
Print Assumptions C10_leak_of_spec.

(* a leak found in an iteration is the result of the run (it is not swallowed) *)
Theorem C10_leak_fails_the_run :
  forall ifuel fuel p i pa ck acc recs pn ck',
    check_loop ifuel fuel p i pa ck acc = (recs, RunPanic pn, ck') ->
    exists front r, recs = rev acc ++ front ++ [r] /\ ir_result r = IterPanic pn /\
                    Forall (fun x => ir_result x = IterDone) front.
Proof. exact first_failure_is_result. Qed.
Print Assumptions C10_leak_fails_the_run.
