(* C09 -- mpsc channels: count, FIFO views, ordering (local lemmas).
   Statements restated in full, closed with exact, assumptions printed. *)
Require Import LV.Base LV.VV LV.VVFacts LV.Path LV.PathSpec LV.Prog LV.Objects LV.Exec LV.Atomic LV.Ops LV.Check LV.Ref LV.Outcome LV.Witness LV.SyncFacts LV.CheckFacts LV.ExecFacts LV.SyncMono.

(* a send increments the count and appends the accumulated sender view for the receiver of that message *)
Theorem C09_send_publishes :
  forall (e : exec) (me h : nat) (v : N) (s : chan_state) (e' : exec),
       get_chan e h = Some s ->
       ho_rx (get_h e h) = true ->
       exec_micro e me (MSendPost h v) = MOk e' ->
       exists s' : chan_state,
         get_chan e' h = Some s' /\
         ch_cnt s' = S (ch_cnt s) /\
         ch_recv_sync s' = ch_recv_sync s ++ [ch_sender_sync s'] /\
         vle (caus_of e me) (ch_sender_sync s') /\ vle (ch_sender_sync s) (ch_sender_sync s').
Proof. exact send_post_publishes. Qed.
Print Assumptions C09_send_publishes.

(* a receive takes the oldest view, joins it, decrements the count *)
Theorem C09_recv_acquires :
  forall (e : exec) (me h : nat) (lg : bool) (s : chan_state) (n : nat) 
         (sy : vv) (rest : list vv) (e' : exec),
       get_chan e h = Some s ->
       ch_cnt s = S n ->
       ch_recv_sync s = sy :: rest ->
       exec_micro e me (MRecvPost h lg) = MOk e' ->
       me < length (e_threads e) ->
       vle sy (caus_of e' me) /\
       vle (caus_of e me) (caus_of e' me) /\
       (exists s' : chan_state,
          get_chan e' h = Some s' /\
          ch_cnt s' = n /\ ch_recv_sync s' = rest /\ ch_sender_sync s' = ch_sender_sync s).
Proof. exact recv_post_acquires. Qed.
Print Assumptions C09_recv_acquires.

(* a receive that reaches its post-action on an empty channel is loom's internal failure, never a value *)
Theorem C09_recv_empty_fails :
  forall (e : exec) (me h : nat) (lg : bool) (s : chan_state),
       get_chan e h = Some s ->
       ch_cnt s = 0 -> exec_micro e me (MRecvPost h lg) = MFail e PanicExpectMsg.
Proof. exact recv_post_empty_fails. Qed.
Print Assumptions C09_recv_empty_fails.

(* a send happens-before the receive that obtains it and every later receive *)
Theorem C09_channel_handover :
  forall (e : exec) (a h : nat) (v : N) (s : chan_state) (e1 e2 : exec) 
         (b : nat) (lg : bool) (s2 : chan_state) (n : nat) (sy : vv) (rest : list vv) 
         (e3 : exec),
       get_chan e h = Some s ->
       exec_micro e a (MSendPost h v) = MOk e1 ->
       get_chan e2 h = Some s2 ->
       ch_cnt s2 = S n ->
       ch_recv_sync s2 = sy :: rest ->
       vle (sync_store (ch_sender_sync s) (caus_of e a) (rel_of e a) Release) sy ->
       exec_micro e2 b (MRecvPost h lg) = MOk e3 ->
       b < length (e_threads e2) -> vle (caus_of e a) (caus_of e3 b).
Proof. exact channel_handover. Qed.
Print Assumptions C09_channel_handover.

(* GLOBAL FIFO: with n messages queued ahead, any receive that follows at least n other receives (over any steps) acquires the sender's clock *)
Theorem C09_channel_fifo_handover_global :
  forall (e : exec) (a h : nat) (v : N) (s : chan_state) (n : nat) 
         (e1 e2 : exec) (b : nat) (lg : bool) (e3 : exec),
       get_chan e h = Some s ->
       Forall (vle (caus_of e a)) (skipn n (ch_recv_sync s)) ->
       exec_micro e a (MSendPost h v) = MOk e1 ->
       recvs h n e1 e2 ->
       b < length (e_threads e2) ->
       exec_micro e2 b (MRecvPost h lg) = MOk e3 -> vle (caus_of e a) (caus_of e3 b).
Proof. exact channel_fifo_handover_global. Qed.
Print Assumptions C09_channel_fifo_handover_global.

(* GLOBAL: a send on a queue whose pending views already dominate the sender is acquired by the next receive, whatever happens in between *)
Theorem C09_channel_handover_global :
  forall (e : exec) (a h : nat) (v : N) (s : chan_state) (e1 e2 : exec) 
         (b : nat) (lg : bool) (e3 : exec),
       get_chan e h = Some s ->
       Forall (vle (caus_of e a)) (ch_recv_sync s) ->
       exec_micro e a (MSendPost h v) = MOk e1 ->
       steps e1 e2 ->
       b < length (e_threads e2) ->
       exec_micro e2 b (MRecvPost h lg) = MOk e3 -> vle (caus_of e a) (caus_of e3 b).
Proof. exact channel_handover_global. Qed.
Print Assumptions C09_channel_handover_global.

(* ==== appended by tools/mkprops.py (APPEND table) ==== *)

Require Import LV.Base LV.VV LV.VVFacts LV.Path LV.PathSpec LV.PathTerm LV.PathDistinct LV.PathApi LV.Prog LV.Objects LV.Exec LV.Atomic LV.Ops LV.Check LV.CountFacts.

(* Counting invariants over whole runs (CountFacts.v) *)
(* EVERY run of EVERY program: runtime message count = number of queued views = length of the std queue (while the receiver lives) *)
Theorem C09_run_chan_inv :
  forall (fuel : nat) (p : prog) (pa : path), chan_inv (fst (run fuel (init_exec p pa))).
Proof. exact run_chan_inv. Qed.
Print Assumptions C09_run_chan_inv.

(* a send appends exactly its value at the back *)
Theorem C09_send_appends_one :
  forall (e : exec) (me h : nat) (v : N) (e' : exec),
       exec_micro e me (MSendPost h v) = MOk e' ->
       ho_rx (get_h e h) = true ->
       ho_q (get_h e' h) = ho_q (get_h e h) ++ [v] /\
       (exists s s' : chan_state,
          get_chan e h = Some s /\ get_chan e' h = Some s' /\ ch_cnt s' = S (ch_cnt s)).
Proof. exact send_appends_one. Qed.
Print Assumptions C09_send_appends_one.

(* a receive removes exactly the front value and returns it *)
Theorem C09_recv_removes_front :
  forall (e : exec) (me : nat) (t : thread) (h : nat) (e' : exec),
       get_thread e me = Some t ->
       exec_micro e me (MRecvPost h true) = MOk e' ->
       exists (v : N) (q : list N),
         ho_q (get_h e h) = v :: q /\
         ho_q (get_h e' h) = q /\ e_log e' = LOp (t_body t) (t_pc t) (RVal v) :: e_log e.
Proof. exact recv_removes_front. Qed.
Print Assumptions C09_recv_removes_front.

(* every micro-step leaves a queue unchanged, appends one value or removes the front: no loss, no duplication, no reordering *)
Theorem C09_queue_step_shape :
  forall (e : exec) (me : nat) (t : thread) (m : micro) (rest : list micro) (h : nat),
       base_inv e ->
       nth_error (e_threads e) me = Some t ->
       t_cont t = m :: rest ->
       qshape (ho_q (get_h e h))
         (ho_q (get_h (ExecFacts.res_exec (exec_micro (pop e me rest) me m)) h)).
Proof. exact queue_step_shape. Qed.
Print Assumptions C09_queue_step_shape.

(* FIFO over any number of steps *)
Theorem C09_steps_queue_fifo :
  forall (e e' : exec) (h : nat),
       SyncMono.steps e e' ->
       base_inv e ->
       exists (n : nat) (l : list N), ho_q (get_h e' h) = skipn n (ho_q (get_h e h)) ++ l.
Proof. exact steps_queue_fifo. Qed.
Print Assumptions C09_steps_queue_fifo.

(* when the runtime lets a receive proceed the std queue is not empty *)
Theorem C09_recv_never_empty_handed :
  forall (e : exec) (me h : nat) (lg : bool),
       chan_inv e ->
       ho_rx (get_h e h) = true ->
       forall e2 : exec, exec_micro e me (MRecvPost h lg) <> MFail e2 (PanicModel 20).
Proof. exact recv_never_empty_handed. Qed.
Print Assumptions C09_recv_never_empty_handed.

