(* C08 -- Waiting primitives wake exactly on notification (local lemmas + refutations).
   Statements restated in full, closed with exact, assumptions printed. *)
Require Import LV.Base LV.VV LV.VVFacts LV.Path LV.PathSpec LV.Prog LV.Objects LV.Exec LV.Atomic LV.Ops LV.Check LV.Ref LV.Outcome LV.Witness LV.SyncFacts LV.CheckFacts LV.ExecFacts LV.SyncMono.

(* Notify::wait / join complete only with the flag set, consume it, and acquire the notifier's clock *)
Theorem C08_wait_needs_flag :
  forall (e : exec) (me n : nat) (s : notify_state) (e' : exec),
       get_notify e n = Some s ->
       exec_micro e me (MNotifyWait2 n) = MOk e' ->
       me < length (e_threads e) ->
       nt_notified s = true /\
       vle (nt_sync s) (caus_of e' me) /\
       vle (caus_of e me) (caus_of e' me) /\
       (exists s' : notify_state,
          get_notify e' n = Some s' /\ nt_notified s' = false /\ nt_sync s' = nt_sync s).
Proof. exact notify_wait2_acquires. Qed.
Print Assumptions C08_wait_needs_flag.

(* reaching the post-action without the flag is exactly loom's internal assertion (the D5 symptom) *)
Theorem C08_wait_without_flag_panics :
  forall (e : exec) (me n : nat) (s : notify_state),
       get_notify e n = Some s ->
       (exists e' : exec, exec_micro e me (MNotifyWait2 n) = MFail e' PanicNotified) <->
       nt_notified s = false.
Proof. exact notify_wait2_fails_iff. Qed.
Print Assumptions C08_wait_without_flag_panics.

(* notify sets the flag and publishes the notifier's clock *)
Theorem C08_notify_publishes :
  forall (e : exec) (me n : nat) (s : notify_state) (e' : exec),
       get_notify e n = Some s ->
       exec_micro e me (MNotifyPost n) = MOk e' ->
       exists s' : notify_state,
         get_notify e' n = Some s' /\
         vle (caus_of e me) (nt_sync s') /\ vle (nt_sync s) (nt_sync s') /\ nt_notified s' = true.
Proof. exact notify_post_publishes. Qed.
Print Assumptions C08_notify_publishes.

(* the notifier's prior writes happen-before the woken thread's continuation *)
Theorem C08_notify_handover :
  forall (e : exec) (a n : nat) (s : notify_state) (e1 : exec) (s1 : notify_state) 
         (e2 : exec) (b : nat) (s2 : notify_state) (e3 : exec),
       get_notify e n = Some s ->
       exec_micro e a (MNotifyPost n) = MOk e1 ->
       get_notify e1 n = Some s1 ->
       get_notify e2 n = Some s2 ->
       vle (nt_sync s1) (nt_sync s2) ->
       b < length (e_threads e2) ->
       exec_micro e2 b (MNotifyWait2 n) = MOk e3 -> vle (caus_of e a) (caus_of e3 b).
Proof. exact notify_handover. Qed.
Print Assumptions C08_notify_handover.

(* unpark joins the unparker's clock into the target and leaves every other thread alone *)
Theorem C08_unpark_transfers :
  forall (e : exec) (me id : nat),
       id <> me ->
       id < length (e_threads e) ->
       let e' := threads_unpark e me id in
       vle (caus_of e me) (caus_of e' id) /\
       vle (caus_of e id) (caus_of e' id) /\
       caus_of e' id = vv_join (caus_of e id) (caus_of e me) /\
       (forall j : nat, j <> id -> caus_of e' j = caus_of e j).
Proof. exact threads_unpark_transfers. Qed.
Print Assumptions C08_unpark_transfers.

(* GLOBAL: a notification happens-before the wake-up that consumes it, whatever happens in between *)
Theorem C08_notify_handover_global :
  forall (e : exec) (a n : nat) (e1 e2 : exec) (b : nat) (e3 : exec),
       exec_micro e a (MNotifyPost n) = MOk e1 ->
       steps e1 e2 ->
       b < length (e_threads e2) ->
       exec_micro e2 b (MNotifyWait2 n) = MOk e3 -> vle (caus_of e a) (caus_of e3 b).
Proof. exact notify_handover_global. Qed.
Print Assumptions C08_notify_handover_global.

(* D5 (repaired): unpark of a thread blocked in join stores a token instead of waking it *)
Theorem C08_D5_repaired :
  fin_of p_D5 = RunOk /\
       ref_can_deadlock (ref_outcomes false FUEL p_D5) = false /\
       existsb (fun o : routcome => match o with
                                    | OPanic => true
                                    | _ => false
                                    end) (ref_outcomes false FUEL p_D5) = false.
Proof. exact D5_repaired. Qed.
Print Assumptions C08_D5_repaired.

(* D11 (repaired): the park token is not lost when the thread blocks on / is woken by a lock *)
Theorem C08_D11_repaired :
  fin_of p_D11 = RunOk /\ ref_can_deadlock (ref_outcomes false FUEL p_D11) = false.
Proof. exact D11_repaired. Qed.
Print Assumptions C08_D11_repaired.

(* D14: park/unpark are not scheduling points *)
Theorem C08_refuted_D14 :
  ref_can_deadlock (ref_outcomes false FUEL p_D14) = true /\
       run_reports_deadlock (fin_of p_D14) = false /\ fin_of p_D14 = RunOk.
Proof. exact D14_deadlock_missed. Qed.
Print Assumptions C08_refuted_D14.

(* ==== appended by tools/mkprops.py (APPEND table) ==== *)

Require Import LV.Base LV.VV LV.VVFacts LV.Path LV.PathSpec LV.PathTerm LV.PathDistinct LV.PathApi LV.Prog LV.Objects LV.Exec LV.Atomic LV.Ops LV.Check LV.NotifyFacts.

(* Global persistence of notifications (NotifyFacts.v) *)
(* GLOBAL: a notification is never lost: after notify, over any steps of any threads, the wait proceeds and acquires the notifier's clock *)
Theorem C08_no_lost_wakeup :
  forall (e : exec) (a n : nat) (e1 e2 : exec) (b : nat) (e3 e4 : exec),
       SyncMono.track_ok e ->
       exec_micro e a (MNotifyPost n) = MOk e1 ->
       steps_without_wait2 n e1 e2 ->
       exec_micro e2 b (MNotifyWait1 n) = MOk e3 ->
       steps_without_wait2 n e3 e4 ->
       exists e5 : exec,
         exec_micro e4 b (MNotifyWait2 n) = MOk e5 /\
         (forall (e' : exec) (pn : panic), exec_micro e4 b (MNotifyWait2 n) <> MFail e' pn) /\
         (b < length (e_threads e4) -> vle (caus_of e a) (caus_of e5 b)).
Proof. exact no_lost_wakeup. Qed.
Print Assumptions C08_no_lost_wakeup.

(* a blocked waiter is not resumed by anything but a notify on its object *)
Theorem C08_blocked_waiter_stays :
  forall (b n : nat) (e : exec) (me : nat) (m : micro) (e' : exec) 
         (s : notify_state) (t : thread),
       SyncMono.track_ok e ->
       get_notify e n = Some s ->
       get_thread e b = Some t ->
       t_state t = Blocked ->
       pending_on n t = true ->
       me <> b ->
       m <> MNotifyPost n ->
       exec_micro e me m = MOk e' ->
       exists t' : thread,
         get_thread e' b = Some t' /\ t_state t' = Blocked /\ pending_on n t' = true.
Proof. exact blocked_waiter_stays. Qed.
Print Assumptions C08_blocked_waiter_stays.

(* at most one spurious return per Notify *)
Theorem C08_spurious_at_most_once :
  forall (e : exec) (b n : nat) (s : notify_state) (p : path) (e3 e4 : exec) (b' : nat),
       SyncMono.track_ok e ->
       get_notify e n = Some s ->
       nt_spurious s && negb (nt_did_spur s) = true ->
       branch_spurious (e_path e) = POk (p, true) ->
       exec_micro e b (MNotifyWait1 n) = MOk e3 ->
       any_steps e3 e4 ->
       exists s4 : notify_state,
         get_notify e4 n = Some s4 /\
         nt_did_spur s4 = true /\
         exec_micro e4 b' (MNotifyWait1 n) = MOk (push_cont e4 b' (wait1_cont n s4)).
Proof. exact spurious_at_most_once. Qed.
Print Assumptions C08_spurious_at_most_once.


Require Import LV.Base LV.VV LV.VVFacts LV.Path LV.PathSpec LV.PathTerm LV.PathDistinct LV.PathApi LV.Prog LV.Objects LV.Exec LV.Atomic LV.Ops LV.Check LV.NotifyFacts LV.ParkFacts.

(* thread::park / unpark over whole interleavings (ParkFacts.v; the token is a field of its own since fix 91a3e2b) *)
(* a park token survives every micro-step of every thread except the owner's own park: blocking on / being woken by a lock, a channel, a join, a notify neither consumes nor loses it (defect D11) *)
Theorem C08_token_persists :
  forall (b : nat) (e : exec) (me : nat) (m : micro) (e' : exec) (t : thread),
       get_thread e b = Some t ->
       t_token t = true ->
       (me = b -> m <> MPark) ->
       exec_micro e me m = MOk e' ->
       exists t' : thread, get_thread e' b = Some t' /\ t_token t' = true.
Proof. exact token_persists. Qed.
Print Assumptions C08_token_persists.

(* EXACT effect of unpark: a parked target becomes Runnable, any other live target keeps its state and gets the token, a terminated one is left alone; the target acquires the unparker's clock; nothing else changes *)
Theorem C08_unpark_effect :
  forall (e : exec) (a bd b : nat) (t : thread) (e' : exec),
       body_tid e bd = Some b ->
       get_thread e b = Some t ->
       exec_micro e a (MUnpark bd) = MOk e' ->
       exists t' : thread,
         get_thread e' b = Some t' /\
         (if is_parked t
          then t_state t' = Runnable /\ t_token t' = t_token t
          else
           if is_terminated t
           then t_state t' = Terminated /\ t_token t' = t_token t
           else t_state t' = t_state t /\ t_token t' = true) /\
         t_caus t' = (if b =? a then t_caus t else vv_join (t_caus t) (caus_of e a)) /\
         vle (caus_of e a) (caus_of e' b) /\
         same_rest t t' /\
         (forall j : nat, j <> b -> get_thread e' j = get_thread e j) /\ same_frame e e'.
Proof. exact unpark_effect. Qed.
Print Assumptions C08_unpark_effect.

(* park with a token consumes it and does not block *)
Theorem C08_park_effect_token :
  forall (e : exec) (me : nat) (t : thread),
       get_thread e me = Some t ->
       t_token t = true ->
       exec_micro e me MPark = MOk (upd_thread e me (fun t0 : thread => th_set_token t0 false)).
Proof. exact park_effect_token. Qed.
Print Assumptions C08_park_effect_token.

(* park without a token blocks and hands the processor over *)
Theorem C08_park_blocks :
  forall (e : exec) (me : nat) (t : thread) (e' : exec),
       get_thread e me = Some t ->
       t_token t = false ->
       exec_micro e me MPark = MOk e' ->
       parked me e' /\ (is_traversed (e_path e) = true -> e_active e' <> Some me).
Proof. exact park_blocks. Qed.
Print Assumptions C08_park_blocks.

(* GLOBAL: after an unpark, whatever happens in between, the target's next park does not block (or it was parked and is Runnable now) *)
Theorem C08_no_lost_unpark :
  forall (e : exec) (a bd b : nat) (t : thread) (e1 : exec),
       body_tid e bd = Some b ->
       get_thread e b = Some t ->
       exec_micro e a (MUnpark bd) = MOk e1 ->
       is_parked t = true /\
       (exists t1 : thread,
          get_thread e1 b = Some t1 /\ t_state t1 = Runnable /\ t_token t1 = t_token t) \/
       is_terminated t = true \/
       is_parked t = false /\
       is_terminated t = false /\
       (forall e2 : exec,
        tsteps (not_own_park b) e1 e2 ->
        exists t2 : thread,
          get_thread e2 b = Some t2 /\
          t_token t2 = true /\
          exec_micro e2 b MPark = MOk (upd_thread e2 b (fun t0 : thread => th_set_token t0 false))).
Proof. exact no_lost_unpark. Qed.
Print Assumptions C08_no_lost_unpark.

(* a parked thread is resumed only by an unpark of it or by a condvar notify that pops it: not by lock releases, sends, notify posts or the scheduler (defect D5) *)
Theorem C08_parked_stays_parked :
  forall (b : nat) (e : exec) (me : nat) (m : micro) (e' : exec) (t : thread),
       get_thread e b = Some t ->
       is_parked t = true ->
       t_token t = false ->
       me <> b ->
       ~ In b (unpark_targets e m) ->
       exec_micro e me m = MOk e' ->
       exists t' : thread, get_thread e' b = Some t' /\ is_parked t' = true /\ t_token t' = false.
Proof. exact parked_stays_parked. Qed.
Print Assumptions C08_parked_stays_parked.


Require Import LV.Base LV.VV LV.VVFacts LV.Path LV.PathSpec LV.PathTerm LV.PathDistinct LV.PathApi LV.Prog LV.Objects LV.Exec LV.Atomic LV.Ops LV.Check LV.Ref LV.Outcome LV.Witness LV.NotifyFacts LV.ParkFacts LV.CondvarFacts.

(* Condvar over whole interleavings (CondvarFacts.v) *)
(* the waiter queue changes only by a registration at the back (wait), a pop at the front (notify_one) or being emptied (notify_all) *)
Theorem C08_cv_queue_step_shape :
  forall (c : nat) (e : exec) (me : nat) (m : micro) (e' : exec) (s : condvar_state),
       SyncMono.track_ok e ->
       get_cv e c = Some s ->
       exec_micro e me m = MOk e' ->
       exists s' : condvar_state,
         get_cv e' c = Some s' /\
         (cv_waiters s' = cv_waiters s \/
          (exists mx : nat, m = MCvWait c mx /\ cv_waiters s' = cv_waiters s ++ [me]) \/
          m = MCvNotify c false /\ (exists w : nat, cv_waiters s = w :: cv_waiters s') \/
          m = MCvNotify c true /\ cv_waiters s' = []).
Proof. exact cv_queue_step_shape. Qed.
Print Assumptions C08_cv_queue_step_shape.

(* a registered waiter stays registered until a notify pops it *)
Theorem C08_reg_persists :
  forall (b c : nat) (e : exec) (me : nat) (m : micro) (e' : exec),
       SyncMono.track_ok e ->
       reg b c e ->
       (forall all : bool, m = MCvNotify c all -> ~ In b (unpark_targets e m)) ->
       exec_micro e me m = MOk e' -> reg b c e'.
Proof. exact reg_persists. Qed.
Print Assumptions C08_reg_persists.

(* notify_one pops exactly the front waiter and unparks it with the notifier's clock; all other threads and objects are untouched *)
Theorem C08_notify_one_wakes_front :
  forall (e : exec) (a c : nat) (s : condvar_state) (w : nat) (rest : list nat) (e' : exec),
       get_cv e c = Some s ->
       cv_waiters s = w :: rest ->
       exec_micro e a (MCvNotify c false) = MOk e' ->
       (exists s' : condvar_state,
          get_cv e' c = Some s' /\ cv_waiters s' = rest /\ cv_last s' = cv_last s) /\
       (forall t : thread,
        get_thread e w = Some t ->
        exists t' : thread,
          get_thread e' w = Some t' /\
          unpark_result t t' /\
          t_caus t' = (if w =? a then t_caus t else vv_join (t_caus t) (caus_of e a)) /\
          vle (caus_of e a) (caus_of e' w)) /\
       (forall j : nat, j <> w -> get_thread e' j = get_thread e j) /\
       (forall i : nat, i <> c -> nth_error (e_objects e') i = nth_error (e_objects e) i).
Proof. exact notify_one_wakes_front. Qed.
Print Assumptions C08_notify_one_wakes_front.

(* on an empty queue notify_one does nothing: the notification is not stored (std's contract) *)
Theorem C08_notify_one_empty_noop :
  forall (e : exec) (a c : nat) (s : condvar_state) (e' : exec),
       get_cv e c = Some s ->
       cv_waiters s = [] ->
       exec_micro e a (MCvNotify c false) = MOk e' ->
       e' = log_op e a RUnit /\ e_objects e' = e_objects e /\ e_threads e' = e_threads e.
Proof. exact notify_one_empty_noop. Qed.
Print Assumptions C08_notify_one_empty_noop.

(* notify_all wakes every registered waiter *)
Theorem C08_notify_all_wakes_all :
  forall (e : exec) (a c : nat) (s : condvar_state) (e' : exec),
       get_cv e c = Some s ->
       exec_micro e a (MCvNotify c true) = MOk e' ->
       (exists s' : condvar_state,
          get_cv e' c = Some s' /\ cv_waiters s' = [] /\ cv_last s' = cv_last s) /\
       (forall (w : nat) (t : thread),
        In w (cv_waiters s) ->
        get_thread e w = Some t ->
        exists t' : thread,
          get_thread e' w = Some t' /\ woken t t' /\ (w <> a -> vle (caus_of e a) (caus_of e' w))) /\
       (forall j : nat, ~ In j (cv_waiters s) -> get_thread e' j = get_thread e j) /\
       (forall i : nat, i <> c -> nth_error (e_objects e') i = nth_error (e_objects e) i).
Proof. exact notify_all_wakes_all. Qed.
Print Assumptions C08_notify_all_wakes_all.

(* a waiter parked in wait stays parked and registered under every step that neither notifies a queue that pops it nor unparks it *)
Theorem C08_cv_wait_returns_only_after_notify :
  forall (b c : nat) (e : exec) (me : nat) (m : micro),
       SyncMono.track_ok e ->
       parked b e ->
       reg b c e ->
       me <> b ->
       ~ In b (unpark_targets e m) ->
       parked b (ExecFacts.res_exec (exec_micro e me m)) /\
       reg b c (ExecFacts.res_exec (exec_micro e me m)).
Proof. exact cv_wait_returns_only_after_notify. Qed.
Print Assumptions C08_cv_wait_returns_only_after_notify.

(* a notify that pops a waiter that has registered but not yet parked is not lost: its park returns at once *)
Theorem C08_cv_no_lost_wakeup :
  forall (e : exec) (a c : nat) (all : bool) (b : nat) (t : thread) (e1 : exec),
       In b (unpark_targets e (MCvNotify c all)) ->
       get_thread e b = Some t ->
       is_parked t = false ->
       is_terminated t = false ->
       exec_micro e a (MCvNotify c all) = MOk e1 ->
       forall e2 : exec,
       tsteps (not_own_park b) e1 e2 ->
       exists t2 : thread,
         get_thread e2 b = Some t2 /\
         t_token t2 = true /\
         exec_micro e2 b MPark = MOk (upd_thread e2 b (fun t0 : thread => th_set_token t0 false)).
Proof. exact cv_no_lost_wakeup. Qed.
Print Assumptions C08_cv_no_lost_wakeup.

(* the step that ends the wait runs on a free mutex, leaves the waiter as its owner and acquires the mutex's view *)
Theorem C08_cv_waiter_reacquires :
  forall (e : exec) (me m : nat) (e' : exec),
       exec_micro e me (MLockPost m LMReacquire) = MOk e' ->
       exists s : mutex_state,
         get_mutex e m = Some s /\
         mx_lock s = None /\
         (exists s' : mutex_state,
            get_mutex e' m = Some s' /\ mx_lock s' = Some me /\ mx_sync s' = mx_sync s) /\
         (me < length (e_threads e) -> vle (mx_sync s) (caus_of e' me)).
Proof. exact cv_waiter_reacquires. Qed.
Print Assumptions C08_cv_waiter_reacquires.

(* the notifier's prior writes happen-before the woken thread's continuation *)
Theorem C08_cv_wakeup_hb :
  forall (e : exec) (a c : nat) (all : bool) (w : nat) (e1 e2 : exec),
       In w (unpark_targets e (MCvNotify c all)) ->
       w <> a ->
       w < length (e_threads e) ->
       exec_micro e a (MCvNotify c all) = MOk e1 ->
       tsteps (fun (_ : exec) (_ : nat) (_ : micro) => True) e1 e2 ->
       vle (caus_of e a) (caus_of e2 w).
Proof. exact cv_wakeup_hb. Qed.
Print Assumptions C08_cv_wakeup_hb.

(* observed (computed): Condvar::wait parks through the thread's park token, so a stray Thread::unpark ends a wait nobody notified (a spurious wake-up std permits) and leaves a stale queue entry *)
Theorem C08_unpark_satisfies_condvar_wait :
  ref_finished (ref_outcomes false FUEL p_unpark_cv) = [] /\
       ref_can_deadlock (ref_outcomes false FUEL p_unpark_cv) = true /\
       fin_of p_unpark_cv = RunOk /\
       length (recs_of p_unpark_cv) = 1 /\ run_reports_deadlock (fin_of p_unpark_cv) = false.
Proof. exact unpark_satisfies_condvar_wait. Qed.
Print Assumptions C08_unpark_satisfies_condvar_wait.

